"""C18 -- adapter messages reach exactly the matching command; interrupt iff declared.
Generated CommandAdapter subclasses (text and bytes patterns, several decodings, interrupting or
not, single or streamed replies with empty markers) are driven through the real TCP handler
(TcpIo._generate_handle_function) with fake streams: every byte string of length <= 1 (<= 2 in the
thorough tier), messages derived from the patterns (exact, partial, over-long, padded, invalid
UTF-8) and chunk sequences.  What each command's decoding + pattern gives for a message is
computed with Python's own codecs / re, independently of tickit, and handed to Model/Command.v;
the observed handler / interrupt / write events are compared inside Coq.  HTTP endpoints: the
post-hoc interrupt wrapper of HttpIo is driven with fake requests."""
import asyncio
import itertools
import json
import random
import re

from common import Check, P, Zr, Nr, L, T, O, B, run_shards

PID = "C18"
HEADER = "From TV Require Import Base Model.Command."
REASONS = {121: "handler-interrupt-or-write-events-differ-from-model", 122: "exception-escaped-the-message-handler",
           123: "http-endpoint-interrupt-order-wrong", 124: "replies-of-concurrent-connections-mixed-up-or-lost"}

SPEC_POOL = [
    dict(regex=r"P=(\d+)", fmt="utf-8"), dict(regex=rb"P=(\d+)", fmt=None), dict(regex=r"Q\?", fmt="utf-8"),
    dict(regex=rb"Q\?", fmt=None), dict(regex=r"S (\d+) (\d+)", fmt="ascii"), dict(regex=rb"\x01(\d)", fmt=None),
    dict(regex=r"[A-C]", fmt="utf-8"), dict(regex=rb".", fmt=None), dict(regex=r"\d\d?", fmt="latin-1"),
    dict(regex=rb"[\x80-\xff]", fmt=None), dict(regex=r"é(\d)", fmt="utf-8"), dict(regex=r"", fmt="utf-8"),
    # alternation at the top level of the pattern (the whole message must be one of the alternatives)
    dict(regex=rb"on|off", fmt=None), dict(regex=r"up|down", fmt="utf-8"),
]


def indep_parse(sp, data):
    """what this command makes of the message -- without going through tickit"""
    if isinstance(sp["regex"], str):
        try:
            m = data.decode(sp["fmt"]).strip()
        except UnicodeDecodeError:
            return ("DecodeFails",)
    else:
        m = data
    mo = re.fullmatch(sp["regex"], m)
    if not mo:
        return ("NoMatch",)
    return ("Match", [int(g) for g in mo.groups()])


def make_adapter(specs, log, split=None):
    from tickit.adapters.specifications import RegexCommand
    from tickit.adapters.tcp import CommandAdapter
    from tickit.utils.byte_format import ByteFormat

    ns = {"_byte_format": ByteFormat(b"<%b>")}
    for i, sp in enumerate(specs):
        ngroups = re.compile(sp["regex"]).groups
        is_text = isinstance(sp["regex"], str)

        def mk(i=i, sp=sp, is_text=is_text):
            # TCP replies are bytes; reply 0 stands for the empty reply b"" (still written, in the adapter's byte format)
            enc = (lambda x: None if x is None else (b"" if x == 0 else f"r{x}".encode()))
            if sp["stream"] == "asyncgen":
                # the command itself is an async generator function, as RemoteControlledAdapter.yield_observed of the examples
                async def method(self, *args):
                    log.append(("handler", i, [int(a) for a in args]))
                    for r in sp["replies"]:
                        yield enc(r)
            elif sp["stream"]:
                async def method(self, *args):
                    log.append(("handler", i, [int(a) for a in args]))

                    async def gen():
                        for r in sp["replies"]:
                            yield enc(r)
                    return gen()
            else:
                async def method(self, *args):
                    log.append(("handler", i, [int(a) for a in args]))
                    return enc(sp["replies"][0])
            return method
        m = mk()
        m.__annotations__ = {f"a{k}": int for k in range(ngroups)}
        m.__name__ = sp["name"]
        ns[sp["name"]] = RegexCommand(sp["regex"], sp["interrupt"], sp["fmt"])(m)
    if split is None or not 0 < split < len(specs):
        return type("GenAdapter", (CommandAdapter,), ns)()
    # the commands are spread over a class and a subclass, and an instance of the parent class has already handled a
    # message when the adapter under test (an instance of the subclass) is created
    names = [sp["name"] for sp in specs]
    parent_cls = type("GenParent", (CommandAdapter,), {k: v for k, v in ns.items() if k not in names[split:]})
    child_cls = type("GenChild", (parent_cls,), {k: v for k, v in ns.items() if k in names[split:]})
    parent = parent_cls()
    asyncio.run(parent.handle(b"\x00warm-up\x00"))
    log.clear()
    return child_cls()


def gen_specs(rng):
    n = rng.randint(1, 5)
    specs = []
    for k, base in enumerate(rng.sample(SPEC_POOL, n)):
        sp = dict(base)
        sp["name"] = "cmd_" + "abcdefgh"[k]          # getmembers() order = alphabetical = list order
        sp["interrupt"] = rng.random() < 0.5
        sp["stream"] = rng.random() < 0.4
        if sp["stream"] and not sp["interrupt"] and rng.random() < 0.5:
            # written as an async generator function (its body, hence its effect, only runs when the replies are
            # iterated: tickit's own example uses this form for a non-interrupting command only, and so do we)
            sp["stream"] = "asyncgen"
        if sp["stream"]:
            sp["replies"] = [rng.choice([None, 10 * k + j, 0]) for j in range(rng.randint(0, 3))]
        else:
            sp["replies"] = [10 * k]
        specs.append(sp)
    return specs


def gen_messages(rng, specs, tier):
    msgs = [bytes([b]) for b in range(256)]   # (an empty read is end-of-stream, not a message)
    if tier == "thorough":
        msgs += [bytes([a, b]) for a in range(256) for b in range(0, 256, 3)]
    else:
        alpha = [0x00, 0x01, 0x20, 0x30, 0x39, 0x3d, 0x3f, 0x41, 0x50, 0x51, 0x7f, 0x80, 0xc3, 0xa9, 0xff]
        msgs += [bytes([a, b]) for a in alpha for b in alpha]
    derived = []
    samples = [b"P=7", b"P=12", b"Q?", b"S 1 2", b"\x015", b"A", b"B", b"7", b"42", "é3".encode(), b"\xe9",
               b"on", b"off", b"once", b"up", b"down3", b"upper", b"down"]
    for s in samples:
        derived += [s, s[:-1], s + b"x", b" " + s + b"\r\n", s + s, s.lower(), s[:1] + b"\xff" + s[1:], b"\xc3" + s, s + b"\x80",
                    s + b"\n", s + b"\r\n", s + b"\n\n", b"\n" + s]
    return msgs, [d for d in derived if d]


class FakeWriter:
    def __init__(self, log):
        self.log = log

    def write(self, data):
        self.log.append(("write", data))

    def is_closing(self):
        return False

    async def drain(self):
        return

    def get_extra_info(self, name):
        return ("peer", 1)


class FakeReader:
    def __init__(self, chunks):
        self.chunks = list(chunks)

    async def read(self, n):
        for _ in range(6):
            await asyncio.sleep(0)
        return self.chunks.pop(0) if self.chunks else b""


def run_connection(specs, chunks, on_connect=(), slow_interrupt=0, split=None):
    from tickit.adapters.io.tcp_io import TcpIo

    log = []
    adapter = make_adapter(specs, log, split)
    if on_connect:
        async def onc():
            for r in on_connect:
                yield None if r is None else f"r{r}".encode()
        adapter.on_connect = onc

    async def raise_interrupt():
        # a scheduler behind a real bus takes its time: the interrupt suspends before it is published
        for _ in range(slow_interrupt):
            await asyncio.sleep(0)
        log.append(("interrupt",))

    raised = False

    async def main():
        nonlocal raised
        handle = TcpIo("h", 1)._generate_handle_function(adapter.on_connect, adapter.handle_message, raise_interrupt,
                                                         adapter.byte_format)
        try:
            await handle(FakeReader(chunks), FakeWriter(log))
        except Exception as e:  # noqa
            raised = type(e).__name__
    asyncio.run(main())
    return log, raised


def run_two_connections(specs, chunks_a, chunks_b):
    """one TcpIo handler function serving two connections at once: A sends its first chunk, then B connects and
    sends its first chunk, then both go on; returns what was written to each connection"""
    from tickit.adapters.io.tcp_io import TcpIo

    log = []
    adapter = make_adapter(specs, log)
    writes = {"a": [], "b": []}

    class W(FakeWriter):
        def __init__(self, who):
            self.who = who

        def write(self, data):
            writes[self.who].append(data)

    async def raise_interrupt():
        log.append(("interrupt",))

    async def main():
        handle = TcpIo("h", 1)._generate_handle_function(adapter.on_connect, adapter.handle_message, raise_interrupt,
                                                         adapter.byte_format)
        a_first, b_first = asyncio.Event(), asyncio.Event()

        class R:
            def __init__(self, who, chunks):
                self.who, self.chunks, self.k = who, list(chunks), 0

            async def read(self, n):
                for _ in range(6):
                    await asyncio.sleep(0)
                self.k += 1
                if self.k == 2:
                    (a_first if self.who == "a" else b_first).set()
                    if self.who == "a":
                        await b_first.wait()          # A only goes on once B has been accepted and answered
                return self.chunks.pop(0) if self.chunks else b""

        ta = asyncio.create_task(handle(R("a", chunks_a), W("a")))
        await a_first.wait()
        tb = asyncio.create_task(handle(R("b", chunks_b), W("b")))
        await asyncio.wait([ta, tb], timeout=60)
    asyncio.run(main())
    return writes


def two_connections_part(ck, rng):
    """replies go to the connection the message came from, whatever other connections are open"""
    n_bad = 0
    for _ in range(12):
        specs = gen_specs(rng)
        msgs, derived = gen_messages(rng, specs, "quick")
        hits = [m for m in msgs + derived if any(indep_parse(sp, m)[0] == "Match" for sp in specs)]
        if len(hits) < 2:
            continue
        ca = [rng.choice(hits) for _ in range(rng.randint(2, 4))]
        cb = [rng.choice(hits + derived[:5]) for _ in range(rng.randint(1, 3))]
        got = run_two_connections(specs, ca, cb)
        exp_a = [e[1] for e in run_connection(specs, ca)[0] if e[0] == "write"]
        exp_b = [e[1] for e in run_connection(specs, cb)[0] if e[0] == "write"]
        ck.count("two-connections:" + json.dumps([[m.hex() for m in ca], [m.hex() for m in cb]]), True)
        if (got["a"] != exp_a or got["b"] != exp_b) and not n_bad:
            n_bad += 1
            ck.report(REASONS[124], f"two connections open at once: connection A received {got['a']} (alone it receives {exp_a}), "
                      f"connection B received {got['b']} (alone {exp_b})",
                      dict(kind="two-connections", specs=[dict(sp, regex=(sp["regex"] if isinstance(sp["regex"], str) else "bytes:" + sp["regex"].hex()))
                                                          for sp in specs],
                           chunks_a=[m.hex() for m in ca], chunks_b=[m.hex() for m in cb],
                           written_a=[w.hex() for w in got["a"]], written_b=[w.hex() for w in got["b"]]))
    ck.coverage["two_connection_runs"] = 12


def r_parse(p):
    return "DecodeFails" if p[0] == "DecodeFails" else ("NoMatch" if p[0] == "NoMatch" else f"(Match {L(Zr(a) for a in p[1])})")


def r_events(log):
    out = []
    for e in log:
        if e[0] == "handler":
            out.append(f"EvHandler {Nr(e[1])} {L(Zr(a) for a in e[2])}")
        elif e[0] == "interrupt":
            out.append("EvInterrupt")
        else:
            data = e[1]
            if data == b"<Request does not match any known command>":
                out.append("EvWriteUnknown")
            else:
                mo = re.fullmatch(rb"<r(\d+)>", data)
                out.append("EvWrite 0%Z" if data == b"<>" else (f"EvWrite {Zr(int(mo.group(1)))}" if mo else "EvWrite (-1)%Z"))
    return L(out)


def render(specs, on_connect, chunks, log, raised):
    cmds = L("{| cmd_interrupt := %s; cmd_replies := %s |}" % (B(sp["interrupt"]), L(O(r, Zr) for r in sp["replies"])) for sp in specs)
    msgs = L(L(r_parse(indep_parse(sp, c)) for sp in specs) for c in chunks)
    return T(cmds, L(O(r, Zr) for r in on_connect), msgs, r_events(log), B(bool(raised)))


# ---- the shipped example adapters
EXAMPLE_MESSAGES = {
    "RemoteControlledAdapter": [b"\x01", b"O", b"\x01abcd", b"O=3.5", b"O=7", b"\x02", b"U", b"\x02wxyz", b"U=2.25", "\U0001F95A".encode(),
                                b"H=4", b"H", b"O?1", b"O?3", b"O?", b"O=", b"U=x", b"\x01ab", b"\x03", b"O \r\n", b" U=9 ", b"\xff", b"o"],
    "ShutterAdapter": [b"P?", b"T?", b"T=0.5", b"T=1", b"T=", b"P", b"T?x", b"\xfe", b" P? "],
    "AmplifierAdapter": [b"A?", b"A=3", b"A=2.5", b"A=", b"A", b"a?", b"\x80", b"A?\r\n"],
    "IsolatedBoxTCPAdapter": [b"v?", b"v=5", b"v=1.5", b"v=", b"v", b"V?", b"\xc3", b"v?\n"],
    "SystemSimulationAdapter": [b"ids", b"id=snk", b"id=nope", b"wiring", b"interrupt=nope", b"id=", b"ids ", b"wirin", b"\xe2\x82", b"IDS"],
}


def example_adapters():
    import sys
    from common import REPO
    if str(REPO) not in sys.path:
        sys.path.insert(0, str(REPO))
    from tickit.utils.byte_format import ByteFormat
    import examples.devices.amplifier as amp
    import examples.devices.isolated_device as iso
    import examples.devices.remote_controlled as rc
    import examples.devices.shutter as sh
    def system_adapter():
        import examples.adapters.system_simulation_adapter as ssa
        from tickit.core.components.device_component import DeviceComponent
        from tickit.core.typedefs import ComponentID
        from tickit.devices.sink import SinkDevice
        ad = ssa.SystemSimulationAdapter()
        ad.setup_adapter({ComponentID("snk"): DeviceComponent(name=ComponentID("snk"), device=SinkDevice())}, {"snk": {}})
        return ad

    return {
        "SystemSimulationAdapter": system_adapter,
        "RemoteControlledAdapter": lambda: rc.RemoteControlledAdapter(rc.RemoteControlledDevice(), ByteFormat(b"%b\r\n")),
        "ShutterAdapter": lambda: sh.ShutterAdapter(sh.ShutterDevice(default_position=0.2, initial_position=0.2)),
        "AmplifierAdapter": lambda: amp.AmplifierAdapter(amp.AmplifierDevice()),
        "IsolatedBoxTCPAdapter": lambda: iso.IsolatedBoxTCPAdapter(iso.IsolatedBoxDevice()),
    }


def example_commands(adapter):
    """[(method name, regex, format, interrupt)] in the order tickit tries them (getmembers = by name)"""
    out = []
    for name in sorted(dir(adapter)):
        cmd = getattr(getattr(type(adapter), name, None), "__command__", None)
        if cmd is not None:
            rx = cmd.pattern.pattern          # (the decoding is not kept by RegexCommand: every text command of the examples declares utf-8)
            out.append((name, rx, "utf-8" if isinstance(rx, str) else None, cmd.interrupt))
    return out


def run_example(name, make, chunks):
    """drives one connection of a shipped example adapter through the real TCP handler (instrumented instance) and, by
    hand, a second instance with the same messages: returns (specs, per-chunk reference, observed log, raised)"""
    import inspect
    from typing import get_type_hints
    import slevel
    from tickit.adapters.io.tcp_io import TcpIo

    log = []
    driven, ref = make(), make()
    cmds = example_commands(driven)
    ns = {}
    for idx, (mname, _, _, _) in enumerate(cmds):
        fn = getattr(type(driven), mname)

        def mk(fn=fn, idx=idx, mname=mname):
            if inspect.isasyncgenfunction(fn):
                async def w(self, *a):
                    log.append(("handler", idx, [repr(x) for x in a]))
                    async for x in fn(self, *a):
                        yield x
            else:
                async def w(self, *a):
                    log.append(("handler", idx, [repr(x) for x in a]))
                    return await fn(self, *a)
            w.__command__, w.__name__ = fn.__command__, mname
            w.__annotations__ = dict(get_type_hints(fn))
            return w
        ns[mname] = mk()
    driven.__class__ = type("Instrumented" + name, (type(driven),), ns)
    fmt = driven.byte_format.format

    async def silent():
        if False:
            yield None
    driven.on_connect = silent       # the examples' on_connect streams never end; they are not the subject here
    reference = []

    async def by_hand(msg):
        """the first command (by name) whose decoding + full match accepts the message, called directly on the reference instance"""
        for idx, (mname, regex, cfmt, interrupt) in enumerate(cmds):
            sp = dict(regex=regex, fmt=cfmt)
            if isinstance(regex, str):
                try:
                    m = msg.decode(cfmt).strip()
                except UnicodeDecodeError:
                    continue
            else:
                m = msg
            mo = re.fullmatch(regex, m)
            if not mo:
                continue
            meth = getattr(ref, mname)
            hints = [h for k, h in get_type_hints(meth).items() if k != "return"]
            args = [h(g) for g, h in zip(mo.groups(), hints)]
            res = meth(*args)
            replies = []
            if inspect.isasyncgen(res):
                async for x in res:
                    replies.append(x)
            else:
                res = await res
                if hasattr(res, "__aiter__"):
                    async for x in res:
                        replies.append(x)
                else:
                    replies.append(res)
            return dict(idx=idx, args=[repr(a) for a in args], interrupt=interrupt, replies=[r for r in replies if r is not None])
        return None

    raised = False

    async def main(loop):
        nonlocal raised

        async def raise_interrupt():
            log.append(("interrupt",))
        for c in chunks:
            reference.append(await by_hand(c))
        handle = TcpIo("h", 1)._generate_handle_function(driven.on_connect, driven.handle_message, raise_interrupt, driven.byte_format)
        try:
            await handle(FakeReader(chunks), FakeWriter(log))
        except Exception as e:  # noqa
            raised = type(e).__name__ + ": " + str(e)[:120]
    slevel.vrun(main)
    return cmds, reference, log, raised, fmt


def examples_part(ck, tier, rng):
    """C18 on the shipped example adapters: per connection, the model's command table has one copy of the adapter's
    commands per chunk (replies depend on the device state reached), reply bytes and arguments are coded as integers"""
    cases, terms = [], []
    for name, make in example_adapters().items():
        msgs = EXAMPLE_MESSAGES[name]
        # a streamed reply that sleeps between its items (O?3) runs concurrently with the replies to later messages of the
        # connection; the model orders events per message, so such a message is only sent on a connection of its own
        calm = [m for m in msgs if m != b"O?3"]
        conns = [[m] for m in msgs] + [[rng.choice(calm) for _ in range(rng.randint(2, 5))] for _ in range({"quick": 6, "thorough": 60}[tier])]
        for chunks in conns:
            cmds, reference, log, raised, fmt = run_example(name, make, chunks)
            n = len(cmds)
            codes = {}

            def code(x):
                return codes.setdefault(x, len(codes) + 1)
            table, parses = [], []
            for j, refj in enumerate(reference):
                row = []
                for i in range(n):
                    if refj is not None and refj["idx"] == i:
                        table.append("{| cmd_interrupt := %s; cmd_replies := %s |}" % (B(refj["interrupt"]), L(O(code(fmt % r), Zr) for r in refj["replies"])))
                    else:
                        table.append("{| cmd_interrupt := false; cmd_replies := [] |}")
                for j2 in range(len(reference)):
                    for i in range(n):
                        hit = (j2 == j and refj is not None and refj["idx"] == i)
                        row.append("(Match %s)" % L(Zr(code("arg:" + a)) for a in refj["args"]) if hit else "NoMatch")
                parses.append(L(row))
            # observed events in the same coding; the handler index of chunk j is j*n + i
            out, j = [], -1
            writes_left = []
            for e in log:
                if e[0] == "handler":
                    j = next((k for k in range(j + 1, len(reference)) if reference[k] is not None), j)
                    out.append(f"EvHandler {Nr(j * n + e[1])} {L(Zr(code('arg:' + a)) for a in e[2])}")
                elif e[0] == "interrupt":
                    out.append("EvInterrupt")
                else:
                    data = e[1]
                    if data == fmt % b"Request does not match any known command":
                        out.append("EvWriteUnknown")
                    else:
                        out.append(f"EvWrite {Zr(code(data))}")
            cases.append(dict(adapter=name, chunks=chunks, log=log, raised=raised, reference=reference))
            terms.append(T(L(table), "[]", L(parses), L(out), B(bool(raised))))
    bad = run_shards(PID + "_examples", HEADER, "cmd_case", "check_cmd", terms, shard_size=100)
    ck.coverage.update(example_adapter_connections=len(cases), example_adapter_disagreements=len(bad))
    for c in cases:
        ck.count("example:" + c["adapter"] + ":" + ",".join(m.hex() for m in c["chunks"]), any(r is not None for r in c["reference"]))
    done = set()
    for i in sorted(bad):
        for codev in bad[i]:
            if codev in done:
                continue
            done.add(codev)
            c = cases[i]
            ck.report(REASONS[codev] + "-shipped-example-adapter",
                      f"{c['adapter']} (examples/devices): {REASONS[codev]} on chunks {[m.hex() for m in c['chunks']]}" +
                      (f" -- {c['raised']}" if c["raised"] else ""),
                      dict(kind="example", adapter=c["adapter"], chunks=[m.hex() for m in c["chunks"]], raised=c["raised"],
                           events=[list(map(str, e)) for e in c["log"]], reference=c["reference"], codes=bad[i]))


def http_part(ck):
    """_with_posthoc_task: the endpoint's effect, then the interrupt iff the endpoint is interrupting"""
    from tickit.adapters.http import HttpAdapter
    from tickit.adapters.io.http_io import HttpIo
    from tickit.adapters.specifications import HttpEndpoint

    log = []

    class A(HttpAdapter):
        @HttpEndpoint.put("/a", interrupt=True)
        async def a(self, request):
            log.append("a")
            return "ra"

        @HttpEndpoint.get("/b")
        async def b(self, request):
            log.append("b")
            return "rb"

        @HttpEndpoint.post("/c", interrupt=True)
        async def c(self, request):
            log.append("c")
            return "rc"

    async def intr():
        log.append("interrupt")

    ok = True

    async def main():
        nonlocal ok
        routes = list(HttpIo().create_route_definitions(A().get_endpoints(), intr))
        for rd in routes:
            log.clear()
            resp = await rd.handler(object())
            name = rd.path[1:]
            exp = [name, "interrupt"] if name in ("a", "c") else [name]
            ck.count("http:" + rd.method + rd.path, True)
            if log != exp or resp != "r" + name:
                ok = False
                ck.report(REASONS[123], f"HTTP endpoint {rd.method} {rd.path}: events {log}, expected {exp}",
                          dict(kind="http", path=rd.path, events=list(log)))
    asyncio.run(main())
    return ok


def main(tier, seed):
    ck = Check(PID, tier, seed, "Props.C18", ["Model/Command.v", "Proofs/CommandP.v", "Props/C18.v"])
    ck.build_and_audit()
    rng = random.Random(seed)
    cases, terms = [], []
    nsets = {"quick": 12, "thorough": 80}[tier]
    for s in range(nsets):
        specs = gen_specs(rng)
        msgs, derived = gen_messages(rng, specs, tier)
        # one connection per message for the exhaustive part (so an exception does not hide later messages)
        pool = msgs if s < 3 else rng.sample(msgs, 60)
        for m in pool + derived:
            log, raised = run_connection(specs, [m])
            cases.append(dict(specs=specs, chunks=[m], on_connect=[], log=log, raised=raised))
        # chunk sequences on one connection, with on_connect replies
        for _ in range(20):
            chunks = [rng.choice(derived + msgs[:300]) for _ in range(rng.randint(2, 8))]
            onc = [rng.choice([None, 90, 91]) for _ in range(rng.randint(0, 2))]
            slow = rng.choice([0, 0, 15])
            split = rng.choice([None, None] + list(range(1, len(specs))))
            log, raised = run_connection(specs, chunks, onc, slow_interrupt=slow, split=split)
            cases.append(dict(specs=specs, chunks=chunks, on_connect=onc, log=log, raised=raised, slow=slow, split=split))
    for c in cases:
        terms.append(render(c["specs"], c["on_connect"], c["chunks"], c["log"], c["raised"]))
    bad = run_shards(PID, HEADER, "cmd_case", "check_cmd", terms, shard_size=700)
    kinds = {"Match": 0, "NoMatch": 0, "DecodeFails": 0}
    for c in cases:
        ps = [indep_parse(sp, m)[0] for m in c["chunks"] for sp in c["specs"]]
        for k in ps:
            kinds[k] += 1
        ck.count(json.dumps([[str(sp["regex"]), sp["fmt"], sp["interrupt"], sp["replies"]] for sp in c["specs"]] + [m.hex() for m in c["chunks"]]),
                 "Match" in ps or "DecodeFails" in ps)
    http_part(ck)
    examples_part(ck, tier, rng)
    two_connections_part(ck, rng)
    ck.rule = ("generated command sets (1-5 commands from a pool of text/bytes patterns with utf-8 / ascii / latin-1 decoding, "
               "interrupting or not, single or streamed replies with empty markers) driven through the real TCP handler: every byte "
               "string of length <= 1 and a grid of length-2 strings per set, pattern-derived messages (exact, truncated, over-long, "
               "padded, doubled, invalid UTF-8 injected) and chunk sequences with on_connect replies, the commands optionally spread "
               "over an adapter class and a subclass of which the parent has already been used; non-trivial = some command "
               "matches or fails to decode the message")
    ck.coverage.update(command_sets=nsets, messages=sum(len(c["chunks"]) for c in cases), parse_outcomes=kinds,
                       disagreements=len(bad), exhaustive=True)
    c = cases[-1]
    ck.sample(dict(commands=[[str(sp["regex"]), sp["fmt"], sp["interrupt"], sp["replies"]] for sp in c["specs"]],
                   chunks=[m.hex() for m in c["chunks"]], events=[list(map(str, e)) for e in c["log"]]))
    done = set()
    for i in sorted(bad):
        for code in bad[i]:
            if code in done:
                continue
            done.add(code)
            c = cases[i]
            ck.report(REASONS[code], f"command adapter: {REASONS[code]} on chunks {[m.hex() for m in c['chunks']]}",
                      dict(kind="tcp", specs=[dict(sp, regex=(sp["regex"] if isinstance(sp["regex"], str) else "bytes:" + sp["regex"].hex()))
                                              for sp in c["specs"]],
                           chunks=[m.hex() for m in c["chunks"]], on_connect=c["on_connect"],
                           events=[list(map(str, e)) for e in c["log"]], raised=c["raised"], slow=c.get("slow", 0), split=c.get("split"),
                           codes=bad[i]))
    return ck.finish()


def replay(rp):
    if rp.get("kind") == "example":
        chunks = [bytes.fromhex(h) for h in rp["chunks"]]
        cmds, reference, log, raised, fmt = run_example(rp["adapter"], example_adapters()[rp["adapter"]], chunks)
        print("adapter:", rp["adapter"], "chunks:", chunks)
        print("by hand:", reference)
        print("through the TCP handler:", log, "raised:", raised)
        want = [fmt % r for ref in reference for r in (ref["replies"] if ref else [b"Request does not match any known command"])]
        got = [e[1] for e in log if e[0] == "write"]
        return 1 if raised or want != got else 0
    if rp.get("kind") == "two-connections":
        specs = [dict(sp, regex=(bytes.fromhex(sp["regex"][6:]) if sp["regex"].startswith("bytes:") else sp["regex"])) for sp in rp["specs"]]
        ca, cb = [bytes.fromhex(h) for h in rp["chunks_a"]], [bytes.fromhex(h) for h in rp["chunks_b"]]
        got = run_two_connections(specs, ca, cb)
        exp_a = [e[1] for e in run_connection(specs, ca)[0] if e[0] == "write"]
        exp_b = [e[1] for e in run_connection(specs, cb)[0] if e[0] == "write"]
        print("connection A:", got["a"], "alone:", exp_a)
        print("connection B:", got["b"], "alone:", exp_b)
        return 1 if got["a"] != exp_a or got["b"] != exp_b else 0
    if rp.get("kind") != "tcp":
        print(rp)
        return 1
    specs = [dict(sp, regex=(bytes.fromhex(sp["regex"][6:]) if sp["regex"].startswith("bytes:") else sp["regex"])) for sp in rp["specs"]]
    chunks = [bytes.fromhex(h) for h in rp["chunks"]]
    log, raised = run_connection(specs, chunks, rp["on_connect"], slow_interrupt=rp.get("slow", 0), split=rp.get("split"))
    bad = run_shards("replay", HEADER, "cmd_case", "check_cmd", [render(specs, rp["on_connect"], chunks, log, raised)])
    print("events:", log, "raised:", raised, "codes:", bad.get(0, []))
    return 1 if bad else 0
