From TV Require Import Base.
Example C06_placeholder : True. Proof. exact I. Qed.
