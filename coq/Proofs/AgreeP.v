(* What a nested tick depends on: two runs of the same subtree from states that agree on the
   subtree's own part give the same results and again agreeing states (used by C10 for bases that
   contain system simulations). *)
From TV Require Import Base Model.Wiring Model.Ticker Model.Component Model.Sim
  Proofs.WiringP Proofs.SimP Proofs.NonInterfP Proofs.FrameP.
Open Scope Z_scope.

Definition agree (D : list comp) (L : list positive) (s s' : sstate) : Prop :=
  (forall c, In c D -> lookup c (s_dc s') = lookup c (s_dc s) /\ lookup c (s_n s') = lookup c (s_n s)) /\
  (forall l, In l L -> wake_of s' l = wake_of s l /\ int_of s' l = int_of s l /\ memb l (s_ticked s') = memb l (s_ticked s)).

Lemma agree_mono D D' L L' s s' :
  (forall c, In c D' -> In c D) -> (forall l, In l L' -> In l L) -> agree D L s s' -> agree D' L' s s'.
Proof. intros HD HL [A B]. split; [intros c Hc; apply A; apply HD; exact Hc | intros l Hl; apply B; apply HL; exact Hl]. Qed.

(* agreement inside a sub-footprint after both sides ran there, frames outside it *)
Lemma agree_combine D L D' L' s s' s2 s2' ob ob' :
  agree D L s s' -> agree D' L' s2 s2' -> framed D' L' s s2 ob -> framed D' L' s' s2' ob' ->
  (forall c, {In c D'} + {~ In c D'}) -> (forall l, {In l L'} + {~ In l L'}) ->
  agree D L s2 s2'.
Proof.
  intros [A B] [A2 B2] [F1 [G1 _]] [F1' [G1' _]] decD decL. split.
  - intros c Hc. destruct (decD c) as [Hi|Hn]; [apply A2; exact Hi|].
    destruct (F1 c Hn) as [X Y]. destruct (F1' c Hn) as [X' Y']. destruct (A c Hc) as [P Q]. split; congruence.
  - intros l Hl. destruct (decL l) as [Hi|Hn]; [apply B2; exact Hi|].
    destruct (G1 l Hn) as [X [Y Z]]. destruct (G1' l Hn) as [X' [Y' Z']]. destruct (B l Hl) as [P [Q R]]. repeat split; congruence.
Qed.

Lemma flat_map_ext_in' {A B} (f g : A -> list B) l : (forall a, In a l -> f a = g a) -> flat_map f l = flat_map g l.
Proof.
  induction l as [|x r IH]; intros H; [reflexivity|]. cbn [flat_map]. rewrite (H x (or_introl eq_refl)), IH; [reflexivity|].
  intros a Ha. apply H. right. exact Ha.
Qed.

Definition trel (D : list comp) (L : list positive) (a a' : tacc) : Prop :=
  ta_in a' = ta_in a /\ ta_touched a' = ta_touched a /\ ta_out a' = ta_out a /\ ta_obs a' = ta_obs a /\
  agree D L (ta_s a) (ta_s a').

Definition inner_agrees (D : list comp) (L : list positive)
  (inner inner' : positive -> Z -> values -> sstate -> sstate * values * option Z * list obs) (lv' : positive) : Prop :=
  forall t chg s s', agree D L s s' ->
    let '(s2, o, ca, ob) := inner lv' t chg s in
    let '(s2', o', ca', ob') := inner' lv' t chg s' in
    o' = o /\ ca' = ca /\ ob' = ob /\ agree D L s2 s2'.

Lemma agree_set_wake D L s s' lv w : In lv L -> agree D L s s' -> agree D L (set_wake s lv w) (set_wake s' lv w).
Proof.
  intros Hlv [A B]. split; [exact A|]. intros l Hl. destruct (B l Hl) as [X [Y Z]]. split; [|split; [exact Y | exact Z]].
  destruct (Pos.eq_dec l lv) as [E|Hne]; [subst l; rewrite !wake_of_set_wake; reflexivity|].
  rewrite !wake_of_set_wake_other by exact Hne. exact X.
Qed.

Lemma tick_step_agree devf D L inner inner' lv conns time roots ext a a' c k :
  In lv L ->
  (c <> ext_id -> c <> exp_id -> k = KDev -> In c D) ->
  (forall lv', k = KSys lv' -> inner_agrees D L inner inner' lv') ->
  trel D L a a' ->
  trel D L (tick_step devf inner lv conns time roots ext a (c, k)) (tick_step devf inner' lv conns time roots ext a' (c, k)).
Proof.
  intros Hlv Hdev Hsys [Ei [Et [Eo [Eb Hag]]]]. unfold tick_step. cbn [fst snd]. rewrite Ei, Et, Eo, Eb.
  assert (Hsame : trel D L a a') by (split; [exact Ei|]; split; [exact Et|]; split; [exact Eo|]; split; [exact Eb | exact Hag]).
  destruct (in_extent conns roots (ta_touched a) c); [|exact Hsame].
  destruct (nonempty (get_d c (ta_in a)) || memb c roots).
  2: { split; [reflexivity|]; split; [reflexivity|]; split; [reflexivity|]; split; [reflexivity | exact Hag]. }
  destruct (Pos.eqb_spec c ext_id) as [|He]; [split; [reflexivity|]; split; [reflexivity|]; split; [reflexivity|]; split; [reflexivity | exact Hag]|].
  destruct (Pos.eqb_spec c exp_id) as [|Hx]; [split; [reflexivity|]; split; [reflexivity|]; split; [reflexivity|]; split; [reflexivity | exact Hag]|].
  destruct k as [|lv'].
  - specialize (Hdev He Hx eq_refl). destruct Hag as [A B]. destruct (A c Hdev) as [Edc En].
    unfold dev_update. rewrite Edc, En.
    match goal with |- context [devf c ?n time ?i] => destruct (devf c n time i) as [outs ca] end.
    match goal with |- context [(c, time, ?i)] => set (inputs := i) end.
    set (n := match lookup c (s_n (ta_s a)) with Some x => x | None => 0 end + 1).
    assert (Hs1 : agree D L
              {| s_dc := upd c {| d_inputs := inputs; d_last := outs |} (s_dc (ta_s a)); s_n := upd c n (s_n (ta_s a));
                 s_wake := s_wake (ta_s a); s_int := s_int (ta_s a); s_ticked := s_ticked (ta_s a); s_log := s_log (ta_s a) |}
              {| s_dc := upd c {| d_inputs := inputs; d_last := outs |} (s_dc (ta_s a')); s_n := upd c n (s_n (ta_s a'));
                 s_wake := s_wake (ta_s a'); s_int := s_int (ta_s a'); s_ticked := s_ticked (ta_s a'); s_log := s_log (ta_s a') |}).
    { split.
      - intros c0 Hc0. cbn [s_dc s_n]. rewrite !lookup_upd. destruct (Pos.eqb c0 c); [split; reflexivity | apply A; exact Hc0].
      - intros l Hl. apply (B l Hl). }
    destruct ca as [w|]; cbn [ta_s]; (split; [reflexivity|]); (split; [reflexivity|]); (split; [reflexivity|]); (split; [reflexivity|]).
    + assert (Ew : wake_of {| s_dc := upd c {| d_inputs := inputs; d_last := outs |} (s_dc (ta_s a')); s_n := upd c n (s_n (ta_s a'));
                               s_wake := s_wake (ta_s a'); s_int := s_int (ta_s a'); s_ticked := s_ticked (ta_s a'); s_log := s_log (ta_s a') |} lv
                   = wake_of {| s_dc := upd c {| d_inputs := inputs; d_last := outs |} (s_dc (ta_s a)); s_n := upd c n (s_n (ta_s a));
                               s_wake := s_wake (ta_s a); s_int := s_int (ta_s a); s_ticked := s_ticked (ta_s a); s_log := s_log (ta_s a) |} lv)
        by (apply (proj2 Hs1 lv Hlv)).
      rewrite Ew. apply agree_set_wake; assumption.
    + exact Hs1.
  - specialize (Hsys lv' eq_refl time (get_d c (ta_in a)) (ta_s a) (ta_s a') Hag).
    destruct (inner lv' time (get_d c (ta_in a)) (ta_s a)) as [[[s1 ch] ca] ob1].
    destruct (inner' lv' time (get_d c (ta_in a)) (ta_s a')) as [[[s1' ch'] ca'] ob1'].
    destruct Hsys as [E1 [E2 [E3 Hag1]]]. subst ch' ca' ob1'.
    destruct ca as [w|]; cbn [ta_s]; (split; [reflexivity|]); (split; [reflexivity|]); (split; [reflexivity|]); (split; [reflexivity|]).
    + rewrite (proj1 (proj2 Hag1 lv Hlv)). apply agree_set_wake; assumption.
    + exact Hag1.
Qed.

Section Agree.
Variables cfg cfg' : config.
Variable devf : devfun.

(* the two configurations coincide on the levels of the subtree *)
Fixpoint same_below (f : nat) (lv : positive) : Prop :=
  match f with
  | O => True
  | S f' => level_of cfg' lv = level_of cfg lv /\
            forall c lv', In (c, KSys lv') (l_order (level_of cfg lv)) -> same_below f' lv'
  end.

Lemma below_eq : forall f lv, same_below f lv ->
  levels_below cfg' f lv = levels_below cfg f lv /\ devices_below cfg' f lv = devices_below cfg f lv.
Proof.
  induction f as [|f IH]; intros lv H; [split; reflexivity|]. destruct H as [E Hs]. cbn [levels_below devices_below]. rewrite E.
  split; [f_equal|]; apply flat_map_ext_in'; intros [c k] Hi; cbn [snd fst]; destruct k as [|lv']; try reflexivity;
    apply (IH lv' (Hs c lv' Hi)).
Qed.

Lemma fold_agree D L inner inner' lv conns time roots ext : forall l a a',
  In lv L ->
  (forall c k, In (c, k) l -> c <> ext_id -> c <> exp_id -> k = KDev -> In c D) ->
  (forall c lv', In (c, KSys lv') l -> inner_agrees D L inner inner' lv') ->
  trel D L a a' ->
  trel D L (fold_left (tick_step devf inner lv conns time roots ext) l a)
           (fold_left (tick_step devf inner' lv conns time roots ext) l a').
Proof.
  induction l as [|[c k] r IH]; intros a a' Hlv Hdev Hsys Hrel; [exact Hrel|]. cbn [fold_left].
  apply IH; [exact Hlv | intros c0 k0 Hi; apply Hdev; right; exact Hi | intros c0 lv0 Hi; apply (Hsys c0 lv0); right; exact Hi|].
  apply tick_step_agree; [exact Hlv | | | exact Hrel].
  - intros He Hx Ek. apply (Hdev c k); [left; reflexivity | assumption..].
  - intros lv' Ek. subst k. apply (Hsys c lv'). left. reflexivity.
Qed.

Lemma agree_prologue D L s s' lv w roots time : In lv L -> agree D L s s' ->
  agree D L (log_tick (mark_ticked (set_int (set_wake s lv w) lv []) lv) lv time roots)
            (log_tick (mark_ticked (set_int (set_wake s' lv w) lv []) lv) lv time roots).
Proof.
  intros Hlv [A B]. split; [exact A|]. intros l Hl. destruct (B l Hl) as [X [Y Z]].
  destruct (Pos.eq_dec l lv) as [E|Hne].
  - subst l. split; [|split].
    + change (wake_of (log_tick (mark_ticked (set_int (set_wake ?x lv w) lv []) lv) lv time roots) lv) with (wake_of (set_wake x lv w) lv).
      rewrite !wake_of_set_wake. reflexivity.
    + unfold int_of, log_tick, mark_ticked, set_int, set_wake. cbn [s_int]. rewrite !get_d_upd_same. reflexivity.
    + unfold log_tick, mark_ticked, set_int, set_wake. cbn [s_ticked]. rewrite Z.
      destruct (memb lv (s_ticked s)) eqn:Em; [rewrite Z, Em; reflexivity|]. cbn [memb existsb]. rewrite Pos.eqb_refl. reflexivity.
  - split; [|split].
    + change (wake_of (log_tick (mark_ticked (set_int (set_wake ?x lv w) lv []) lv) lv time roots) l) with (wake_of (set_wake x lv w) l).
      rewrite !wake_of_set_wake_other by exact Hne. exact X.
    + unfold int_of, log_tick, mark_ticked, set_int, set_wake. cbn [s_int]. rewrite !get_d_upd_other by exact Hne. exact Y.
    + unfold log_tick, mark_ticked, set_int, set_wake. cbn [s_ticked].
      destruct (B lv Hlv) as [_ [_ Zlv]]. rewrite Zlv.
      destruct (memb lv (s_ticked s)); [exact Z|]. cbn [memb existsb]. destruct (Pos.eqb_spec l lv); [contradiction|]. exact Z.
Qed.

(* a nested tick depends only on its own subtree's part of the state (and of the configuration) *)
Theorem on_tick_level_agree : forall f lv, same_below f lv -> forall time chg s s',
  agree (devices_below cfg f lv) (levels_below cfg f lv) s s' ->
  let '(s2, o, ca, ob) := on_tick_level cfg devf f lv time chg s in
  let '(s2', o', ca', ob') := on_tick_level cfg' devf f lv time chg s' in
  o' = o /\ ca' = ca /\ ob' = ob /\ agree (devices_below cfg f lv) (levels_below cfg f lv) s2 s2'.
Proof.
  induction f as [|f IH]; intros lv Hsb time chg s s' Hag; [cbn; auto|].
  destruct Hsb as [Elv Hsub].
  set (D := devices_below cfg (S f) lv). set (L := levels_below cfg (S f) lv).
  assert (Hlv : In lv L) by (left; reflexivity).
  destruct (proj2 Hag lv Hlv) as [Ew [Ei Et]].
  cbn [on_tick_level]. rewrite Elv, Ew, Ei, Et.
  set (roots := int_of s lv ++ _).
  set (wrest := filter _ (wake_of s lv)).
  pose proof (agree_prologue D L s s' lv wrest roots time Hlv Hag) as H1.
  unfold tick_with. rewrite Elv.
  set (a0 := {| ta_s := log_tick (mark_ticked (set_int (set_wake s lv wrest) lv []) lv) lv time roots; ta_in := []; ta_touched := []; ta_out := []; ta_obs := [] |}).
  set (a0' := {| ta_s := log_tick (mark_ticked (set_int (set_wake s' lv wrest) lv []) lv) lv time roots; ta_in := []; ta_touched := []; ta_out := []; ta_obs := [] |}).
  assert (Hrel0 : trel D L a0 a0') by (split; [reflexivity|]; split; [reflexivity|]; split; [reflexivity|]; split; [reflexivity | exact H1]).
  pose proof (fold_agree D L (on_tick_level cfg devf f) (on_tick_level cfg' devf f) lv (l_conns (level_of cfg lv)) time roots chg
                (all_of (level_of cfg lv)) a0 a0' Hlv) as HF.
  destruct HF as [E1 [E2 [E3 [E4 HagF]]]]; [| |exact Hrel0|].
  - intros c k Hi He Hx Ek. subst k. unfold all_of in Hi. destruct Hi as [E|Hi]; [inversion E; subst; contradiction|].
    apply in_app_iff in Hi. destruct Hi as [Hi|[E|[]]]; [apply in_devices_below_dev; exact Hi | inversion E; subst; contradiction].
  - intros c lv' Hi. unfold all_of in Hi. destruct Hi as [E|Hi]; [discriminate|].
    apply in_app_iff in Hi. destruct Hi as [Hi|[E|[]]]; [|discriminate].
    intros t chg0 s0 s0' Hag0.
    assert (HsubD : forall x, In x (devices_below cfg f lv') -> In x D) by (intros x Hx; eapply devices_below_sub; eassumption).
    assert (HsubL : forall x, In x (levels_below cfg f lv') -> In x L) by (intros x Hx; eapply levels_below_sub; eassumption).
    pose proof (IH lv' (Hsub c lv' Hi) t chg0 s0 s0' (agree_mono D _ L _ s0 s0' HsubD HsubL Hag0)) as Hih.
    pose proof (on_tick_level_framed cfg devf f lv' t chg0 s0) as Hf1.
    pose proof (on_tick_level_framed cfg' devf f lv' t chg0 s0') as Hf2.
    destruct (below_eq f lv' (Hsub c lv' Hi)) as [EL ED]. rewrite EL, ED in Hf2.
    destruct (on_tick_level cfg devf f lv' t chg0 s0) as [[[s2 o] ca] ob].
    destruct (on_tick_level cfg' devf f lv' t chg0 s0') as [[[s2' o'] ca'] ob'].
    destruct Hih as [Eo [Eca [Eob Hag2]]]. split; [exact Eo|]. split; [exact Eca|]. split; [exact Eob|].
    apply (agree_combine D L _ _ s0 s0' s2 s2' ob ob' Hag0 Hag2 Hf1 Hf2);
      [intros x; apply (In_dec Pos.eq_dec) | intros x; apply (In_dec Pos.eq_dec)].
  - rewrite E3, E4. destruct (proj2 HagF lv Hlv) as [Ew2 _]. rewrite Ew2. auto.
Qed.
End Agree.
