(* Marks the generated pairs whose nested configuration lies in the scope of the whole-run inlining
   theorems of Props/C09.v: [in_inline_scope_general] -- some top-level system simulation can be
   replaced by its contents, the other components being devices or system simulations of any depth
   ([shape_at], decided for the fuel the model runs with); [in_flatten_all_scope] -- the whole nesting,
   of any depth, is flattened by inlining one top-level system simulation after the other
   ([scope_all]).  One check: inside that scope the result of [inline_all] IS the Coq flattening the
   flat run was generated from (74).  Kept apart from Oracle/SimOracle.v so that the other oracles do
   not depend on the proof files. *)
From TV Require Import Base Model.Wiring Model.Ticker Model.Component Model.Sim Model.Inline Oracle.SimCheck Oracle.SimOracle
  Proofs.InlineScopeP Proofs.InlineAllP Proofs.NDetScopeP.
Open Scope Z_scope.

Definition in_inline_scope_general (p : pair_case) : list Z :=
  let cfg := sc_cfg (fst p) in
  if existsb (fun ck : comp * ckind => match shape_at cfg 8 (fst ck) with Some _ => true | None => false end)
             (l_order (level_of cfg 1%positive))
  then [1] else [].

Definition has_system (cfg : config) : bool :=
  match first_sys (l_order (level_of cfg 1%positive)) with Some _ => true | None => false end.

(* nestings (at least one system simulation) which [inline_all] provably flattens *)
Definition in_flatten_all_scope (p : pair_case) : list Z :=
  let cfg := sc_cfg (fst p) in
  if has_system cfg && scope_all 12 8 [] cfg then [1] else [].

(* ... of depth two or more *)
Definition deeper_than_one (cfg : config) : bool :=
  existsb (fun ck : comp * ckind =>
             match snd ck with
             | KDev => false
             | KSys lv => negb (forallb is_dev (l_order (level_of cfg lv)))
             end) (l_order (level_of cfg 1%positive)).
Definition in_flatten_all_scope_deep (p : pair_case) : list Z :=
  let cfg := sc_cfg (fst p) in
  if deeper_than_one cfg && scope_all 12 8 [] cfg then [1] else [].

(* ... with the interrupts of the case (all of top-level components) kept outside every inlined system *)
Definition in_flatten_all_scope_stim (p : pair_case) : list Z :=
  let c := fst p in
  let cfg := sc_cfg c in
  if has_system cfg && nonempty (sc_stim c)
     && forallb (fun st : stimulus => match snd st with [] => true | _ => false end) (sc_stim c)
     && scope_all 12 8 (map (fun st : stimulus => snd (fst (fst st))) (sc_stim c)) cfg
  then [1] else [].

(* 74: in the scope of the any-depth theorem the iterated inlining is not the flattening *)
Definition check_inline_all_is_flatten (p : pair_case) : list Z :=
  let cfg := sc_cfg (fst p) in
  if scope_all 12 8 [] cfg then
    let f := inline_all 12 cfg in
    if conns_set_eqb (flat_conns cfg) (l_conns (level_of f 1%positive))
       && list_eqb Pos.eqb (flat_order 40 cfg 1%positive) (map fst (l_order (level_of f 1%positive)))
    then [] else [74]
  else [].

(* not checks: the cases on which the nested schedule-explicit model was compared with Model/Sim.v (code 24 of
   Oracle/SimOracle.v), and those of them that lie in the scope of the nested schedule-independence theorem
   ([subtree_okb], for the fuel the models run with) *)
Definition nnsim_scope (g : sim_case * list sim_case) : list Z :=
  let c := fst g in
  if nnsim_applies c then (if subtree_okb (sc_cfg c) 9 1%positive then [1; 2] else [1]) else [].
