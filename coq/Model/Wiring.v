(* Model of src/tickit/core/management/event_router.py: the two nested-dict wiring
   representations, their conversions, and the EventRouter utilities.
   Definitions only. Dicts are insertion-ordered association lists (Base.v), sets are
   duplicate-free lists; comparisons with the implementation are on sorted sets. *)
From TV Require Import Base.

Definition comp := positive.
Definition port := positive.
Definition cport := (comp * port)%type.
(* a connection: output component, output port, input component, input port *)
Definition conn := (comp * port * comp * port)%type.

Definition iwiring := list (comp * list (port * cport)).       (* InverseWiring *)
Definition wiring := list (comp * list (port * list cport)).   (* Wiring *)

Definition cport_eqb (a b : cport) : bool := Pos.eqb (fst a) (fst b) && Pos.eqb (snd a) (snd b).
Definition conn_eqb (a b : conn) : bool :=
  let '(a1, a2, a3, a4) := a in let '(b1, b2, b3, b4) := b in
  Pos.eqb a1 b1 && Pos.eqb a2 b2 && Pos.eqb a3 b3 && Pos.eqb a4 b4.
Definition mem_cport (t : cport) (l : list cport) : bool := existsb (cport_eqb t) l.

Definition get_d {A} (k : positive) (l : list (positive * list A)) : list A :=
  match lookup k l with Some x => x | None => [] end.

(* defaultdict access `d[k]` used for its side effect of creating the entry *)
Definition touch {A} (k : positive) (l : list (positive * list A)) : list (positive * list A) :=
  match lookup k l with Some _ => l | None => l ++ [(k, [])] end.

(* wiring[oc][op].add(t) *)
Definition add_target (w : wiring) (oc : comp) (op : port) (t : cport) : wiring :=
  let outs := get_d oc w in
  let tg := get_d op outs in
  upd oc (upd op (if mem_cport t tg then tg else tg ++ [t]) outs) w.

(* Wiring.from_inverse_wiring *)
Definition from_inverse (iw : iwiring) : wiring :=
  fold_left (fun w (e : comp * list (port * cport)) =>
               fold_left (fun w (i : port * cport) =>
                            add_target w (fst (snd i)) (snd (snd i)) (fst e, fst i))
                         (snd e) (touch (fst e) w))
            iw [].

(* inverse_wiring[ic][ip] = src *)
Definition set_source (iw : iwiring) (ic : comp) (ip : port) (src : cport) : iwiring :=
  upd ic (upd ip src (get_d ic iw)) iw.

(* InverseWiring.from_wiring *)
Definition from_wiring (w : wiring) : iwiring :=
  fold_left (fun iw (e : comp * list (port * list cport)) =>
               fold_left (fun iw (o : port * list cport) =>
                            fold_left (fun iw (t : cport) => set_source iw (fst t) (snd t) (fst e, fst o))
                                      (snd o) iw)
                         (snd e) (touch (fst e) iw))
            w [].

(* the connection sets, by membership in the lists ... *)
Definition conns_iw (iw : iwiring) : list conn :=
  flat_map (fun e : comp * list (port * cport) =>
              map (fun i : port * cport => (fst (snd i), snd (snd i), fst e, fst i)) (snd e)) iw.
Definition conns_w (w : wiring) : list conn :=
  flat_map (fun e : comp * list (port * list cport) =>
              flat_map (fun o : port * list cport =>
                          map (fun t : cport => (fst e, fst o, fst t, snd t)) (snd o)) (snd e)) w.

(* ... and by dictionary lookup (what the Python code can observe) *)
Definition has_conn_iw (iw : iwiring) (c : conn) : Prop :=
  let '(oc, op, ic, ip) := c in
  exists ins, lookup ic iw = Some ins /\ lookup ip ins = Some (oc, op).
Definition has_conn_w (w : wiring) (c : conn) : Prop :=
  let '(oc, op, ic, ip) := c in
  exists outs tg, lookup oc w = Some outs /\ lookup op outs = Some tg /\ In (ic, ip) tg.

Fixpoint dedup (l : list positive) : list positive :=
  match l with
  | [] => []
  | x :: t => if memb x t then dedup t else x :: dedup t
  end.

(* EventRouter.components = keys of the wiring, and every component receiving an input *)
Definition in_comp (c : conn) : comp := let '(_, _, ic, _) := c in ic.
Definition out_comp (c : conn) : comp := let '(oc, _, _, _) := c in oc.
Definition components_w (w : wiring) : list comp := dedup (keys w ++ map in_comp (conns_w w)).
Definition components_iw (iw : iwiring) : list comp := dedup (keys iw ++ map out_comp (conns_iw iw)).

(* ---- utilities over the flat connection relation (what ticker and schedulers use) *)
Section Flat.
Variable conns : list conn.

(* component_tree[c] and inverse_component_tree[c] *)
Definition succs (c : comp) : list comp :=
  dedup (flat_map (fun k : conn => if Pos.eqb (out_comp k) c then [in_comp k] else []) conns).
Definition preds (c : comp) : list comp :=
  dedup (flat_map (fun k : conn => if Pos.eqb (in_comp k) c then [out_comp k] else []) conns).

(* EventRouter.route: dict in_comp -> dict in_port -> value *)
Definition route {V} (src : comp) (changes : list (port * V)) : list (comp * list (port * V)) :=
  fold_left (fun routed (ch : port * V) =>
               fold_left (fun routed (k : conn) =>
                            let '(oc, op, ic, ip) := k in
                            if Pos.eqb oc src && Pos.eqb op (fst ch)
                            then upd ic (upd ip (snd ch) (get_d ic routed)) routed
                            else routed)
                         conns routed)
            changes [].

(* EventRouter.dependants: breadth-first crawl; [None] when the fuel runs out *)
Fixpoint crawl (fuel : nat) (queue seen : list comp) : option (list comp) :=
  match queue with
  | [] => Some seen
  | x :: q =>
      match fuel with
      | O => None
      | S f =>
          if memb x seen then crawl f q seen
          else crawl f (q ++ filter (fun y => negb (memb y (seen ++ [x]))) (succs x)) (seen ++ [x])
      end
  end.
Definition closedb (s : list comp) : bool :=
  forallb (fun k : conn => negb (memb (out_comp k) s) || memb (in_comp k) s) conns.
Definition dependants (root : comp) : option (list comp) :=
  match crawl (2 + length conns) [root] [] with
  | Some s => if closedb s then Some s else None
  | None => None
  end.

Inductive reach (r : comp) : comp -> Prop :=
| reach_refl : reach r r
| reach_step c k : reach r c -> In k conns -> out_comp k = c -> reach r (in_comp k).

End Flat.

(* dict-level well-formedness: unique keys at every level (always true of Python dicts) *)
Definition nodupb (l : list positive) : bool :=
  (fix go l := match l with [] => true | x :: t => negb (memb x t) && go t end) l.
Definition wf_iw (iw : iwiring) : bool :=
  nodupb (keys iw) && forallb (fun e : comp * list (port * cport) => nodupb (keys (snd e))) iw.
Definition nodup_cports (l : list cport) : bool :=
  (fix go l := match l with [] => true | x :: t => negb (mem_cport x t) && go t end) l.
Definition wf_w (w : wiring) : bool :=
  nodupb (keys w) &&
  forallb (fun e : comp * list (port * list cport) =>
             nodupb (keys (snd e)) && forallb (fun o : port * list cport => nodup_cports (snd o)) (snd e)) w.
(* every input port has at most one source *)
Definition single_source (cs : list conn) : Prop :=
  forall oc op oc' op' ic ip, In (oc, op, ic, ip) cs -> In (oc', op', ic, ip) cs -> oc = oc' /\ op = op'.
