import tprops

PID = "C08"


def main(tier, seed):
    return tprops.main_T(PID, tier, seed, {21}, "Props.C08",
                         ["Model/Ticker.v", "Oracle/TickerOracle.v", "Proofs/TickerP.v", "Props/C08.v"],
                         "schedule independence")


replay = tprops.replay_T
