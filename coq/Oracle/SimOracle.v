(* Decidable statements of the whole-simulation properties, evaluated on what the real
   schedulers/components did (global update trace, tick log, master tick real times).
   Independent of the simulation function of Model/Sim.v: only the configuration, the
   flattening defined here and the device table are used. *)
From TV Require Import Base Model.Wiring Model.Ticker Model.Component Model.Sim Model.SimTime Model.Inline Model.NSim Model.Interrupts Model.NNSim Model.HSim Oracle.SimCheck.
Open Scope Z_scope.

(* ---------- flattening a nested configuration (C09, C03) *)
Definition kind_of (cfg : config) (lv : positive) (c : comp) : option ckind :=
  lookup c (l_order (level_of cfg lv)).

(* the (parent level, system component) containing level lv *)
Definition parent_of (cfg : config) (lv : positive) : option (positive * comp) :=
  find (fun e : positive * comp => true)
       (flat_map (fun pl : positive * level =>
                    flat_map (fun ck : comp * ckind =>
                                match snd ck with
                                | KSys l' => if Pos.eqb l' lv then [(fst pl, fst ck)] else []
                                | KDev => []
                                end) (l_order (snd pl))) cfg).

Definition conn_into (conns : list conn) (c : comp) (q : port) : option (comp * port) :=
  match find (fun k : conn => let '(_, _, ic, ip) := k in Pos.eqb ic c && Pos.eqb ip q) conns with
  | Some (u, p, _, _) => Some (u, p)
  | None => None
  end.

(* the device output that really drives output (u, p) seen in level lv *)
Fixpoint resolve (fuel : nat) (cfg : config) (lv : positive) (u : comp) (p : port) : option (comp * port) :=
  match fuel with
  | O => None
  | S f =>
      if Pos.eqb u ext_id then
        match parent_of cfg lv with
        | Some (plv, sc) =>
            match conn_into (l_conns (level_of cfg plv)) sc p with
            | Some (u', p') => resolve f cfg plv u' p'
            | None => None
            end
        | None => None
        end
      else
        match kind_of cfg lv u with
        | Some KDev => Some (u, p)
        | Some (KSys lv') =>
            match conn_into (l_conns (level_of cfg lv')) exp_id p with
            | Some (u', p') => resolve f cfg lv' u' p'
            | None => None
            end
        | None => None
        end
  end.

Definition flat_conns (cfg : config) : list conn :=
  flat_map (fun pl : positive * level =>
              flat_map (fun k : conn =>
                          let '(u, p, c, q) := k in
                          match kind_of cfg (fst pl) c with
                          | Some KDev =>
                              match resolve 40 cfg (fst pl) u p with
                              | Some (d, p') => [(d, p', c, q)]
                              | None => []
                              end
                          | _ => []
                          end) (l_conns (snd pl))) cfg.

Fixpoint flat_order (fuel : nat) (cfg : config) (lv : positive) : list comp :=
  match fuel with
  | O => []
  | S f => flat_map (fun ck : comp * ckind =>
                       match snd ck with KDev => [fst ck] | KSys lv' => flat_order f cfg lv' end)
                    (l_order (level_of cfg lv))
  end.

Definition flatten (cfg : config) : config :=
  [(1%positive, {| l_order := map (fun c => (c, KDev)) (flat_order 40 cfg 1%positive); l_conns := flat_conns cfg |})].

(* ---------- C03: every update sees exactly the latest value of every resolved source *)
Fixpoint latest_ok (fconns : list conn) (devs : dev_table)
         (last : list (comp * values)) (cnt : list (comp * Z)) (tr : list obs) : bool :=
  match tr with
  | [] => true
  | (c, t, inputs) :: r =>
      let expected := flat_map (fun k : conn =>
                                  let '(u, p, c', q) := k in
                                  if Pos.eqb c' c then
                                    match lookup p (get_d u last) with Some v => [(q, v)] | None => [] end
                                  else []) fconns in
      let n := (match lookup c cnt with Some x => x | None => 0 end) + 1 in
      let outs := fst (table_dev devs c n t inputs) in
      values_eqb inputs expected &&
      latest_ok fconns devs (upd c (merge (get_d c last) outs) last) (upd c n cnt) r
  end.

(* ---------- C05: the initial tick *)
Definition initial_ok (devices : list comp) (initial : Z) (tr : list obs) : list Z :=
  let at_init := filter (fun o : obs => Z.eqb (snd (fst o)) initial) tr in
  (if forallb (fun d => Nat.eqb (length (filter (fun o : obs => Pos.eqb (fst (fst o)) d) at_init)) 1) devices
   then [] else [61]) ++
  (* every initial-time update precedes every later-time update *)
  (let fix go (seen_later : bool) (l : list obs) : bool :=
       match l with
       | [] => true
       | o :: r => if Z.eqb (snd (fst o)) initial then negb seen_later && go seen_later r else go true r
       end in
   if go false tr then [] else [62]).

(* ---------- C06: callbacks honoured, never invented *)
(* the callback requests found in the trace: (device, time of the request, requested time) *)
Fixpoint requests (devs : dev_table) (cnt : list (comp * Z)) (tr : list obs) : list (comp * Z * Z) :=
  match tr with
  | [] => []
  | (c, t, inputs) :: r =>
      let n := (match lookup c cnt with Some x => x | None => 0 end) + 1 in
      match snd (table_dev devs c n t inputs) with
      | Some w => (c, t, w) :: requests devs (upd c n cnt) r
      | None => requests devs (upd c n cnt) r
      end
  end.

(* honoured: after a device asked for w, its next update is not later than w; and if the
   master ticked beyond w the device has been updated again *)
Fixpoint honoured (devs : dev_table) (cnt : list (comp * Z)) (last_master : Z) (tr : list obs) : bool :=
  match tr with
  | [] => true
  | (c, t, inputs) :: r =>
      let n := (match lookup c cnt with Some x => x | None => 0 end) + 1 in
      (match snd (table_dev devs c n t inputs) with
       | Some w =>
           match find (fun o : obs => Pos.eqb (fst (fst o)) c) r with
           | Some (_, t', _) => Z.leb t' w
           | None => Z.leb last_master w
           end
       | None => true
       end) && honoured devs (upd c n cnt) last_master r
  end.

(* the simulation time an interrupt raised at real time r is stamped with, from the observed
   master ticks *)
Definition stamp_of (num den : Z) (mticks : list (Z * Z)) (r : Z) : option Z :=
  match filter (fun tr : Z * Z => Z.ltb (snd tr) r) mticks with
  | [] => None
  | l => let '(t, real) := last l (0, 0) in Some (t + (r - real) * num / den)
  end.

Definition not_invented (c : sim_case) : bool :=
  let reqs := requests (sc_devs c) [] (sc_trace c) in
  forallb (fun tk : Z * Z =>
             let t := fst tk in
             Z.eqb t (sc_initial c) ||
             existsb (fun q : comp * Z * Z => Z.eqb (snd q) t) reqs ||
             existsb (fun s : stimulus =>
                        match stamp_of (sc_num c) (sc_den c) (sc_mticks c) (fst (fst (fst s))) with
                        | Some st => Z.eqb st t
                        | None => false
                        end) (sc_stim c))
          (sc_mticks c).

(* every update of a device has a cause: the initial tick; its own pending callback (the request of
   its latest answer that carried one, not yet served) falling due exactly now; an interrupt of that
   device stamped now; or a device wired into it (through any system boundary) updated earlier in
   the same tick.  A superseded or made-up wake-up has none. *)
Fixpoint caused (fc : list conn) (devs : dev_table) (init : Z) (ints : list (comp * Z))
         (cnt : list (comp * Z)) (pend : list (comp * Z)) (curt : Z) (cur : list comp) (tr : list obs) : bool :=
  match tr with
  | [] => true
  | (c, t, inputs) :: r =>
      let cur' := if Z.eqb t curt then cur else [] in
      let n := (match lookup c cnt with Some x => x | None => 0 end) + 1 in
      let due := opt_eqb Z.eqb (lookup c pend) (Some t) in
      let ok := Z.eqb t init || due
                || existsb (fun e : comp * Z => Pos.eqb (fst e) c && Z.eqb (snd e) t) ints
                || existsb (fun k : conn => Pos.eqb (in_comp k) c && memb (out_comp k) cur') fc in
      let pend1 := if due then remove_key c pend else pend in
      let pend2 := match snd (table_dev devs c n t inputs) with Some w => upd c w pend1 | None => pend1 end in
      ok && caused fc devs init ints (upd c n cnt) pend2 t (cur' ++ [c]) r
  end.

Definition interrupt_stamps (c : sim_case) : list (comp * Z) :=
  flat_map (fun s : stimulus =>
              match stamp_of (sc_num c) (sc_den c) (sc_mticks c) (fst (fst (fst s))) with
              | Some st => [(snd (fst (fst s)), st)]
              | None => []
              end) (sc_stim c).

(* ---------- C12: pacing.  never early: (r' - r) * speed >= t' - t between consecutive ticks *)
Fixpoint never_early (num den : Z) (l : list (Z * Z)) : bool :=
  match l with
  | (t, r) :: (((t', r') :: _) as rest) => Z.leb ((t' - t) * den) ((r' - r) * num) && never_early num den rest
  | _ => true
  end.

(* ---------- C04: per scheduler, tick times never decrease; inner ticks carry the time of the
   enclosing master tick *)
Fixpoint nondecreasing (l : list Z) : bool :=
  match l with
  | a :: ((b :: _) as r) => Z.leb a b && nondecreasing r
  | _ => true
  end.

Definition devices_of (cfg : config) : list comp :=
  flat_map (fun pl : positive * level =>
              flat_map (fun ck : comp * ckind => match snd ck with KDev => [fst ck] | _ => [] end)
                       (l_order (snd pl))) cfg.

(* reason codes:
   61/62 initial tick (C05); 81 stale / lost / misrouted input value (C03);
   65 callback not honoured, 66 tick time invented, 67 device updated without a cause (C06);
   96 tick started early (C12);
   46 tick times of a scheduler decrease (C04) *)
(* callbacks must have been served up to the last master tick and -- the run being paced against real time and
   ticks costing no (virtual) real time -- up to the simulation time the run has reached when it is cut off,
   5 ms of real time before its end: a master that has stopped ticking does not get away with it *)
Definition served_until (c : sim_case) : Z :=
  Z.max (last (map fst (sc_mticks c)) (sc_initial c)) (sc_initial c + (sc_end c - 5000000) * sc_num c / sc_den c).

(* C06 on runs with stimuli the case does not list (the injection sweep): callbacks honoured *)
Definition oracle_c06 (c : sim_case) : list Z :=
  if honoured (sc_devs c) [] (served_until c) (sc_trace c) then [] else [65].

(* 61 counts the updates stamped with the initial time: it speaks about the initial tick only when that is the only
   master tick at the initial time (a device may ask to be re-evaluated at once, an interrupt may be pending from
   before the start: a second tick at the initial time updates devices again, rightly) *)
Definition initial_ok_case (c : sim_case) : list Z :=
  let r := initial_ok (devices_of (sc_cfg c)) (sc_initial c) (sc_trace c) in
  if Nat.eqb (length (filter (fun mt : Z * Z => Z.eqb (fst mt) (sc_initial c)) (sc_mticks c))) 1 then r
  else filter (fun x => negb (Z.eqb x 61)) r.

Definition oracle_sim (c : sim_case) : list Z :=
  initial_ok_case c ++
  (if latest_ok (flat_conns (sc_cfg c)) (sc_devs c) [] [] (sc_trace c) then [] else [81]) ++
  (if honoured (sc_devs c) [] (served_until c) (sc_trace c) then [] else [65]) ++
  (if not_invented c then [] else [66]) ++
  (if caused (flat_conns (sc_cfg c)) (sc_devs c) (sc_initial c) (interrupt_stamps c) [] [] (sc_initial c) [] (sc_trace c)
   then [] else [67]) ++
  (if never_early (sc_num c) (sc_den c) (sc_mticks c) then [] else [96]) ++
  (if forallb (fun lv => nondecreasing (map fst (log_of_level lv (sc_ticklog c)))) (keys (sc_cfg c)) then [] else [46]).

(* 55: the simulation-time abstraction of the master (Model/SimTime.v, the subject of the whole-run
   non-interference theorem of C10) gives other observations than the master model with real time;
   evaluated on the cases it is meant for: speed 1, no interrupts *)
Definition obs_eqb (x y : obs) : bool :=
  Pos.eqb (fst (fst x)) (fst (fst y)) && Z.eqb (snd (fst x)) (snd (fst y)) && values_eqb (snd x) (snd y).
Definition check_simtime (c : sim_case) : list Z :=
  if Z.eqb (sc_num c) 1 && Z.eqb (sc_den c) 1 && negb (nonempty (sc_stim c)) && negb (nonempty (sc_pre c)) then
    let '(_, ob, fin) := sim_run (sc_cfg c) (table_dev (sc_devs c)) 4000 8 (sc_initial c) (sc_initial c + sc_end c) in
    if fin && list_eqb obs_eqb ob (m_obs (model_run c)) then [] else [55]
  else [].

Definition check_sim_all (c : sim_case) : list Z := check_sim c ++ oracle_sim c ++ check_simtime c.

(* ---------- C12, the exact half: with ticks that cost no real time (the virtual-time loop) every
   master tick (simulation time t, real time r) has t = initial + speed * r, within the whole-ns
   rounding of the float arithmetic (4 ns per tick so far).  97: it does not *)
Fixpoint exact_pacing (num den initial : Z) (k : Z) (l : list (Z * Z)) : bool :=
  match l with
  | [] => true
  | (t, r) :: rest =>
      Z.leb (Z.abs ((t - initial) * den - r * num)) (4 * (k + 1) * Z.max num den) && exact_pacing num den initial (k + 1) rest
  end.
Definition check_exact (c : sim_case) : list Z :=
  check_sim c ++ (if exact_pacing (sc_num c) (sc_den c) (sc_initial c) 0 (sc_mticks c) then [] else [97]).

(* ---------- pairs of runs: nested vs its flattening (C09), base vs base + disconnected part (C10) *)
Definition pair_case := (sim_case * sim_case)%type.

Definition same_devices (a b : sim_case) : bool :=
  forallb (fun dl : comp * list (Z * values) =>
             match lookup (fst dl) (sc_observed b) with
             | Some l => seq_eqb (snd dl) l
             | None => false
             end) (sc_observed a).

Definition conns_set_eqb (a b : list conn) : bool :=
  forallb (fun x => existsb (conn_eqb x) b) a && forallb (fun y => existsb (conn_eqb y) a) b.

(* inside the scope of the inlining theorem (Props/C09.v (3)) the configuration with the system
   replaced by its contents IS the flattening *)
Definition inline_is_flatten (cfg : config) : bool :=
  match shape_of cfg with
  | Some (c, lvc, _, _, _) =>
      let f := inline cfg c lvc in
      conns_set_eqb (flat_conns cfg) (l_conns (level_of f 1%positive))
      && list_eqb Pos.eqb (flat_order 40 cfg 1%positive) (map fst (l_order (level_of f 1%positive)))
  | None => true
  end.

(* 71 a device observes something else in the nested configuration than in its flattening;
   73 the harness' flattening is not the one defined here; 74 [inline] is not the flattening *)
Definition check_flat_pair (p : pair_case) : list Z :=
  let '(n, f) := p in
  check_sim_all n ++ check_sim_all f ++
  (if same_devices n f && same_devices f n then [] else [71]) ++
  (if conns_set_eqb (flat_conns (sc_cfg n)) (l_conns (level_of (sc_cfg f) 1%positive))
      && list_eqb Pos.eqb (flat_order 40 (sc_cfg n) 1%positive) (map fst (l_order (level_of (sc_cfg f) 1%positive)))
   then [] else [73]) ++
  (if inline_is_flatten (sc_cfg n) then [] else [74]).

(* not a check: marks the pairs whose nested configuration is in the scope of the inlining theorem *)
Definition in_inline_scope (p : pair_case) : list Z :=
  match shape_of (sc_cfg (fst p)) with Some _ => [1] | None => [] end.

(* 91 a device of the base configuration observes something else once a disconnected part is added *)
Definition check_ext_pair (p : pair_case) : list Z :=
  let '(b, e) := p in
  check_sim_all b ++ check_sim_all e ++ (if same_devices b e then [] else [91]).

(* ---------- C07 on whole simulations: an interrupt injected at an arbitrary event-loop step.
   [inj] = (device, real time of the injection, number of device updates that had happened);
   [reals] = the real time of every update of the trace.  Ticks cost no (virtual) real time,
   so the device must be updated again at the very instant the interrupt was raised. *)
Definition inj_case := (sim_case * (comp * Z * Z) * list Z)%type.

Fixpoint drop {A} (n : Z) (l : list A) : list A :=
  match l with
  | [] => []
  | x :: r => if Z.leb n 0 then l else drop (n - 1) r
  end.

(* 77: the interrupting device is never updated again; 78: it is, but only later in real time *)
Definition check_inj (c : inj_case) : list Z :=
  let '(sc, (d, r, pos), reals) := c in
  let later := combine (drop pos (sc_trace sc)) (drop pos reals) in
  match filter (fun x : obs * Z => Pos.eqb (fst (fst (fst x))) d) later with
  | [] => [77]
  | (_, real) :: _ => if Z.eqb real r then [] else [78]
  end.

(* ---------- C05 with an interrupt raised by device d before the initial tick has reached it:
   63: some device is not updated at the initial time at all (the interrupt is served at the
   initial time too, so d and everything downstream of it may be updated twice: "exactly once"
   is the statement for runs without early interrupts) *)
Definition early_case := (sim_case * comp)%type.
Definition check_initial_early (c : early_case) : list Z :=
  let '(sc, d) := c in
  let at_init := filter (fun o : obs => Z.eqb (snd (fst o)) (sc_initial sc)) (sc_trace sc) in
  if forallb (fun x => let n := Z.of_nat (length (filter (fun o : obs => Pos.eqb (fst (fst o)) x) at_init)) in
                       Z.leb 1 n && (Pos.eqb x d || true)) (devices_of (sc_cfg sc))
  then [] else [63].

(* ---------- C04 on whole simulations: every inner tick lies inside the master tick that
   triggered it and carries its time (the tick log is in the order the ticks started) *)
Fixpoint inner_inside (cur : option Z) (log : list (positive * Z * list comp)) : bool :=
  match log with
  | [] => true
  | (lv, t, _) :: r =>
      if Pos.eqb lv 1%positive then inner_inside (Some t) r
      else match cur with
           | Some t0 => Z.eqb t t0 && inner_inside cur r
           | None => false
           end
  end.

(* 49: an inner tick outside its outer tick or with another time;
   45: a device was updated with an earlier time after some device had been updated with a later one
       (ticks are serial: every update of a tick happens before the next tick starts) *)
Definition oracle_c04 (c : sim_case) : list Z :=
  (if inner_inside None (sc_ticklog c) then [] else [49]) ++
  (if nondecreasing (map (fun o : obs => snd (fst o)) (sc_trace c)) then [] else [45]) ++
  (if forallb (fun lv => nondecreasing (map fst (log_of_level lv (sc_ticklog c)))) (keys (sc_cfg c)) then [] else [46]).
Definition check_sim_c04 (c : sim_case) : list Z := check_sim c ++ oracle_c04 c.

(* C03 on runs the model does not predict (an interrupt injected at an arbitrary event-loop step):
   81 some update was handed something else than the latest value of a resolved source *)
Definition oracle_c03 (c : sim_case) : list Z :=
  if latest_ok (flat_conns (sc_cfg c)) (sc_devs c) [] [] (sc_trace c) then [] else [81].

(* ... and with the interrupt raised at any point until the last device of the initial tick has been updated: besides 63,
   every update of the run is handed the latest values of its resolved sources (81) -- what the initial tick delivered
   is not lost when the interrupt's tick follows at once *)
Definition check_initial_early_latest (c : early_case) : list Z :=
  check_initial_early c ++ oracle_c03 (fst c).

(* ---------- C08 on whole simulations: one simulation on the synchronous in-memory bus (the
   reference) and on a conforming bus that delays and reorders deliveries (per-topic FIFO kept,
   one message at a time per consumer, replay on subscribe).
   22: some device observes another (time, inputs) sequence under some delivery schedule;
   51/52 of a delayed run: it differs from the model as well *)
Definition sched_case := (sim_case * list sim_case)%type.
Definition check_sim_obs (c : sim_case) : list Z :=
  filter (fun x => Z.eqb x 51 || Z.eqb x 52) (check_sim c).
(* 23: on a flat simulation at speed 1 the schedule-explicit model (Model/NSim.v: the ticker of
   Model/Ticker.v driven answer by answer, components answering in the order a strategy picks --
   here the first and the last dispatched component) and the master model Model/Sim.v give some
   device different observations *)
Definition nsim_applies (c : sim_case) : bool :=
  Z.eqb (sc_num c) 1 && Z.eqb (sc_den c) 1 && Nat.eqb (length (sc_cfg c)) 1
  && forallb is_dev (l_order (level_of (sc_cfg c) 1%positive))
  && match sc_pre c with [] => true | _ => false end.
Definition nsim_obs (c : sim_case) (pick : list (comp * bool) -> option comp) : option (list obs) :=
  let l := level_of (sc_cfg c) 1%positive in
  match nsim_timed_from_start (l_conns l) (map fst (l_order l)) (table_dev (sc_devs c)) pick 400 4000 (sc_initial c)
          (map (fun st : stimulus => (fst (fst (fst st)) + sc_initial c, snd (fst (fst st)))) (sc_stim c))
          (sc_initial c + sc_end c) with
  | Some (_, ob) => Some ob
  | None => None
  end.
Definition check_nsim (c : sim_case) : list Z :=
  if nsim_applies c then
    match nsim_obs c pick_first, nsim_obs c pick_last with
    | Some o1, Some o2 =>
        if forallb (fun ck : comp * ckind =>
                      seq_eqb (obs_of (fst ck) o1) (obs_of (fst ck) (model_obs c)) &&
                      seq_eqb (obs_of (fst ck) o2) (obs_of (fst ck) (model_obs c)))
                   (l_order (level_of (sc_cfg c) 1%positive))
        then [] else [23]
    | _, _ => [23]
    end
  else [].
(* not a check: marks the cases on which [check_nsim] applies *)
Definition nsim_scope (g : sim_case * list sim_case) : list Z := if nsim_applies (fst g) then [1] else [].

(* 24: on a nested simulation at speed 1 the nested schedule-explicit model (Model/NNSim.v: every level's ticker driven
   answer by answer, a system simulation answering with a tick of its own level in the state as it is when its turn
   comes; first-dispatched-first and last-dispatched-first at all levels; interrupts of devices at any depth) and
   Model/Sim.v give some device different observations *)
Definition nnsim_applies (c : sim_case) : bool :=
  Z.eqb (sc_num c) 1 && Z.eqb (sc_den c) 1 && negb (Nat.eqb (length (sc_cfg c)) 1)
  && match sc_pre c with [] => true | _ => false end.
Definition nnsim_obs (c : sim_case) (pick : list (comp * bool) -> option comp) : option (list obs) :=
  match xnsim_timed_from_start (sc_cfg c) (table_dev (sc_devs c)) pick 400 8 4000 (sc_initial c)
          (map (fun st : stimulus => let '(r, d, lvc, path) := st in (r + sc_initial c, d, lvc, path)) (sc_stim c))
          (sc_initial c + sc_end c) with
  | Some (_, ob) => Some ob
  | None => None
  end.
Definition check_nnsim (c : sim_case) : list Z :=
  if nnsim_applies c then
    match nnsim_obs c pick_first, nnsim_obs c pick_last with
    | Some o1, Some o2 =>
        if forallb (fun d : comp =>
                      seq_eqb (obs_of d o1) (obs_of d (model_obs c)) && seq_eqb (obs_of d o2) (obs_of d (model_obs c)))
                   (keys (sc_devs c))
           && Nat.eqb (length o1) (length (model_obs c)) && Nat.eqb (length o2) (length (model_obs c))
        then [] else [24]
    | _, _ => [24]
    end
  else [].

(* 25: on a nested simulation at speed 1 the interleaving scheduler (Model/HSim.v: all the messages of all the schedulers
   of the nesting in flight at once, a strategy picking the next one -- rotating through them / always the newest) and
   Model/Sim.v give some device different observations (Proofs/MsgTreeP.v proves they cannot) *)
Definition hsim_obs (c : sim_case) (pick : hstrategy) : option (list obs) :=
  match hxsim_timed_from_start (sc_cfg c) (table_dev (sc_devs c)) pick 4000 8 4000 (sc_initial c)
          (map (fun st : stimulus => let '(r, d, lvc, path) := st in (r + sc_initial c, d, lvc, path)) (sc_stim c))
          (sc_initial c + sc_end c) with
  | Some (_, ob) => Some ob
  | None => None
  end.
Definition check_hsim (c : sim_case) : list Z :=
  if nnsim_applies c then
    match hsim_obs c (hpick_rot 1), hsim_obs c hpick_last with
    | Some o1, Some o2 =>
        if forallb (fun d : comp =>
                      seq_eqb (obs_of d o1) (obs_of d (model_obs c)) && seq_eqb (obs_of d o2) (obs_of d (model_obs c)))
                   (keys (sc_devs c))
           && Nat.eqb (length o1) (length (model_obs c)) && Nat.eqb (length o2) (length (model_obs c))
        then [] else [25]
    | _, _ => [25]
    end
  else [].
(* the interleaving really interleaves: the global order of updates differs from that of the atomic schedules *)
Definition hsim_interleaves (c : sim_case) : list Z :=
  if nnsim_applies c then
    match hsim_obs c (hpick_rot 1), nnsim_obs c pick_first, nnsim_obs c pick_last with
    | Some o1, Some o2, Some o3 =>
        if negb (list_eqb Pos.eqb (map (fun o : obs => fst (fst o)) o1) (map (fun o : obs => fst (fst o)) o2))
           && negb (list_eqb Pos.eqb (map (fun o : obs => fst (fst o)) o1) (map (fun o : obs => fst (fst o)) o3)) then [1] else []
    | _, _, _ => []
    end
  else [].

Definition check_sched (g : sched_case) : list Z :=
  let '(r, ds) := g in
  check_sim_all r ++ flat_map check_sim_obs ds ++
  (if forallb (fun d => same_devices r d && same_devices d r) ds then [] else [22]) ++ check_nsim r ++ check_nnsim r ++ check_hsim r.
