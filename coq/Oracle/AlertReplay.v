(* The alert protocol of Model/Alert.v, executable: [a_apply] checks the guard of one step and makes it.  The harness
   records what the real schedulers and components did on the delaying bus -- interrupts raised at any moment, also while
   ticks are running, every delivery, every tick start with its roots and components to update, every answer of a system
   simulation with the callback it asks for -- and [a_replay] replays it: every event must be a step of the model whose
   guard holds (30), a system simulation must ask for the callback the model computes (31: at once when an interrupt is
   pending inside, else the earliest inner wakeup), the master must tick components that are due at the earliest wakeup of the model's table (32), a nested
   tick must have at least the model's roots (33).  [a_apply_sound] (Proofs/AlertReplayP.v): what replays is a run of [AStep],
   so the theorem "no interrupt is lost" is about that very execution. *)
From TV Require Import Base Model.Wiring Model.Ticker Model.Component Model.Sim Model.Alert.
Open Scope Z_scope.

Inductive aevent :=
| ERaise (lv : positive) (d : comp)
| EIntTop (c : comp) (w : Z)
| EIntNested (p : positive) (x : comp) (lv : positive) (c : comp)
| EMTick (when : Z) (roots todo : list comp)
| EInDev (lv : positive) (c : comp) (ca : option Z)
| EInSys (p : positive) (x : comp) (lv : positive) (roots todo : list comp)
| ESkip (lv : positive) (c : comp)
| EOut (lv : positive) (c : comp) (ca : option Z)
| EDone (p : positive) (x : comp) (lv : positive) (ca : option Z)
| EMDone.

Definition is_int (m : amsg) : bool := match m with AInt => true | AOut _ => false end.
Definition opt_z_eqb (a b : option Z) : bool :=
  match a, b with Some x, Some y => Z.eqb x y | None, None => true | _, _ => false end.
Definition is_out (ca : option Z) (m : amsg) : bool := match m with AOut ca' => opt_z_eqb ca ca' | AInt => false end.

(* the first message of c in the queue, provided it is of the wanted kind: what precedes it, what follows *)
Fixpoint split_first (c : comp) (want : amsg -> bool) (q : list (comp * amsg)) : option (list (comp * amsg) * amsg * list (comp * amsg)) :=
  match q with
  | [] => None
  | (k, m) :: r =>
      if Pos.eqb k c then (if want m then Some ([], m, r) else None)
      else match split_first c want r with Some (a, m', b) => Some ((k, m) :: a, m', b) | None => None end
  end.

Definition inclb (a b : list comp) : bool := forallb (fun x => memb x b) a.
Definition seteqb (a b : list comp) : bool := inclb a b && inclb b a.

Section AX.
Variable cfg : config.

Definition childb (p : positive) (x : comp) (lv : positive) : bool :=
  match lookup x (l_order (level_of cfg p)) with Some (KSys lv') => Pos.eqb lv' lv | _ => false end.

(* one event: the new state, or the code of what is wrong *)
Definition a_apply (e : aevent) (s : astate) : astate + Z :=
  match e with
  | ERaise lv d =>
      match lookup d (l_order (level_of cfg lv)) with
      | Some KDev => inl (set_owed (setl s lv (q_push (getl s lv) d AInt)) ((lv, d) :: a_owed s))
      | _ => inr 30
      end
  | EIntTop c w =>
      match split_first c is_int (a_q (getl s top)) with
      | Some (q1, _, q2) =>
          inl (set_hi (setl s top (with_q (with_wake (getl s top) (int_wake w c (a_wake (getl s top)))) (q1 ++ q2))) (Z.max (a_hi s) w))
      | None => inr 30
      end
  | EIntNested p x lv c =>
      if childb p x lv && negb (Pos.eqb lv p) && negb (Pos.eqb lv top) then
        match split_first c is_int (a_q (getl s lv)) with
        | Some (q1, _, q2) =>
            let s1 := setl s lv (with_q (with_ints (getl s lv) (add_int c (a_ints (getl s lv)))) (q1 ++ q2)) in
            inl (setl s1 p (q_push (getl s1 p) x AInt))
        | None => inr 30
        end
      else inr 30
  | EMTick when roots todo =>
      match a_tick (getl s top) with
      | None =>
          (* the components ticked are due at [when], and nothing is due earlier (the set may be the one computed just before
             an interrupt was handled: it need not hold every component due at [when]) *)
          if opt_z_eqb (min_wake (a_wake (getl s top))) (Some when)
             && forallb (fun c => opt_z_eqb (lookup c (a_wake (getl s top))) (Some when)) roots then
            if inclb roots todo then
              inl (set_hi (setl s top (with_tick (with_wake (getl s top) (filter (fun e : comp * Z => negb (memb (fst e) roots)) (a_wake (getl s top))))
                                                 (Some {| t_time := when; t_roots := roots; t_todo := todo; t_handed := [] |})))
                          (Z.max (a_hi s) when))
            else inr 30
          else inr 32
      | Some _ => inr 30
      end
  | EInDev lv c ca =>
      match a_tick (getl s lv) with
      | Some t =>
          if memb c (t_todo t) && negb (memb c (t_handed t)) && negb (is_sys cfg lv c) then
            inl (set_owed (setl s lv (q_push (with_tick (getl s lv) (Some (hand t c))) c (AOut ca)))
                          (filter (fun e : positive * comp => negb (Pos.eqb (fst e) lv && Pos.eqb (snd e) c)) (a_owed s)))
          else inr 30
      | None => inr 30
      end
  | EInSys p x lv roots' todo' =>
      match a_tick (getl s p), a_tick (getl s lv) with
      | Some t, None =>
          if memb x (t_todo t) && negb (memb x (t_handed t)) && childb p x lv && negb (Pos.eqb lv p) && negb (Pos.eqb lv top) then
            if inclb (a_ints (getl s lv) ++ map fst (filter (due (t_time t)) (a_wake (getl s lv)))) roots' then
              if inclb roots' todo' then
                let s1 := setl s p (with_tick (getl s p) (Some (hand t x))) in
                inl (setl s1 lv (with_tick (with_ints (with_wake (getl s lv) (filter (fun e => negb (due (t_time t) e)) (a_wake (getl s lv)))) [])
                                           (Some {| t_time := t_time t; t_roots := roots'; t_todo := todo'; t_handed := [] |})))
              else inr 30
            else inr 33
          else inr 30
      | _, _ => inr 30
      end
  | ESkip lv c =>
      match a_tick (getl s lv) with
      | Some t =>
          if memb c (t_todo t) && negb (memb c (t_handed t)) && negb (memb c (t_roots t)) then
            inl (setl s lv (q_push (with_tick (getl s lv) (Some (hand t c))) c (AOut None)))
          else inr 30
      | None => inr 30
      end
  | EOut lv c ca =>
      match a_tick (getl s lv) with
      | Some t =>
          if memb c (t_todo t) then
            match split_first c (is_out ca) (a_q (getl s lv)) with
            | Some (q1, AOut ca', q2) =>
                inl (setl s lv (with_q (with_wake (with_tick (getl s lv) (Some (untodo t c))) (out_wake ca' c (a_wake (getl s lv)))) (q1 ++ q2)))
            | _ => inr 30
            end
          else inr 30
      | None => inr 30
      end
  | EDone p x lv ca =>
      match a_tick (getl s lv) with
      | Some t =>
          if childb p x lv && negb (Pos.eqb lv p) && negb (Pos.eqb lv top) then
            match t_todo t with
            | [] =>
                if opt_z_eqb ca (done_ca (getl s lv) (t_time t)) then
                  let s1 := setl s lv (with_tick (getl s lv) None) in
                  inl (setl s1 p (q_push (getl s1 p) x (AOut (done_ca (getl s lv) (t_time t)))))
                else inr 31
            | _ => inr 30
            end
          else inr 30
      | None => inr 30
      end
  | EMDone =>
      match a_tick (getl s top) with
      | Some t => match t_todo t with [] => inl (setl s top (with_tick (getl s top) None)) | _ => inr 30 end
      | None => inr 30
      end
  end.

(* the whole record: the state reached and the number of events replayed, or the code and the index of the event that failed *)
Fixpoint a_replay (evs : list aevent) (s : astate) (i : nat) : (astate * nat) + (Z * nat) :=
  match evs with
  | [] => inl (s, i)
  | e :: r => match a_apply e s with inl s' => a_replay r s' (S i) | inr code => inr (code, i) end
  end.

Definition a_init : astate := {| a_lv := []; a_hi := 0; a_owed := [] |}.

(* nothing running, nothing in flight -- on the levels the state knows of *)
Definition quiescentb (s : astate) : bool :=
  forallb (fun e : positive * lstate => match a_tick (snd e), a_q (snd e) with None, [] => true | _, _ => false end) (a_lv s).

Definition check_alert (evs : list aevent) : list Z :=
  match a_replay evs a_init O with
  | inl _ => []
  | inr (code, i) => [code; Z.of_nat i]
  end.
End AX.
