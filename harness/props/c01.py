"""C01 -- glitch-free update order.
(a) level T (tprops): the real Ticker under every answer order of small wirings, compared with Model/Ticker.v;
    Coq oracles re-check the gate on every observed trace.
(b) level S: the same Ticker inside whole simulations (real schedulers and components on the in-memory bus), where the
    scheduler's own handlers feed answers and skips back into the ticker: every tick must complete (no participant
    raises, nothing stalls) and the run must agree with Model/Sim.v."""
import json

import sprops
import tprops
from common import run_shards

PID = "C01"


def s_part(ck, tier, rng):
    cases, _ = sprops.gen_single_cases(tier, rng, "callbacks")
    cases = cases[:{"quick": 120, "thorough": 500}[tier]]
    runs, terms = [], []
    for c in cases:
        r, term = sprops.run_case(c["cfg"], c["devs"], c["speed"], c["initial"], c["stim"])
        runs.append(r)
        terms.append(term)
    bad = run_shards(PID + "_sim", sprops.HEADER, "sim_case", "check_sim", terms, shard_size=12)
    skipped = 0
    for c, r in zip(cases, runs):
        ck.count("sim:" + json.dumps(sprops.describe(c), sort_keys=True), sprops.nontrivial(c, r))
    ck.coverage.update(whole_simulations=len(cases), whole_simulation_disagreements=len(bad))
    for i, (c, r) in enumerate(zip(cases, runs)):
        if r["error"] or r["errors"] or r["unfinished"]:
            d = sprops.describe(c)
            d.update(kind="single", codes=[99], error=r["error"], errors=r["errors"][:3], unfinished_ticks=r["unfinished"],
                     updates=[(cc, t) for (cc, t, _) in r["trace"]][:30])
            ck.report("tick-did-not-complete-in-a-whole-simulation",
                      "the ticker, driven by the real scheduler and components, is still waiting for answers of "
                      f"{r['unfinished']} when the simulation has gone idle (or a participant raised: {(r['errors'] or [r['error']])[0]})"[:400], d)
            return
    if bad and not ck.violations:
        i = min(bad)
        d = sprops.describe(cases[i])
        d.update(kind="single", codes=bad[i], broken="correspondence Model/Sim.v vs whole simulations; theorems of Props.C01")
        ck.report("correspondence-broken", "whole simulations disagree with Model/Sim.v but every tick completed", d, no_input=True)


def main(tier, seed):
    return tprops.main_T(PID, tier, seed, {11, 12, 16, 17, 18}, "Props.C01",
                         ["Model/Ticker.v", "Oracle/TickerOracle.v", "Proofs/TickerP.v", "Model/Sim.v", "Oracle/SimCheck.v", "Oracle/SimOracle.v",
                          "Props/C01.v"],
                         "glitch-free update order", extra=s_part)


def replay(rp):
    if rp.get("kind") == "single":
        cfg = {int(k): dict(order=[(c, (k2 if k2 == "dev" else int(k2))) for c, k2 in v["order"]],
                            conns=[tuple(x) for x in v["conns"]]) for k, v in rp["cfg"].items()}
        r, _ = sprops.run_case(cfg, {int(k): tuple(v) for k, v in rp["devs"].items()}, tuple(rp["speed"]), rp["initial"],
                               [tuple(x) for x in rp["stim"]])
        print("tickers still waiting for answers at the end:", r["unfinished"], "errors:", r["error"], r["errors"][:2])
        print("updates (device, time):", [(c, t) for (c, t, _) in r["trace"]][:30])
        return 1 if (r["unfinished"] or r["error"] or r["errors"]) else sprops.replay_S(rp)
    return tprops.replay_T(rp)
