"""Writes /verif/MANIFEST.json from the table below (kept in one place so it stays valid)."""
import json

CLAIMED = {
    "C20": dict(
        text="Coq theorems over the IoBox model for all histories (invisible writes, last-write-wins in the order inputs-then-pending, failing read of never-written addresses, echo replay along any history); model tied to the real IoBoxDevice by an exhaustive small-scope plus random correspondence evaluated by vm_compute on every run.",
        note="Trusted: Coq kernel + vm_compute, the harness that drives IoBoxDevice and renders cases, Python dict semantics (modelled as insertion-ordered association lists). Values are integers in the correspondence (the device is polymorphic).",
        technique="Coq proof (induction over operation histories) + model/implementation correspondence",
        ref="5/C20"),
}
CLAIMED["C16"] = dict(
    text="Coq theorems over the model of event_router.py for all wirings: both conversions preserve the connection set (from_inverse unconditionally; from_wiring for single-source input ports), both round trips, component-set preservation, route() delivers exactly along the wires, dependants = reflexive-transitive closure (cycles included). The model is tied to Wiring/InverseWiring/EventRouter by exhaustive small-scope and random correspondence on every run.",
    note="Trusted: Coq kernel + vm_compute, harness. Python dict/set semantics modelled as insertion-ordered association lists / duplicate-free lists compared as sets. The fuel bound of the model's breadth-first crawl (2+|connections|) is validated by the correspondence, the theorem is conditional on the crawl answering.",
    technique="Coq proof (fold invariants, induction on reachability) + model/implementation correspondence",
    ref="5/C16")
CLAIMED["C15"] = dict(
    text="Coq theorem over the model of the in-memory bus: for every handler behaviour publishing only to strictly higher topics and every history of subscribe/produce operations (each consumer subscribing to a topic at most once), after every operation each subscribed consumer has received exactly the topic's log in order and unsubscribed consumers nothing; produce appends exactly once; topic-name injectivity/disjointness proved over the prefix/suffix constants re-extracted from the source on every run. Model tied to InternalStateServer by exhaustive small-scope + random correspondence and a Coq oracle evaluated on the observed histories.",
    note="Trusted: Coq kernel + vm_compute, harness, constants translator. Handlers publishing to the topic being delivered (or cyclically) are outside the property and the theorem. Subscriber iteration order of CPython sets is pinned by giving consumers small integer hashes and verified on every case.",
    technique="Coq proof (invariant by induction on fuel/history with framing) + model/implementation correspondence",
    ref="5/C15")
CLAIMED["C01"] = dict(
    text="Coq theorems over the model of ticker.py for every wiring, root set and answer order (Run relation = all interleavings of answers): a component is dispatched only after every in-tick direct upstream has answered (C01_gate), nobody is dispatched or answers twice (C01_once), participants = reachability closure of the roots, invalid answers are rejected, progress and exact termination count for acyclic wirings, and the changes handed over are exactly the routed changes of all in-tick upstreams (C01_no_mixture). Tied to the real Ticker+EventRouter by exhaustive answer-order enumeration on small wirings, multi-tick histories and random DAGs; a Coq oracle re-checks the gate on every observed trace.",
    note="Trusted: Coq kernel + vm_compute, harness playing the components at the Ticker API (update_component/skip_component/propagate). The nested scheduler reuses the same Ticker class, so the theorem applies per scheduler; its composition across nesting levels is covered by the whole-simulation checks (C05/C09). asyncio task scheduling between create_task and the callback is exercised, not modelled.",
    technique="Coq proof (invariants over all answer interleavings) + model/implementation correspondence + Coq oracle on observed traces",
    ref="5/C01")
CLAIMED["C02"] = dict(
    text="Coq theorems: every dispatch of every run is an Input exactly when the component is a root or a wired input was reported changed this tick (with exactly those changes), a Skip otherwise; nothing outside the roots' closure is touched; at the end every participant was dispatched exactly once (C02_tick, C02_untouched, C02_all_participants_dispatched_once); DeviceComponent reports a port iff it differs from the previous report (C02_diff, C02_diff_history). Tied to Ticker and DeviceComponent by correspondence runs (all answer orders on small wirings; exhaustive omit/repeat/change histories of the device component).",
    note="Trusted: Coq kernel + vm_compute, harness (scripted device, probe adapters, recording producer). Python == on values is integer equality in the correspondence. Devices are assumed to return fresh mappings (a device mutating the dict it returned last time defeats last_outputs).",
    technique="Coq proof (invariants over all answer interleavings; filter characterisation) + model/implementation correspondence",
    ref="5/C02")
CLAIMED["C08"] = dict(
    text="Coq theorem C08_ticker_confluent: for deterministic components and an acyclic single-source wiring, any two runs of a tick under arbitrary answer orders dispatch every component with the same kind, time and changes (proved by induction on the rank of the wiring, using the gate and input-characterisation invariants); complete runs dispatch the same set. Tied to the real Ticker by running every answer order of small wirings and comparing all runs inside Coq (reason code 21).",
    note="Partial: the theorem is at ticker level (one scheduler). Delivery interleavings across a whole simulation with a broker-like bus are explored against the real schedulers by the S-level harness where built; the shipped Kafka classes are never executed (no broker in the sandbox) -- only the StateConsumer/StateProducer contract they implement is exercised.",
    technique="Coq proof (confluence by induction on wiring rank) + exhaustive answer-order correspondence",
    ref="5/C08")
NOT_YET = {}
ALL = [f"C{n:02d}" for n in range(1, 21)]


def main():
    checks = []
    for pid in ALL:
        if pid not in CLAIMED:
            continue
        c = CLAIMED[pid]
        checks.append(dict(
            property_id=pid,
            quick_cmd=f"bin/check {pid} --tier quick",
            thorough_cmd=f"bin/check {pid} --tier thorough",
            evidence_file=f"evidence/{pid}.json",
            replay_cmd_template="bin/replay {path}",
            engine="coq-proof+correspondence",
            level_claimed=dict(category="proof", text=c["text"], design_ref=c["ref"]),
            level_note=c["note"],
            technique=c["technique"],
        ))
    na = [dict(property_id=p, reason=NOT_YET.get(p, "check not built yet in this round; the design (DESIGN.md section 5) applies the same technique to it"))
          for p in ALL if p not in CLAIMED]
    m = dict(
        version=1,
        setup_cmd="bin/setup",
        hooks=dict(guard="TICKIT_VERIF", enable="no source hooks are used: the harness injects probe devices, state-interface classes and the clock through public constructor parameters and module attributes",
                   baseline_off_cmd="cd /repo && /venv/bin/python -m pytest -ra -q -p no:cacheprovider --timeout=900 --continue-on-collection-errors",
                   source_commits=[], add_only=True),
        engines=[dict(name="coq-proof+correspondence", path="coq/ harness/", serves_properties=sorted(CLAIMED),
                      kind_free_text="Coq 8.16 theorems over hand-written executable Gallina models; generated case files evaluated with vm_compute compare model and oracle with what the real tickit classes did")],
        checks=checks,
        notes="Known findings / repaired defects: known_findings.txt. Design: DESIGN.md.",
        not_applicable=na,
    )
    json.dump(m, open("/verif/MANIFEST.json", "w"), indent=1)


if __name__ == "__main__":
    main()
