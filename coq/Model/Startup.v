(* Start-up of components and schedulers on a bus that replays the backlog inside subscribe():
   the handler runs during the subscribe call, so everything it uses must have been created
   before.  The sequences themselves are extracted from the source (Gen/SourceConsts.v). *)
From TV Require Import Base Gen.SourceConsts.

(* what the replayed handlers use *)
Definition component_needs : list positive := [1%positive].                      (* handle_input -> state_producer *)
Definition scheduler_needs : list positive := [3; 1]%positive.                   (* handle_message -> ticker, state_producer *)
Definition master_needs : list positive := [3; 1; 4; 5]%positive.                (* + new_wakeup, time marks (schedule_interrupt) *)

Fixpoint safe_from (created : list positive) (needs : list positive) (l : list start_step) : bool :=
  match l with
  | [] => true
  | SCreate r :: t => safe_from (r :: created) needs t
  | SReplay :: t => forallb (fun n => memb n created) needs && safe_from created needs t
  end.
Definition replay_safe (needs : list positive) (l : list start_step) : bool := safe_from [] needs l.

(* the order of the pinned tree: consumer created and subscribed before the producer exists;
   the master creates new_wakeup only after the base set-up *)
Definition component_start_pinned : list start_step := [SCreate 2%positive; SReplay; SCreate 1%positive].
Definition master_start_pinned : list start_step :=
  [SCreate 3%positive; SCreate 2%positive; SReplay; SCreate 1%positive; SCreate 4%positive].
