(* C10 -- unconnected parts of a simulation never influence each other.
   Proved here, for every configuration and history:
   (1) topics: two components never share a topic, and no input topic is an output topic -- with the
       prefix / suffixes extracted from the current source (Gen/SourceConsts.v); the bus delivers per
       topic (C15), so messages of one component are never seen by another's handler;
   (2) frame: updating a device touches the state of that device only, and a component outside the
       extent of a tick (not a root, nothing upstream of it touched) is not touched at all;
   (3) whole ticks: a tick of a level (devices and system simulations) and the same tick of the
       level extended by a disconnected part X (any number of components with wires among themselves
       only, any behaviour, roots of the tick or not, placed anywhere in the order) give every old
       device the same observation, leave the same state, callbacks and outputs for everything
       outside X;
   (4) whole runs in simulation time, and in the real-time master model at speed 1, of a simulation
       whose top level holds devices and system simulations of any depth:
       [C10_run_noninterference], [C10_master_noninterference] below;
   (5) with interrupts ([C10_script_noninterference]): scripts of master ticks and interrupts -- of base
       components and of components of the added part alike, at any points between the ticks -- on the
       extended configuration are matched by the script of the same interrupts of base components and a
       subsequence of the ticks on the base configuration, under which every base device observes the same.
   PARTIAL: for a part added inside a system simulation, interrupts of devices inside system simulations and
   real-time pacing at other speeds, equality of every old device's observation sequence is decided per pair of runs of the
   real schedulers (code 91) and, for adapters / EPICS records, on the real adapter classes.
   Property theorems only. *)
From TV Require Import Base Gen.SourceConsts Model.Topics Model.Wiring Model.Ticker Model.Component Model.Sim
  Model.SimTime Proofs.TopicsP Proofs.SimP Proofs.FlattenP Proofs.NonInterfP Proofs.FrameP Proofs.AgreeP Proofs.NonInterfNestedP Proofs.NonInterfLoopP Proofs.SimTimeP Model.NSim Proofs.NonInterfScriptP.
Open Scope Z_scope.

Theorem C10_topics_disjoint : forall a b,
  (input_topic a = input_topic b -> a = b) /\
  (output_topic a = output_topic b -> a = b) /\
  input_topic a <> output_topic b.
Proof.
  intros a b. split; [apply input_topic_inj | split; [apply output_topic_inj|]].
  apply in_out_disjoint. exact consts_ok_now.
Qed.

Theorem C10_update_frame : forall devf s c time chg c',
  c' <> c ->
  let '(s', _, _, _) := dev_update devf s c time chg in
  lookup c' (s_dc s') = lookup c' (s_dc s) /\ lookup c' (s_n s') = lookup c' (s_n s) /\
  s_wake s' = s_wake s /\ s_int s' = s_int s.
Proof. intros devf. apply (dev_update_frame devf). Qed.

Theorem C10_outside_extent_untouched : forall devf inner lv conns time roots ext a ck,
  in_extent conns roots (ta_touched a) (fst ck) = false ->
  tick_step devf inner lv conns time roots ext a ck = a.
Proof. intros devf. apply (tick_step_outside devf). Qed.

(* [srel isX lv s s']: the two simulation states agree on every component outside X (device
   component state, update counters, pending callbacks of scheduler lv) *)
Theorem C10_tick_noninterference : forall cfg cfg' devf inner inner' (isX : comp -> bool) lv time roots roots' ext s s',
  let l := level_of cfg lv in
  let l' := level_of cfg' lv in
  l_order l = filter (fun ck : comp * ckind => negb (isX (fst ck))) (l_order l') ->
  l_conns l = filter (oldc isX) (l_conns l') ->
  (forall ck, In ck (l_order l') -> okkind inner' isX lv ck) ->
  (forall k, In k (l_conns l') -> isX (out_comp k) = isX (in_comp k)) ->
  isX ext_id = false -> isX exp_id = false ->
  (forall c, isX c = false -> memb c roots' = memb c roots) ->
  srel isX lv s s' ->
  let '(s1, out, ob) := tick_with cfg devf inner lv time roots ext s in
  let '(s1', out', ob') := tick_with cfg' devf inner' lv time roots' ext s' in
  srel isX lv s1 s1' /\ out' = out /\ filter (notX isX) ob' = ob.
Proof. exact tick_noninterference. Qed.

(* whole runs: the master in simulation time (Model/SimTime.v: initial tick, then always the earliest
   pending callbacks, up to a horizon; compared with the real-time master model on every generated
   case it applies to, code 55).  A simulation and the same simulation extended at the top level by a
   disconnected part X of ANY behaviour -- devices and whole system simulations nested to any depth,
   their own callbacks at any times, hence extra ticks and merged ticks -- : when the extended run is complete, so is the base run with the same number of
   steps, and every base device has observed exactly the same sequence of (time, inputs); the
   states of everything outside X agree. *)
Theorem C10_run_noninterference : forall cfg cfg' devf (isX : comp -> bool) (isXL : positive -> bool) fuel,
  l_order (level_of cfg top) = filter (fun ck : comp * ckind => negb (isX (fst ck))) (l_order (level_of cfg' top)) ->
  l_conns (level_of cfg top) = filter (oldc isX) (l_conns (level_of cfg' top)) ->
  (forall ck, In ck (l_order (level_of cfg' top)) -> nkind cfg cfg' isX isXL fuel ck) ->
  (forall k, In k (l_conns (level_of cfg' top)) -> isX (out_comp k) = isX (in_comp k)) ->
  isX ext_id = false -> isX exp_id = false -> isXL top = false ->
  forall n initial h s1' o1',
    sim_run cfg' devf n fuel initial h = (s1', o1', true) ->
    exists s1, sim_run cfg devf n fuel initial h = (s1, filter (notX isX) o1', true) /\ srel2 isX isXL top s1 s1'.
Proof. intros cfg cfg' devf isX isXL fuel Hord Hcon. exact (run_noninterference cfg cfg' devf isX isXL Hord Hcon fuel). Qed.

(* [nkind]: a component of the extended top level is a device; or a system simulation of the added
   part with its whole subtree (any depth); or a system simulation of the base, on whose subtree the
   two configurations coincide.  [isX] marks the components, [isXL] the scheduler levels of the added
   part.  Two structural facts about the nested model carry the proof: a nested tick touches only its
   own subtree, and depends only on its own subtree's part of the state: *)
Theorem C10_system_footprint : forall cfg devf f lv time chg s,
  let '(s2, _, _, ob) := on_tick_level cfg devf f lv time chg s in
  framed (devices_below cfg f lv) (levels_below cfg f lv) s s2 ob.
Proof. exact on_tick_level_framed. Qed.

Theorem C10_system_depends_on_subtree_only : forall cfg cfg' devf f lv, same_below cfg cfg' f lv -> forall time chg s s',
  agree (devices_below cfg f lv) (levels_below cfg f lv) s s' ->
  let '(s2, o, ca, ob) := on_tick_level cfg devf f lv time chg s in
  let '(s2', o', ca', ob') := on_tick_level cfg' devf f lv time chg s' in
  o' = o /\ ca' = ca /\ ob' = ob /\ agree (devices_below cfg f lv) (levels_below cfg f lv) s2 s2'.
Proof. exact on_tick_level_agree. Qed.

(* the same for the master model with real time (Model/Sim.v [simulate_full], the model every
   whole-simulation run of the real schedulers is compared with), at speed 1, no interrupts, devices
   that never ask to be called back in the past: the simulation-time loop IS that model for every
   configuration, nested or not ([master_is_sim_loop]), so whenever the extended run is complete
   within the given steps every base device observes in the base simulation exactly what it
   observes in the extended one *)
Theorem C10_master_noninterference : forall cfg cfg' devf (isX : comp -> bool) (isXL : positive -> bool) fuel,
  l_order (level_of cfg top) = filter (fun ck : comp * ckind => negb (isX (fst ck))) (l_order (level_of cfg' top)) ->
  l_conns (level_of cfg top) = filter (oldc isX) (l_conns (level_of cfg' top)) ->
  (forall ck, In ck (l_order (level_of cfg' top)) -> nkind cfg cfg' isX isXL fuel ck) ->
  (forall k, In k (l_conns (level_of cfg' top)) -> isX (out_comp k) = isX (in_comp k)) ->
  isX ext_id = false -> isX exp_id = false -> isXL top = false ->
  (forall c n t i w, snd (devf c n t i) = Some w -> t <= w) ->
  forall n initial t_end,
    snd (sim_run cfg' devf n fuel initial (initial + t_end)) = true ->
    filter (notX isX) (m_obs (simulate_full cfg' devf 1 1 fuel n initial [] [] t_end)) =
    m_obs (simulate_full cfg devf 1 1 fuel n initial [] [] t_end).
Proof.
  intros cfg cfg' devf isX isXL fuel Hord Hcon Hxk Hsep Hext Hexp Htop Hwell n initial t_end Hfin.
  pose proof (master_is_sim_loop cfg' devf Hwell fuel initial t_end n) as H'.
  pose proof (master_is_sim_loop cfg devf Hwell fuel initial t_end n) as H.
  cbv zeta in H, H'.
  destruct (sim_run cfg' devf n fuel initial (initial + t_end)) as [[s1' o1'] fin'] eqn:E'.
  cbn [snd] in Hfin. subst fin'.
  destruct (run_noninterference cfg cfg' devf isX isXL Hord Hcon fuel Hxk Hsep Hext Hexp Htop n initial (initial + t_end) s1' o1' E') as [s1 [E _]].
  rewrite E in H. destruct H as [_ H]. destruct H' as [_ H']. rewrite H, H'. reflexivity.
Qed.

(* (5) with interrupts of top-level components between the ticks, of the base and of the added part *)
Theorem C10_script_noninterference : forall cfg cfg' devf (isX : comp -> bool) (isXL : positive -> bool) fuel,
  l_order (level_of cfg top) = filter (fun ck : comp * ckind => negb (isX (fst ck))) (l_order (level_of cfg' top)) ->
  l_conns (level_of cfg top) = filter (oldc isX) (l_conns (level_of cfg' top)) ->
  (forall ck, In ck (l_order (level_of cfg' top)) -> nkind cfg cfg' isX isXL fuel ck) ->
  (forall k, In k (l_conns (level_of cfg' top)) -> isX (out_comp k) = isX (in_comp k)) ->
  isX ext_id = false -> isX exp_id = false -> isXL top = false ->
  forall initial script',
  exists script, sub_script isX script script' /\
    snd (sim_script_from_start cfg devf fuel initial script) =
    filter (notX isX) (snd (sim_script_from_start cfg' devf fuel initial script')).
Proof.
  intros cfg cfg' devf isX isXL fuel Hord Hcon Hxk Hsep Hext Hexp Htop initial script'.
  exact (script_noninterference cfg cfg' devf isX isXL Hord Hcon fuel Hxk Hsep Hext Hexp Htop initial script').
Qed.

(* non-vacuity: the chain 3 -> 4 extended by 7 -> 8; interrupts of 4 (base) and 8 (added) and of both sources *)
Example C10_script_example :
  let dev : devfun := fun c n t inp => ([(1%positive, Zpos c + n)], if Pos.eqb c 3 then Some (t + 10) else if Pos.eqb c 7 then Some (t + 4) else None) in
  let l := {| l_order := [(3%positive, KDev); (4%positive, KDev)]; l_conns := [(3, 1, 4, 1)%positive] |} in
  let l' := {| l_order := [(7%positive, KDev); (3%positive, KDev); (8%positive, KDev); (4%positive, KDev)];
               l_conns := [(7, 1, 8, 1); (3, 1, 4, 1)]%positive |} in
  let sc' := [ITick; IStim 8%positive 5; IStim 4%positive 6; ITick; ITick; ITick; IStim 7%positive 9; ITick; ITick; ITick] in
  let sc := [IStim 4%positive 6; ITick; ITick] in
  sub_script (fun c => Pos.leb 7 c) sc sc' /\
  snd (sim_script_from_start [(1%positive, l)] dev 1 0 sc) =
  filter (notX (fun c => Pos.leb 7 c)) (snd (sim_script_from_start [(1%positive, l')] dev 1 0 sc')) /\
  length (snd (sim_script_from_start [(1%positive, l)] dev 1 0 sc)) = 5%nat.
Proof.
  split; [|vm_compute; split; reflexivity].
  apply ss_tick_drop. apply ss_stim_new; [reflexivity|]. apply ss_stim_old; [reflexivity|].
  apply ss_tick_drop. apply ss_tick_keep. apply ss_tick_drop. apply ss_stim_new; [reflexivity|]. apply ss_tick_drop. apply ss_tick_keep. apply ss_tick_drop. constructor.
Qed.

(* non-vacuity of the run theorem: base 3 -> 4 (3 periodic every 10), extended by 7 -> 8 with 7
   periodic every 4: extra ticks at 4, 8, 12, 16 and a merged tick at 20 *)
Example C10_run_example :
  let dev : devfun := fun c n t inp => ([(1%positive, Zpos c + n)], if Pos.eqb c 3 then Some (t + 10) else if Pos.eqb c 7 then Some (t + 4) else None) in
  let l := {| l_order := [(3%positive, KDev); (4%positive, KDev)]; l_conns := [(3, 1, 4, 1)%positive] |} in
  let l' := {| l_order := [(7%positive, KDev); (3%positive, KDev); (8%positive, KDev); (4%positive, KDev)];
               l_conns := [(7, 1, 8, 1); (3, 1, 4, 1)]%positive |} in
  let '(_, ob, fin) := sim_run [(1%positive, l)] dev 50 1 0 20 in
  let '(_, ob', fin') := sim_run [(1%positive, l')] dev 50 1 0 20 in
  fin = true /\ fin' = true /\ filter (notX (fun c => Pos.leb 7 c)) ob' = ob /\ length ob = 6%nat /\ length ob' = 18%nat.
Proof. vm_compute. repeat split; reflexivity. Qed.

(* non-vacuity: a chain 3 -> 4 extended by the disconnected pair 7 -> 8, both 3 and 7 roots *)
Example C10_example :
  let dev : devfun := fun c n t inp => ([(1%positive, Zpos c + n)], None) in
  let l := {| l_order := [(3%positive, KDev); (4%positive, KDev)]; l_conns := [(3, 1, 4, 1)%positive] |} in
  let l' := {| l_order := [(7%positive, KDev); (3%positive, KDev); (8%positive, KDev); (4%positive, KDev)];
               l_conns := [(7, 1, 8, 1); (3, 1, 4, 1)]%positive |} in
  let '(_, _, ob) := tick_with [(1%positive, l)] dev (fun _ _ _ s => (s, [], None, [])) 1 5 [3%positive] [] s_init in
  let '(_, _, ob') := tick_with [(1%positive, l')] dev (fun _ _ _ s => (s, [], None, [])) 1 5 [7%positive; 3%positive] [] s_init in
  filter (notX (fun c => Pos.leb 7 c)) ob' = ob /\ length ob = 2%nat /\ length ob' = 4%nat.
Proof. vm_compute. repeat split; reflexivity. Qed.

(* non-vacuity with nesting on both sides: the base is 3 -> [system 4 (level 5): device 6 -> exposed] -> 11;
   the added part is the system 7 (level 2) with the periodic device 8 and the inner system 9 (level 3) with
   device 10 *)
Example C10_nested_example :
  let dev : devfun := fun c n t inp => ([(1%positive, Zpos c + n)],
                        if Pos.eqb c 3 then Some (t + 10) else if Pos.eqb c 8 then Some (t + 4) else if Pos.eqb c 10 then Some (t + 7)
                        else if Pos.eqb c 6 then Some (t + 6) else None) in
  let base_top := {| l_order := [(3%positive, KDev); (4%positive, KSys 5); (11%positive, KDev)]; l_conns := [(3, 1, 4, 1); (4, 1, 11, 1)]%positive |} in
  let inner5 := {| l_order := [(6%positive, KDev)]; l_conns := [(1, 1, 6, 1); (6, 1, 2, 1)]%positive |} in
  let cfg := [(1%positive, base_top); (5%positive, inner5)] in
  let cfg' := [(1%positive, {| l_order := [(7%positive, KSys 2); (3%positive, KDev); (4%positive, KSys 5); (11%positive, KDev)];
                              l_conns := [(3, 1, 4, 1); (4, 1, 11, 1)]%positive |});
               (5%positive, inner5);
               (2%positive, {| l_order := [(8%positive, KDev); (9%positive, KSys 3)]; l_conns := [] |});
               (3%positive, {| l_order := [(10%positive, KDev)]; l_conns := [] |})] in
  let isX := fun c => Pos.leb 7 c && Pos.leb c 10 in
  let isXL := fun l => Pos.eqb l 2 || Pos.eqb l 3 in
  (forall ck, In ck (l_order (level_of cfg' top)) -> nkind cfg cfg' isX isXL 4 ck) /\
  let '(_, ob, fin) := sim_run cfg dev 60 4 0 20 in
  let '(_, ob', fin') := sim_run cfg' dev 60 4 0 20 in
  fin = true /\ fin' = true /\ filter (notX isX) ob' = ob /\ (length ob > 6)%nat /\ (length ob' > length ob)%nat.
Proof.
  split.
  - intros ck [E|[E|[E|[E|[]]]]]; subst ck; unfold nkind; cbn [snd fst]; try exact I.
    + left. split; [reflexivity|]. split; vm_compute.
      * intros d [E|[E|[]]]; subst d; reflexivity.
      * intros l [E|[E|[]]]; subst l; reflexivity.
    + right. split; [reflexivity|]. split; [vm_compute; intros d [E|[]]; subst d; reflexivity|]. split.
      * vm_compute. intros l [E|[]]. subst l. split; [reflexivity | discriminate].
      * cbn. split; [reflexivity|]. intros c lv' [E|[]]. discriminate.
  - vm_compute. repeat split; try reflexivity; lia.
Qed.
