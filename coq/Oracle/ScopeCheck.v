(* Not a check: marks the generated pairs whose nested configuration lies in the scope of the
   whole-run inlining theorems of Props/C09.v -- some top-level system simulation of devices can be
   replaced by its contents, the other top-level components being devices or system simulations of
   any depth ([shape_at], decided for the fuel the model runs with).  Kept apart from
   Oracle/SimOracle.v so that the oracles do not depend on the proof files. *)
From TV Require Import Base Model.Wiring Model.Ticker Model.Component Model.Sim Oracle.SimCheck Oracle.SimOracle
  Proofs.InlineScopeP.
Open Scope Z_scope.

Definition in_inline_scope_general (p : pair_case) : list Z :=
  let cfg := sc_cfg (fst p) in
  if existsb (fun ck : comp * ckind => match shape_at cfg 8 (fst ck) with Some _ => true | None => false end)
             (l_order (level_of cfg 1%positive))
  then [1] else [].
