(* The scope of the nested schedule-independence theorem (Proofs/NDetP.v), decided: [subtree_okb cfg f lv] computes
   [subtree_ok cfg f lv] -- levels and devices of the subtree are named once, every level lists its components once,
   under real identifiers, in a topological order of its single-source wiring. *)
From TV Require Import Base Model.Wiring Model.Ticker Model.Component Model.Sim Model.SimTime Model.Inline Model.NSim Model.NNSim
  Proofs.WiringP Proofs.TickerP Proofs.SimP Proofs.InlineScopeP Proofs.NDetP.
Open Scope Z_scope.

Definition level_okb (cfg : config) (l : positive) : bool :=
  let lvl := level_of cfg l in
  nodupb (keys (l_order lvl))
  && forallb (fun ck : comp * ckind => negb (Pos.eqb (fst ck) ext_id) && negb (Pos.eqb (fst ck) exp_id)) (l_order lvl)
  && single_sourceb (l_conns lvl)
  && forallb (fun k : conn => Nat.ltb (idx (out_comp k) (lcomps lvl)) (idx (in_comp k) (lcomps lvl))) (l_conns lvl).

Definition subtree_okb (cfg : config) (f : nat) (lv : positive) : bool :=
  nodupb (levels_below cfg f lv) && nodupb (devices_below cfg f lv) && forallb (level_okb cfg) (levels_below cfg f lv).

Lemma level_okb_sound cfg l : level_okb cfg l = true -> level_ok cfg l.
Proof.
  unfold level_okb. intros H.
  apply andb_true_iff in H. destruct H as [H K4]. apply andb_true_iff in H. destruct H as [H K3].
  apply andb_true_iff in H. destruct H as [K1 K2].
  split; [apply nodupb_NoDup; exact K1|]. split; [|split].
  - intros c k Hi. pose proof (proj1 (forallb_forall _ _) K2 _ Hi) as Hb. cbn [fst] in Hb.
    apply andb_true_iff in Hb. destruct Hb as [B1 B2]. split.
    + intros E. subst c. rewrite Pos.eqb_refl in B1. discriminate.
    + intros E. subst c. rewrite Pos.eqb_refl in B2. discriminate.
  - apply single_sourceb_sound. exact K3.
  - intros k Hk. pose proof (proj1 (forallb_forall _ _) K4 _ Hk) as Hb. apply Nat.ltb_lt in Hb. exact Hb.
Qed.

Lemma subtree_okb_sound cfg f lv : subtree_okb cfg f lv = true -> subtree_ok cfg f lv.
Proof.
  unfold subtree_okb. intros H.
  apply andb_true_iff in H. destruct H as [H K3]. apply andb_true_iff in H. destruct H as [K1 K2].
  split; [apply nodupb_NoDup; exact K1|]. split; [apply nodupb_NoDup; exact K2|].
  intros l Hl. apply level_okb_sound. apply (proj1 (forallb_forall _ _) K3 _ Hl).
Qed.
