"""C15 -- the in-memory bus delivers per topic, in order, exactly once, with replay; distinct
components never share a topic.
Correspondence: the real InternalStateServer/Consumer/Producer are driven with histories of
subscribe/produce operations (handlers publishing re-entrantly to higher topics); logs and
per-consumer received sequences are compared inside Coq with Model/Bus.v and checked by the
Coq oracle; input_topic/output_topic are compared with the constants extracted from the source."""
import asyncio
import itertools
import json
import random

from common import BuildError, Check, P, Zr, L, T, run_shards

PID = "C15"
HEADER = "From TV Require Import Base Model.Bus Model.Topics.\nFrom Coq Require Import String Ascii."
BUS_HEADER = "From TV Require Import Base Model.Bus."


def reset_server():
    from tickit.core.state_interfaces.internal import InternalStateServer
    server = InternalStateServer()
    server._topics.clear()
    server._subscribers.clear()


# how the topic numbers of a history are spelt on the real bus: topics are arbitrary strings (they embed component names),
# so names that look like shell patterns or prefixes of one another are topics like any other
NAMINGS = {
    "plain": lambda t: f"t{t}",
    "glob": lambda t: ["t1", "t[1]", "t?", "t*", "t[!x]", "?1", "*"][t - 1],
    "nested": lambda t: "t" + "1" * t,
}


def run_bus(tab, ops, lifetimes=False, naming="plain"):
    """tab: {(consumer, value): [(topic, value), ...]}; ops: ('S', c, [topics]) | ('P', t, value)
    lifetimes: nobody but the bus's own users refers to the server; every message is produced by a producer of
    its own which is dropped afterwards (a one-shot publisher), the garbage collector runs between operations --
    what was published must still be replayed to whoever subscribes later"""
    import gc
    from tickit.core.state_interfaces.internal import (InternalStateConsumer, InternalStateProducer,
                                                        InternalStateServer)

    reset_server()
    recv = {}
    consumers = {}
    order_ok = True
    nm = NAMINGS[naming]
    back = {nm(t): t for t in range(1, 8)}
    assert len(back) == 7

    class HC(InternalStateConsumer):
        def __init__(self, idx, cb):
            super().__init__(cb)
            self.idx = idx

        def __hash__(self):
            return self.idx

        def __eq__(self, other):
            return self is other

    # the callback only gets the value; topic of a value is fixed by construction
    topic_of = {}
    for o in ops:
        if o[0] == "P":
            topic_of[o[2]] = o[1]
    for outs in tab.values():
        for t, v in outs:
            topic_of[v] = t

    async def main():
        prod = None if lifetimes else InternalStateProducer()

        async def produce(topic, v):
            if lifetimes:
                await InternalStateProducer().produce(topic, v)
            else:
                await prod.produce(topic, v)

        def mk(c):
            async def cb(value):
                recv.setdefault(c, []).append((topic_of[value], value))
                for t, v in tab.get((c, value), []):
                    await produce(nm(t), v)
            return cb

        for o in ops:
            if o[0] == "S":
                c = o[1]
                if lifetimes and not consumers:
                    gc.collect()
                if c not in consumers:
                    consumers[c] = HC(c, mk(c))
                    recv.setdefault(c, [])
                await consumers[c].subscribe([nm(t) for t in o[2]])
            else:
                await produce(nm(o[1]), o[2])

    asyncio.run(main())
    server = InternalStateServer()
    logs = {back[t]: [m.value for m in ms] for t, ms in server._topics.items()}
    subs = {back[t]: [c.idx for c in s] for t, s in server._subscribers.items() if s}
    for t, s in subs.items():
        if s != sorted(s):
            order_ok = False
    return dict(logs=logs, recv=recv, subs=subs, order_ok=order_ok)


def r_tm(l): return L(T(P(t), Zr(v)) for t, v in l)


def render(tab, ops, o):
    # a consumer cannot legitimately receive more than every message once: a longer list is cut (it differs from the
    # model's anyway) so that a runaway implementation yields a comparison, not a term Coq cannot read
    cap = 4 * (sum(1 for x in ops if x[0] == "P") + sum(len(v) for v in tab.values())) + 50
    o = dict(o, recv={c: ms[:cap] for c, ms in o["recv"].items()}, logs={t: ms[:cap] for t, ms in o["logs"].items()})
    rtab = L(T(P(c), Zr(v), r_tm(outs)) for (c, v), outs in tab.items())
    rops = L(f"Subscribe {P(x[1])} {L(P(t) for t in x[2])}" if x[0] == "S" else f"Produce {P(x[1])} {Zr(x[2])}" for x in ops)
    obs = "{| o_logs := %s; o_recv := %s; o_subs := %s |}" % (
        L(T(P(t), L(Zr(v) for v in ms)) for t, ms in sorted(o["logs"].items())),
        L(T(P(c), r_tm(ms)) for c, ms in sorted(o["recv"].items())),
        L(T(P(t), L(P(c) for c in cs)) for t, cs in sorted(o["subs"].items())))
    return T(rtab, rops, obs)


def valid(ops):
    seen = set()
    for o in ops:
        if o[0] == "S":
            if len(set(o[2])) != len(o[2]):
                return False
            for t in o[2]:
                if (o[1], t) in seen:
                    return False
                seen.add((o[1], t))
    return True


def number(ops):
    out, n = [], 0
    for o in ops:
        if o[0] == "P":
            n += 1
            out.append(("P", o[1], n))
        else:
            out.append(o)
    return out


def gen_table(rng, ops, ntopics, nconsumers, p=0.5, cyclic=False):
    """cyclic: a handler may publish to ANY topic, its own and lower ones included (A -> B -> A ...); the chains end because
    every published value is new and at most 5 handler entries are made"""
    tab = {}
    nxt = [1000]
    frontier = [(o[1], o[2]) for o in ops if o[0] == "P"]
    while frontier:
        t, v = frontier.pop()
        for c in range(1, nconsumers + 1):
            if cyclic:
                if len(tab) < 5 and rng.random() < p:
                    outs = []
                    for _ in range(rng.randint(1, 2)):
                        nxt[0] += 1
                        t2 = rng.choice([x for x in range(1, ntopics + 1) if x != t])      # another topic, higher or lower
                        outs.append((t2, nxt[0]))
                        frontier.append((t2, nxt[0]))
                    tab[(c, v)] = outs
            elif t < ntopics and rng.random() < p:
                outs = []
                for _ in range(rng.randint(1, 2)):
                    nxt[0] += 1
                    t2 = rng.randint(t + 1, ntopics)
                    outs.append((t2, nxt[0]))
                    frontier.append((t2, nxt[0]))
                tab[(c, v)] = outs
    return tab


def gen_cases(tier, rng):
    cases = []
    alphabet = [("S", c, [t]) for c in (1, 2) for t in (1, 2)] + [("S", c, ts) for c in (1, 2) for ts in ([1, 2], [2, 1])]
    alphabet += [("P", 1), ("P", 2)]
    maxlen = 4 if tier == "quick" else 5
    n_ex = 0
    for n in range(1, maxlen + 1):
        for seq in itertools.product(alphabet, repeat=n):
            if not valid(seq):
                continue
            ops = number(seq)
            # two handler families: none, and "everybody forwards topic 1 messages to topic 2"
            cases.append(({}, ops))
            fwd = {(c, o[2]): [(2, 100 * c + o[2])] for o in ops if o[0] == "P" and o[1] == 1 for c in (1, 2)}
            if fwd:
                cases.append((fwd, ops))
            n_ex += 1
    for _ in range(1500 if tier == "quick" else 20000):
        nt, nc = rng.randint(2, 5), rng.randint(1, 4)
        ops, seen = [], set()
        for _ in range(rng.randint(1, 60 if rng.random() < 0.15 else 14)):
            if rng.random() < 0.35:
                c = rng.randint(1, nc)
                free = [t for t in range(1, nt + 1) if (c, t) not in seen]
                if free:
                    ts = rng.sample(free, rng.randint(1, len(free)))
                    seen.update((c, t) for t in ts)
                    ops.append(("S", c, ts))
                    continue
            ops.append(("P", rng.randint(1, nt)))
        ops = number(ops)
        cases.append((gen_table(rng, ops, nt, nc, rng.choice([0.0, 0.3, 0.7])), ops))
    # handlers that publish back to the topic they were called for or to lower ones (publish cycles), then late subscribers
    for _ in range(300 if tier == "quick" else 4000):
        nt, nc = rng.randint(2, 3), rng.randint(1, 3)
        ops, seen = [], set()
        for _ in range(rng.randint(2, 8)):
            if rng.random() < 0.45:
                c = rng.randint(1, nc + 1)
                free = [t for t in range(1, nt + 1) if (c, t) not in seen]
                if free:
                    ts = rng.sample(free, rng.randint(1, len(free)))
                    seen.update((c, t) for t in ts)
                    ops.append(("S", c, ts))
                    continue
            ops.append(("P", rng.randint(1, nt)))
        ops = number(ops)
        cases.append((gen_table(rng, ops, nt, nc, 0.5, cyclic=True), ops))
    return cases, n_ex, maxlen


# ---- topic naming
SPECIAL = [" ", "/", ":", "_", ".", "-", "+", "#"]


def gen_names(rng, n):
    base = ["a", "b", "dev", "dev-in", "dev-out", "tickit-", "tickit-a-in", "x-in-out", "-in", "-out", "in", "out",
            "sink 1", "sink_1", "sink/1", "a.b", "a:b", "expose", "external"]
    names = list(base)
    alpha = "ab-inoutck_ /:."
    for _ in range(n):
        names.append("".join(rng.choice(alpha) for _ in range(rng.randint(1, 8))))
    for _ in range(n // 2):
        b = rng.choice(names)
        i = rng.randrange(len(b))
        names.append(b[:i] + rng.choice(SPECIAL) + b[i + 1:])
    return names


def coq_str(s):
    assert all(32 <= ord(c) < 127 for c in s)
    return 'list_ascii_of_string "' + s.replace('"', '""') + '"'


def topic_cases(rng, n):
    from tickit.utils.topic_naming import input_topic, output_topic

    names = gen_names(rng, n)
    pairs = []
    for _ in range(n):
        a, b = rng.choice(names), rng.choice(names)
        pairs.append((a, b))
    for i in range(0, len(names) - 1, 2):
        pairs.append((names[i], names[i + 1]))
    out = []
    for a, b in pairs:
        out.append((a, b, input_topic(a), output_topic(a), input_topic(b), output_topic(b)))
    try:
        input_topic("")
        empty_ok = True
    except ValueError:
        empty_ok = False
    return out, empty_ok


def topic_collision():
    """exhaustive over short names with separator-like characters and over realistic names that differ in one
    such character: two distinct names sharing a topic, or an input topic that is some output topic"""
    from tickit.utils.topic_naming import input_topic, output_topic
    alpha = ["a", "b", "_", ":", " ", "/", ".", "-", "+", "#", "A", "1"]
    names = list(alpha) + [x + y for x in alpha for y in alpha]
    for stem in ("rack{}psu", "a{}b{}c", "dev{}1", "{}in", "x{}out", "tickit{}a"):
        for c in ["_", ":", " ", "/", ".", "-"]:
            names.append(stem.replace("{}", c))
    seen_in, seen_out = {}, {}
    for n in names:
        try:
            i, o = input_topic(n), output_topic(n)
        except Exception:  # noqa  -- a rejected name has no topic
            continue
        if i in seen_in:
            return seen_in[i], n, f"both read their inputs from topic {i!r}"
        if o in seen_out:
            return seen_out[o], n, f"both publish on topic {o!r}"
        seen_in[i], seen_out[o] = n, n
    for i, n in seen_in.items():
        if i in seen_out:
            return n, seen_out[i], f"input topic of the first is the output topic of the second ({i!r})"
    return None


def render_topic(tc):
    return T(*[coq_str(x) for x in tc])


REASONS = {1: "logs-differ-from-model", 2: "received-sequences-differ-from-model", 3: "subscriber-order-differs",
           20: "not-exactly-once-in-order", 31: "topic-name-differs-from-model", 32: "topics-of-distinct-components-collide"}


def evaluate(cases, lifetimes=False, naming="plain"):
    obs = [run_bus(tab, ops, lifetimes, naming) for tab, ops in cases]
    terms = [render(tab, ops, o) for (tab, ops), o in zip(cases, obs)]
    return obs, run_shards(PID, BUS_HEADER, "case", "check", terms, shard_size=500)


def nontrivial(tab, ops, o):
    """some message was produced before a later subscription (replay) or a handler published"""
    produced = False
    for x in ops:
        if x[0] == "P":
            produced = True
        elif produced:
            return True
    return bool(tab)


def main(tier, seed):
    ck = Check(PID, tier, seed, "Props.C15", ["Model/Bus.v", "Model/Topics.v", "Proofs/BusP.v", "Proofs/TopicsP.v", "Props/C15.v"])
    ck.build_and_audit()
    rng = random.Random(seed)
    cases, n_ex, maxlen = gen_cases(tier, rng)
    ck.rule = (f"every valid history of <= {maxlen} operations over 2 topics x 2 consumers (subscribe to one topic, to both in "
               f"either order, produce) enumerated exhaustively ({n_ex}), each without handlers and with forwarding handlers, "
               "plus seeded random histories (<=60 ops, 5 topics, 4 consumers, random re-entrant handler tables publishing to "
               "higher topics); topic functions on generated name pairs incl. names containing the prefix/suffixes and special "
               "characters; non-trivial = has a replay (subscribe after produce) or a publishing handler")
    obs, bad = evaluate(cases)
    # the same histories with one-shot producers and no outside reference to the server (object lifetimes must not
    # decide what is replayed): the enumerated ones and a sample of the random ones
    lt_cases = cases[:2 * n_ex][::3] + cases[2 * n_ex:][:300]
    lt_obs, lt_bad = evaluate(lt_cases, lifetimes=True)
    ck.evaluations += len(lt_cases)
    ck.coverage["histories_with_one_shot_producers"] = len(lt_cases)
    for i in sorted(lt_bad):
        tab, ops = lt_cases[i]
        ck.report(REASONS[lt_bad[i][0]] + "-with-one-shot-producers", f"InternalStateServer with short-lived producers: {REASONS[lt_bad[i][0]]}",
                  dict(kind="bus", lifetimes=True, handlers=[[c, v, outs] for (c, v), outs in tab.items()], ops=ops, observed=lt_obs[i], codes=lt_bad[i]))
        break
    # the same histories with topic names that are shell patterns / prefixes of one another (a topic is an arbitrary string),
    # and long histories: thousands of messages on one topic, then late subscribers (nothing may be forgotten)
    for naming in ("glob", "nested"):
        nm_cases = cases[:2 * n_ex][::5] + cases[2 * n_ex:][:250]
        nm_obs, nm_bad = evaluate(nm_cases, naming=naming)
        ck.evaluations += len(nm_cases)
        ck.coverage[f"histories_with_{naming}_topic_names"] = len(nm_cases)
        for i in sorted(nm_bad):
            tab, ops = nm_cases[i]
            ck.report(REASONS[nm_bad[i][0]] + "-with-pattern-like-topic-names", f"InternalStateServer with topics named {[NAMINGS[naming](t) for t in range(1, 6)]}: {REASONS[nm_bad[i][0]]}",
                      dict(kind="bus", naming=naming, handlers=[[c, v, outs] for (c, v), outs in tab.items()], ops=ops, observed=nm_obs[i], codes=nm_bad[i]))
            break
    nlong = 2500 if tier == "quick" else 12000
    long_ops = number([("S", 1, [1])] + [("P", 1 + (k % 7 == 3)) for k in range(nlong)] + [("S", 2, [1, 2]), ("P", 1), ("S", 3, [2]), ("P", 2)])
    lg_obs, lg_bad = evaluate([({}, long_ops)])
    ck.evaluations += 1
    ck.coverage["long_history_messages"] = nlong
    for i in sorted(lg_bad):
        ck.report(REASONS[lg_bad[i][0]] + "-in-a-long-history", f"InternalStateServer after {nlong} messages: a late subscriber is not replayed the whole log ({REASONS[lg_bad[i][0]]})",
                  dict(kind="bus", long=nlong, codes=lg_bad[i], replayed_to_late_subscriber=len(lg_obs[0]["recv"].get(2, []))))
    for (tab, ops), o in zip(cases, obs):
        ck.count(json.dumps([sorted((list(k), v) for k, v in tab.items()), ops]), nontrivial(tab, ops, o))
        if not o["order_ok"]:
            ck.report("harness-set-order", "CPython set iteration order assumption of the harness failed", dict(ops=ops, observed=o))
    ck.sample(dict(handlers={f"{c}:{v}": outs for (c, v), outs in cases[-1][0].items()}, ops=cases[-1][1], observed=obs[-1]))
    done = set()
    for i in sorted(bad):
        for code in bad[i]:
            if code in done:
                continue
            done.add(code)
            tab, ops = cases[i]
            ck.report(REASONS[code], f"InternalStateServer: {REASONS[code]}",
                      dict(kind="bus", handlers=[[c, v, outs] for (c, v), outs in tab.items()], ops=ops, observed=obs[i], codes=bad[i]))
    # topic naming
    tcs, empty_ok = topic_cases(rng, 300 if tier == "quick" else 3000)
    try:
        tbad = run_shards(PID + "_topics", HEADER, "topic_case", "check_topic", [render_topic(t) for t in tcs], shard_size=400)
    except BuildError as e:
        # the topic model no longer compiles against the constants of the current source (the proof is already
        # reported as broken): search the implementation itself for two names that now share a topic
        tbad = {}
        ck.proof_broken.append("topic model cannot be evaluated: " + str(e)[:300])
    hit = topic_collision()
    if hit:
        done.add(32)
        ck.report(REASONS[32], f"topic naming: {hit[2]} for component names {hit[0]!r} and {hit[1]!r}",
                  dict(kind="topic", names=[hit[0], hit[1]], what=hit[2]))
    for t in tcs:
        ck.count("topic:" + t[0] + "|" + t[1], t[0] != t[1])
    ck.sample(dict(topic_case=tcs[0]))
    if empty_ok:
        ck.report("empty-name-accepted", "input_topic('') no longer rejects the empty component name", dict(kind="topic", names=["", ""]))
    for i in sorted(tbad):
        for code in tbad[i]:
            if code in done:
                continue
            done.add(code)
            ck.report(REASONS[code], f"topic naming: {REASONS[code]} for names {tcs[i][0]!r}, {tcs[i][1]!r}",
                      dict(kind="topic", names=list(tcs[i][:2]), topics=list(tcs[i][2:]), codes=tbad[i]))
    ck.coverage.update(exhaustive=True, exhaustive_cases=n_ex, disagreements=len(bad) + len(tbad), topic_pairs=len(tcs),
                       with_handlers=sum(1 for t, _ in cases if t), max_ops=max(len(o) for _, o in cases))
    return ck.finish()


def replay(rp):
    if rp.get("kind") == "topic":
        from tickit.utils.topic_naming import input_topic, output_topic
        a, b = rp["names"]
        if a == b == "":
            try:
                input_topic("")
                print("input_topic('') is accepted")
                return 1
            except ValueError:
                return 0
        print(a, b, input_topic(a), output_topic(a), input_topic(b), output_topic(b))
        clash = a != b and (input_topic(a) == input_topic(b) or output_topic(a) == output_topic(b))
        return 1 if clash or input_topic(a) == output_topic(b) or input_topic(b) == output_topic(a) else 0
    if rp.get("long"):
        nlong = rp["long"]
        ops = number([("S", 1, [1])] + [("P", 1 + (k % 7 == 3)) for k in range(nlong)] + [("S", 2, [1, 2]), ("P", 1), ("S", 3, [2]), ("P", 2)])
        obs, bad = evaluate([({}, ops)])
        print(f"{nlong} messages, then consumer 2 subscribes to both topics: it is replayed {len(obs[0]['recv'].get(2, []))} messages; codes:", bad.get(0, []))
        return 1 if bad else 0
    tab = {(c, v): [tuple(x) for x in outs] for c, v, outs in rp["handlers"]}
    ops = [tuple(o) for o in rp["ops"]]
    obs, bad = evaluate([(tab, ops)], lifetimes=bool(rp.get("lifetimes")), naming=rp.get("naming", "plain"))
    print("ops:", ops, "handlers:", tab)
    print("observed:", obs[0])
    print("codes:", bad.get(0, []))
    return 1 if bad else 0
