(* C10 with interrupts: scripts of master ticks and interrupts (of base components and of components
   of the added part alike) on the extended configuration are matched by a script on the base
   configuration -- the same interrupts of base components, a subsequence of the ticks -- under which
   every base device observes the same. *)
From TV Require Import Base Model.Wiring Model.Ticker Model.Component Model.Sim Model.SimTime Model.NSim
  Proofs.WiringP Proofs.SimP Proofs.NonInterfP Proofs.FrameP Proofs.AgreeP Proofs.NonInterfNestedP Proofs.NonInterfLoopP.
Open Scope Z_scope.

Section FilterUpd.
Variable isX : comp -> bool.

Lemma filter_upd_X c v (w : list (comp * Z)) : isX c = true -> filter (oldk isX) (upd c v w) = filter (oldk isX) w.
Proof.
  intros Hc. induction w as [|[k x] r IH]; cbn [upd filter].
  - unfold oldk. cbn [fst]. rewrite Hc. reflexivity.
  - destruct (Pos.eqb_spec c k) as [E|_].
    + subst k. cbn [filter]. unfold oldk. cbn [fst]. rewrite Hc. reflexivity.
    + cbn [filter]. rewrite IH. reflexivity.
Qed.

Lemma filter_upd_old c v (w : list (comp * Z)) : isX c = false -> filter (oldk isX) (upd c v w) = upd c v (filter (oldk isX) w).
Proof.
  intros Hc. induction w as [|[k x] r IH]; cbn [upd filter].
  - unfold oldk. cbn [fst]. rewrite Hc. reflexivity.
  - destruct (Pos.eqb_spec c k) as [E|Hne].
    + subst k. cbn [filter]. unfold oldk. cbn [fst]. rewrite Hc. cbn [negb upd]. destruct (Pos.eqb_spec c c) as [_|N]; [reflexivity | exfalso; apply N; reflexivity].
    + cbn [filter]. assert (Eo : forall e : comp * Z, oldk isX e = negb (isX (fst e))) by reflexivity.
      rewrite !Eo. cbn [fst]. destruct (isX k); cbn [negb]; [exact IH|]. cbn [upd]. destruct (Pos.eqb_spec c k) as [E|_]; [contradiction|].
      rewrite IH. reflexivity.
Qed.

Lemma lookup_filter_old c (w : list (comp * Z)) : isX c = false -> lookup c (filter (oldk isX) w) = lookup c w.
Proof.
  intros Hc. induction w as [|[k x] r IH]; [reflexivity|]. cbn [filter]. unfold oldk at 1. cbn [fst].
  destruct (isX k) eqn:Ek; cbn [negb lookup].
  - destruct (Pos.eqb_spec c k) as [E|_]; [subst k; rewrite Ek in Hc; discriminate | exact IH].
  - destruct (Pos.eqb c k); [reflexivity | exact IH].
Qed.
End FilterUpd.

Section Script.
Variables cfg cfg' : config.
Variable devf : devfun.
Variable isX : comp -> bool.
Variable isXL : positive -> bool.
Hypothesis Hord : l_order (level_of cfg top) = filter (fun ck : comp * ckind => negb (isX (fst ck))) (l_order (level_of cfg' top)).
Hypothesis Hcon : l_conns (level_of cfg top) = filter (oldc isX) (l_conns (level_of cfg' top)).
Variable fuel : nat.
Hypothesis Hk : forall ck, In ck (l_order (level_of cfg' top)) -> nkind cfg cfg' isX isXL fuel ck.
Hypothesis Hsep : forall k, In k (l_conns (level_of cfg' top)) -> isX (out_comp k) = isX (in_comp k).
Hypothesis Hext : isX ext_id = false.
Hypothesis Hexp : isX exp_id = false.
Hypothesis HXL : isXL top = false.

(* the base script: the interrupts of base components, a subsequence of the ticks *)
Inductive sub_script : list item -> list item -> Prop :=
| ss_nil : sub_script [] []
| ss_tick_keep a b : sub_script a b -> sub_script (ITick :: a) (ITick :: b)
| ss_tick_drop a b : sub_script a b -> sub_script a (ITick :: b)
| ss_stim_old c w a b : isX c = false -> sub_script a b -> sub_script (IStim c w :: a) (IStim c w :: b)
| ss_stim_new c w a b : isX c = true -> sub_script a b -> sub_script a (IStim c w :: b).

Lemma srel_stim_new s s' c w : isX c = true -> srel2 isX isXL top s s' -> srel2 isX isXL top s (stim s' c w).
Proof.
  intros Hc [[Hdc [Hn Hw]] Hl]. split.
  - split; [exact Hdc|]. split; [exact Hn|]. unfold stim. rewrite wake_of_set_wake. fold (oldk isX).
    rewrite (filter_upd_X isX c _ _ Hc). exact Hw.
  - intros l Hxl Hne. destruct (Hl l Hxl Hne) as [A [B C]]. unfold stim. rewrite wake_of_set_wake_other by exact Hne.
    split; [exact A | split; [exact B | exact C]].
Qed.

Lemma srel_stim_old s s' c w : isX c = false -> srel2 isX isXL top s s' -> srel2 isX isXL top (stim s c w) (stim s' c w).
Proof.
  intros Hc [[Hdc [Hn Hw]] Hl]. split.
  - split; [exact Hdc|]. split; [exact Hn|]. unfold stim. rewrite !wake_of_set_wake. fold (oldk isX). fold (oldk isX) in Hw.
    rewrite (filter_upd_old isX c _ _ Hc), Hw. rewrite <- (lookup_filter_old isX c (wake_of s' top) Hc), Hw. reflexivity.
  - intros l Hxl Hne. destruct (Hl l Hxl Hne) as [A [B C]]. unfold stim. rewrite !wake_of_set_wake_other by exact Hne.
    split; [exact A | split; [exact B | exact C]].
Qed.

Theorem script_sim : forall sc' s s' ob' s1' o1',
  srel2 isX isXL top s s' ->
  sim_script cfg' devf fuel sc' s' ob' = (s1', o1') ->
  exists sc s1, sub_script sc sc' /\
    sim_script cfg devf fuel sc s (filter (notX isX) ob') = (s1, filter (notX isX) o1') /\ srel2 isX isXL top s1 s1'.
Proof.
  induction sc' as [|[|c w] r IH]; intros s s' ob' s1' o1' Hs Hrun; cbn [sim_script] in Hrun.
  - inversion Hrun; subst. exists [], s. split; [constructor|]. split; [reflexivity | exact Hs].
  - assert (Hw : filter (oldk isX) (wake_of s' top) = wake_of s top) by (destruct Hs as [[_ [_ Hw]] _]; exact Hw).
    destruct (first_wakeups (wake_of s' top)) as [[m' roots']|] eqn:E'.
    2: { destruct (IH s s' ob' s1' o1' Hs Hrun) as [sc [s1 [Hsub [Hb Hr]]]]. exists sc, s1. split; [apply ss_tick_drop; exact Hsub|]. split; assumption. }
    fold (pre_tick s' m' roots') in Hrun. unfold tick_level in Hrun.
    destruct (tick_with cfg' devf (on_tick_level cfg' devf fuel) top m' roots' [] (pre_tick s' m' roots')) as [[s2' out'] o'] eqn:Et'.
    assert (Hstut : (forall c, isX c = false -> memb c roots' = false) ->
                    exists sc s1, sub_script sc (ITick :: r) /\
                      sim_script cfg devf fuel sc s (filter (notX isX) ob') = (s1, filter (notX isX) o1') /\ srel2 isX isXL top s1 s1').
    { intros Hr.
      pose proof (tick_noninterference2 cfg cfg' devf (on_tick_level cfg devf fuel) (on_tick_level cfg' devf fuel) isX isXL top m' [] roots' []
                    s (pre_tick s' m' roots') Hord Hcon (Hk_ok cfg cfg' devf isX isXL fuel Hk) Hsep Hext Hexp HXL) as Hn.
      cbv zeta in Hn. rewrite tick_empty, Et' in Hn.
      destruct Hn as [Hs2 [_ Ho]]; [intros c Hc; rewrite (Hr c Hc); reflexivity | apply srel_stutter; assumption |].
      destruct (IH s s2' (ob' ++ o') s1' o1' Hs2 Hrun) as [sc [s1 [Hsub [Hb Hr1]]]].
      rewrite filter_app, Ho, app_nil_r in Hb. exists sc, s1. split; [apply ss_tick_drop; exact Hsub|]. split; assumption. }
    destruct (first_wakeups (wake_of s top)) as [[m roots]|] eqn:E.
    + destruct (Z.eq_dec m m') as [Em|Hne].
      * subst m.
        assert (Hr : forall c, isX c = false -> memb c roots' = memb c roots).
        { apply (roots_same isX (wake_of s' top) m'); [exact E' | rewrite Hw; exact E]. }
        pose proof (tick_noninterference2 cfg cfg' devf (on_tick_level cfg devf fuel) (on_tick_level cfg' devf fuel) isX isXL top m' roots roots' []
                      (pre_tick s m' roots) (pre_tick s' m' roots') Hord Hcon (Hk_ok cfg cfg' devf isX isXL fuel Hk) Hsep Hext Hexp HXL Hr
                      (srel_prepare isX isXL s s' m' roots roots' Hs Hr)) as Hn.
        cbv zeta in Hn. rewrite Et' in Hn.
        destruct (tick_with cfg devf (on_tick_level cfg devf fuel) top m' roots [] (pre_tick s m' roots)) as [[s2 out] o] eqn:Et.
        destruct Hn as [Hs2 [_ Ho]].
        destruct (IH s2 s2' (ob' ++ o') s1' o1' Hs2 Hrun) as [sc [s1 [Hsub [Hb Hr1]]]].
        rewrite filter_app, Ho in Hb. exists (ITick :: sc), s1. split; [apply ss_tick_keep; exact Hsub|]. split; [|exact Hr1].
        cbn [sim_script]. rewrite E. fold (pre_tick s m' roots). unfold tick_level. rewrite Et. exact Hb.
      * apply Hstut. apply (roots_stutter isX (wake_of s' top) m' roots' E'). rewrite Hw, E. exact Hne.
    + apply Hstut. apply (roots_stutter isX (wake_of s' top) m' roots' E'). rewrite Hw, E. exact I.
  - destruct (isX c) eqn:Ec.
    + destruct (IH s (stim s' c w) ob' s1' o1' (srel_stim_new s s' c w Ec Hs) Hrun) as [sc [s1 [Hsub [Hb Hr]]]].
      exists sc, s1. split; [apply ss_stim_new; assumption|]. split; assumption.
    + destruct (IH (stim s c w) (stim s' c w) ob' s1' o1' (srel_stim_old s s' c w Ec Hs) Hrun) as [sc [s1 [Hsub [Hb Hr]]]].
      exists (IStim c w :: sc), s1. split; [apply ss_stim_old; assumption|]. split; [|exact Hr]. cbn [sim_script]. exact Hb.
Qed.

Lemma memb_map_fst_filter' c (l : list (comp * ckind)) : isX c = false ->
  memb c (map fst l) = memb c (map fst (filter (fun ck : comp * ckind => negb (isX (fst ck))) l)).
Proof.
  intros Hc. induction l as [|e r IH]; [reflexivity|]. cbn [filter map memb existsb].
  destruct (isX (fst e)) eqn:Ee; cbn [negb].
  - destruct (Pos.eqb_spec c (fst e)) as [E|_]; [rewrite E, Ee in Hc; discriminate|]. exact IH.
  - cbn [map memb existsb]. unfold memb in IH. rewrite IH. reflexivity.
Qed.

(* whole scripts from start-up *)
Theorem script_noninterference initial sc' :
  exists sc, sub_script sc sc' /\
    snd (sim_script_from_start cfg devf fuel initial sc) = filter (notX isX) (snd (sim_script_from_start cfg' devf fuel initial sc')).
Proof.
  unfold sim_script_from_start.
  set (roots := map fst (l_order (level_of cfg top))). set (roots' := map fst (l_order (level_of cfg' top))).
  assert (Hr : forall c, isX c = false -> memb c roots' = memb c roots).
  { intros c Hc. unfold roots, roots'. rewrite Hord. apply memb_map_fst_filter'. exact Hc. }
  assert (Hs0 : srel2 isX isXL top (log_tick (set_wake s_init top []) top initial roots) (log_tick (set_wake s_init top []) top initial roots')).
  { split; [split; [intros; reflexivity|]; split; [intros; reflexivity | reflexivity]|]. intros l _ _. repeat split; reflexivity. }
  pose proof (tick_noninterference2 cfg cfg' devf (on_tick_level cfg devf fuel) (on_tick_level cfg' devf fuel) isX isXL top initial roots roots' []
                _ _ Hord Hcon (fun ck Hi => nkind_okkind2 cfg cfg' devf isX isXL fuel ck (Hk ck Hi)) Hsep Hext Hexp HXL Hr Hs0) as Hn.
  cbv zeta in Hn. unfold tick_level in *.
  destruct (tick_with cfg' devf (on_tick_level cfg' devf fuel) top initial roots' [] _) as [[s0' out'] ob'].
  destruct (tick_with cfg devf (on_tick_level cfg devf fuel) top initial roots [] _) as [[s0 out] ob].
  destruct Hn as [Hs [_ Ho]].
  destruct (sim_script cfg' devf fuel sc' s0' ob') as [s1' o1'] eqn:Erun.
  destruct (script_sim sc' s0 s0' ob' s1' o1' Hs Erun) as [sc [s1 [Hsub [Hb _]]]].
  exists sc. split; [exact Hsub|]. rewrite Ho in Hb. rewrite Hb. reflexivity.
Qed.
End Script.
