import sprops

PID = "C10"


def main(tier, seed):
    return sprops.main_pairs(PID, tier, seed, {91}, "Props.C10",
                             ["Model/Sim.v", "Oracle/SimCheck.v", "Oracle/SimOracle.v", "Proofs/SimP.v", "Props/C10.v"],
                             "non-interference of unconnected parts", "extend")


replay = sprops.replay_pair
