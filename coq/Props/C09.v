(* C09 -- system simulations are transparent.
   The flat wiring equivalent to a nesting is defined in Coq ([flatten], Oracle/SimOracle.v):
   external / exposed ports are resolved to the device output that really drives them.
   Proved here, for every configuration:
   (1) the devices of the flattening are exactly the devices the nested model visits, in the same
       order; a configuration without system simulations is its own flattening;
   (2) initial-tick transparency: in the master's initial tick the nested model updates exactly the
       devices of the flattening, each once, at the initial time -- as the flat model does.
   PARTIAL: equality of the full observation sequences (times AND values, over multi-tick
   histories with callbacks and interrupts) between a nesting and its flattening is not proved;
   it is decided per pair of runs of the real schedulers (codes 71/72) and per run by the oracles
   shared with C03/C06/C12 -- [check_flat_pair] also checks that the harness's flat configuration
   IS the Coq flattening (code 73).  Property theorems only. *)
From TV Require Import Base Model.Wiring Model.Ticker Model.Component Model.Sim Oracle.SimCheck Oracle.SimOracle
  Proofs.SimP Proofs.FlattenP.
Open Scope Z_scope.

Theorem C09_flat_devices : forall cfg fuel lv, flat_order fuel cfg lv = devices_below cfg fuel lv.
Proof. intros. apply flat_order_devices. Qed.

Theorem C09_flat_identity : forall l,
  (forall c k, In (c, k) (l_order l) -> k = KDev /\ c <> ext_id) ->
  forall u p c q,
    In (u, p, c, q) (flat_conns [(1%positive, l)]) <->
    In (u, p, c, q) (l_conns l) /\ lookup c (l_order l) = Some KDev /\ lookup u (l_order l) = Some KDev.
Proof. exact flat_conns_single. Qed.

(* the nested initial tick observes exactly the flattened device list *)
Theorem C09_initial_transparent : forall cfg devf fuel initial s0,
  (forall c lv', In (c, KSys lv') (l_order (level_of cfg top)) -> deep_enough cfg fuel lv') ->
  NoDup (flat_map (sub_levels cfg fuel) (l_order (level_of cfg top))) ->
  (forall x, In x (flat_map (sub_levels cfg fuel) (l_order (level_of cfg top))) -> ~ In x (s_ticked s0)) ->
  real_ids cfg top ->
  (forall x, In x (flat_map (sub_levels cfg fuel) (l_order (level_of cfg top))) -> real_ids cfg x) ->
  let roots := map fst (l_order (level_of cfg top)) in
  let '(s1, _, ob) := tick_level cfg devf fuel top initial roots [] s0 in
  map obs_comp ob = flat_order (S fuel) cfg top /\ (forall o, In o ob -> obs_time o = initial).
Proof.
  intros cfg devf fuel initial s0 H1 H2 H3 H4 H5 roots.
  pose proof (initial_tick_obs cfg devf fuel initial s0 H1 H2 H3 H4 H5) as H. cbv zeta in H.
  fold roots in H. destruct (tick_level cfg devf fuel top initial roots [] s0) as [[s1 o] ob].
  destruct H as [Ha Hb]. split; [|exact Hb]. rewrite Ha. cbn [flat_order].
  apply flat_map_ext. intros [c k]. destruct k as [|lv']; cbn [sub_devices snd fst]; [reflexivity|].
  symmetry. apply flat_order_devices.
Qed.

Example C09_example :
  let cfg := [(1%positive, {| l_order := [(3%positive, KDev); (4%positive, KSys 2%positive); (8%positive, KDev)];
                              l_conns := [(3, 1, 4, 1); (4, 1, 8, 1)]%positive |});
              (2%positive, {| l_order := [(5%positive, KDev)]; l_conns := [(1, 1, 5, 1); (5, 1, 2, 1)]%positive |})] in
  flat_order 40 cfg 1 = [3; 5; 8]%positive /\ flat_conns cfg = [(5, 1, 8, 1); (3, 1, 5, 1)]%positive.
Proof. vm_compute. split; reflexivity. Qed.
