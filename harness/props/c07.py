"""C07 -- every interrupt is served promptly whenever it arrives.
(a) level M: the real MasterScheduler driven message by message (the harness plays the components,
    with real-time costs), interrupts raised in every phase incl. in the middle of ticks and of the
    initial tick: outputs compared event by event with Model/Master.v, Coq oracle 'never sleeps while
    an interrupt is owed'.
(b) level S: whole (nested) simulations on the internal bus; one interrupt injected at event-loop
    step k, for every k of a window spanning start-up, the initial tick, an idle period and later
    ticks, for every device at every depth: Coq oracle 'the device is updated again at that instant'."""
import json
import random

import mlevel
import slevel
import sprops
import tlevel
from common import Check, P, Zr, L, T, run_shards

PID = "C07"
M_HEADER = mlevel.HEADER + "\nFrom TV Require Import Oracle.MasterOracle."
REASONS = {101: "master-output-differs-from-model", 75: "scheduler-sleeps-while-an-interrupt-is-owed",
           76: "interrupt-handler-failed", 77: "interrupting-device-never-updated-again",
           78: "interrupting-device-updated-only-later", 46: "tick-times-decrease", 47: "ticks-overlap",
           48: "dispatch-outside-its-tick-or-with-wrong-time",
           79: "scheduler-or-component-task-died-after-the-interrupt"}


def m_part(ck, tier, rng):
    cases, terms = [], []
    n = {"quick": 150, "thorough": 3000}[tier]
    for i in range(n):
        if i % 3 == 0:
            conns = list(tlevel.shapes().values())[(i // 3) % 6]
            comps = sorted({c for k in conns for c in (k[0], k[2])})
        else:
            conns, comps = tlevel.gen_dag(rng, rng.randint(1, 6), 2, 0.5)
        speed = rng.choice([(1, 1), (2, 1), (1, 2)])
        initial = rng.choice([0, 0, 100])
        ev = mlevel.run_master_case(conns, comps, initial, speed, rng, n_events=rng.randint(5, 50),
                                    p_interrupt=rng.choice([0.15, 0.3, 0.5]), p_bad=rng.choice([0, 0.05]))
        cases.append(dict(conns=conns, comps=comps, initial=initial, speed=speed, events=ev))
        terms.append(mlevel.render_master_case(conns, comps, initial, speed, ev))
    bad = run_shards(PID + "_m", M_HEADER, "master_case", "check_master_all", terms, shard_size=20)
    n_mid = 0
    for c in cases:
        in_tick, mid = False, False
        for (_, ev, outs) in c["events"]:
            if ev[0] == "interrupt" and in_tick:
                mid = True
            for o in outs:
                if o[0] == "tickstart":
                    in_tick = True
                elif o[0] == "tickend":
                    in_tick = False
        n_mid += mid
        ck.count("m:" + json.dumps([c["conns"], c["initial"], [[r, list(e)] for r, e, _ in c["events"]]], default=str), mid)
    ck.coverage.update(master_scripts=len(cases), scripts_with_mid_tick_interrupt=n_mid,
                       master_events=sum(len(c["events"]) for c in cases))
    ck.sample(dict(master_script=[[r, list(e), [list(o) for o in outs]] for r, e, outs in cases[-1]["events"][:12]]))
    return cases, bad


def s_part(ck, tier, rng):
    """step-exhaustive injection sweep"""
    EXT, EXP = 1, 2
    configs = [
        ("flat", {1: dict(order=[(3, "dev"), (4, "dev"), (5, "dev")], conns=[(3, 1, 4, 1), (4, 1, 5, 1)])},
         {3: (3, 400_000_000, 1), 4: (3, 300_000_000, 0), 5: (3, 700_000_000, 2)}),
        ("nested", {1: dict(order=[(3, "dev"), (4, 2), (7, "dev")], conns=[(3, 1, 4, 1), (4, 1, 7, 1)]),
                    2: dict(order=[(5, "dev"), (6, "dev")], conns=[(EXT, 1, 5, 1), (5, 1, 6, 1), (6, 1, EXP, 1)])},
         {3: (5, 400_000_000, 1), 5: (5, 300_000_000, 0), 6: (5, 600_000_000, 1), 7: (5, 300_000_000, 0)}),
        ("nested2", {1: dict(order=[(3, 2), (8, "dev")], conns=[(3, 1, 8, 1)]),
                     2: dict(order=[(4, "dev"), (5, 3)], conns=[(4, 1, 5, 1), (5, 1, EXP, 1)]),
                     3: dict(order=[(6, "dev"), (7, "dev")], conns=[(EXT, 1, 6, 1), (7, 1, EXP, 1)])},
         {4: (9, 500_000_000, 1), 6: (9, 300_000_000, 0), 7: (9, 400_000_000, 1), 8: (9, 300_000_000, 0)}),
        # the interrupted device holds the only pending wakeup (a one-shot callback): an interrupt landing in the
        # event-loop iteration in which the master's sleep ends must not leave the master without anything to wait for
        ("oneshot", {1: dict(order=[(3, "dev"), (4, "dev")], conns=[(3, 1, 4, 1)])},
         {3: (7, 300_000_000, 2), 4: (7, 300_000_000, 0)}),
        # an inner device beside the exposed path: its interrupt, raised while the system's tick is running, must not make
        # the system lose what that tick exposes (device 7 is updated periodically and would see the stale value)
        ("nested-side", {1: dict(order=[(3, "dev"), (4, 2), (7, "dev")], conns=[(3, 1, 4, 1), (4, 1, 7, 1)]),
                         2: dict(order=[(5, "dev"), (6, "dev"), (9, "dev")], conns=[(EXT, 1, 5, 1), (5, 1, 6, 1), (6, 1, EXP, 1), (EXT, 1, 9, 1)])},
         {3: (5, 400_000_000, 1), 5: (5, 300_000_000, 0), 6: (5, 600_000_000, 0), 9: (5, 300_000_000, 0), 7: (5, 300_000_000, 1)}),
        ("oneshot-nested", {1: dict(order=[(3, 2)], conns=[]),
                            2: dict(order=[(4, "dev"), (5, "dev")], conns=[(4, 1, 5, 1)])},
         {4: (7, 300_000_000, 2), 5: (7, 300_000_000, 0)}),
    ]
    if tier == "thorough":
        for _ in range(12):
            cfg = slevel.gen_config(rng, depth=rng.choice([0, 1, 2]))
            configs.append(("random", cfg, slevel.gen_devs(rng, cfg, (0, 1, 1, 2))))
    # the same with other initial times: the whole run below simulation time 0, and far above it
    configs = [c + (0,) for c in configs] + [("flat-negative-start",) + configs[0][1:] + (-5_000_000_000,),
                                            ("nested-negative-start",) + configs[1][1:] + (-5_000_000_000,),
                                            ("flat-late-start",) + configs[0][1:] + (7_000_000_000,)]
    t_end = 1_300_000_003
    cases, terms = [], []
    for name, cfg, devs, initial in configs:
        base = slevel.run_internal(cfg, devs, (1, 1), initial, [], t_end)
        nsteps = base["steps"] or 60
        for d in slevel.devices_of(cfg):
            stride = 1 if tier == "thorough" or nsteps < 120 else 2
            for k in range(1, nsteps, stride):
                r = slevel.run_internal(cfg, devs, (1, 1), initial, [], t_end, inject=(k, d))
                inj = r["inj"]
                if not inj or not inj["started"] or inj["real"] >= t_end:
                    continue   # the scheduler had not begun its initial tick yet (outside the property), or the run is over
                cases.append(dict(name=name, cfg=cfg, devs=devs, device=d, step=k, inj=inj, run=r, initial=initial))
                sc = slevel.render_sim_case(cfg, devs, (1, 1), initial, [], t_end, r)
                terms.append(T(sc, T(P(d), Zr(inj["real"]), Zr(inj["pos"])), L(Zr(x) for x in r["trace_rt"])))
    bad = run_shards(PID + "_s", sprops.HEADER, "inj_case", "check_inj", terms, shard_size=40)
    for i, c in enumerate(cases):
        mid = any(t_real == c["inj"]["real"] for t_real in c["run"]["trace_rt"][:c["inj"]["pos"]])
        ck.count(f"s:{c['name']}:{c['device']}:{c['step']}", mid)
        if c["run"]["error"]:
            bad.setdefault(i, []).append(77)
        if c["run"]["errors"]:
            bad.setdefault(i, []).append(79)
    ck.coverage.update(injection_runs=len(cases), injection_configs=len(configs))
    c = cases[len(cases) // 2]
    ck.sample(dict(injection=dict(config=c["name"], device=c["device"], step=c["step"], inj=c["inj"],
                                  updates_of_device=[(t, rt) for (cc, t, _), rt in zip(c["run"]["trace"], c["run"]["trace_rt"]) if cc == c["device"]])))
    return cases, bad


ALERT_HEADER = ("From TV Require Import Base Model.Wiring Model.Ticker Model.Component Model.Sim Model.Alert Oracle.AlertReplay "
                "Proofs.AlertP Proofs.AlertReplayP.")
ALERT_REASONS = {30: "a step of the real schedulers is not a step of the alert protocol", 31: "a system simulation asked for another callback than the protocol's",
                 32: "the master ticked components that are not due at the earliest wakeup", 33: "a nested tick left out a pending interrupt or a due wakeup",
                 34: "an interrupt is owed but not queued up to the master", 35: "the nesting is not a tree",
                 36: "the run ends with a tick still running or a message never delivered",
                 37: "the run ends with an interrupt that was never served"}


def alert_run(cfg, devs, stim, pol, bseed, initial=0):
    from props import c08
    r = slevel.run_internal(cfg, devs, (1, 1), initial, stim, c08.T_END, bus=c08.make_bus(pol, bseed, cfg))
    return r, (None if r["alert"] is None else slevel.render_alert(cfg, initial, r["alert"]))


def alert_part(ck, tier, rng):
    """whole nested simulations on the delaying bus with interrupts raised at any moment -- several at one instant, so that all
    but the first arrive while the ticks the first one caused are running, at any depth -- recorded step by step and replayed
    in the alert protocol (Oracle/AlertReplay.v): every step of the real schedulers must be a step of Model/Alert.v"""
    from props import c08
    n, k = {"quick": (30, 2), "thorough": (300, 4)}[tier]
    cases, terms = [], []
    skipped = 0
    for _ in range(n):
        cfg = slevel.gen_config(rng, depth=rng.choice([1, 2, 2, 3]), p_sys=0.6)
        devs = slevel.gen_devs(rng, cfg, (0, 0, 1, 2, 3, 4, 5))
        dl = slevel.devices_of(cfg)
        stim, _sim = c08.gen_stim(rng, cfg)
        stim = sorted(set(stim) | {(t, rng.choice(dl)) for (t, _) in stim if rng.random() < 0.7})
        initial = rng.choice([0, 0, 5_000_000_000])
        for _ in range(k):
            pol, bseed = rng.choice(c08.POLICIES), rng.randrange(10 ** 6)
            r, term = alert_run(cfg, devs, stim, pol, bseed, initial)
            if term is None or r["error"] or r["errors"]:
                skipped += 1
                continue
            cases.append(dict(cfg=cfg, devs=devs, stim=stim, schedule=[pol, bseed], initial=initial, run=r))
            terms.append(term)
    bad = run_shards(PID + "_alert", ALERT_HEADER, "alert_case", "check_alert_case", terms, shard_size=6)
    events = racing = 0
    for c in cases:
        ev = c["run"]["alert"]
        running = 0
        mid = 0
        for e in ev:
            if e[0] == "EMTick":
                running = 1
            elif e[0] == "EMDone":
                running = 0
            elif e[0] in ("EIntTop", "EIntNested") and running:
                mid += 1
        events += len(ev)
        racing += mid
        ck.count("alert:" + json.dumps([{str(a): b for a, b in c["cfg"].items()}, c["stim"], c["schedule"], c["initial"]], sort_keys=True), mid >= 1)
    ck.coverage.update(alert_replayed_runs=len(cases), alert_events=events, alert_interrupts_handled_while_a_tick_was_running=racing,
                       alert_runs_not_rendered=skipped, alert_disagreements=len(bad))
    if bad:
        i = min(bad)
        c = cases[i]
        code = bad[i][0]
        ck.report("real-schedulers-leave-the-alert-protocol",
                  f"whole simulation on the delaying bus ({c['schedule'][0]}), event {bad[i][1] if len(bad[i]) > 1 else '?'}: {ALERT_REASONS.get(code, code)}",
                  dict(kind="alert", cfg={str(a): b for a, b in c["cfg"].items()}, devs={str(a): list(b) for a, b in c["devs"].items()},
                       stim=[list(x) for x in c["stim"]], schedule=c["schedule"], initial=c["initial"], codes=bad[i],
                       events_around=[list(map(str, e)) for e in c["run"]["alert"][max(0, (bad[i][1] if len(bad[i]) > 1 else 0) - 12):(bad[i][1] if len(bad[i]) > 1 else 0) + 2]],
                       broken="correspondence Model/Alert.v vs the real schedulers on the delaying bus; C07_no_interrupt_lost_at_any_depth"),
                  no_input=(code not in (34, 36, 37)))


def alert_two_part(ck, tier, rng):
    """two interrupts inside one system simulation, the second raised at every event-loop step after the first (while the
    first one travels up, while the tick it causes runs at either level, after it): recorded on the bus, replayed in the alert
    protocol, and the run must settle with both served (36, 37)"""
    import cbus
    EXT, EXP = 1, 2
    configs = [({1: dict(order=[(3, 2)], conns=[]), 2: dict(order=[(4, "dev"), (5, "dev")], conns=[])},
                {4: (11, 300_000_000, 0), 5: (11, 300_000_000, 0)}),
               ({1: dict(order=[(3, "dev"), (4, 2)], conns=[(3, 1, 4, 1)]),
                 2: dict(order=[(5, "dev"), (6, 3)], conns=[(EXT, 1, 5, 1), (5, 1, EXP, 1)]),
                 3: dict(order=[(7, "dev")], conns=[])},
                {3: (12, 300_000_000, 0), 5: (12, 300_000_000, 0), 7: (12, 300_000_000, 0)})]
    t0, t_end = 100_000_333, 400_000_003
    cases, terms = [], []
    for cfg, devs in configs:
        inner = [x for x in slevel.devices_of(cfg) if slevel.path_of(cfg, x)[1]]
        first = inner[0]
        base = slevel.run_internal(cfg, devs, (1, 1), 0, [(t0, first)], t_end, bus=cbus.CBus(rng, "fifo"))
        nsteps = base["steps"] or 200
        for d in inner:
            for k in range(1, nsteps, 1 if tier == "thorough" else 2):
                r = slevel.run_internal(cfg, devs, (1, 1), 0, [(t0, first)], t_end, inject=(k, d), bus=cbus.CBus(rng, "fifo"))
                if not r["inj"] or not r["inj"]["started"] or r["alert"] is None or r["inj"]["real"] >= t_end or r["inj"]["real"] < t0:
                    continue
                cases.append(dict(cfg=cfg, devs=devs, first=first, device=d, step=k, run=r))
                terms.append(slevel.render_alert(cfg, 0, r["alert"]))
    bad = run_shards(PID + "_alert2", ALERT_HEADER, "alert_case", "check_alert_case", terms, shard_size=40)
    for i, c in enumerate(cases):
        if c["run"]["error"] or c["run"]["errors"]:
            bad.setdefault(i, []).append(36)
    ck.coverage.update(alert_two_interrupt_runs=len(cases), alert_two_interrupt_disagreements=len(bad))
    for i in sorted(bad):
        c = cases[i]
        code = bad[i][0]
        ck.report("second-interrupt-not-served" if code in (36, 37) else "real-schedulers-leave-the-alert-protocol",
                  f"interrupt of device c{c['first']} at {t0} ns and of device c{c['device']} at loop step {c['step']}: {ALERT_REASONS.get(code, code)}",
                  dict(kind="alert_two", cfg={str(a): b for a, b in c["cfg"].items()}, devs={str(a): list(b) for a, b in c["devs"].items()},
                       first=c["first"], device=c["device"], step=c["step"], codes=bad[i],
                       updates={str(k): [t for t, _ in v] for k, v in c["run"]["per"].items()}), no_input=(code not in (34, 36, 37)))
        break


def main(tier, seed):
    ck = Check(PID, tier, seed, "Props.C07", ["Model/Master.v", "Model/WakeFlag.v", "Oracle/MasterOracle.v", "Oracle/SimOracle.v",
                                              "Proofs/MasterP.v", "Proofs/WakeFlagP.v", "Model/PyLib.v", "Gen/SourceFuns.v", "Proofs/GenInterruptP.v",
                                              "Model/Alert.v", "Proofs/AlertP.v", "Oracle/AlertReplay.v", "Proofs/AlertReplayP.v", "Props/C07.v"])
    ck.build_and_audit()
    rng = random.Random(seed)
    ck.rule = ("(a) real MasterScheduler driven message by message on virtual time with random component-playing scripts "
               "(answers in random order with real-time costs, callbacks, interrupts in every phase incl. mid-tick and during "
               "the initial tick, malformed answers), outputs compared event by event with the Coq master model, oracle "
               "'no positive sleep while an interrupt is owed'; non-trivial = script with a mid-tick interrupt.  "
               "(b) whole flat/nested simulations, one interrupt injected at event-loop step k for every k of the run "
               "(start-up, initial tick, idle, later ticks) and every device at every depth; non-trivial = injected while "
               "other updates happen at the same instant.  "
               "(c) whole nested simulations on the delaying bus with several interrupts at one instant (all but the first "
               "arrive while ticks are running, at any depth), every step of the schedulers recorded and replayed in the alert "
               "protocol Model/Alert.v; non-trivial = an interrupt was handled while a tick was running")
    mcases, mbad = m_part(ck, tier, rng)
    scases, sbad = s_part(ck, tier, rng)
    alert_part(ck, tier, rng)
    alert_two_part(ck, tier, rng)
    done = set()
    for i in sorted(mbad):
        for code in mbad[i]:
            if code in (75, 76) and code not in done:
                done.add(code)
                c = mcases[i]
                ck.report(REASONS[code], f"MasterScheduler: {REASONS[code]}",
                          dict(kind="master", conns=c["conns"], comps=c["comps"], initial=c["initial"], speed=c["speed"],
                               events=[[r, list(e), [list(o) for o in outs]] for r, e, outs in c["events"]], codes=mbad[i]))
    for i in sorted(sbad):
        for code in sbad[i]:
            key = (code, scases[i]["name"] != "flat")
            if key not in done:
                done.add(key)
                c = scases[i]
                ck.report(REASONS[code] + ("-nested" if key[1] else ""),
                          f"interrupt of device c{c['device']} injected at loop step {c['step']} ({c['name']}): {REASONS[code]}",
                          dict(kind="injection", initial=c.get("initial", 0), cfg={str(k): v for k, v in c["cfg"].items()}, devs={str(k): v for k, v in c["devs"].items()},
                               device=c["device"], step=c["step"], inj=c["inj"], error=c["run"]["error"], task_errors=c["run"]["errors"][:3],
                               updates=[(cc, t, rt) for (cc, t, _), rt in zip(c["run"]["trace"], c["run"]["trace_rt"])]))
    if not done:
        corr = [i for i in mbad if any(code not in (75, 76) for code in mbad[i])]
        if corr:
            c = mcases[corr[0]]
            ck.report("correspondence-broken", "master model and MasterScheduler disagree but no unserved interrupt was found",
                      dict(kind="master", conns=c["conns"], comps=c["comps"], initial=c["initial"], speed=c["speed"],
                           events=[[r, list(e), [list(o) for o in outs]] for r, e, outs in c["events"]], codes=mbad[corr[0]],
                           broken="correspondence Model/Master.v vs master.py; theorems of Props.C07"), no_input=True)
    ck.coverage["disagreements"] = len(mbad) + len(sbad)
    return ck.finish()


def replay(rp):
    if rp["kind"] == "alert_two":
        import cbus
        cfg = {int(a): dict(order=[(c, kk) for c, kk in v["order"]], conns=[tuple(x) for x in v["conns"]]) for a, v in rp["cfg"].items()}
        devs = {int(a): tuple(v) for a, v in rp["devs"].items()}
        r = slevel.run_internal(cfg, devs, (1, 1), 0, [(100_000_333, rp["first"])], 400_000_003, inject=(rp["step"], rp["device"]),
                                bus=cbus.CBus(random.Random(0), "fifo"))
        bad = run_shards("replay", ALERT_HEADER, "alert_case", "check_alert_case", [slevel.render_alert(cfg, 0, r["alert"])])
        print("updates:", {k: [t for t, _ in v] for k, v in r["per"].items()}, "error:", r["error"], r["errors"][:1])
        print("codes:", bad.get(0, []))
        return 1 if (bad or r["error"] or r["errors"]) else 0
    if rp["kind"] == "alert":
        cfg = {int(a): dict(order=[(c, kk) for c, kk in v["order"]], conns=[tuple(x) for x in v["conns"]]) for a, v in rp["cfg"].items()}
        devs = {int(a): tuple(v) for a, v in rp["devs"].items()}
        r, term = alert_run(cfg, devs, [tuple(x) for x in rp["stim"]], rp["schedule"][0], rp["schedule"][1], rp.get("initial", 0))
        bad = run_shards("replay", ALERT_HEADER, "alert_case", "check_alert_case", [term]) if term else {0: ["not rendered"]}
        print("configuration:", cfg, "stimuli:", rp["stim"], "schedule:", rp["schedule"])
        codes = bad.get(0, [])
        if len(codes) > 1:
            for j, e in enumerate(r["alert"][max(0, codes[1] - 12):codes[1] + 2]):
                print("  ", max(0, codes[1] - 12) + j, e)
        print("codes:", codes)
        return 1 if bad else 0
    if rp["kind"] == "injection":
        cfg = {int(k): dict(order=[(c, (k2 if k2 == "dev" else int(k2))) for c, k2 in v["order"]],
                            conns=[tuple(x) for x in v["conns"]]) for k, v in rp["cfg"].items()}
        devs = {int(k): tuple(v) for k, v in rp["devs"].items()}
        r = slevel.run_internal(cfg, devs, (1, 1), rp.get("initial", 0), [], 1_300_000_003, inject=(rp["step"], rp["device"]))
        print("injection:", r["inj"], "error:", r["error"])
        ups = [(t, rt) for (cc, t, _), rt in zip(r["trace"], r["trace_rt"]) if cc == rp["device"]]
        print("updates of the device (sim time, real time):", ups)
        ok = r["inj"] and any(rt == r["inj"]["real"] for (t, rt) in ups[sum(1 for (cc, _, _) in r["trace"][:r["inj"]["pos"]] if cc == rp["device"]):])
        if r["errors"]:
            print("a scheduler or component task died:", r["errors"][:2])
        return 0 if ok and not r["errors"] else 1
    print("master script replay: events were generated adaptively; see the recorded events in the replay file")
    for e in rp["events"]:
        print("  ", e)
    return 1
