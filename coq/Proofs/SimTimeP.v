(* The simulation-time loop (Model/SimTime.v) IS the master model (Model/Sim.v [master_loop]) at
   speed 1 without interrupts, for flat configurations whose devices never ask to be called back in
   the past. *)
From TV Require Import Base Model.Wiring Model.Ticker Model.Component Model.Sim Model.SimTime
  Proofs.WiringP Proofs.SimP Proofs.NonInterfP Proofs.NonInterfLoopP.
Open Scope Z_scope.

Lemma wake_of_log_tick s lv t r lv0 : wake_of (log_tick s lv t r) lv0 = wake_of s lv0.
Proof. reflexivity. Qed.

Section Eq.
Variable cfg : config.
Variable devf : devfun.
Hypothesis Hflat : forall ck, In ck (l_order (level_of cfg top)) -> snd ck = KDev.
Hypothesis Hwell : forall c n t i w, snd (devf c n t i) = Some w -> t <= w.

(* a tick only adds wakeups at or after its own time *)
Lemma tick_wakes inner time roots ext s :
  let '(s2, _, _) := tick_with cfg devf inner top time roots ext s in
  forall e, In e (wake_of s2 top) -> In e (wake_of s top) \/ time <= snd e.
Proof.
  unfold tick_with.
  assert (Hall : forall ck, In ck (all_of (level_of cfg top)) -> snd ck = KDev).
  { unfold all_of. intros ck [E|Hi]; [subst ck; reflexivity|]. apply in_app_iff in Hi.
    destruct Hi as [Hi|[E|[]]]; [apply Hflat; exact Hi | subst ck; reflexivity]. }
  assert (Hgen : forall l a, (forall ck, In ck l -> snd ck = KDev) ->
            (forall e, In e (wake_of (ta_s a) top) -> In e (wake_of s top) \/ time <= snd e) ->
            forall e, In e (wake_of (ta_s (fold_left (tick_step devf inner top (l_conns (level_of cfg top)) time roots ext) l a)) top) ->
                      In e (wake_of s top) \/ time <= snd e).
  { induction l as [|[c k] r IH]; intros a Hk Ha; [exact Ha|]. cbn [fold_left]. apply IH; [intros ck H; apply Hk; right; exact H|].
    assert (Ek : k = KDev) by (apply (Hk (c, k)); left; reflexivity). subst k.
    unfold tick_step. cbn [fst snd].
    destruct (in_extent _ roots (ta_touched a) c); [|exact Ha].
    destruct (nonempty (get_d c (ta_in a)) || memb c roots); [|exact Ha].
    destruct (Pos.eqb c ext_id); [exact Ha|]. destruct (Pos.eqb c exp_id); [exact Ha|].
    unfold dev_update.
    destruct (devf c _ time _) as [outs ca] eqn:Ed. destruct ca as [w|]; cbn [ta_s]; [|exact Ha].
    intros [c' w'] He. rewrite wake_of_set_wake in He. apply In_upd_cases in He. destruct He as [[E1 E2]|He].
    - right. subst c' w'. cbn [snd]. eapply Hwell. rewrite Ed. reflexivity.
    - apply Ha. exact He. }
  intros e He. eapply (Hgen (all_of (level_of cfg top))); [exact Hall | | exact He].
  intros e0 H0. left. exact H0.
Qed.

Variable fuel : nat.
Variables initial t_end : Z.

Record MInv (m : mstate) : Prop := {
  mi_now : m_now m = m_real m;
  mi_real : m_real m = m_tprev m - initial;
  mi_wake : forall e, In e (wake_of (m_s m) top) -> m_tprev m <= snd e
}.

Lemma loop_eq : forall steps m, MInv m ->
  let m' := master_loop cfg devf 1 1 steps fuel m [] t_end in
  let '(s, ob, _) := sim_loop cfg devf steps fuel (initial + t_end) (m_s m) (m_obs m) in
  m_s m' = s /\ m_obs m' = ob.
Proof.
  induction steps as [|k IH]; intros m Hi; [split; reflexivity|].
  cbn [master_loop sim_loop].
  pose proof (first_wakeups_spec (wake_of (m_s m) top)) as SP.
  destruct (first_wakeups (wake_of (m_s m) top)) as [[when roots]|]; [|split; reflexivity].
  destruct SP as [[[e0 [He0 Hv0]] Hmin] _].
  assert (Hge : m_tprev m <= when) by (rewrite <- Hv0; apply (mi_wake m Hi); exact He0).
  assert (Ed : deadline 1 1 m when = when - initial).
  { unfold deadline. rewrite (mi_real m Hi). replace ((when - m_tprev m) * 1 + 1 - 1) with (when - m_tprev m) by lia.
    rewrite Z.div_1_r. lia. }
  rewrite Ed.
  assert (Eb : Z.leb (when - initial) t_end = Z.leb when (initial + t_end)).
  { destruct (Z.leb_spec (when - initial) t_end), (Z.leb_spec when (initial + t_end)); try reflexivity; lia. }
  rewrite Eb. destruct (Z.leb when (initial + t_end)); [|split; reflexivity].
  unfold do_tick.
  pose proof (tick_wakes (on_tick_level cfg devf fuel) when roots []
                (log_tick (set_wake (m_s m) top (filter (fun e : comp * Z => negb (memb (fst e) roots)) (wake_of (m_s m) top))) top when roots)) as Hw.
  unfold tick_level in *.
  destruct (tick_with cfg devf (on_tick_level cfg devf fuel) top when roots [] _) as [[s2 out] o].
  set (m2 := {| m_s := s2; m_tprev := when; m_real := Z.max (when - initial) (m_now m); m_now := Z.max (when - initial) (m_now m);
               m_obs := m_obs m ++ o; m_ticks := m_ticks m ++ [(when, Z.max (when - initial) (m_now m))] |}).
  assert (HI2 : MInv m2); [|exact (IH m2 HI2)].
  split; cbn [m2 m_now m_real m_tprev m_s].
  - reflexivity.
  - rewrite (mi_now m Hi), (mi_real m Hi). lia.
  - intros e He. destruct (Hw e He) as [Hin|Hle]; [|exact Hle].
    rewrite wake_of_log_tick, wake_of_set_wake in Hin. apply filter_In in Hin. destruct Hin as [Hin _]. apply Hmin. exact Hin.
Qed.

Theorem master_is_sim_loop steps :
  let m := simulate_full cfg devf 1 1 fuel steps initial [] [] t_end in
  let '(s, ob, _) := sim_run cfg devf steps fuel initial (initial + t_end) in
  m_s m = s /\ m_obs m = ob.
Proof.
  unfold simulate_full, sim_run. cbn [fold_left].
  pose proof (tick_wakes (on_tick_level cfg devf fuel) initial (map fst (l_order (level_of cfg top))) []
                (log_tick (set_wake s_init top []) top initial (map fst (l_order (level_of cfg top))))) as Hw.
  unfold tick_level in *.
  destruct (tick_with cfg devf (on_tick_level cfg devf fuel) top initial _ [] _) as [[s1 out] ob].
  set (m0 := {| m_s := s1; m_tprev := initial; m_real := 0; m_now := 0; m_obs := ob; m_ticks := [(initial, 0)] |}).
  assert (HI0 : MInv m0); [|exact (loop_eq steps m0 HI0)].
  split; cbn [m0 m_now m_real m_tprev m_s]; [reflexivity | lia |].
  intros e He. destruct (Hw e He) as [Hin|Hle]; [|exact Hle].
  rewrite wake_of_log_tick, wake_of_set_wake in Hin. destruct Hin.
Qed.
End Eq.
