(* Confluence of one tick when the components' answers are given by RELATIONS rather than functions:
   what a component answers to an Input may depend on a state the ticker does not see, and two runs
   need only agree up to dictionary equality.  Needed for levels that contain system simulations
   (whose answer is the outcome of a nested tick under some schedule of its own).
   [Rk c x a]: component c may answer a to the changes x in run k. *)
From TV Require Import Base Model.Wiring Model.Ticker Model.Component Model.Sim Proofs.WiringP Proofs.TickerP Proofs.LatestP Proofs.Confluence2P.

Section C3.
Variable conns : list conn.
Variable comps : list comp.
Variable t : Z.
Hypothesis Hss : single_source conns.
Variable rank : comp -> nat.
Hypothesis Hrank : forall k, In k conns -> (rank (out_comp k) < rank (in_comp k))%nat.

Variables roots1 roots2 : list comp.
Hypothesis Hroots : forall c, In c roots1 <-> In c roots2.
Variables R1 R2 : comp -> changes -> changes -> Prop.
Hypothesis R_ext : forall c x y a b, NoDup (keys x) -> NoDup (keys y) -> ch_equiv x y -> R1 c x a -> R2 c y b -> ch_equiv a b.

(* the answers of a trace are allowed by R: an Input is answered by something R allows, a Skip by nothing *)
Definition resp_rel (R : comp -> changes -> changes -> Prop) (a : action) (ch : changes) : Prop :=
  match a with Upd c _ x => R c x ch | Skp _ _ => ch = [] end.
Definition answers_rel (R : comp -> changes -> changes -> Prop) (tr : list ev) : Prop :=
  forall c ch, In (EAnswer c ch) tr -> exists a, In (EDispatch a) tr /\ act_comp a = c /\ resp_rel R a ch.

Lemma resp_equiv3 a b cha chb : nd_action a -> nd_action b -> action_equiv a b -> resp_rel R1 a cha -> resp_rel R2 b chb -> ch_equiv cha chb.
Proof.
  destruct a as [c1 t1 x|c1 t1], b as [c2 t2 y|c2 t2]; simpl; try contradiction.
  - intros Hx Hy [E [_ H]] Ha Hb. subst c2. exact (R_ext c1 x y cha chb Hx Hy H Ha Hb).
  - intros _ _ _ E1 E2. rewrite E1, E2. unfold ch_equiv. intros q. reflexivity.
Qed.

Lemma inputs_transfer3 (Ra Rb : comp -> changes -> changes -> Prop) (exta extb : list comp) n c :
  (forall x, In x exta -> In x extb) ->
  forall tra trb la ra lb rb ab,
    tra = la ++ ra -> trb = lb ++ EDispatch ab :: rb -> act_comp ab = c ->
    answers_rel Ra tra -> answers_rel Rb trb ->
    (forall x, answered tra x -> In x exta) ->
    gate_from conns extb [] trb ->
    (forall u au bu cha chb, (rank u < n)%nat -> In (EDispatch au) tra -> In (EDispatch bu) trb ->
                     act_comp au = u -> act_comp bu = u -> resp_rel Ra au cha -> resp_rel Rb bu chb -> ch_equiv cha chb) ->
    (rank c < S n)%nat ->
    forall q v, spec_inputs conns la c q v -> spec_inputs conns lb c q v.
Proof.
  intros Hsub tra trb la ra lb rb ab Ea Eb Hcb Ba Bb Hext Gb Hresp Hn q v [u [p [ch [Hin [Hk Hl]]]]].
  assert (Hpred : In u (preds conns c)) by (apply preds_In; exists (u, p, c, q); auto).
  assert (Hina : In (EAnswer u ch) tra) by (rewrite Ea; apply in_app_iff; left; exact Hin).
  assert (Hue : In u extb) by (apply Hsub; apply Hext; exists ch; exact Hina).
  rewrite <- Hcb in Hpred.
  destruct (gate_split conns extb trb Gb lb ab rb Eb u Hpred Hue) as [ch' Hin'].
  assert (Hinb : In (EAnswer u ch') trb) by (rewrite Eb; apply in_app_iff; left; exact Hin').
  destruct (Ba u ch Hina) as [au [Hau [Hcu Hra]]]. destruct (Bb u ch' Hinb) as [bu [Hbu [Hcu' Hrb]]].
  assert (Hru : (rank u < n)%nat).
  { specialize (Hrank (u, p, c, q) Hk). simpl in Hrank. lia. }
  rewrite (Hresp u au bu ch ch' Hru Hau Hbu Hcu Hcu' Hra Hrb p) in Hl.
  exists u, p, ch'. auto.
Qed.

(* what the confluence argument needs to know about a trace of a tick *)
Record WT3 (roots ext : list comp) (R : comp -> changes -> changes -> Prop) (tr : list ev) : Prop := {
  wt3_gate : gate_from conns ext [] tr;
  wt3_disp : disp_ok conns t roots [] tr;
  wt3_ans_ext : forall x, answered tr x -> In x ext;
  wt3_nd : forall a, In (EDispatch a) tr -> nd_action a;
  wt3_by : answers_rel R tr
}.

Lemma run_WT3 roots ext st tr R :
  wf_answers tr -> Run conns comps t roots ext st tr -> answers_rel R tr -> WT3 roots ext R tr.
Proof.
  intros Hwf Rn B. constructor.
  - exact (run_gate conns comps t roots ext st tr Rn).
  - exact (run_disp_ok conns comps t roots Hss ext st tr Rn Hwf).
  - exact (i_ans_ext _ _ _ _ _ _ (run_inv conns comps t roots ext st tr Rn)).
  - exact (run_dispatch_nd conns comps t roots ext st tr Rn).
  - exact B.
Qed.

Lemma R_ext_sym : forall c x y a b, NoDup (keys x) -> NoDup (keys y) -> ch_equiv x y -> R2 c x a -> R1 c y b -> ch_equiv a b.
Proof.
  intros c x y a b Hx Hy He Ha Hb q. symmetry. apply (R_ext c y x b a Hy Hx); [intros q'; symmetry; apply He | exact Hb | exact Ha].
Qed.

Lemma confluent_WT3 ext1 tr1 ext2 tr2 :
  WT3 roots1 ext1 R1 tr1 -> WT3 roots2 ext2 R2 tr2 -> (forall x, In x ext1 <-> In x ext2) ->
  forall n c, (rank c < n)%nat ->
  forall a1 a2, In (EDispatch a1) tr1 -> In (EDispatch a2) tr2 ->
  act_comp a1 = c -> act_comp a2 = c -> action_equiv a1 a2.
Proof.
  intros [G1 D1 I1 N1 B1] [G2 D2 I2 N2 B2] Hx.
  induction n as [|n IHn]; intros c Hn a1 a2 Hi1 Hi2 Hc1 Hc2; [lia|].
  destruct (in_split _ _ Hi1) as [l1 [r1 E1]]. destruct (in_split _ _ Hi2) as [l2 [r2 E2]].
  assert (A1 := disp_ok_split conns t roots1 tr1 D1 l1 a1 r1 E1).
  assert (A2 := disp_ok_split conns t roots2 tr2 D2 l2 a2 r2 E2).
  assert (H12 : forall q v, spec_inputs conns l1 c q v -> spec_inputs conns l2 c q v).
  { apply (inputs_transfer3 R1 R2 ext1 ext2 n c (fun x => proj1 (Hx x)) tr1 tr2 l1 (EDispatch a1 :: r1) l2 r2 a2 E1 E2 Hc2 B1 B2 I1 G2); [|exact Hn].
    intros u au bu cha chb Hu Hau Hbu Hcu Hcu' Hra Hrb.
    apply (resp_equiv3 au bu cha chb (N1 au Hau) (N2 bu Hbu)); [eapply IHn; eassumption | exact Hra | exact Hrb]. }
  assert (H21 : forall q v, spec_inputs conns l2 c q v -> spec_inputs conns l1 c q v).
  { apply (inputs_transfer3 R2 R1 ext2 ext1 n c (fun x => proj2 (Hx x)) tr2 tr1 l2 (EDispatch a2 :: r2) l1 r1 a1 E2 E1 Hc1 B2 B1 I2 G1); [|exact Hn].
    intros u au bu cha chb Hu Hau Hbu Hcu Hcu' Hra Hrb. intros q0. symmetry.
    apply (resp_equiv3 bu au chb cha (N1 bu Hbu) (N2 au Hau)); [eapply IHn; eassumption | exact Hrb | exact Hra]. }
  destruct A1 as [T1 A1]. destruct A2 as [T2 A2].
  destruct a1 as [c1 t1 x|c1 t1], a2 as [c2 t2 y|c2 t2]; simpl in *; subst.
  - destruct A1 as [A1 _]. destruct A2 as [A2 _]. split; [reflexivity|]. split; [reflexivity|].
    apply equiv_from_iff. intros q v. rewrite A1, A2. split; [apply H12 | apply H21].
  - destruct A1 as [A1 [Hr|Hne]]; destruct A2 as [Hnr A2]; [exfalso; apply Hnr; apply Hroots; exact Hr|].
    destruct x as [|[q0 v0] x']; [congruence|].
    apply (A2 q0 v0). apply H12. apply A1. simpl. rewrite Pos.eqb_refl. reflexivity.
  - destruct A2 as [A2 [Hr|Hne]]; destruct A1 as [Hnr A1]; [exfalso; apply Hnr; apply Hroots; exact Hr|].
    destruct y as [|[q0 v0] y']; [congruence|].
    apply (A1 q0 v0). apply H21. apply A2. simpl. rewrite Pos.eqb_refl. reflexivity.
  - split; reflexivity.
Qed.

Lemma same_extent3 ext1 st1 tr1 ext2 st2 tr2 :
  Run conns comps t roots1 ext1 st1 tr1 -> Run conns comps t roots2 ext2 st2 tr2 ->
  forall x, In x ext1 <-> In x ext2.
Proof.
  intros Rn1 Rn2 x.
  destruct (run_ext conns comps t roots1 ext1 st1 tr1 Rn1) as [s1 [S1 E1]].
  destruct (run_ext conns comps t roots2 ext2 st2 tr2 Rn2) as [s2 [S2 E2]]. subst ext1 ext2.
  destruct (start_tick_spec conns t roots1 s1 S1) as [_ [_ [_ [_ [_ H1]]]]].
  destruct (start_tick_spec conns t roots2 s2 S2) as [_ [_ [_ [_ [_ H2]]]]].
  rewrite H1, H2. split; intros [r [Hr Hreach]]; exists r; (split; [apply Hroots; exact Hr | exact Hreach]).
Qed.

(* any two runs of the tick, under any answer orders, dispatch every component with the same kind, time
   and (as dictionaries) changes *)
Theorem confluent3 ext1 st1 tr1 ext2 st2 tr2 :
  Run conns comps t roots1 ext1 st1 tr1 -> Run conns comps t roots2 ext2 st2 tr2 ->
  wf_answers tr1 -> wf_answers tr2 -> answers_rel R1 tr1 -> answers_rel R2 tr2 ->
  forall a1 a2, In (EDispatch a1) tr1 -> In (EDispatch a2) tr2 ->
  act_comp a1 = act_comp a2 -> action_equiv a1 a2.
Proof.
  intros Rn1 Rn2 W1 W2 B1 B2 a1 a2 H1 H2 Hc.
  eapply (confluent_WT3 ext1 tr1 ext2 tr2 (run_WT3 roots1 ext1 st1 tr1 R1 W1 Rn1 B1) (run_WT3 roots2 ext2 st2 tr2 R2 W2 Rn2 B2)
            (same_extent3 ext1 st1 tr1 ext2 st2 tr2 Rn1 Rn2) (S (rank (act_comp a1))) (act_comp a1));
    [lia | eassumption | eassumption | reflexivity | symmetry; exact Hc].
Qed.

Theorem same_participants3 ext1 st1 tr1 ext2 st2 tr2 :
  Run conns comps t roots1 ext1 st1 tr1 -> Run conns comps t roots2 ext2 st2 tr2 ->
  todo st1 = [] -> todo st2 = [] ->
  forall c, dispatched tr1 c <-> dispatched tr2 c.
Proof.
  intros Rn1 Rn2 E1 E2 c.
  assert (Hx := same_extent3 ext1 st1 tr1 ext2 st2 tr2 Rn1 Rn2).
  assert (I1 := run_inv conns comps t roots1 _ st1 tr1 Rn1). assert (I2 := run_inv conns comps t roots2 _ st2 tr2 Rn2).
  split; intros H.
  - apply (run_finished conns comps t roots2 _ st2 tr2 Rn2 E2). apply Hx. apply (i_disp_ext _ _ _ _ _ _ I1). exact H.
  - apply (run_finished conns comps t roots1 _ st1 tr1 Rn1 E1). apply Hx. apply (i_disp_ext _ _ _ _ _ _ I2). exact H.
Qed.
End C3.
