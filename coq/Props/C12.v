From TV Require Import Base.
Example C12_placeholder : True. Proof. exact I. Qed.
