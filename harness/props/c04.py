"""C04 -- ticks are serialised, carry one time each, and time never runs backwards.
(a) level M: the real MasterScheduler driven message by message with answers in flight, several
    callbacks due at one instant and interrupts arriving while a tick runs; every output is compared
    with Model/Master.v and the Coq oracle checks: no tick starts before the previous one ended, every
    dispatch carries the running tick's time, tick times never decrease.
(b) level S: whole nested simulations; every inner tick lies inside the outer tick that triggered it,
    at the same time; tick times of every scheduler never decrease."""
import json
import random

import mlevel
import slevel
import sprops
import tlevel
from common import Check, run_shards
from props import c07

PID = "C04"
REASONS = dict(c07.REASONS)
REASONS.update({49: "inner-tick-outside-its-outer-tick-or-at-another-time", 45: "device-updated-with-an-earlier-time-after-a-later-one",
                44: "participant-raised-or-stalled-under-a-delivery-schedule", 51: "device-observation-sequence-differs-from-model",
                53: "tick-sequence-of-a-scheduler-differs-from-model", 54: "master-tick-real-times-differ-from-model", 52: "model-extra-update"})


def main(tier, seed):
    ck = Check(PID, tier, seed, "Props.C04", ["Model/Master.v", "Model/Ticker.v", "Oracle/MasterOracle.v", "Oracle/SimOracle.v",
                                              "Proofs/MasterP.v", "Model/Sim.v", "Proofs/SimP.v", "Proofs/LogP.v", "Model/Alert.v", "Proofs/AlertP.v", "Props/C04.v"])
    ck.build_and_audit()
    rng = random.Random(seed)
    mcases, mbad = c07.m_part(ck, tier, rng)
    # whole simulations
    cases, terms, runs = [], [], []
    for c in sprops.load_corpus() + [None] * {"quick": 60, "thorough": 800}[tier]:
        if c is None:
            cfg = slevel.gen_config(rng, depth=rng.choice([1, 1, 2, 3]), p_sys=0.5)
            devs = slevel.gen_devs(rng, cfg, (1, 1, 2, 3, 4))
            c = dict(cfg=cfg, devs=devs, speed=rng.choice([(1, 1), (2, 1), (1, 2)]), initial=0, stim=sprops.gen_stim(rng, cfg, devs))
        r, term = sprops.run_case(c["cfg"], c["devs"], c["speed"], c["initial"], c["stim"])
        cases.append(c)
        runs.append(r)
        terms.append(term)
    sbad = run_shards(PID + "_s", sprops.HEADER, "sim_case", "check_sim_c04", terms, shard_size=12)
    for c, r in zip(cases, runs):
        ck.count("s:" + json.dumps(sprops.describe(c), sort_keys=True), sum(1 for (lv, _, _) in r["ticklog"] if lv != 1) >= 2)
    # the same simulations on a delaying, reordering bus (harness/cbus.py), judged by the serial / monotone oracle only
    from props import c08
    dcases, dterms = [], []
    for c in cases[:{"quick": 40, "thorough": 400}[tier]]:
        # under a policy drawn at random, and under an acknowledging broker (answers and interrupts in flight while ticks run)
        for j, pol in enumerate((rng.choice(c08.POLICIES), rng.choice(["ack", "ack-per-topic"]))):
            bseed = rng.randrange(10 ** 6)
            if j == 1:
                # ... with a second device interrupting at the very instant of each stimulus: on this bus its interrupt reaches
                # the schedulers while the tick caused by the first one is running (the oracle here does not need the model's order)
                dl = slevel.devices_of(c["cfg"])
                c = dict(c, stim=sorted(set(c["stim"]) | {(t, rng.choice(dl)) for (t, _) in c["stim"]}))
            r = slevel.run_internal(c["cfg"], c["devs"], c["speed"], c["initial"], c["stim"], sprops.T_END, bus=c08.make_bus(pol, bseed, c["cfg"]))
            dcases.append((c, pol, bseed, r))
            dterms.append(slevel.render_sim_case(c["cfg"], c["devs"], c["speed"], c["initial"], c["stim"], sprops.T_END, r))
    dbad = run_shards(PID + "_d", sprops.HEADER, "sim_case", "oracle_c04", dterms, shard_size=12)
    for i, (c, pol, bseed, r) in enumerate(dcases):
        errs = (r["bus"] or {}).get("errors", []) + r["errors"] + ([r["error"]] if r["error"] else [])
        if errs:
            dbad.setdefault(i, []).append(44)
        if r["overlap"]:
            dbad.setdefault(i, []).append(47)
    # in every whole simulation run here: no ticker started a tick while a participant of its previous tick had not answered,
    # and no system simulation answered its scheduler while its own inner tick was running (recorded by harness/slevel.py)
    for i, r in enumerate(runs):
        if r["overlap"]:
            dbad.setdefault(len(dcases) + i, []).append(47)
    n_delayed = len(dcases)
    dcases += [(c, "in-memory", 0, r) for c, r in zip(cases, runs)]
    # the step-exhaustive interrupt injection sweep of C07, judged here by the serial / monotone oracle only
    icases, _ = c07.s_part(ck, tier, rng)
    iterms = [slevel.render_sim_case(c["cfg"], c["devs"], (1, 1), c.get("initial", 0), [], 1_300_000_003, c["run"]) for c in icases]
    ibad = run_shards(PID + "_i", sprops.HEADER, "sim_case", "oracle_c04", iterms, shard_size=60)
    # interrupts published before a late scheduler has come up, at non-zero initial times: replayed during its set-up and
    # stamped before the initial tick -- the tick they cause must not lie before the initial time
    from props import c12
    ecases, eterms = [], []
    for cfg, devs in c12.SMALL:
        for d in [c for (c, k) in cfg[1]["order"] if k == "dev"]:
            for sd in (2, 5):
                for init in (3_000_000, 5_000_000_000):
                    r = slevel.run_internal(cfg, devs, (1, 1), init, [], 1_300_000_003, delays={"sched": sd}, early=(1, d))
                    ecases.append(dict(cfg=cfg, devs=devs, initial=init, delays={"sched": sd}, early=(1, d), run=r))
                    eterms.append(slevel.render_sim_case(cfg, devs, (1, 1), init, [], 1_300_000_003, r, pre=[d]))
    ebad = run_shards(PID + "_e", sprops.HEADER, "sim_case", "oracle_c04", eterms, shard_size=12)
    for i, c in enumerate(icases):
        if c["run"]["overlap"]:
            ibad.setdefault(i, []).append(47)
    for i, c in enumerate(ecases):
        if c["run"]["overlap"]:
            ebad.setdefault(i, []).append(47)
    ck.evaluations += len(ecases)
    ck.coverage["early_interrupt_runs_at_non_zero_initial_time"] = len(ecases)
    ck.rule = ("(a) real MasterScheduler driven message by message on virtual time by random component-playing scripts (answers in "
               "flight with real-time costs, equal wakeup times, interrupts while a tick runs, malformed answers); (b) whole nested "
               "simulations (corpus + seeded random to depth 3) with callbacks and interrupts; non-trivial = script with a mid-tick "
               "interrupt / simulation with >= 2 inner ticks")
    ck.coverage.update(simulations=len(cases), inner_ticks=sum(sum(1 for (lv, _, _) in r["ticklog"] if lv != 1) for r in runs),
                       injection_sweep_runs=len(icases), delayed_bus_runs=n_delayed, runs_watched_for_overlapping_ticks=len(dcases) + len(icases) + len(ecases), disagreements=len(mbad) + len(sbad) + len(ibad) + len(dbad))
    prop = {44, 45, 46, 47, 48, 49}
    done = set()
    for i in sorted(mbad):
        for code in mbad[i]:
            if code in prop and code not in done:
                done.add(code)
                c = mcases[i]
                ck.report(REASONS[code], f"MasterScheduler: {REASONS[code]}",
                          dict(kind="master", conns=c["conns"], comps=c["comps"], initial=c["initial"], speed=c["speed"],
                               events=[[r, list(e), [list(o) for o in outs]] for r, e, outs in c["events"]], codes=mbad[i]))
    for i in sorted(dbad):
        for code in dbad[i]:
            if code in prop and code not in done:
                done.add(code)
                c, pol, bseed, r = dcases[i]
                d = sprops.describe(c)
                d.update(kind="delayed", schedule=[pol, bseed], codes=dbad[i], ticklog=r["ticklog"][:40],
                         errors=((r["bus"] or {}).get("errors", []) + r["errors"])[:3], overlap=r["overlap"][:3])
                ck.report(REASONS[code], f"whole simulation on the delaying bus ({pol}): {REASONS[code]}", d)
    for i in sorted(ibad):
        for code in ibad[i]:
            if code in prop and code not in done:
                done.add(code)
                c = icases[i]
                ck.report(REASONS[code], f"interrupt of device c{c['device']} injected at loop step {c['step']} ({c['name']}): {REASONS[code]}",
                          dict(kind="injection", initial=c.get("initial", 0), cfg={str(k): v for k, v in c["cfg"].items()}, devs={str(k): v for k, v in c["devs"].items()},
                               device=c["device"], step=c["step"], inj=c["inj"], ticklog=c["run"]["ticklog"][-12:], codes=ibad[i]))
    for i in sorted(ebad):
        for code in ebad[i]:
            if code in prop and code not in done:
                done.add(code)
                c = ecases[i]
                ck.report(REASONS[code], f"interrupt of device c{c['early'][1]} published before the scheduler came up, initial time {c['initial']}: {REASONS[code]}",
                          dict(kind="early", cfg={str(k): v for k, v in c["cfg"].items()}, devs={str(k): v for k, v in c["devs"].items()},
                               initial=c["initial"], delays=c["delays"], early=list(c["early"]), ticklog=c["run"]["ticklog"][:12], codes=ebad[i]))
    for i in sorted(sbad):
        for code in sbad[i]:
            if code in prop and code not in done:
                done.add(code)
                d = sprops.describe(cases[i])
                d.update(kind="single", codes=sbad[i], ticklog=runs[i]["ticklog"][:40])
                ck.report(REASONS[code], f"whole simulation: {REASONS[code]}", d)
    if not done:
        corr_m = [i for i in mbad if any(c not in (75, 76) for c in mbad[i])]
        corr_s = [i for i in sbad]
        if corr_m or corr_s:
            if corr_m:
                c = mcases[corr_m[0]]
                d = dict(kind="master", conns=c["conns"], comps=c["comps"], initial=c["initial"], speed=c["speed"],
                         events=[[r, list(e), [list(o) for o in outs]] for r, e, outs in c["events"]], codes=mbad[corr_m[0]])
            else:
                d = sprops.describe(cases[corr_s[0]])
                d.update(kind="single", codes=sbad[corr_s[0]])
            d["broken"] = "correspondence Model/Master.v / Model/Sim.v vs the schedulers; theorems of Props.C04"
            ck.report("correspondence-broken", "scheduler models and implementation disagree but no overlapping, mistimed or "
                      "backwards tick was found", d, no_input=True)
    return ck.finish()


def replay(rp):
    if rp.get("kind") == "single":
        return sprops.replay_S(rp)
    if rp.get("kind") == "delayed":
        from props import c08
        cfg = {int(k): dict(order=[(c, (kk if kk == "dev" else int(kk))) for c, kk in v["order"]], conns=[tuple(x) for x in v["conns"]]) for k, v in rp["cfg"].items()}
        devs = {int(k): tuple(v) for k, v in rp["devs"].items()}
        pol, bseed = rp["schedule"]
        r = slevel.run_internal(cfg, devs, tuple(rp["speed"]), rp["initial"], [tuple(x) for x in rp["stim"]], sprops.T_END, bus=None if pol == "in-memory" else c08.make_bus(pol, bseed, cfg))
        bad = run_shards("replay", sprops.HEADER, "sim_case", "oracle_c04",
                         [slevel.render_sim_case(cfg, devs, tuple(rp["speed"]), rp["initial"], [tuple(x) for x in rp["stim"]], sprops.T_END, r)])
        errs = (r["bus"] or {}).get("errors", []) + r["errors"] + ([r["error"]] if r["error"] else [])
        print("schedule:", pol, bseed, "errors:", errs[:2], "codes:", bad.get(0, []), "overlapping:", r["overlap"][:3])
        print("updates (device, time):", [(c, t) for (c, t, _) in r["trace"]][:60])
        return 1 if bad or errs or r["overlap"] else 0
    if rp.get("kind") == "early":
        cfg = {int(k): dict(order=[(c, (kk if kk == "dev" else int(kk))) for c, kk in v["order"]], conns=[tuple(x) for x in v["conns"]]) for k, v in rp["cfg"].items()}
        devs = {int(k): tuple(v) for k, v in rp["devs"].items()}
        early = tuple(rp["early"])
        r = slevel.run_internal(cfg, devs, (1, 1), rp["initial"], [], 1_300_000_003, delays={"sched": rp["delays"]["sched"]}, early=early)
        bad = run_shards("replay", sprops.HEADER, "sim_case", "oracle_c04",
                         [slevel.render_sim_case(cfg, devs, (1, 1), rp["initial"], [], 1_300_000_003, r, pre=[early[1]])])
        print("early interrupt", early, "initial", rp["initial"], "tick log:", r["ticklog"][:12])
        print("codes:", bad.get(0, []), "overlapping:", r["overlap"][:3])
        return 1 if bad or r["overlap"] else 0
    if rp.get("kind") == "injection":
        cfg = {int(k): dict(order=[(c, kk) for c, kk in v["order"]], conns=[tuple(x) for x in v["conns"]]) for k, v in rp["cfg"].items()}
        devs = {int(k): tuple(v) for k, v in rp["devs"].items()}
        r = slevel.run_internal(cfg, devs, (1, 1), rp.get("initial", 0), [], 1_300_000_003, inject=(rp["step"], rp["device"]))
        bad = run_shards("replay", sprops.HEADER, "sim_case", "oracle_c04", [slevel.render_sim_case(cfg, devs, (1, 1), rp.get("initial", 0), [], 1_300_000_003, r)])
        print("injection", rp["device"], "at step", rp["step"], "tick log:", r["ticklog"])
        print("codes:", bad.get(0, []), "overlapping:", r["overlap"][:3])
        return 1 if bad or r["overlap"] else 0
    return c07.replay(rp)
