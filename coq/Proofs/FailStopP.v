From TV Require Import Base Model.Wiring Model.Sim Model.FailStop.

Section P.
Variable cfg : config.

(* c is a component somewhere below level lv (within the given nesting depth) *)
Inductive Below : nat -> positive -> comp -> Prop :=
| Below_here d lv c k : In (c, k) (l_order (level_of cfg lv)) -> Below (S d) lv c
| Below_inner d lv s lv' c :
    In (s, KSys lv') (l_order (level_of cfg lv)) -> Below d lv' c -> Below (S d) lv c.

Lemma stop_level_spec fuel : forall lv c, In c (stop_level cfg fuel lv) <-> Below fuel lv c.
Proof.
  induction fuel as [|f IH]; intros lv c; simpl.
  - split; [intros [] | intros H; inversion H].
  - rewrite in_flat_map. split.
    + intros [[s k] [Hin Hc]]. destruct k as [|lv']; simpl in Hc.
      * destruct Hc as [<-|[]]. eapply Below_here. exact Hin.
      * destruct Hc as [<-|Hc]; [eapply Below_here; exact Hin|].
        eapply Below_inner; [exact Hin | apply IH; exact Hc].
    + intros H. inversion H as [d lv0 c0 k Hin | d lv0 s lv' c0 Hin Hb]; subst.
      * exists (c, k). split; [exact Hin|]. destruct k; simpl; auto.
      * exists (s, KSys lv'). split; [exact Hin|]. simpl. right. apply IH. exact Hb.
Qed.

(* every component of the simulation is told to stop, wherever the failure happened: the
   master always handles the exception, and stopping a system stops everything below it *)
Lemma all_stopped fuel lvc path c :
  In 1%positive (handling_levels lvc path) ->
  In c (all_components cfg fuel) -> In c (stopped cfg fuel lvc path).
Proof.
  intros H1 Hc. unfold stopped. apply in_flat_map. exists 1%positive. split; [exact H1 | exact Hc].
Qed.

Lemma stopped_only_components fuel lvc path c :
  (forall lv, In lv (handling_levels lvc path) -> forall x, Below fuel lv x -> Below fuel 1%positive x) ->
  In c (stopped cfg fuel lvc path) -> In c (all_components cfg fuel).
Proof.
  intros Hsub Hc. unfold stopped in Hc. apply in_flat_map in Hc. destruct Hc as [lv [Hlv Hx]].
  apply stop_level_spec. apply (Hsub lv Hlv). apply stop_level_spec. exact Hx.
Qed.
End P.

(* what the pinned tree did: a system component told to stop only cancelled its own tasks, so a
   broadcast reached one level only *)
Definition stop_level_pinned (cfg : config) (lv : positive) : list comp :=
  map fst (l_order (level_of cfg lv)).

Lemma pinned_refuted : exists cfg c,
  In c (all_components cfg 5) /\ ~ In c (flat_map (stop_level_pinned cfg) (handling_levels 1%positive [])).
Proof.
  exists [(1%positive, {| l_order := [(3%positive, KDev); (4%positive, KSys 2%positive)]; l_conns := [] |});
          (2%positive, {| l_order := [(5%positive, KDev)]; l_conns := [] |})], 5%positive.
  vm_compute. split; [auto 10|]. intros [H|[H|[]]]; discriminate.
Qed.
