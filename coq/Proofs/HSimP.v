(* The executable interleaving scheduler of Model/HSim.v computes runs of the step relation of Proofs/MsgTreeP.v:
   whatever the strategy, a tick it completes is an [hmtick], a script it completes an [hxrun] -- and so ends like
   Model/Sim.v ([hexec_is_sim]). *)
From TV Require Import Base Model.Wiring Model.Ticker Model.Component Model.Sim Model.SimTime Model.NSim Model.Interrupts Model.NNSim Model.HSim
  Proofs.WiringP Proofs.TickerP Proofs.SimP Proofs.NonInterfP Proofs.LatestP Proofs.FrameP Proofs.EqvP Proofs.ParDevP
  Proofs.ExtentP Proofs.Confluence2P Proofs.Confluence3P Proofs.ScheduleP Proofs.InlineLoopP Proofs.NScheduleP Proofs.NDetP Proofs.NDetXP
  Proofs.SimNTP Proofs.MsgLevelP Proofs.MsgTreeP Oracle.SimCheck Oracle.HReplay.
Open Scope Z_scope.

Lemma split_at_spec {A} x (l : list (positive * A)) a v b : split_at x l = Some (a, v, b) -> l = a ++ (x, v) :: b.
Proof.
  revert a v b. induction l as [|[k w] r IH]; intros a v b H; cbn [split_at] in H; [discriminate|].
  destruct (Pos.eqb_spec k x) as [->|Hne].
  - inversion H; subst. reflexivity.
  - destruct (split_at x r) as [[[a' w'] b']|] eqn:E; [|discriminate]. inversion H; subst. rewrite (IH a' v b eq_refl). reflexivity.
Qed.

Lemma answeredb_false tr c : answeredb tr c = false -> ~ In c (ans_comps tr).
Proof.
  intros H Hi. apply answered_In in Hi. destruct Hi as [ch Hi].
  assert (E : answeredb tr c = true).
  { unfold answeredb. apply existsb_exists. exists (EAnswer c ch). split; [exact Hi | apply Pos.eqb_refl]. }
  congruence.
Qed.

Section HP.
Variable cfg : config.
Variable devf : devfun.

Lemma sys_of_spec f' lv a x chgx lv' : sys_of cfg f' lv a = Some (x, chgx, lv') ->
  exists t0, a = Upd x t0 chgx /\ Pos.eqb x ext_id = false /\ Pos.eqb x exp_id = false /\
             lookup x (l_order (level_of cfg lv)) = Some (KSys lv') /\ f' <> O.
Proof.
  unfold sys_of. destruct a as [y t0 c|y t0]; [|discriminate].
  destruct (Pos.eqb y ext_id) eqn:E1; [discriminate|]. destruct (Pos.eqb y exp_id) eqn:E2; [discriminate|].
  destruct (lookup y (l_order (level_of cfg lv))) as [[|l0]|] eqn:Ek; try discriminate. destruct f' as [|f'']; [discriminate|].
  intros H. inversion H; subst. exists t0. split; [reflexivity|]. split; [exact E1|]. split; [exact E2|]. split; [exact Ek | discriminate].
Qed.

Lemma comp_exec0_sound f' lv time chg a s s1 ans ca o : sys_of cfg f' lv a = None ->
  comp_exec0 cfg devf f' lv time chg a s = Some (s1, ans, ca, o) -> comp_step0 cfg devf (I0 f') lv time chg a s s1 ans ca o.
Proof.
  unfold sys_of, comp_exec0, comp_step0. destruct a as [y t0 c|y t0].
  - destruct (Pos.eqb y ext_id); [intros _ H; inversion H; subst; auto|].
    destruct (Pos.eqb y exp_id); [intros _ H; inversion H; subst; auto|].
    destruct (lookup y (l_order (level_of cfg lv))) as [[|l0]|]; [| |intros _ H; discriminate].
    + intros _. destruct (dev_update devf s y time c) as [[[s2 ch2] ca2] o2] eqn:E. intros H. inversion H; subst. exists o2. split; reflexivity.
    + destruct f' as [|f'']; [|discriminate]. intros _ H. inversion H; subst. split; [reflexivity|]. unfold triv. auto.
  - intros _ H. inversion H; subst. auto.
Qed.

Theorem hs_apply_sound : forall f lv time chg m k s k' s' o,
  hs_apply cfg devf f lv time chg m k s = Some (k', s', o) -> HS cfg devf f lv time chg k s k' s' o.
Proof.
  induction f as [|f IH]; intros lv time chg m k s k' s' o H; [discriminate|]. cbn [hs_apply] in H. cbn [HS].
  destruct k as [st tr pd kids]. destruct m as [c|c|x m'|x].
  - destruct (find_dispatch tr c) as [a|] eqn:Ef; [|discriminate].
    destruct (find_dispatch_In tr c a Ef) as [Ha Hac].
    destruct (answeredb tr c) eqn:Ea; [discriminate|]. destruct (memb c (keys pd)) eqn:Ep; [discriminate|].
    destruct (memb c (keys kids)) eqn:Ek; [discriminate|]. cbn [orb] in H.
    apply answeredb_false in Ea. apply memb_false in Ep. apply memb_false in Ek.
    destruct (sys_of cfg f lv a) as [[[x chgx] lv']|] eqn:Es.
    + destruct (sys_of_spec f lv a x chgx lv' Es) as [t0 [-> [X1 [X2 [Hk HF]]]]]. cbn [act_comp] in Hac. subst c.
      destruct (start_tick (l_conns (level_of cfg lv')) time (nroots cfg s lv' time)) as [st0|] eqn:E0; [|discriminate].
      destruct (schedule (l_conns (level_of cfg lv')) (lcomps (level_of cfg lv')) st0) as [[st1 acts]|] eqn:E1; [|discriminate].
      inversion H; subst. eapply L_sys; eassumption.
    + destruct (comp_exec0 cfg devf f lv time chg a s) as [[[[s1 ans] ca] o1]|] eqn:Ec; [|discriminate].
      inversion H; subst. apply L_in; try assumption. apply comp_exec0_sound; assumption.
  - destruct (split_at c pd) as [[[pd1 [ans ca]] pd2]|] eqn:Es; [|discriminate]. apply split_at_spec in Es. subst pd.
    destruct (existsb (fun cd : comp * bool => Pos.eqb (fst cd) c && snd cd) (todo st)) eqn:Ex; [|discriminate].
    destruct (propagate (l_conns (level_of cfg lv)) (lcomps (level_of cfg lv)) st c time ans) as [|st' acts fin] eqn:Ep; [discriminate|].
    inversion H; subst.
    apply existsb_exists in Ex. destruct Ex as [[c0 b] [Hin Hb]]. cbn [fst snd] in Hb. apply andb_true_iff in Hb. destruct Hb as [Hb1 Hb2].
    apply Pos.eqb_eq in Hb1. subst c0 b. eapply L_out; eassumption.
  - destruct (split_at x kids) as [[[k1 [chgx kx]] k2]|] eqn:Es; [|discriminate]. apply split_at_spec in Es. subst kids.
    destruct (lookup x (l_order (level_of cfg lv))) as [[|lv']|] eqn:Ek; try discriminate.
    destruct (hs_apply cfg devf f lv' time chgx m' kx s) as [[[kx' s1] o1]|] eqn:Ea; [|discriminate].
    inversion H; subst. eapply L_kid; [exact Ek | eapply IH; exact Ea].
  - destruct (split_at x kids) as [[[k1 [chgx kx]] k2]|] eqn:Es; [|discriminate]. apply split_at_spec in Es. subst kids.
    destruct kx as [stx trx pdx kidsx]. destruct pdx; [|destruct (lookup x (l_order (level_of cfg lv))) as [[|?]|]; discriminate].
    destruct kidsx; [|destruct (lookup x (l_order (level_of cfg lv))) as [[|?]|]; discriminate].
    destruct (lookup x (l_order (level_of cfg lv))) as [[|lv']|] eqn:Ek; try discriminate.
    destruct (todo stx) eqn:Et; [|discriminate]. inversion H; subst. eapply L_done; eassumption.
Qed.

Lemma hs_loop_sound pick f lv time chg : forall n i k s ob k' s' ob',
  hs_loop cfg devf pick n i f lv time chg k s ob = Some (k', s', ob') ->
  exists o, ob' = ob ++ o /\ Star (HS cfg devf f lv time chg) k s k' s' o.
Proof.
  induction n as [|n IH]; intros i k s ob k' s' ob' H; [discriminate|]. cbn [hs_loop] in H.
  destruct (hs_enabled cfg f lv k) as [|m0 ms] eqn:Ee.
  - inversion H; subst. exists []. split; [rewrite app_nil_r; reflexivity | constructor].
  - destruct (pick i (m0 :: ms)) as [m|]; [|discriminate].
    destruct (hs_apply cfg devf f lv time chg m k s) as [[[k1 s1] o1]|] eqn:Ea; [|discriminate].
    destruct (IH (S i) k1 s1 (ob ++ o1) k' s' ob' H) as [o2 [E HS2]]. exists (o1 ++ o2). split; [rewrite E, app_assoc; reflexivity|].
    eapply Star_trans; [apply Star_one; eapply hs_apply_sound; exact Ea | exact HS2].
Qed.

Theorem htick_exec_sound pick n f s when roots s' ob :
  htick_exec cfg devf pick n f s when roots = Some (s', ob) -> hmtick cfg devf f s when roots s' ob.
Proof.
  unfold htick_exec, hmtick.
  destruct (start_tick (l_conns (level_of cfg top)) when roots) as [st0|] eqn:E0; [|discriminate].
  destruct (schedule (l_conns (level_of cfg top)) (lcomps (level_of cfg top)) st0) as [[st1 acts]|] eqn:E1; [|discriminate].
  destruct (hs_loop cfg devf pick n 0 (S f) top when [] (HC st1 (map EDispatch acts) [] []) (log_tick s top when roots) []) as [[[k1 s1] ob1]|] eqn:El; [|discriminate].
  destruct k1 as [st tr pd kids]. destruct pd; [|discriminate]. destruct kids; [|discriminate]. destruct (todo st) eqn:Et; [|discriminate].
  intros H. inversion H; subst.
  destruct (hs_loop_sound pick (S f) top when [] n 0%nat _ _ _ _ _ _ El) as [o [E HSt]]. cbn [app] in E. subst o.
  exists st0, st1, acts, st, tr. split; [reflexivity|]. split; [exact E1|]. split; [exact HSt | exact Et].
Qed.

Theorem hxrun_exec_sound pick n f : forall script s ob s' ob',
  hxrun_exec cfg devf pick n f script s ob = Some (s', ob') -> HXRun cfg devf f script s ob s' ob'.
Proof.
  induction script as [|[|c lvc path w] r IH]; intros s ob s' ob' H; cbn [hxrun_exec] in H.
  - inversion H; subst. constructor.
  - destruct (first_wakeups (wake_of s top)) as [[when roots]|] eqn:Ef.
    + destruct (htick_exec cfg devf pick n f _ when roots) as [[s2 o]|] eqn:E; [|discriminate].
      eapply HX_tick; [exact Ef | apply (htick_exec_sound pick n f _ when roots s2 o E) | apply IH; exact H].
    + apply HX_idle; [exact Ef | apply IH; exact H].
  - apply HX_stim. apply IH. exact H.
Qed.

Theorem hxrun_from_start_sound pick n f initial script s' ob' :
  hxrun_from_start cfg devf pick n f initial script = Some (s', ob') -> hxrun cfg devf f initial script s' ob'.
Proof.
  unfold hxrun_from_start.
  destruct (htick_exec cfg devf pick n f (set_wake s_init top []) initial (map fst (l_order (level_of cfg top)))) as [[s1 o1]|] eqn:E; [|discriminate].
  intros H. exists s1, o1. split; [apply (htick_exec_sound pick n f _ _ _ _ _ E) | apply (hxrun_exec_sound pick n f script s1 o1 s' ob' H)].
Qed.

(* ---------- a recorded run of the real schedulers that replays (Oracle/HReplay.v) is a run of the step relation *)
Section Replay.
Variable f : nat.
Variable time : Z.

Definition Reach (k : hcfg) (s : sstate) (ob : list obs) (k' : hcfg) (s' : sstate) (ob' : list obs) : Prop :=
  exists o, ob' = ob ++ o /\ Star (HS cfg devf (S f) top time []) k s k' s' o.

Lemma Reach_refl k s ob : Reach k s ob k s ob.
Proof. exists []. split; [rewrite app_nil_r; reflexivity | constructor]. Qed.

Lemma Reach_trans k s ob k1 s1 ob1 k2 s2 ob2 : Reach k s ob k1 s1 ob1 -> Reach k1 s1 ob1 k2 s2 ob2 -> Reach k s ob k2 s2 ob2.
Proof.
  intros [o1 [E1 H1]] [o2 [E2 H2]]. exists (o1 ++ o2). split; [rewrite E2, E1, app_assoc; reflexivity|].
  eapply Star_trans; eassumption.
Qed.

Lemma hs_do_sound m k s ob k' s' ob' : hs_do cfg devf f time m k s ob = Some (k', s', ob') -> Reach k s ob k' s' ob'.
Proof.
  unfold hs_do. destruct (hs_apply cfg devf (S f) top time [] m k s) as [[[k1 s1] o1]|] eqn:E; [|discriminate].
  intros H. inversion H; subst. exists o1. split; [reflexivity|]. apply Star_one. eapply hs_apply_sound. exact E.
Qed.

Lemma hs_auto_sound : forall n k s ob k' s' ob', hs_auto cfg devf f time n k s ob = (k', s', ob') -> Reach k s ob k' s' ob'.
Proof.
  induction n as [|n IH]; intros k s ob k' s' ob' H; cbn [hs_auto] in H.
  - inversion H; subst. apply Reach_refl.
  - destruct (filter is_auto (hs_enabled cfg (S f) top k)) as [|m r]; [inversion H; subst; apply Reach_refl|].
    destruct (hs_do cfg devf f time m k s ob) as [[[k1 s1] ob1]|] eqn:E; [|inversion H; subst; apply Reach_refl].
    eapply Reach_trans; [apply (hs_do_sound _ _ _ _ _ _ _ E) | apply IH; exact H].
Qed.

Lemma hs_moves_sound : forall ms k s ob k' s' ob', hs_moves cfg devf f time ms k s ob = Some (k', s', ob') -> Reach k s ob k' s' ob'.
Proof.
  induction ms as [|m r IH]; intros k s ob k' s' ob' H; cbn [hs_moves] in H.
  - inversion H; subst. apply Reach_refl.
  - destruct (hs_do cfg devf f time m k s ob) as [[[k1 s1] ob1]|] eqn:E; [|discriminate].
    eapply Reach_trans; [apply (hs_do_sound _ _ _ _ _ _ _ E) | apply IH; exact H].
Qed.

Lemma hs_replay_sound n : forall msgs k s ob k' s' ob',
  hs_replay cfg devf f time n msgs k s ob = RR_ok k' s' ob' -> Reach k s ob k' s' ob'.
Proof.
  induction msgs as [|r rest IH]; intros k s ob k' s' ob' H; cbn [hs_replay] in H.
  - inversion H; subst. apply Reach_refl.
  - destruct (rmsg_matches time r k).
    + destruct (hs_moves cfg devf f time (rmsg_moves r) k s ob) as [[[k1 s1] ob1]|] eqn:E; [|discriminate].
      destruct (hs_auto cfg devf f time n k1 s1 ob1) as [[k2 s2] ob2] eqn:Ea.
      eapply Reach_trans; [apply (hs_moves_sound _ _ _ _ _ _ _ E)|].
      eapply Reach_trans; [apply (hs_auto_sound _ _ _ _ _ _ _ Ea) | apply IH; exact H].
    + destruct (hs_moves cfg devf f time (rmsg_moves r) k s ob); discriminate.
Qed.

(* a real master tick whose deliveries replay is a tick of the interleaved semantics *)
Theorem htick_replay_sound n s roots msgs k' s' ob :
  htick_replay cfg devf f time n s roots msgs = RR_ok k' s' ob -> hmtick cfg devf f s time roots s' ob.
Proof.
  unfold htick_replay, hmtick.
  destruct (start_tick (l_conns (level_of cfg top)) time roots) as [st0|] eqn:E0; [|discriminate].
  destruct (schedule (l_conns (level_of cfg top)) (lcomps (level_of cfg top)) st0) as [[st1 acts]|] eqn:E1; [|discriminate].
  destruct (hs_auto cfg devf f time n (HC st1 (map EDispatch acts) [] []) (log_tick s top time roots) []) as [[k1 s1] ob1] eqn:Ea.
  destruct (hs_replay cfg devf f time n msgs k1 s1 ob1) as [k2 s2 ob2|code] eqn:Er; [|discriminate].
  destruct k2 as [st tr pd kids]. destruct pd; [|discriminate]. destruct kids; [|discriminate]. destruct (todo st) eqn:Et; [|discriminate].
  intros H. inversion H; subst.
  pose proof (Reach_trans _ _ _ _ _ _ _ _ _ (hs_auto_sound _ _ _ _ _ _ _ Ea) (hs_replay_sound _ _ _ _ _ _ _ _ Er)) as [o [E HSt]].
  cbn [app] in E. subst o. exists st0, st1, acts, st, tr. split; [reflexivity|]. split; [exact E1|]. split; [exact HSt | exact Et].
Qed.
End Replay.
End HP.
