(* C20 -- the IoBox device behaves as a memory.  Property theorems only. *)
From TV Require Import Base Model.IoBox Proofs.IoBoxP Model.PyLib Gen.SourceFuns Proofs.GenIoBoxP.

(* writes stay invisible to reads until the next update *)
Theorem C20_invisible : forall b a v a', read (write b a v) a' = read b a'.
Proof. exact write_invisible. Qed.

(* after an update each address holds the most recent write in the sequence
   "input writes in order, then pending adapter writes in order"; unwritten
   addresses keep their value (None = never written = the read fails) *)
Theorem C20_last_write_wins : forall b inputs a,
  read (fst (update b inputs)) a =
  match last_write a (inputs ++ buf b) with Some v => Some v | None => read b a end.
Proof. exact update_last_write. Qed.

(* the output lists the applied writes in application order, and nothing stays pending *)
Theorem C20_output_in_application_order : forall b inputs,
  snd (update b inputs) = inputs ++ buf b /\ buf (fst (update b inputs)) = [].
Proof. intros; split; [apply update_output | apply update_clears]. Qed.

(* reading an address that no write and no input ever mentioned fails, after any history *)
Theorem C20_never_written_fails : forall ops a,
  (forall x v, In (W x v) ops -> x <> a) ->
  (forall i, In (U i) ops -> ~ In a (map fst i)) ->
  forall b2, read (fst (run2 empty_box b2 ops)) a = None.
Proof.
  intros ops a HW HU b2.
  apply never_written_fails; [exact HW | exact HU | reflexivity | intros []].
Qed.

(* a second IoBox fed from the update outputs ends up with identical contents,
   after every history of writes, reads and updates *)
Theorem C20_echo_replays : forall ops,
  mem (fst (run2 empty_box empty_box ops)) = mem (snd (run2 empty_box empty_box ops)).
Proof. intros ops. apply (echo_chain ops empty_box empty_box); reflexivity. Qed.

(* what the code did before the repair (LIFO drain) is refuted *)
Theorem C20_lifo_refuted : exists b inputs a,
  read (fst (update_lifo b inputs)) a <>
  match last_write a (inputs ++ buf b) with Some v => Some v | None => read b a end.
Proof. exact lifo_refuted. Qed.

(* non-vacuity: a concrete history with two writes to one address *)
Example C20_example :
  run empty_box [W 1%positive 10%Z; W 1%positive 20%Z; R 1%positive; U [(2%positive, 5%Z)]; R 1%positive; R 2%positive; R 3%positive]
  = [RW; RW; RR None; RU [(2%positive, 5%Z); (1%positive, 10%Z); (1%positive, 20%Z)];
     RR (Some 20%Z); RR (Some 5%Z); RR None].
Proof. vm_compute. reflexivity. Qed.

(* the tie to the source: the model IS IoBoxDevice -- write, read and update of Model/IoBox.v are the translations of
   the three methods, regenerated from /repo by the function translator (harness/gen_funs.py) on every run *)
Theorem C20_model_is_source : forall (b : box) a v (inputs : writes),
  gen_iobox_write (mem b) (buf b) a v = buf (write b a v) /\
  gen_iobox_read (mem b) (buf b) a = read b a /\
  gen_iobox_update (mem b) (buf b) inputs = (buf (fst (update b inputs)), mem (fst (update b inputs)), (snd (update b inputs), None)).
Proof.
  intros b a v inputs. split; [apply iobox_write_is_source|]. split; [apply iobox_read_is_source | apply iobox_update_is_source].
Qed.
