"""Level M: the real MasterScheduler as a reactive machine.  Fake state-interface classes record
what it produces; the harness plays every component, delivering Output / Skip / Interrupt /
ComponentException messages at chosen virtual real times (also in the middle of ticks), and
lets the scheduler's own sleep timer fire.  Observed outputs per event are compared with
Model/Master.v."""
import asyncio
import random

from common import P, Zr, L, T, O, B
from slevel import VLoop, Deadlock
import tlevel

HEADER = "From TV Require Import Base Model.Wiring Model.Ticker Model.Master."


def cn(k): return f"c{k}"
def pn(k): return f"p{k}"
def ci(s): return int(s[1:])


class Driver:
    def __init__(self, conns, comps, initial, speed, rng):
        self.conns, self.comps, self.initial, self.speed, self.rng = conns, comps, initial, speed, rng
        self.log = []          # current event's outputs
        self.events = []       # [(r, event tuple, outputs)]

    async def quiesce(self, loop):
        for _ in range(200):
            await asyncio.sleep(0)
            if len(loop._ready) == 0:
                return
        raise RuntimeError("no quiescence")

    def close_event(self, r, ev):
        """splits the outputs where an immediately firing sleep led to the next tick"""
        outs, cur, cur_ev = [], [], ev
        for o in self.log:
            # only the start-up and the sleep timer start ticks: a tick that starts in the middle of the outputs of
            # another event (after a re-armed sleep that ended at once, or because the armed sleep ended at the very
            # instant of this event) belongs to a timer event of its own
            if o[0] == "tickstart" and (cur or cur_ev[0] not in ("start", "timer", "wait")):
                outs.append((r, cur_ev, cur))
                cur, cur_ev = [], ("timer",)
            cur.append(o)
        outs.append((r, cur_ev, cur))
        self.events.extend(outs)
        self.log = []

    async def run(self, loop, script):
        """script(driver state) yields events; see gen_script"""
        import tickit.core.management.schedulers.master as mm
        import tickit.core.management.ticker as tk
        from tickit.core.typedefs import (Changes, ComponentException, Input, Interrupt, Output, Skip, StopComponent)
        from immutables import Map

        drv = self

        class FakeConsumer:
            def __init__(self, cb):
                drv.cb = cb

            async def subscribe(self, topics):
                drv.topics = set(topics)

        class FakeProducer:
            async def produce(self, topic, value):
                if isinstance(value, Input):
                    drv.log.append(("act", "U", ci(value.target), int(value.time), {ci(k): v for k, v in value.changes.items()}))
                elif isinstance(value, Skip):
                    drv.log.append(("act", "S", ci(value.source), int(value.time)))
                    drv.skips.append(value)
                elif isinstance(value, StopComponent):
                    drv.log.append(("stop", ci(topic[len("tickit-"):-len("-in")])))
                else:
                    drv.log.append(("other", repr(value)))

        self.skips = []
        sched = mm.MasterScheduler(tlevel.build_iw(self.conns, self.comps), FakeConsumer, FakeProducer,
                                   initial_time=self.initial, simulation_speed=self.speed[0] / self.speed[1])
        orig_call = tk.Ticker.__call__
        orig_sleep_time = mm.MasterScheduler.sleep_time

        async def logged_call(tself, time, roots):
            drv.log.append(("tickstart", int(time), sorted(ci(x) for x in roots)))
            await orig_call(tself, time, roots)
            drv.log.append(("tickend", int(time)))

        def logged_sleep_time(sself, when):
            st = orig_sleep_time(sself, when)
            now = loop.time_ns()
            d = now + max(0, int(round(st * 1e9)))
            drv.log.append(("arm", d))
            drv.deadline = d
            return st

        tk.Ticker.__call__ = logged_call
        mm.MasterScheduler.sleep_time = logged_sleep_time
        self.deadline = None
        try:
            r = 0
            pending = {}       # dispatched, unanswered: comp -> act
            in_tick = False
            task = None
            for ev in script(self):
                kind = ev[0]
                r = max(r, ev[1])
                # let the scheduler's own timer fire first if it is due before this event
                while (self.deadline is not None and not in_tick and self.deadline < r and task is not None):
                    d = self.deadline
                    self.deadline = None
                    await asyncio.sleep(d / 1e9 - loop.vt)
                    await self.quiesce(loop)
                    self.close_event(d, ("timer",))
                    in_tick = self._track(pending)
                await asyncio.sleep(r / 1e9 - loop.vt)
                if kind == "start":
                    task = asyncio.create_task(sched.run_forever())
                    await self.quiesce(loop)
                else:
                    msg = None
                    if kind == "output":
                        _, _, c, t, ch, ca = ev
                        msg = Output(cn(c), t, Changes(Map({pn(p): v for p, v in ch.items()})), ca)
                    elif kind == "skip":
                        msg = Skip(cn(ev[2]), ev[3], Changes(Map()))
                    elif kind == "interrupt":
                        msg = Interrupt(cn(ev[2]))
                    elif kind == "exception":
                        msg = ComponentException(cn(ev[2]), RuntimeError("boom"), "tb")
                    elif kind == "wait":
                        msg = None
                    if msg is not None:
                        try:
                            await self.cb(msg)
                        except Exception:
                            self.log.append(("fail",))
                    await self.quiesce(loop)
                if kind == "wait" and not self.log:
                    continue
                self.close_event(r, ev)
                in_tick = self._track(pending)
                if self.deadline is not None and in_tick:
                    self.deadline = None
            if task is not None:
                task.cancel()
        finally:
            tk.Ticker.__call__ = orig_call
            mm.MasterScheduler.sleep_time = orig_sleep_time
        return self.events

    def _track(self, pending):
        """updates the harness' view (pending answers / in tick) from the events recorded so far"""
        in_tick = False
        pending.clear()
        for (_, ev, outs) in self.events:
            if ev[0] in ("output", "skip") and not any(o[0] == "fail" for o in outs):
                pending.pop(ev[2], None)
            for o in outs:
                if o[0] == "tickstart":
                    in_tick = True
                    pending.clear()
                elif o[0] == "tickend":
                    in_tick = False
                elif o[0] == "act":
                    pending[o[2]] = o
                elif o[0] == "stop":
                    in_tick = False
        self.pending, self.in_tick = dict(pending), in_tick
        self.last_tick_time = max([o[1] for (_, _, outs) in self.events for o in outs if o[0] == "tickstart"] + [self.initial_guess])
        return in_tick


def gen_script(rng, conns, comps, n_events, p_interrupt=0.25, p_bad=0.05, p_exc=0.0, real_cost=True):
    """a component-playing script: answers pending dispatches (random order, random call_at), raises
    interrupts at any moment, occasionally misbehaves"""
    def script(drv):
        r = rng.randrange(0, 5) * 2
        yield ("start", r)
        drv.pending, drv.in_tick, drv.last_tick_time = {}, False, drv.initial_guess
        for _ in range(n_events):
            # mostly nanoseconds; now and then an answer (or the next interrupt) takes seconds of real time
            r += (7_000_000_000 if rng.random() < 0.03 else rng.choice([0, 0, 2, 10, 1000])) if real_cost else 0
            x = rng.random()
            pend = sorted(drv.pending)
            if x < p_interrupt:
                yield ("interrupt", r, rng.choice(comps))
            elif x < p_interrupt + p_bad:
                c = rng.choice(comps + [max(comps) + 1])
                # a foreign / duplicate / wrongly timed answer -- now and then one that asks to be called back (a redelivered
                # stale answer does): what is rejected must leave no callback behind either
                # (never in the past of the tick that is running: an answer the ticker does accept -- a component answering before it was
                # asked -- is then a device asking for a legitimate callback)
                yield ("output", r, c, rng.choice([drv.initial_guess, 0, 7]), {1: 5},
                       rng.choice([None, None, drv.last_tick_time + 4, drv.last_tick_time + 40, drv.last_tick_time + 2000]))   # (even: whole ns at speed 2)
            elif x < p_interrupt + p_bad + p_exc and pend:
                yield ("exception", r, rng.choice(pend))
                return
            elif pend:
                c = rng.choice(pend)
                a = drv.pending[c]
                t = a[3]
                if a[1] == "S":
                    yield ("skip", r, c, t)
                else:
                    ch = tlevel.default_answer(conns, c, len(drv.events), a[4], "some")
                    ca = None
                    y = rng.random()
                    if y < 0.5:
                        ca = t + rng.choice([2, 100, 1000, 4000])
                    yield ("output", r, c, t, ch, ca)
            else:
                # idle: advance real time (timers fire on the way)
                r += rng.choice([10, 500, 3000, 20000])
                yield ("wait", r)
    return script


def run_master_case(conns, comps, initial, speed, rng, n_events=40, **kw):
    drv = Driver(conns, comps, initial, speed, rng)
    drv.initial_guess = initial
    import tickit.core.management.schedulers.master as mm

    loop = VLoop()
    asyncio.set_event_loop(loop)
    old = mm.time_ns
    mm.time_ns = loop.time_ns
    try:
        loop.run_until_complete(drv.run(loop, gen_script(rng, conns, comps, n_events, **kw)))
    finally:
        mm.time_ns = old
        try:
            for t in asyncio.all_tasks(loop):
                t.cancel()
            loop.run_until_complete(asyncio.sleep(0))
        except Exception:
            pass
        asyncio.set_event_loop(None)
        loop.close()
    return drv.events


def r_ev(ev):
    k = ev[0]
    if k == "start":
        return "IStart"
    if k == "output":
        _, _, c, t, ch, ca = ev
        return f"IOutput {P(c)} {Zr(t)} {tlevel.r_changes(ch)} {O(ca, Zr)}"
    if k == "skip":
        return f"ISkip {P(ev[2])} {Zr(ev[3])}"
    if k == "interrupt":
        return f"IInterrupt {P(ev[2])}"
    if k == "exception":
        return f"IException {P(ev[2])}"
    return "ITimer"


def r_out(o):
    k = o[0]
    if k == "act":
        return "OAct (" + tlevel.r_action(o[1:]) + ")"
    if k == "tickstart":
        return f"OTickStart {Zr(o[1])} {L(P(c) for c in o[2])}"
    if k == "tickend":
        return f"OTickEnd {Zr(o[1])}"
    if k == "arm":
        return f"OArm {Zr(o[1])}"
    if k == "stop":
        return f"OStop {P(o[1])}"
    return "OFail"


def render_master_case(conns, comps, initial, speed, events):
    evs = L(T(Zr(r), "(" + r_ev(ev) + ")") for (r, ev, _) in events)
    obs = L(L(r_out(o) for o in outs) for (_, _, outs) in events)
    return ("{| mc_conns := %s; mc_comps := %s; mc_initial := %s; mc_num := %s; mc_den := %s; mc_events := %s; "
            "mc_observed := %s |}") % (tlevel.r_conns(conns), L(P(c) for c in comps), Zr(initial), Zr(speed[0]), Zr(speed[1]), evs, obs)
