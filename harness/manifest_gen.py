"""Writes /verif/MANIFEST.json from the table below (kept in one place so it stays valid)."""
import json

CLAIMED = {
    "C20": dict(
        text="Coq theorems over the IoBox model for all histories (invisible writes, last-write-wins in the order inputs-then-pending, failing read of never-written addresses, echo replay along any history); model tied to the real IoBoxDevice by an exhaustive small-scope plus random correspondence evaluated by vm_compute on every run.",
        note="Trusted: Coq kernel + vm_compute, the harness that drives IoBoxDevice and renders cases, Python dict semantics (modelled as insertion-ordered association lists). Values are integers in the correspondence (the device is polymorphic).",
        technique="Coq proof (induction over operation histories) + model/implementation correspondence",
        ref="5/C20"),
}
CLAIMED["C16"] = dict(
    text="Coq theorems over the model of event_router.py for all wirings: both conversions preserve the connection set (from_inverse unconditionally; from_wiring for single-source input ports), both round trips, component-set preservation, route() delivers exactly along the wires, dependants = reflexive-transitive closure (cycles included). The model is tied to Wiring/InverseWiring/EventRouter by exhaustive small-scope and random correspondence on every run.",
    note="Trusted: Coq kernel + vm_compute, harness. Python dict/set semantics modelled as insertion-ordered association lists / duplicate-free lists compared as sets. The fuel bound of the model's breadth-first crawl (2+|connections|) is validated by the correspondence, the theorem is conditional on the crawl answering.",
    technique="Coq proof (fold invariants, induction on reachability) + model/implementation correspondence",
    ref="5/C16")
CLAIMED["C15"] = dict(
    text="Coq theorem over the model of the in-memory bus: for every handler behaviour publishing only to strictly higher topics and every history of subscribe/produce operations (each consumer subscribing to a topic at most once), after every operation each subscribed consumer has received exactly the topic's log in order and unsubscribed consumers nothing; produce appends exactly once; topic-name injectivity/disjointness proved over the prefix/suffix constants re-extracted from the source on every run. Model tied to InternalStateServer by exhaustive small-scope + random correspondence and a Coq oracle evaluated on the observed histories.",
    note="Trusted: Coq kernel + vm_compute, harness, constants translator. Handlers publishing to the topic being delivered (or cyclically) are outside the property and the theorem. Subscriber iteration order of CPython sets is pinned by giving consumers small integer hashes and verified on every case.",
    technique="Coq proof (invariant by induction on fuel/history with framing) + model/implementation correspondence",
    ref="5/C15")
CLAIMED["C01"] = dict(
    text="Coq theorems over the model of ticker.py for every wiring, root set and answer order (Run relation = all interleavings of answers): a component is dispatched only after every in-tick direct upstream has answered (C01_gate), nobody is dispatched or answers twice (C01_once), participants = reachability closure of the roots, invalid answers are rejected, progress and exact termination count for acyclic wirings, and the changes handed over are exactly the routed changes of all in-tick upstreams (C01_no_mixture). Tied to the real Ticker+EventRouter by exhaustive answer-order enumeration on small wirings, multi-tick histories and random DAGs; a Coq oracle re-checks the gate on every observed trace.",
    note="Trusted: Coq kernel + vm_compute, harness playing the components at the Ticker API (update_component/skip_component/propagate). The nested scheduler reuses the same Ticker class, so the theorem applies per scheduler; its composition across nesting levels is covered by the whole-simulation checks (C05/C09). asyncio task scheduling between create_task and the callback is exercised, not modelled.",
    technique="Coq proof (invariants over all answer interleavings) + model/implementation correspondence + Coq oracle on observed traces",
    ref="5/C01")
CLAIMED["C02"] = dict(
    text="Coq theorems: every dispatch of every run is an Input exactly when the component is a root or a wired input was reported changed this tick (with exactly those changes), a Skip otherwise; nothing outside the roots' closure is touched; at the end every participant was dispatched exactly once (C02_tick, C02_untouched, C02_all_participants_dispatched_once); DeviceComponent reports a port iff it differs from the previous report (C02_diff, C02_diff_history); on the whole-simulation model, at every nesting level, the extent bookkeeping never decides anything: a tick is the fold of a step in which a component is processed exactly when it is a root or a change was routed to it in this tick (C02_sim_update_iff_root_or_changed, C02_sim_untouched). Tied to Ticker and DeviceComponent by correspondence runs (all answer orders on small wirings; exhaustive omit/repeat/change histories of the device component).",
    note="Trusted: Coq kernel + vm_compute, harness (scripted device, probe adapters, recording producer). Python == on values is integer equality in the correspondence. Devices are assumed to return fresh mappings (a device mutating the dict it returned last time defeats last_outputs).",
    technique="Coq proof (invariants over all answer interleavings; filter characterisation) + model/implementation correspondence",
    ref="5/C02")
CLAIMED["C08"] = dict(
    text="Coq theorems. One tick (C08_ticker_confluent, C08_same_participants): for deterministic components and an acyclic single-source wiring, any two runs of a tick under arbitrary answer orders dispatch every component with the same kind, time and changes (induction on the rank of the wiring, using the gate and input-characterisation invariants); complete runs dispatch the same set. Whole flat simulations (C08_whole_simulation): in the schedule-explicit model - the master picks the earliest pending wakeups, every tick is ANY complete run of the ticker, every component answers what its DeviceComponent computes from its own state, interrupts are applied between ticks - two runs of the same script under arbitrary, unrelated answer orders tick after tick give every device the same sequence of (time, inputs) and leave equivalent component states and wakeup tables (one-tick confluence generalised to root lists equal as sets and component states equal as dictionaries, then induction over the script); every answer strategy is such a run and different strategies give different traces (C08_strategies_are_schedules, C08_schedules_example); the harness's table devices qualify (C08_whole_simulation_table). And every schedule computes what the deterministic whole-simulation model computes (C08_every_schedule_is_sim, C08_sim_run_is_every_schedule): Model/Sim.v's fold over a level's topological order, read as a trace of the ticker, satisfies everything the confluence argument needs (gate, input characterisation, answers by the component function), so any complete run under any answer order updates the same devices with the same changes - Model/Sim.v, on which the whole-simulation theorems of C02, C03, C05, C09 and C10 are stated and which every in-memory-bus run of the real schedulers is compared with, is thereby proved to be the result of EVERY schedule of a flat simulation. Tied to the real classes: every answer order of small wirings on the real Ticker, all runs compared inside Coq (21); whole flat and nested simulations on the in-memory bus and under 5-10 seeded delaying / reordering delivery schedules of a conforming broker-like bus, per-device sequences compared in Coq (22) and with Model/Sim.v; on every flat case the schedule-explicit model (first-answers-first and last-answers-first) is compared with Model/Sim.v (23).",
    note="Partial: the whole-simulation theorem is for one scheduler level (flat simulations) at the granularity of the ticker's answers; system simulations and the bus below (per-topic queues, latency, interrupts racing with a tick) are explored against the real schedulers on the delaying bus; the shipped Kafka classes are never executed (no broker in the sandbox) -- only the StateConsumer/StateProducer contract they implement is exercised.",
    technique="Coq proof (one-tick confluence by induction on wiring rank; whole-run confluence of the schedule-explicit model) + exhaustive answer-order correspondence + delayed-delivery exploration compared in Coq",
    ref="5/C08")

TB = "Trusted: Coq kernel + vm_compute (no axioms: every theorem is 'Closed under the global context'), the Python harness that drives the real classes and renders what they did as Gallina literals, "
CLAIMED["C03"] = dict(
    text="Coq theorems, for every wiring / answer order / history: route() reaches exactly the wired input ports (C03_route_exact, C03_route_nothing_else); within a tick the changes handed to a component are exactly what its upstreams answered earlier in that tick, whatever the interleaving (C03_within_tick); a device component's cumulative inputs hold per port the latest value ever received (C03_cumulative_latest); and composed on the whole-simulation model for flat simulations: along any multi-tick history with callbacks and interrupts at any speed, in every state the master reaches each wired input port holds the value its source reported last, and every update is handed exactly those inputs - including values produced earlier in the same tick (C03_sim_update_latest, C03_sim_run_latest, by a mid-tick invariant over the topological order); and through the boundary of a system simulation (C03_through_system_boundary, C03_resolved_wiring): for every top level of devices and one system simulation of devices, every state a run of the master reaches on the NESTED configuration has every resolved wire - outer device to inner device through an external port, inner device to outer device through an exposed port, top-level and inner wires - carrying the latest report of its source (the nested run is proved to be in lockstep with the run of the inlined configuration, which has the invariant). Whole simulations (flat and nested to depth 3) of the real schedulers/components are compared inside Coq with Model/Sim.v, and a Coq-defined oracle (latest_ok, code 81) decides on every observed update that the inputs equal the latest reported value of the resolved upstream device output along the flattened wiring - through external/exposed ports in both directions.",
    note=TB + "the virtual-time event loop. PARTIAL: through system-simulation boundaries the theorem covers one level of nesting without interrupts; deeper nestings, sibling systems and interrupts are decided per run by the oracle. Values are integers; device reports have unique port names (Python dicts).",
    technique="Coq proof (route/ticker/component layers + whole-simulation invariant) + whole-simulation correspondence + Coq oracle on observed runs",
    ref="5/C03")
CLAIMED["C04"] = dict(
    text="Coq theorems over Model/Master.v (a step machine of MasterScheduler: phases, pending answers, wakeups, anchor of the real-time/simulation-time mapping) for EVERY event history (answers in any order, interrupts in any phase, wake-ups, exceptions): a tick starts only when no tick is running, every dispatch of a tick carries that tick's single time, a tick ends exactly when its last participant answered (C04_serial_one_time, C04_tick_ends_when_all_answered) and tick times never decrease (C04_monotone). The machine is tied to the real MasterScheduler by driving it message by message with answers in flight and comparing every output with the model inside Coq; nested: every inner tick of a whole simulation lies inside the outer tick that triggered it at the same time.",
    note=TB + "the fake consumer/producer and patched clock of the message-level driver. asyncio's choice between a simultaneously due timer and interrupt is explored, not modelled.",
    technique="Coq proof (invariant over all event histories of the master step machine) + message-level correspondence + nested containment oracle",
    ref="5/C04")
CLAIMED["C05"] = dict(
    text="Coq theorems over the whole-simulation model Model/Sim.v for every configuration tree of any depth, every device behaviour: the master's initial tick observes exactly the devices of the whole tree, each exactly once, in configuration order, at the initial time (C05_initial, C05_exactly_once); the first tick of every nested scheduler updates all its devices whatever its external inputs (C05_first_nested_tick). Tied to the real MasterScheduler/NestedScheduler/SystemComponent/DeviceComponent by whole-simulation correspondence runs on generated nestings (depth <= 3, devices not fed from outside, systems without inputs or outputs) with the oracle codes 61/62.",
    note=TB + "the virtual-time event loop. The theorem's premises (tree-shaped nesting, reserved ids unused, fuel above depth) are checked on every generated configuration.",
    technique="Coq proof (induction on nesting depth, fold invariants) + whole-simulation correspondence",
    ref="5/C05")
CLAIMED["C06"] = dict(
    text="Coq theorems over Model/Master.v for every event history: the scheduler always sleeps for the earliest pending wakeups and runs them together as the roots of ONE tick (C06_first_wakeups, C06_honoured_merged_once), a tick is started only by a wakeup that a component requested or an interrupt (C06_not_invented), and requests not yet due are kept (C06_pending_kept). Whole simulations with periodic/one-shot callbacks at every depth are compared with Model/Sim.v and Coq oracles check per device that each requested callback is honoured exactly at its time (65) and that no update happens without cause (66).",
    note=TB + "the virtual-time event loop. A later call_at replacing an earlier pending one (dict overwrite) is the modelled behaviour.",
    technique="Coq proof (master step-machine invariant) + whole-simulation correspondence + Coq oracles",
    ref="5/C06")
CLAIMED["C07"] = dict(
    text="Coq theorems over Model/Master.v for every event history: an interrupt is never lost - it becomes a wakeup at min(stamp, pending) whatever the phase (C07_not_lost), an idle or sleeping master starts its tick at once (C07_prompt_when_idle, C07_due_at_once) and the master never sleeps past a pending wakeup (C07_never_sleeps_past_pending). Tied to the real scheduler at message level (interrupts in every phase, mid-tick, mid-initial-tick) and by whole simulations in which one interrupt is injected at EVERY event-loop step of a window for every device at every depth, judged by a Coq promptness oracle.",
    note=TB + "the virtual-time event loop and its step-counting injection hook. The promptness bound of the oracle is 'the end of the tick in progress plus the ticks already owed', with 2 ns slack per tick for the float speed arithmetic.",
    technique="Coq proof (master step-machine invariant) + message-level correspondence + exhaustive injection-point sweep with Coq oracle",
    ref="5/C07")
CLAIMED["C09"] = dict(
    text="The flat wiring equivalent to a nesting is a Coq function (flatten). Proved for every configuration: its devices are exactly those the nested model visits, in order; a configuration without systems is its own flattening; in the initial tick the nested model updates exactly the flattened device list (C09_flat_devices, C09_flat_identity, C09_initial_transparent). Proved for whole runs (C09_inline_transparent): for every configuration made of top-level devices and one system simulation holding devices (any number of devices, any single-source wiring through external/exposed ports; the scope is decided by the Coq function shape_of), every device family that reports each output port at most once and reads its inputs as a dictionary (the harness's table devices are proved to be one, C09_inline_transparent_table), every initial time, horizon and number of master ticks, the nested run and the run with the system replaced by its contents perform the same device updates in the same order at the same simulation times with equal inputs, callbacks of inner and outer devices included - a lockstep simulation between the two masters whose invariant relates the system's entry in the top-level wakeup table to the earliest inner wakeup; the same holds for the real-time master model at speed 1 (C09_inline_transparent_master: Model/SimTime.v is proved equal to Model/Sim.v's master there for every configuration, nested or not). With interrupts of the devices outside the system at any points between ticks the same holds on scripts (C09_inline_transparent_script), and composed with C08 the nested model computes what EVERY schedule - any answer order, tick after tick - of the flat inlined simulation gives every device (C09_nested_is_every_flat_schedule). Beyond that scope (depth > 1, sibling systems, pass-through ports, interrupts, pacing) transparency is decided per PAIR of runs of the real schedulers: every generated nesting (depth <= 3, siblings, pass-through ports, systems without inputs/outputs, callbacks, interrupts) is run nested and flat, Coq checks that the harness's flat configuration IS the flattening (73), that inside the theorem's scope the inlined configuration is that flattening too (74), and that every device observes the same sequence of times and inputs (71), besides both runs agreeing with Model/Sim.v and Model/SimTime.v.",
    note=TB + "the virtual-time event loop. PARTIAL: the whole-run theorem covers one system simulation of devices at the top level, with interrupts of outer devices only (between ticks), at speed 1 where real time is involved; deeper nestings, sibling systems, wires straight from an external to an exposed port and interrupts are pairwise-tested.",
    technique="Coq proof (flattening; lockstep simulation between nested and inlined runs) + paired whole-simulation runs compared in Coq",
    ref="5/C09")
CLAIMED["C10"] = dict(
    text="Coq theorems: topics of different components never coincide and no input topic is an output topic, over constants re-extracted from the source each run (C10_topics_disjoint); a device update touches only that device's state and a component outside a tick's extent is untouched (C10_update_frame, C10_outside_extent_untouched); a nested tick touches only the devices and schedulers of its own subtree and depends only on that subtree's part of the state and configuration (C10_system_footprint, C10_system_depends_on_subtree_only); one whole tick, and whole runs from start-up in simulation time, of a simulation whose top level holds devices and system simulations (any depth) and of the same simulation extended at the top level by a disconnected part X - devices and whole system simulations of any depth, any behaviour, their own callbacks causing extra and merged ticks - give every base device at every depth exactly the same observation sequence and leave the base's state equal (C10_tick_noninterference, C10_run_noninterference: a stuttering simulation proved for every configuration and device behaviour), transferred to the real-time master model at speed 1 (C10_master_noninterference: Model/SimTime.v is proved equal to it there for every configuration, nested or not, whose devices never ask to be called back in the past, and compared with it on every applicable generated case, code 55). With interrupts, real-time pacing and adapters non-interference is decided per pair of runs of the real classes: configuration vs configuration + disconnected devices/system simulations (91), probe adapters notified exactly once per own update, the shipped EpicsAdapter/CommandAdapter driven without network; topic collisions are also searched directly on the real topic functions.",
    note=TB + "the virtual-time event loop, a stub for softioc's builder. PARTIAL: the run-level theorem is about simulation time without interrupts and about parts added at the top level; a part added inside a system simulation, interrupts, pacing and adapters are pairwise-tested. Integer speeds only in the pairs (rounding of the real-time deadline may differ by 1 ns otherwise, which is not an observation of any device).",
    technique="Coq proof (topic injectivity, frame and footprint/agreement lemmas of the nested model, tick-level relation, stuttering simulation over whole runs) + paired whole-simulation runs compared in Coq + adapter-level differential runs",
    ref="5/C10")
CLAIMED["C11"] = dict(
    text="Coq theorems over Model/FailStop.v for every component tree and every failing device: the stop broadcast reaches every component of every depth (C11_broadcast_reaches_subtree, C11_all_stopped); the pinned tree's behaviour (nested components not stopped) is refuted by a witness. Tied to the real code by running whole flat/nested simulations through TickitSimulation.run() where device d raises at its n-th update for every (d, n) and adapter hooks fail, on the in-memory bus and under delayed, reordered delivery (harness/cbus.py registered as a backend): which exception the master handled, which components ran stop_component, whether run() returned, whether another tick started - compared in Coq.",
    note=TB + "the virtual-time event loop. Cancellation semantics of asyncio tasks are exercised, not modelled.",
    technique="Coq proof (induction on the component tree) + exhaustive (device, update) failure sweep compared in Coq",
    ref="5/C11")
CLAIMED["C12"] = dict(
    text="Coq theorems over Model/Master.v for every event history and every positive rational speed: a scheduled tick never starts before its real-time deadline (C12_never_early), the deadline is the exact ceiling of (when - last)/speed from the last tick's anchor (C12_exact), interrupt stamps are the linear image of real time and never before the previous tick (C12_stamp, C12_stamp_due), and the mapping is linear per step (C12_linear_step). Whole simulations at several speeds are compared with Model/Sim.v; oracle 96 checks no tick earlier than speed allows.",
    note=TB + "the virtual-time event loop with 0.2 ns clock resolution. Speeds are rationals num/den; the implementation's float arithmetic is compared within the stated rounding (deadline ceiling), not modelled bit-exactly.",
    technique="Coq proof (arithmetic over Z with ceiling division; master invariant) + whole-simulation correspondence",
    ref="5/C12")
CLAIMED["C13"] = dict(
    text="Coq theorems: a late subscriber is replayed exactly the backlog of its topics, once, in order, for every prior history (C13_replay_complete); with the start-up sequences extracted from the current source every handler finds the producer/ticker/wakeup state it needs when the backlog is replayed inside subscribe() (C13_replay_safe; the pinned order is refuted). Whole simulations where the scheduler and each component start at their own event-loop step (exhaustive delay vectors on small configurations), optionally with an early interrupt, are compared with Model/Sim.v, which has no notion of start order.",
    note=TB + "the start-up sequence translator (fail-closed on unknown statements), the virtual-time event loop. Kafka's replay is the broker's and is not executed.",
    technique="Coq proof (bus invariant) + translator-extracted start-up sequences decided in Coq + exhaustive start-delay sweep",
    ref="5/C13")
CLAIMED["C14"] = dict(
    text="Coq theorems over Model/Ledger.v: the number of helper tasks/timers/wakeup entries is a function of the configuration only - independent of the number of ticks, for every history (C14_helpers_bounded, C14_tasks_function_of_configuration), and the TCP handler retains a bounded number of reply tasks per connection (C14_tcp_bounded). The ledger is compared EXACTLY with counts of pending asyncio tasks, armed timers and wakeup entries after N, 2N, 4N ticks of real flat/nested simulations, and with the tasks the real TcpIo handler retains after N, 2N, 4N chunks.",
    note=TB + "the virtual-time event loop; gc + asyncio.all_tasks() as the measuring instrument. Memory of the interpreter itself is not measured.",
    technique="Coq proof (ledger invariant) + exact resource-count correspondence at three run lengths",
    ref="5/C14")
CLAIMED["C17"] = dict(
    text="Coq theorems over Model/Config.v for every history of class definitions and validations: the tagged-union registry dispatches every entry to exactly the class whose fully qualified name it carries, never to a class with the same fields or short name, and a cached dispatcher is never stale (C17_dispatch, C17_history, C17_cache_never_stale); the wiring built from a configuration list has exactly the declared connections (C17_wiring); component selection keeps exactly the requested components and rejects unknown ones (C17_selection, C17_selection_rejects). Tied to tickit.utils.configuration by generated families of real config modules and YAML files (random order, depth 3) loaded through read_configs/build_simulation.",
    note=TB + "pydantic and PyYAML as the parser (exercised, not modelled).",
    technique="Coq proof (registry invariant over definition/validation histories) + generated-module correspondence",
    ref="5/C17")
CLAIMED["C18"] = dict(
    text="Coq theorems over Model/Command.v for every command list and message: the handler run is the FIRST command whose decoding+full-match accepts the message, unknown messages get the unknown reply and nothing else, every message gets exactly one outcome, an interrupt is raised iff the command says so and only after its replies, replies are written in order on the connection that sent the message (C18_dispatch .. C18_connection); the pinned tree's crash on undecodable bytes is refuted by a witness. Tied to CommandAdapter/RegexCommand/TcpIo by driving the real handler with every byte string up to length 1 (2 thorough), pattern-derived and malformed messages and chunk sequences; the decode/regex verdict per command comes from Python's own codecs/re, independent of tickit.",
    note=TB + "Python's re and codecs as the matching oracle (modelled as a boolean table).",
    technique="Coq proof (first-match dispatch) + exhaustive small-message correspondence",
    ref="5/C18")
CLAIMED["C19"] = dict(
    text="Coq theorems over the interleaving model Model/Zmq.v for EVERY schedule of queueing, direct sends, socket-creation completion and drain completion: at most one socket is ever created and it exists iff creation completed (C19_one_socket, C19_socket_iff_created); every queued message is written exactly once and in queue order (C19_fifo_once); parts are serialised by the stated rule (C19_serialise). Tied to the real ZeroMqPushIo/Adapter with a fake socket factory: every atomic step of the implementation is logged and replayed inside Coq as a run of the model (trace validation), over exhaustive short schedules and random long ones.",
    note=TB + "the fake aiozmq socket/factory; real ZeroMQ sockets are not used.",
    technique="Coq proof (invariant over all interleavings) + trace validation of the real coroutine steps",
    ref="5/C19")
NOT_YET = {}
ALL = [f"C{n:02d}" for n in range(1, 21)]


def main():
    checks = []
    for pid in ALL:
        if pid not in CLAIMED:
            continue
        c = CLAIMED[pid]
        checks.append(dict(
            property_id=pid,
            quick_cmd=f"bin/check {pid} --tier quick",
            thorough_cmd=f"bin/check {pid} --tier thorough",
            evidence_file=f"evidence/{pid}.json",
            replay_cmd_template="bin/replay {path}",
            engine="coq-proof+correspondence",
            level_claimed=dict(category="proof", text=c["text"], design_ref=c["ref"]),
            level_note=c["note"],
            technique=c["technique"],
        ))
    na = [dict(property_id=p, reason=NOT_YET.get(p, "check not built yet in this round; the design (DESIGN.md section 5) applies the same technique to it"))
          for p in ALL if p not in CLAIMED]
    m = dict(
        version=1,
        setup_cmd="bin/setup",
        hooks=dict(guard="TICKIT_VERIF", enable="no source hooks are used: the harness injects probe devices, state-interface classes and the clock through public constructor parameters and module attributes",
                   baseline_off_cmd="cd /repo && /venv/bin/python -m pytest -ra -q -p no:cacheprovider --timeout=900 --continue-on-collection-errors",
                   source_commits=[], add_only=True),
        engines=[dict(name="coq-proof+correspondence", path="coq/ harness/", serves_properties=sorted(CLAIMED),
                      kind_free_text="Coq 8.16 theorems over hand-written executable Gallina models; generated case files evaluated with vm_compute compare model and oracle with what the real tickit classes did")],
        checks=checks,
        notes="Known findings / repaired defects: known_findings.txt. Design: DESIGN.md.",
        not_applicable=na,
    )
    json.dump(m, open("/verif/MANIFEST.json", "w"), indent=1)


if __name__ == "__main__":
    main()
