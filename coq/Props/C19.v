From TV Require Import Base.
Example C19_placeholder : True. Proof. exact I. Qed.
