(* A system simulation only touches its own subtree: the footprint of a nested tick in the
   whole-simulation model (used by C10 for disconnected parts that contain system simulations). *)
From TV Require Import Base Model.Wiring Model.Ticker Model.Component Model.Sim
  Proofs.WiringP Proofs.SimP Proofs.NonInterfP.
Open Scope Z_scope.

Section Frame.
Variable cfg : config.
Variable devf : devfun.

(* what a tick of level lv may touch: device state of the devices in D, wakeups of the levels in L *)
Definition framed (D : list comp) (L : list positive) (s s2 : sstate) (ob : list obs) : Prop :=
  (forall c, ~ In c D -> lookup c (s_dc s2) = lookup c (s_dc s) /\ lookup c (s_n s2) = lookup c (s_n s)) /\
  (forall l, ~ In l L -> wake_of s2 l = wake_of s l /\ int_of s2 l = int_of s l /\ memb l (s_ticked s2) = memb l (s_ticked s)) /\
  (forall o, In o ob -> In (obs_comp o) D).

Lemma framed_refl D L s : framed D L s s [].
Proof. split; [intros; split; reflexivity|]. split; [intros; repeat split; reflexivity | intros o []]. Qed.

Lemma framed_trans D L s1 s2 s3 ob1 ob2 :
  framed D L s1 s2 ob1 -> framed D L s2 s3 ob2 -> framed D L s1 s3 (ob1 ++ ob2).
Proof.
  intros [A1 [B1 C1]] [A2 [B2 C2]]. split; [|split].
  - intros c Hc. destruct (A1 c Hc) as [X1 Y1]. destruct (A2 c Hc) as [X2 Y2]. split; congruence.
  - intros l Hl. destruct (B1 l Hl) as [X1 [Y1 Z1]]. destruct (B2 l Hl) as [X2 [Y2 Z2]]. repeat split; congruence.
  - intros o Ho. apply in_app_iff in Ho. destruct Ho as [Ho|Ho]; [apply C1 | apply C2]; exact Ho.
Qed.

Lemma framed_mono D D' L L' s s2 ob :
  (forall c, In c D -> In c D') -> (forall l, In l L -> In l L') -> framed D L s s2 ob -> framed D' L' s s2 ob.
Proof.
  intros HD HL [A [B C]]. split; [|split].
  - intros c Hc. apply A. intros H. apply Hc. apply HD. exact H.
  - intros l Hl. apply B. intros H. apply Hl. apply HL. exact H.
  - intros o Ho. apply HD. apply C. exact Ho.
Qed.

Lemma wake_of_set_wake_other s lv w l : l <> lv -> wake_of (set_wake s lv w) l = wake_of s l.
Proof. intros H. unfold wake_of, set_wake. cbn [s_wake]. apply get_d_upd_other. exact H. Qed.

(* one step of a tick of level lv, given that the inner function is framed *)
Lemma tick_step_framed D L inner lv conns time roots ext a c k :
  In lv L ->
  (c <> ext_id -> c <> exp_id -> k = KDev -> In c D) ->
  (forall lv', k = KSys lv' -> forall t chg s,
     let '(s2, _, _, ob) := inner lv' t chg s in framed D L s s2 ob) ->
  exists ob1, ta_obs (tick_step devf inner lv conns time roots ext a (c, k)) = ta_obs a ++ ob1 /\
              framed D L (ta_s a) (ta_s (tick_step devf inner lv conns time roots ext a (c, k))) ob1.
Proof.
  intros Hlv Hdev Hsys. unfold tick_step. cbn [fst snd].
  assert (Hnil : exists ob1, ta_obs a = ta_obs a ++ ob1 /\ framed D L (ta_s a) (ta_s a) ob1)
    by (exists []; split; [symmetry; apply app_nil_r | apply framed_refl]).
  destruct (in_extent conns roots (ta_touched a) c); [|exact Hnil].
  destruct (nonempty (get_d c (ta_in a)) || memb c roots); [|exact Hnil].
  destruct (Pos.eqb_spec c ext_id) as [|He]; [exact Hnil|]. destruct (Pos.eqb_spec c exp_id) as [|Hx]; [exact Hnil|].
  assert (Hwake : forall s1 w ob1, framed D L (ta_s a) s1 ob1 -> framed D L (ta_s a) (set_wake s1 lv w) ob1).
  { intros s1 w ob1 [A [B C]]. split; [exact A|]. split; [|exact C].
    intros l Hl. rewrite wake_of_set_wake_other by (intros E; subst l; contradiction). apply (B l Hl). }
  destruct k as [|lv'].
  - specialize (Hdev He Hx eq_refl).
    unfold dev_update.
    match goal with |- context [devf c ?n time ?i] => destruct (devf c n time i) as [outs ca] end.
    match goal with |- context [(c, time, ?i)] => set (inputs := i) end.
    assert (Hf : framed D L (ta_s a)
                   {| s_dc := upd c {| d_inputs := inputs; d_last := outs |} (s_dc (ta_s a));
                      s_n := upd c (match lookup c (s_n (ta_s a)) with Some x => x | None => 0 end + 1) (s_n (ta_s a));
                      s_wake := s_wake (ta_s a); s_int := s_int (ta_s a); s_ticked := s_ticked (ta_s a); s_log := s_log (ta_s a) |}
                   [(c, time, inputs)]).
    { split; [|split].
      - intros c0 Hc0. assert (c0 <> c) by (intros E; subst c0; contradiction).
        cbn [s_dc s_n]. rewrite !lookup_upd_other by assumption. split; reflexivity.
      - intros l _. repeat split; reflexivity.
      - intros o [E|[]]. subst o. exact Hdev. }
    exists [(c, time, inputs)]. destruct ca as [w|]; cbn [ta_obs ta_s]; (split; [reflexivity|]); [apply Hwake|]; exact Hf.
  - specialize (Hsys lv' eq_refl time (get_d c (ta_in a)) (ta_s a)).
    destruct (inner lv' time (get_d c (ta_in a)) (ta_s a)) as [[[s1 ch] ca] ob1].
    exists ob1. destruct ca as [w|]; cbn [ta_obs ta_s]; (split; [reflexivity|]); [apply Hwake|]; exact Hsys.
Qed.

Lemma fold_framed D L inner lv conns time roots ext : forall l a,
  In lv L ->
  (forall c k, In (c, k) l -> c <> ext_id -> c <> exp_id -> k = KDev -> In c D) ->
  (forall c lv', In (c, KSys lv') l -> forall t chg s,
     let '(s2, _, _, ob) := inner lv' t chg s in framed D L s s2 ob) ->
  exists ob1, ta_obs (fold_left (tick_step devf inner lv conns time roots ext) l a) = ta_obs a ++ ob1 /\
              framed D L (ta_s a) (ta_s (fold_left (tick_step devf inner lv conns time roots ext) l a)) ob1.
Proof.
  induction l as [|[c k] r IH]; intros a Hlv Hdev Hsys.
  - exists []. split; [symmetry; apply app_nil_r | apply framed_refl].
  - cbn [fold_left].
    destruct (tick_step_framed D L inner lv conns time roots ext a c k Hlv) as [ob1 [E1 F1]].
    + intros He Hx Ek. apply (Hdev c k); [left; reflexivity | assumption..].
    + intros lv' Ek. subst k. apply (Hsys c lv'). left. reflexivity.
    + destruct (IH (tick_step devf inner lv conns time roots ext a (c, k)) Hlv) as [ob2 [E2 F2]].
      * intros c0 k0 Hi. apply Hdev. right. exact Hi.
      * intros c0 lv0 Hi. apply (Hsys c0 lv0). right. exact Hi.
      * exists (ob1 ++ ob2). split; [rewrite E2, E1, app_assoc; reflexivity | eapply framed_trans; eassumption].
Qed.

Lemma in_devices_below_dev f lv c : In (c, KDev) (l_order (level_of cfg lv)) -> In c (devices_below cfg (S f) lv).
Proof. intros H. cbn [devices_below]. apply in_flat_map. exists (c, KDev). split; [exact H | left; reflexivity]. Qed.

Lemma devices_below_sub f lv c lv' x : In (c, KSys lv') (l_order (level_of cfg lv)) ->
  In x (devices_below cfg f lv') -> In x (devices_below cfg (S f) lv).
Proof. intros H Hx. cbn [devices_below]. apply in_flat_map. exists (c, KSys lv'). split; [exact H | exact Hx]. Qed.

Lemma levels_below_sub f lv c lv' x : In (c, KSys lv') (l_order (level_of cfg lv)) ->
  In x (levels_below cfg f lv') -> In x (levels_below cfg (S f) lv).
Proof. intros H Hx. cbn [levels_below]. right. apply in_flat_map. exists (c, KSys lv'). split; [exact H | exact Hx]. Qed.

(* a nested tick touches only the devices and the schedulers of its own subtree *)
Theorem on_tick_level_framed : forall f lv time chg s,
  let '(s2, _, _, ob) := on_tick_level cfg devf f lv time chg s in
  framed (devices_below cfg f lv) (levels_below cfg f lv) s s2 ob.
Proof.
  induction f as [|f IH]; intros lv time chg s; [apply framed_refl|].
  cbn [on_tick_level].
  set (wk := wake_of s lv).
  set (roots := int_of s lv ++ _).
  set (s1 := log_tick (mark_ticked (set_int (set_wake s lv _) lv []) lv) lv time roots).
  unfold tick_with.
  set (D := devices_below cfg (S f) lv). set (L := levels_below cfg (S f) lv).
  assert (Hlv : In lv L) by (left; reflexivity).
  destruct (fold_framed D L (on_tick_level cfg devf f) lv (l_conns (level_of cfg lv)) time roots chg
              (all_of (level_of cfg lv)) {| ta_s := s1; ta_in := []; ta_touched := []; ta_out := []; ta_obs := [] |} Hlv)
    as [ob1 [E1 F1]].
  - intros c k Hi He Hx Ek. subst k. unfold all_of in Hi. destruct Hi as [E|Hi]; [inversion E; subst; contradiction|].
    apply in_app_iff in Hi. destruct Hi as [Hi|[E|[]]]; [apply in_devices_below_dev; exact Hi | inversion E; subst; contradiction].
  - intros c lv' Hi t chg0 s0. unfold all_of in Hi. destruct Hi as [E|Hi]; [discriminate|].
    apply in_app_iff in Hi. destruct Hi as [Hi|[E|[]]]; [|discriminate].
    pose proof (IH lv' t chg0 s0) as H. destruct (on_tick_level cfg devf f lv' t chg0 s0) as [[[s2 o] ca] ob].
    eapply framed_mono; [| |exact H]; [intros x Hx; eapply devices_below_sub; eassumption | intros x Hx; eapply levels_below_sub; eassumption].
  - cbn [ta_obs ta_s app] in E1, F1. rewrite E1.
    destruct F1 as [A [B C]]. split; [|split].
    + intros c Hc. apply (A c Hc).
    + intros l Hl. assert (Hne : l <> lv) by (intros E; subst l; contradiction).
      destruct (B l Hl) as [B1 [B2 B3]]. rewrite B1, B2, B3. unfold s1. split; [|split].
      * change (wake_of (log_tick (mark_ticked (set_int (set_wake s lv ?w) lv []) lv) lv time roots) l) with (wake_of (set_wake s lv w) l).
        apply wake_of_set_wake_other. exact Hne.
      * unfold int_of, log_tick, mark_ticked, set_int, set_wake. cbn [s_int]. apply get_d_upd_other. exact Hne.
      * unfold log_tick, mark_ticked, set_int, set_wake. cbn [s_ticked].
        destruct (memb lv (s_ticked s)); [reflexivity|]. cbn [memb existsb].
        destruct (Pos.eqb_spec l lv); [contradiction | reflexivity].
    + exact C.
Qed.
End Frame.
