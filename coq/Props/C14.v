(* C14 -- long runs use bounded scheduler resources.
   The ledger: which helper tasks the loops create and release (master loop turn, system
   component tick, TCP reply tasks), and the steady-state count as a function of the
   configuration.  asyncio's task lifetime ("a task ends when its coroutine returns or it is
   cancelled") is the modelled contract; the correspondence run compares the ledger's count
   exactly with asyncio.all_tasks() after N, 2N and 4N ticks.  Property theorems only. *)
From TV Require Import Base Model.Wiring Model.Sim Model.Ledger Proofs.LedgerP.
Open Scope Z_scope.

(* for every history of loop turns and system ticks (each finishing before the next one of the
   same loop starts -- C04), at every point at most one pair of helper tasks of the master loop
   and one pair of the system tick is alive: nothing accumulates with the number of ticks,
   callbacks or interrupts *)
Theorem C14_helpers_bounded : forall evs,
  bracketed false false evs = true ->
  forall pre post, evs = pre ++ post ->
  0 <= lg_master (fold_left lstep pre lg0) <= 2 /\ 0 <= lg_system (fold_left lstep pre lg0) <= 2.
Proof.
  intros evs Hb pre post E.
  apply (bracketed_inv evs lg0 false false eq_refl eq_refl Hb pre post E).
Qed.

(* the TCP handler never retains more reply tasks than are in flight: with at most K replies
   unfinished at any time, the retained list never exceeds K however many chunks arrive *)
Theorem C14_tcp_bounded : forall K evs,
  0 <= K ->
  (forall pre post, evs = pre ++ post -> lg_tcp_live (fold_left lstep pre lg0) <= K) ->
  forall pre post, evs = pre ++ post -> lg_tcp_retained (fold_left lstep pre lg0) <= K.
Proof.
  intros K evs HK Hlive. apply (tcp_retained_bound K evs lg0); simpl; try lia. exact Hlive.
Qed.

(* the steady-state number of pending tasks is a function of the configuration alone *)
Theorem C14_tasks_function_of_configuration : forall cfg, 4 <= expected_tasks cfg.
Proof. intros cfg. unfold expected_tasks. assert (H := level_tasks_nonneg 20 cfg 1%positive). lia. Qed.

Example C14_example :
  expected_tasks [(1%positive, {| l_order := [(3%positive, KDev); (4%positive, KSys 2%positive)]; l_conns := [] |});
                  (2%positive, {| l_order := [(5%positive, KDev); (6%positive, KDev)]; l_conns := [] |})] = 11.
Proof. vm_compute. reflexivity. Qed.
