From TV Require Import Base.
Example C14_placeholder : True. Proof. exact I. Qed.
