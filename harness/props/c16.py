"""C16 -- the two wiring representations and the routing derived from them agree.
Correspondence: Wiring / InverseWiring / EventRouter of /repo are run on generated wirings
and every result is compared inside Coq with Model/Wiring.v (Oracle/WiringCheck.v)."""
import itertools
import json
import random

from common import Check, P, Zr, L, T, run_shards

PID = "C16"
HEADER = "From TV Require Import Base Model.Wiring Oracle.WiringCheck."


# how component / port numbers are spelt: identifiers are arbitrary strings; with "colon" names (EPICS style) different
# (component, port) pairs read the same once joined by ':' -- ("a", "b:c") and ("a:b", "c") -- and stay different ports
SPELL = {
    "plain": (lambda k: f"c{k}", lambda k: f"p{k}"),
    "colon": (lambda k: "a" + ":b" * (k - 1), lambda k: "b:" * (k - 1) + "c"),
}


def observe(kind, data, naming="plain"):
    """kind 'iw': data = {ic: {ip: (oc, op)}} ; kind 'w': data = {oc: {op: [(ic, ip)]}} (ints)"""
    from tickit.core.management.event_router import EventRouter, InverseWiring, Wiring
    from tickit.core.typedefs import ComponentPort

    cn, pn = SPELL[naming]
    cback = {cn(k): k for k in range(1, 40)}
    pback = {pn(k): k for k in range(1, 40)}

    def ci(x):
        return cback[x] if x in cback else pback[x]
    # (a name is never both: component names start with "a", port names with "b"/"c" or "p")

    if kind == "iw":
        iw = InverseWiring({cn(ic): {pn(ip): ComponentPort(cn(oc), pn(op)) for ip, (oc, op) in ins.items()}
                            for ic, ins in data.items()})
        w = Wiring.from_inverse_wiring(iw)
        router = EventRouter(iw)
    else:
        w = Wiring({cn(oc): {pn(op): {ComponentPort(cn(ic), pn(ip)) for ic, ip in tg} for op, tg in outs.items()}
                    for oc, outs in data.items()})
        router = EventRouter(w)
    w_conns = sorted((ci(oc), ci(op), ci(t.component), ci(t.port)) for oc, outs in w.items()
                     for op, tg in outs.items() for t in tg)
    w_keys = sorted(ci(k) for k in w.keys())
    iw2 = InverseWiring.from_wiring(w)
    iw_conns = sorted((ci(src.component), ci(src.port), ci(ic), ci(ip)) for ic, ins in iw2.items()
                      for ip, src in ins.items())
    iw_keys = sorted(ci(k) for k in iw2.keys())
    comps = sorted(ci(c) for c in router.components)
    tree = sorted((ci(c), sorted(ci(x) for x in s)) for c, s in router.component_tree.items())
    itree = sorted((ci(c), sorted(ci(x) for x in s)) for c, s in router.inverse_component_tree.items())
    universe = sorted(set(comps) | {max(comps, default=0) + 1})
    deps = [(c, sorted(ci(x) for x in router.dependants(cn(c)))) for c in universe]
    routes = []
    outs_by = {}
    for (oc, op, _, _) in w_conns:
        outs_by.setdefault(oc, set()).add(op)
    val = 100
    for oc in sorted(outs_by):
        ports = sorted(outs_by[oc])
        for sub in ([ports[0]], ports, ports + [max(ports) + 7]):
            ch = {}
            for p in sub:
                val += 1
                ch[p] = val
            routed = router.route(cn(oc), {pn(p): v for p, v in ch.items()})
            flat = sorted((ci(c), ci(p), v) for c, d in routed.items() for p, v in d.items())
            routes.append((oc, list(ch.items()), flat))
    return dict(w_conns=w_conns, w_keys=w_keys, iw_conns=iw_conns, iw_keys=iw_keys, components=comps,
                tree=tree, itree=itree, deps=deps, routes=routes)


def conns_r(cs): return L(T(P(a), P(b), P(c), P(d)) for a, b, c, d in cs)
def comps_r(cs): return L(P(c) for c in cs)
def tree_r(t): return L(T(P(c), comps_r(s)) for c, s in t)


def render(kind, data, o):
    if kind == "iw":
        inp = "InIW " + L(T(P(ic), L(T(P(ip), T(P(oc), P(op))) for ip, (oc, op) in ins.items()))
                          for ic, ins in data.items())
    else:
        inp = "InW " + L(T(P(oc), L(T(P(op), L(T(P(ic), P(ip)) for ic, ip in tg)) for op, tg in outs.items()))
                         for oc, outs in data.items())
    routes = L(T(P(src), L(T(P(p), Zr(v)) for p, v in ch), L(T(P(c), P(p), Zr(v)) for c, p, v in out))
               for src, ch, out in o["routes"])
    obs = ("{| o_w_conns := %s; o_w_keys := %s; o_iw_conns := %s; o_iw_keys := %s; o_components := %s; "
           "o_tree := %s; o_itree := %s; o_deps := %s; o_routes := %s |}") % (
        conns_r(o["w_conns"]), comps_r(o["w_keys"]), conns_r(o["iw_conns"]), comps_r(o["iw_keys"]),
        comps_r(o["components"]), tree_r(o["tree"]), tree_r(o["itree"]), tree_r(o["deps"]), routes)
    return T("(" + inp + ")", obs)


def exhaustive_iw(ncomp, nport):
    slots = [(c, p) for c in range(1, ncomp + 1) for p in range(1, nport + 1)]
    srcs = [None] + [(c, p) for c in range(1, ncomp + 1) for p in range(1, nport + 1)]
    for choice in itertools.product(srcs, repeat=len(slots)):
        iw = {c: {} for c in range(1, ncomp + 1)}
        for (c, p), s in zip(slots, choice):
            if s is not None:
                iw[c][p] = s
        yield iw


def random_iw(rng):
    n = rng.randint(1, 10)
    nports = rng.randint(1, 3)
    acyclic = rng.random() < 0.6
    iw = {}
    order = list(range(1, n + 1))
    rng.shuffle(order)
    for idx, c in enumerate(order):
        if rng.random() < 0.15:
            continue  # component that only appears as a source (or not at all)
        ins = {}
        for p in range(1, nports + 1):
            if rng.random() < 0.5:
                pool = order[:idx] if acyclic else order
                if pool:
                    ins[p] = (rng.choice(pool), rng.randint(1, nports))
        iw[c] = ins
    return iw


def random_w(rng):
    """a Wiring with single-source input ports, fan-out, isolated and output-only entries"""
    n = rng.randint(1, 8)
    nports = rng.randint(1, 3)
    taken = set()
    w = {}
    for oc in rng.sample(range(1, n + 1), rng.randint(1, n)):
        outs = {}
        for op in range(1, nports + 1):
            if rng.random() < 0.6:
                tg = []
                for _ in range(rng.randint(0, 3)):
                    t = (rng.randint(1, n), rng.randint(1, nports))
                    if t not in taken:
                        taken.add(t)
                        tg.append(t)
                outs[op] = tg
        w[oc] = outs
    return w


def gen_cases(tier, rng):
    cases = []
    n_ex = 0
    spaces = [(2, 2), (3, 1)] if tier == "quick" else [(2, 2), (3, 1), (3, 2)]
    for (nc, npt) in spaces:
        for iw in exhaustive_iw(nc, npt):
            cases.append(("iw", iw))
            n_ex += 1
    for _ in range(1500 if tier == "quick" else 20000):
        cases.append(("iw", random_iw(rng)) if rng.random() < 0.6 else ("w", random_w(rng)))
    return cases, n_ex, spaces


REASONS = {1: "wiring-connections-differ", 2: "wiring-keys-differ", 3: "inverse-connections-differ",
           4: "inverse-keys-differ", 5: "components-differ", 6: "component-tree-differs",
           7: "inverse-component-tree-differs", 8: "dependants-differ", 9: "route-differs",
           10: "roundtrip-from-inverse-loses-or-invents", 11: "roundtrip-from-wiring-loses-or-invents"}


def evaluate(cases, naming="plain"):
    obs = [observe(k, d, naming) for k, d in cases]
    terms = [render(k, d, o) for (k, d), o in zip(cases, obs)]
    return obs, run_shards(PID, HEADER, "case", "check", terms, shard_size=600)


def nontrivial(kind, data, o):
    return len(o["w_conns"]) >= 2


def main(tier, seed):
    ck = Check(PID, tier, seed, "Props.C16", ["Model/Wiring.v", "Oracle/WiringCheck.v", "Proofs/WiringP.v", "Model/PyLib.v", "Gen/SourceFuns.v", "Proofs/GenWiringP.v", "Props/C16.v"])
    ck.build_and_audit()
    rng = random.Random(seed)
    cases, n_ex, spaces = gen_cases(tier, rng)
    ck.rule = (f"every inverse wiring over {spaces} (components x ports; each input port unwired or wired to any output) "
               f"enumerated exhaustively ({n_ex}), cyclic ones included, plus seeded random inverse wirings (<=10 components, "
               "absent/isolated components) and Wirings with fan-out; every public EventRouter result, both conversions, "
               "dependants of every component (and of an unknown one) and route() on 3 change sets per output component "
               "are compared with the Coq model; non-trivial = at least 2 connections")
    obs, bad = evaluate(cases)
    # the same wirings with names containing the ':' separator, chosen so that different (component, port) pairs join to
    # the same "component:port" string
    cl_cases = cases[:n_ex][::4] + cases[n_ex:][:500]
    cl_obs, cl_bad = evaluate(cl_cases, naming="colon")
    ck.evaluations += len(cl_cases)
    ck.coverage["wirings_with_colon_names"] = len(cl_cases)
    for i in sorted(cl_bad):
        code = cl_bad[i][0]
        ck.report(REASONS[code] + "-with-colons-in-names", f"event_router disagrees with the wiring model when names contain ':' ({REASONS[code]})",
                  dict(kind=cl_cases[i][0], naming="colon", wiring=cl_cases[i][1], observed=cl_obs[i], codes=cl_bad[i]))
        break
    for (k, d), o in zip(cases, obs):
        ck.count(json.dumps([k, sorted(o["w_conns"]), o["w_keys"]]), nontrivial(k, d, o))
    ck.sample(dict(kind=cases[-1][0], wiring=cases[-1][1], observed=obs[-1]))
    ck.coverage.update(exhaustive=True, exhaustive_cases=n_ex, disagreements=len(bad),
                       cyclic=sum(1 for o in obs if any(c in dict(o["deps"])[c2] and c2 in dict(o["deps"])[c] and c != c2
                                                        for c in o["components"] for c2 in o["components"])),
                       max_components=max(len(o["components"]) for o in obs))
    done = set()
    for i in sorted(bad):
        for code in bad[i]:
            if code in done:
                continue
            done.add(code)
            ck.report(REASONS[code], f"event_router disagrees with the wiring model ({REASONS[code]})",
                      dict(kind=cases[i][0], wiring=cases[i][1], observed=obs[i], codes=bad[i]))
    return ck.finish()


def replay(rp):
    kind, data = rp["kind"], rp["wiring"]
    if kind == "iw":
        data = {int(ic): {int(ip): tuple(s) for ip, s in ins.items()} for ic, ins in data.items()}
    else:
        data = {int(oc): {int(op): [tuple(t) for t in tg] for op, tg in outs.items()} for oc, outs in data.items()}
    obs, bad = evaluate([(kind, data)], naming=rp.get("naming", "plain"))
    print("wiring:", kind, data)
    print("observed:", obs[0])
    print("codes:", bad.get(0, []))
    return 1 if bad else 0
