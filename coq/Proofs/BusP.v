(* Proofs about Model/Bus.v: exactly-once, in-order delivery with replay, under re-entrant
   handlers that publish to strictly higher topics. *)
From TV Require Import Base Model.Bus.

(* ---------- accessors *)
Lemma getl_upd {A} k k' (v : list A) l : getl k' (upd k v l) = if Pos.eqb k' k then v else getl k' l.
Proof. unfold getl. rewrite lookup_upd. destruct (Pos.eqb k' k); reflexivity. Qed.

Lemma log_append b t m t' :
  log_of (append_log b t m) t' = if Pos.eqb t' t then log_of b t ++ [m] else log_of b t'.
Proof. unfold log_of, append_log. simpl. apply getl_upd. Qed.
Lemma subs_append b t m t' : subs_of (append_log b t m) t' = subs_of b t'.
Proof. reflexivity. Qed.
Lemma recv_append b t m c t' : recv_on (append_log b t m) c t' = recv_on b c t'.
Proof. reflexivity. Qed.

Lemma log_record b c t m t' : log_of (record b c t m) t' = log_of b t'.
Proof. reflexivity. Qed.
Lemma subs_record b c t m t' : subs_of (record b c t m) t' = subs_of b t'.
Proof. reflexivity. Qed.
Lemma recv_record b c t m c' t' :
  recv_on (record b c t m) c' t' =
  if Pos.eqb c' c && Pos.eqb t' t then recv_on b c t ++ [m] else recv_on b c' t'.
Proof.
  unfold recv_on, recv_of, record. simpl. rewrite getl_upd.
  destruct (Pos.eqb_spec c' c) as [->|Hn]; simpl; [|reflexivity].
  rewrite filter_app, map_app. simpl. destruct (Pos.eqb_spec t t') as [->|Hn2].
  - rewrite Pos.eqb_refl. reflexivity.
  - destruct (Pos.eqb_spec t' t); [congruence|]. simpl. rewrite app_nil_r. reflexivity.
Qed.

Lemma insert_sorted_In c x l : In x (insert_sorted c l) <-> x = c \/ In x l.
Proof.
  induction l as [|y r IH]; simpl; [intuition|].
  destruct (Pos.compare_spec c y); simpl.
  - subst. intuition.
  - intuition.
  - rewrite IH. intuition.
Qed.

Lemma log_add_sub b c t t' : log_of (add_sub b c t) t' = log_of b t'.
Proof. reflexivity. Qed.
Lemma recv_add_sub b c t c' t' : recv_on (add_sub b c t) c' t' = recv_on b c' t'.
Proof. reflexivity. Qed.
Lemma subs_add_sub b c t t' :
  subs_of (add_sub b c t) t' = if Pos.eqb t' t then insert_sorted c (subs_of b t) else subs_of b t'.
Proof. unfold subs_of, add_sub. simpl. apply getl_upd. Qed.

(* ---------- the invariant *)
Definition InvT (b : bus) (t : topic) : Prop :=
  NoDup (subs_of b t) /\
  forall c, (In c (subs_of b t) -> recv_on b c t = log_of b t) /\
            (~ In c (subs_of b t) -> recv_on b c t = []).
Definition Inv_ge (b : bus) (t0 : topic) : Prop := forall t, (t0 <= t)%positive -> InvT b t.
Definition Inv_gt (b : bus) (t0 : topic) : Prop := forall t, (t0 < t)%positive -> InvT b t.
Definition Inv_all (b : bus) : Prop := forall t, InvT b t.

(* topics below t0 (resp. up to t0) are untouched, subscriptions unchanged everywhere *)
Definition same_at (b b' : bus) (t : topic) : Prop :=
  log_of b' t = log_of b t /\ forall c, recv_on b' c t = recv_on b c t.
Definition same_subs (b b' : bus) : Prop := forall t, subs_of b' t = subs_of b t.
Definition Frame_lt (b b' : bus) (t0 : topic) : Prop :=
  same_subs b b' /\ forall t, (t < t0)%positive -> same_at b b' t.
Definition Frame_le (b b' : bus) (t0 : topic) : Prop :=
  same_subs b b' /\ forall t, (t <= t0)%positive -> same_at b b' t.

Lemma Frame_le_refl b t : Frame_le b b t.
Proof. split; [intros ?; reflexivity | intros ? _; split; [reflexivity | intros ?; reflexivity]]. Qed.

Lemma Frame_le_trans b1 b2 b3 t : Frame_le b1 b2 t -> Frame_le b2 b3 t -> Frame_le b1 b3 t.
Proof.
  intros [S1 F1] [S2 F2]. split.
  - intros t'. rewrite S2. apply S1.
  - intros t' Ht. destruct (F1 t' Ht) as [L1 R1]. destruct (F2 t' Ht) as [L2 R2]. split.
    + rewrite L2. exact L1.
    + intros c. rewrite R2. apply R1.
Qed.

Lemma InvT_same b b' t : same_subs b b' -> same_at b b' t -> InvT b t -> InvT b' t.
Proof.
  intros S [L R] [Hn H]. split; [rewrite S; exact Hn|]. intros c. rewrite S, R, L. apply H.
Qed.

Section Spec.
Variable h : handler.
Variable N : positive.
Definition wf_handler : Prop :=
  forall c t m t' m', In (t', m') (h c t m) -> (t < t')%positive /\ (t' <= N)%positive.
Hypothesis Hwf : wf_handler.

Definition fuel_ok (f : nat) (t : topic) : Prop := (Pos.to_nat N + 1 - Pos.to_nat t < f)%nat.

(* a sequence of pushes to topics above t *)
Definition pushes (f : nat) (b : bus) (l : list (topic * msg)) : bus :=
  fold_left (fun b (tm : topic * msg) => push h f b (fst tm) (snd tm)) l b.

Definition push_post (b b' : bus) (t : topic) (m : msg) : Prop :=
  Frame_lt b b' t /\ Inv_ge b' t /\ log_of b' t = log_of b t ++ [m].

Lemma pushes_spec f t :
  (forall b t' m, (t < t')%positive -> (t' <= N)%positive -> Inv_ge b t' -> push_post b (push h f b t' m) t' m) ->
  forall l b, (forall tm, In tm l -> (t < fst tm)%positive /\ (fst tm <= N)%positive) ->
  Inv_gt b t -> Frame_le b (pushes f b l) t /\ Inv_gt (pushes f b l) t.
Proof.
  intros IH l. induction l as [|[t' m'] l IHl]; intros b Hl Hinv; simpl.
  - split; [apply Frame_le_refl | exact Hinv].
  - destruct (Hl (t', m') (or_introl eq_refl)) as [Hlt HN]. simpl in Hlt, HN.
    assert (Hge : Inv_ge b t') by (intros x Hx; apply Hinv; lia).
    destruct (IH b t' m' Hlt HN Hge) as [[S F] [I L]].
    assert (Hgt' : Inv_gt (push h f b t' m') t).
    { intros x Hx. destruct (Pos.ltb_spec x t') as [Hs|Hs].
      - eapply InvT_same; [exact S | apply F; exact Hs | apply Hinv; exact Hx].
      - apply I. exact Hs. }
    destruct (IHl (push h f b t' m')) as [F2 I2]; [intros tm Htm; apply Hl; right; exact Htm | exact Hgt' |].
    split; [|exact I2]. eapply Frame_le_trans; [|exact F2].
    split; [exact S|]. intros x Hx. apply F. lia.
Qed.


(* the subscriber loop of one push *)
Lemma push_loop f t m b :
  (forall b' t' m', (t < t')%positive -> (t' <= N)%positive -> Inv_ge b' t' ->
     push_post b' (push h f b' t' m') t' m') ->
  forall todo done bk,
    NoDup (done ++ todo) ->
    Frame_lt b bk t -> log_of bk t = log_of b t ++ [m] ->
    (forall c, In c done -> recv_on bk c t = recv_on b c t ++ [m]) ->
    (forall c, ~ In c done -> recv_on bk c t = recv_on b c t) ->
    Inv_gt bk t ->
    let bk' := fold_left (fun b0 c =>
                 fold_left (fun b0 (tm : topic * msg) => push h f b0 (fst tm) (snd tm))
                           (h c t m) (record b0 c t m)) todo bk in
    Frame_lt b bk' t /\ log_of bk' t = log_of b t ++ [m] /\
    (forall c, In c (done ++ todo) -> recv_on bk' c t = recv_on b c t ++ [m]) /\
    (forall c, ~ In c (done ++ todo) -> recv_on bk' c t = recv_on b c t) /\
    Inv_gt bk' t.
Proof.
  intros IH'. induction todo as [|c todo IHt]; intros done bk Hnd HF HL HD HU HI; simpl.
  - rewrite app_nil_r. auto.
  - set (br := record bk c t m).
    assert (Hc_notdone : ~ In c done).
    { intros Hc. apply NoDup_remove_2 in Hnd. apply Hnd. apply in_or_app. left. exact Hc. }
    assert (HIr : Inv_gt br t).
    { intros x Hx. destruct (HI x Hx) as [Hn Hc']. split; [exact Hn|]. intros c'.
      unfold br. rewrite subs_record, log_record, recv_record.
      destruct (Pos.eqb_spec x t); [lia|]. rewrite andb_false_r. apply Hc'. }
    destruct (pushes_spec f t IH' (h c t m) br) as [[S2 F2] I2];
      [intros tm Htm; destruct tm as [t' m']; eapply Hwf; exact Htm | exact HIr |].
    change (fold_left (fun b0 (tm : topic * msg) => push h f b0 (fst tm) (snd tm)) (h c t m) br)
      with (pushes f br (h c t m)).
    set (bn := pushes f br (h c t m)) in *.
    destruct (F2 t (Pos.le_refl t)) as [L2 R2].
    assert (Hnd' : NoDup ((done ++ [c]) ++ todo)) by (rewrite <- app_assoc; exact Hnd).
    assert (Hgoal := IHt (done ++ [c]) bn Hnd').
    replace ((done ++ [c]) ++ todo) with (done ++ c :: todo) in Hgoal
      by (rewrite <- app_assoc; reflexivity).
    apply Hgoal; clear Hgoal.
    + destruct HF as [S1 F1]. split.
      * intros x. rewrite S2. unfold br. rewrite subs_record. apply S1.
      * intros x Hx. destruct (F2 x (Pos.lt_le_incl _ _ Hx)) as [L3 R3]. destruct (F1 x Hx) as [L1 R1]. split.
        -- rewrite L3. unfold br. rewrite log_record. exact L1.
        -- intros c'. rewrite R3. unfold br. rewrite recv_record.
           destruct (Pos.eqb_spec x t); [lia|]. rewrite andb_false_r. apply R1.
    + rewrite L2. unfold br. rewrite log_record. exact HL.
    + intros c' Hc'. rewrite R2. unfold br. rewrite recv_record.
      apply in_app_iff in Hc'. destruct Hc' as [Hc'|[<-|[]]].
      * destruct (Pos.eqb_spec c' c) as [->|Hn]; [contradiction|]. simpl. apply HD. exact Hc'.
      * rewrite !Pos.eqb_refl. simpl. rewrite (HU c Hc_notdone). reflexivity.
    + intros c' Hc'. rewrite R2. unfold br. rewrite recv_record.
      destruct (Pos.eqb_spec c' c) as [->|Hn].
      * exfalso. apply Hc'. apply in_or_app. right. left. reflexivity.
      * simpl. apply HU. intros Hd. apply Hc'. apply in_or_app. left. exact Hd.
    + exact I2.
Qed.

Lemma push_spec : forall f b t m,
  fuel_ok f t -> Inv_ge b t -> push_post b (push h f b t m) t m.
Proof.
  induction f as [|f IHf]; intros b t m Hf Hinv; [unfold fuel_ok in Hf; lia|].
  assert (IH' : forall b' t' m', (t < t')%positive -> (t' <= N)%positive -> Inv_ge b' t' ->
                  push_post b' (push h f b' t' m') t' m').
  { intros b' t' m' Hlt HN Hi. apply IHf; [|exact Hi]. unfold fuel_ok in *. lia. }
  simpl. set (b1 := append_log b t m).
  destruct (Hinv t (Pos.le_refl t)) as [Hnd Hct].
  assert (Hl := push_loop f t m b IH' (subs_of b1 t) [] b1).
  simpl in Hl. destruct Hl as [HF [HL [HD [HU HI]]]].
  - exact Hnd.
  - split; [intros x; reflexivity|]. intros x Hx. split.
    + unfold b1. rewrite log_append. destruct (Pos.eqb_spec x t); [lia|reflexivity].
    + intros c. reflexivity.
  - unfold b1. rewrite log_append, Pos.eqb_refl. reflexivity.
  - intros c [].
  - intros c _. reflexivity.
  - intros x Hx. destruct (Hinv x (Pos.lt_le_incl _ _ Hx)) as [Hn Hc]. split; [exact Hn|].
    intros c. unfold b1. rewrite subs_append, recv_append, log_append.
    destruct (Pos.eqb_spec x t); [lia|]. apply Hc.
  - split; [exact HF|]. split; [|exact HL].
    intros x Hx. destruct (Pos.eqb_spec x t) as [->|Hne].
    + destruct HF as [S _]. split; [rewrite S; exact Hnd|]. intros c. rewrite S. split.
      * intros Hc. rewrite (HD c Hc), HL. f_equal. apply Hct. exact Hc.
      * intros Hc. rewrite (HU c Hc). apply Hct. exact Hc.
    + apply HI. lia.
Qed.
End Spec.

Section Spec2.
Variable h : handler.
Variable N : positive.
Hypothesis Hwf : wf_handler h N.

Lemma Inv_all_ge b t : Inv_all b -> Inv_ge b t.
Proof. intros H x _. apply H. Qed.

Lemma push_all f b t m :
  fuel_ok N f t -> Inv_all b ->
  Inv_all (push h f b t m) /\ log_of (push h f b t m) t = log_of b t ++ [m] /\
  same_subs b (push h f b t m) /\
  (forall t', (t' < t)%positive -> log_of (push h f b t m) t' = log_of b t').
Proof.
  intros Hf Hinv. destruct (push_spec h N Hwf f b t m Hf (Inv_all_ge b t Hinv)) as [[S F] [I L]].
  split; [|split; [exact L | split; [exact S | intros t' Ht; apply F; exact Ht]]].
  intros x. destruct (Pos.ltb_spec x t) as [Hx|Hx].
  - eapply InvT_same; [exact S | apply F; exact Hx | apply Hinv].
  - apply I. exact Hx.
Qed.

(* replaying the backlog of topic t to the newly subscribed consumer c *)
Lemma replay_loop f t c b1 :
  fuel_ok N f t ->
  forall todo done bk,
    log_of b1 t = done ++ todo ->
    Frame_lt b1 bk t -> log_of bk t = log_of b1 t ->
    recv_on bk c t = recv_on b1 c t ++ done ->
    (forall c', c' <> c -> recv_on bk c' t = recv_on b1 c' t) ->
    Inv_gt bk t ->
    forall k, let bk' := replay h (length todo + k) f bk c t (length done) in
    Frame_lt b1 bk' t /\ log_of bk' t = log_of b1 t /\
    recv_on bk' c t = recv_on b1 c t ++ done ++ todo /\
    (forall c', c' <> c -> recv_on bk' c' t = recv_on b1 c' t) /\
    Inv_gt bk' t.
Proof.
  intros Hf. induction todo as [|m todo IHt]; intros done bk Hsplit HF HL HR HO HI k; cbn [length Nat.add].
  - assert (E : replay h k f bk c t (length done) = bk).
    { destruct k as [|k]; [reflexivity|]. cbn [replay].
      assert (En : nth_error (log_of bk t) (length done) = None) by (apply nth_error_None; rewrite HL, Hsplit, app_nil_r; lia).
      rewrite En. reflexivity. }
    rewrite E, app_nil_r. auto.
  - cbn [replay].
    assert (En : nth_error (log_of bk t) (length done) = Some m)
      by (rewrite HL, Hsplit, nth_error_app2, Nat.sub_diag by lia; reflexivity).
    rewrite En.
    set (br := record bk c t m).
    assert (HIr : Inv_gt br t).
    { intros x Hx. destruct (HI x Hx) as [Hn Hc']. split; [exact Hn|]. intros c'.
      unfold br. rewrite subs_record, log_record, recv_record.
      destruct (Pos.eqb_spec x t); [lia|]. rewrite andb_false_r. apply Hc'. }
    assert (IH' : forall b' t' m', (t < t')%positive -> (t' <= N)%positive -> Inv_ge b' t' ->
                    push_post b' (push h f b' t' m') t' m').
    { intros b' t' m' Hlt HN Hi. apply (push_spec h N Hwf); [|exact Hi]. unfold fuel_ok in *. lia. }
    destruct (pushes_spec h N f t IH' (h c t m) br) as [[S2 F2] I2];
      [intros tm Htm; destruct tm as [t' m']; eapply Hwf; exact Htm | exact HIr |].
    change (deliver h f bk c t m) with (pushes h f br (h c t m)).
    set (bn := pushes h f br (h c t m)) in *.
    destruct (F2 t (Pos.le_refl t)) as [L2 R2].
    assert (Hgoal := IHt (done ++ [m]) bn).
    rewrite <- !app_assoc in Hgoal. simpl in Hgoal. rewrite app_length in Hgoal. cbn [length] in Hgoal. rewrite Nat.add_1_r in Hgoal.
    apply Hgoal; clear Hgoal.
    + exact Hsplit.
    + destruct HF as [S1 F1]. split.
      * intros x. rewrite S2. unfold br. rewrite subs_record. apply S1.
      * intros x Hx. destruct (F2 x (Pos.lt_le_incl _ _ Hx)) as [L3 R3]. destruct (F1 x Hx) as [L1 R1]. split.
        -- rewrite L3. unfold br. rewrite log_record. exact L1.
        -- intros c'. rewrite R3. unfold br. rewrite recv_record.
           destruct (Pos.eqb_spec x t); [lia|]. rewrite andb_false_r. apply R1.
    + rewrite L2. unfold br. rewrite log_record. exact HL.
    + rewrite R2. unfold br. rewrite recv_record, !Pos.eqb_refl. simpl. rewrite HR, <- app_assoc. reflexivity.
    + intros c' Hc'. rewrite R2. unfold br. rewrite recv_record.
      destruct (Pos.eqb_spec c' c); [contradiction|]. simpl. apply HO. exact Hc'.
    + exact I2.
Qed.

Definition subscribe_one (f : nat) (b : bus) (c : consumer) (t : topic) : bus :=
  let b1 := add_sub b c t in replay h (length (log_of b1 t) + maxgrow) f b1 c t 0.

Lemma insert_sorted_NoDup c l : ~ In c l -> NoDup l -> NoDup (insert_sorted c l).
Proof.
  induction l as [|y r IH]; simpl; intros Hn Hnd.
  - constructor; [intros []|constructor].
  - destruct (Pos.compare_spec c y).
    + exact Hnd.
    + constructor; [exact Hn | exact Hnd].
    + inversion Hnd; subst. constructor.
      * rewrite insert_sorted_In. intros [->|Hy]; [apply Hn; left; reflexivity | contradiction].
      * apply IH; [intros Hc; apply Hn; right; exact Hc | assumption].
Qed.

Lemma subscribe_one_spec f b c t :
  fuel_ok N f t -> Inv_all b -> ~ In c (subs_of b t) ->
  let b' := subscribe_one f b c t in
  Inv_all b' /\
  (forall t', subs_of b' t' = if Pos.eqb t' t then insert_sorted c (subs_of b t) else subs_of b t') /\
  (forall t', (t' <= t)%positive -> log_of b' t' = log_of b t').
Proof.
  intros Hf Hinv Hnot. unfold subscribe_one. set (b1 := add_sub b c t).
  destruct (Hinv t) as [Hnd Hct].
  assert (Hl := fun H1 H2 H3 H4 H5 H6 => replay_loop f t c b1 Hf (log_of b1 t) [] b1 H1 H2 H3 H4 H5 H6 maxgrow).
  cbn [length app] in Hl. destruct Hl as [[S F] [HL [HR [HO HI]]]].
  - reflexivity.
  - split; [intros x; reflexivity|]. intros x _. split; [reflexivity | intros ?; reflexivity].
  - reflexivity.
  - rewrite app_nil_r. reflexivity.
  - intros c' _. reflexivity.
  - intros x Hx. destruct (Hinv x) as [Hn Hc]. split.
    + unfold b1. rewrite subs_add_sub. destruct (Pos.eqb_spec x t); [lia | exact Hn].
    + intros c'. unfold b1. rewrite subs_add_sub, recv_add_sub, log_add_sub.
      destruct (Pos.eqb_spec x t); [lia|]. apply Hc.
  - set (b' := replay h (length (log_of b1 t) + maxgrow) f b1 c t 0) in *.
    split; [|split].
    + intros x. destruct (Pos.compare_spec x t) as [->|Hx|Hx].
      * (* the subscribed topic *)
        split.
        -- rewrite S. unfold b1. rewrite subs_add_sub, Pos.eqb_refl.
           apply insert_sorted_NoDup; assumption.
        -- intros c'. rewrite S. unfold b1 at 1 2. rewrite subs_add_sub, Pos.eqb_refl, insert_sorted_In.
           rewrite HL. change (log_of b1 t) with (log_of b t).
           destruct (Pos.eq_dec c' c) as [->|Hne].
           ++ split; [|intros Hc; exfalso; apply Hc; left; reflexivity].
              intros _. rewrite HR. change (log_of b1 t) with (log_of b t).
              change (recv_on b1 c t) with (recv_on b c t).
              destruct (Hct c) as [_ Hc0]. rewrite (Hc0 Hnot). reflexivity.
           ++ rewrite (HO c' Hne). change (recv_on b1 c' t) with (recv_on b c' t). split.
              ** intros [Hc|Hc]; [contradiction|]. apply Hct. exact Hc.
              ** intros Hc. apply Hct. intros Hi. apply Hc. right. exact Hi.
      * (* topics below: untouched *)
        destruct (F x Hx) as [L1 R1]. destruct (Hinv x) as [Hn Hc]. split.
        -- rewrite S. unfold b1. rewrite subs_add_sub. destruct (Pos.eqb_spec x t); [lia | exact Hn].
        -- intros c'. rewrite S, R1, L1. unfold b1. rewrite subs_add_sub, recv_add_sub, log_add_sub.
           destruct (Pos.eqb_spec x t); [lia|]. apply Hc.
      * apply HI. exact Hx.
    + intros x. rewrite S. unfold b1. apply subs_add_sub.
    + intros x Hx. destruct (Pos.eqb_spec x t) as [->|Hne].
      * rewrite HL. reflexivity.
      * destruct (F x) as [L1 _]; [lia|]. rewrite L1. reflexivity.
Qed.
End Spec2.

Section Top.
Variable h : handler.
Variable N : positive.
Hypothesis Hwf : wf_handler h N.
Variable f : nat.
Hypothesis Hfuel : (Pos.to_nat N < f)%nat.

Lemma fuel_any t : fuel_ok N f t.
Proof. unfold fuel_ok. lia. Qed.

Lemma subscribe_spec ts : forall b c,
  Inv_all b -> NoDup ts -> (forall t, In t ts -> ~ In c (subs_of b t)) ->
  Inv_all (subscribe h f b c ts) /\
  (forall t, In c (subs_of (subscribe h f b c ts) t) <-> In t ts \/ In c (subs_of b t)).
Proof.
  induction ts as [|t ts IH]; intros b c Hinv Hnd Hnot; simpl.
  - split; [exact Hinv | intros t; intuition].
  - inversion Hnd as [|? ? Hnotin Hnd']; subst.
    change (replay h (length (log_of (add_sub b c t) t) + maxgrow) f (add_sub b c t) c t 0)
      with (subscribe_one h f b c t).
    destruct (subscribe_one_spec h N Hwf f b c t (fuel_any t) Hinv (Hnot t (or_introl eq_refl)))
      as [Hinv' [Hsubs _]].
    destruct (IH (subscribe_one h f b c t) c Hinv' Hnd') as [Hi Hs].
    + intros t' Ht'. rewrite Hsubs. destruct (Pos.eqb_spec t' t) as [->|Hne]; [contradiction|].
      apply Hnot. right. exact Ht'.
    + split; [exact Hi|]. intros t'. change (subscribe h f (subscribe_one h f b c t) c ts)
        with (fold_left (fun b0 t0 => let b1 := add_sub b0 c t0 in
               replay h (length (log_of b1 t0) + maxgrow) f b1 c t0 0) ts (subscribe_one h f b c t)) in Hs.
      rewrite Hs, Hsubs. destruct (Pos.eqb_spec t' t) as [->|Hne].
      * rewrite insert_sorted_In. intuition.
      * intuition. congruence.
Qed.

Definition ok_op (b : bus) (o : op) : Prop :=
  match o with
  | Subscribe c ts => NoDup ts /\ forall t, In t ts -> ~ In c (subs_of b t)
  | Produce _ _ => True
  end.
Fixpoint valid (b : bus) (ops : list op) : Prop :=
  match ops with
  | [] => True
  | o :: r => ok_op b o /\ valid (step h f b o) r
  end.

Lemma Inv_all_empty : Inv_all empty_bus.
Proof.
  intros t. split; [constructor|]. intros c. split; [intros [] | reflexivity].
Qed.

Lemma run_inv ops : forall b, Inv_all b -> valid b ops -> Inv_all (fold_left (step h f) ops b).
Proof.
  induction ops as [|o r IH]; intros b Hinv Hv; simpl; [exact Hinv|].
  destruct Hv as [Hok Hv]. apply IH; [|exact Hv].
  destruct o as [c ts|t m]; simpl.
  - destruct Hok as [Hnd Hnot]. apply subscribe_spec; assumption.
  - apply (push_all h N Hwf f b t m (fuel_any t) Hinv).
Qed.
End Top.
