(* Flattening of nested configurations (Oracle/SimOracle.v) and frame properties of the
   simulation model, used by C03 / C09 / C10. *)
From TV Require Import Base Model.Wiring Model.Ticker Model.Component Model.Sim Oracle.SimCheck Oracle.SimOracle
  Proofs.SimP.
Open Scope Z_scope.

(* the flattened device order is the order in which the nested model visits the devices *)
Lemma flat_order_devices cfg fuel : forall lv, flat_order fuel cfg lv = devices_below cfg fuel lv.
Proof.
  induction fuel as [|f IH]; intros lv; simpl; [reflexivity|].
  apply flat_map_ext. intros [c k]. destruct k as [|lv']; simpl; [reflexivity | apply IH].
Qed.

(* a configuration without system simulations is its own flattening: every wire between two
   devices is kept as it is *)
Lemma resolve_device cfg lv u p fuel :
  u <> ext_id -> kind_of cfg lv u = Some KDev -> resolve (S fuel) cfg lv u p = Some (u, p).
Proof.
  intros Hu Hk. cbn [resolve]. destruct (Pos.eqb_spec u ext_id); [contradiction|]. rewrite Hk. reflexivity.
Qed.

Lemma parent_of_single l :
  (forall c k, In (c, k) (l_order l) -> k = KDev /\ c <> ext_id) ->
  parent_of [(1%positive, l)] 1%positive = None.
Proof.
  intros Hall. unfold parent_of. cbn [flat_map fst snd]. rewrite app_nil_r.
  assert (Hnone : flat_map (fun ck : comp * ckind => match snd ck with KSys l' => if Pos.eqb l' 1 then [(1%positive, fst ck)] else [] | KDev => [] end) (l_order l) = []).
  { induction (l_order l) as [|[x k] r IH]; [reflexivity|]. cbn [flat_map snd fst].
    destruct (Hall x k (or_introl eq_refl)) as [-> _]. cbn [app]. apply IH. intros c k Hc. apply Hall. right. exact Hc. }
  rewrite Hnone. reflexivity.
Qed.

Lemma resolve_single l fuel u p :
  (forall c k, In (c, k) (l_order l) -> k = KDev /\ c <> ext_id) ->
  resolve (S fuel) [(1%positive, l)] 1%positive u p =
  match lookup u (l_order l) with Some KDev => Some (u, p) | _ => None end.
Proof.
  intros Hall. cbn [resolve]. rewrite (parent_of_single l Hall).
  assert (Hkind : kind_of [(1%positive, l)] 1%positive u = lookup u (l_order l)) by reflexivity.
  rewrite Hkind. destruct (Pos.eqb_spec u ext_id) as [E|Hne].
  - subst u. destruct (lookup ext_id (l_order l)) as [k|] eqn:Ek; [|reflexivity].
    apply lookup_In in Ek. destruct (Hall _ _ Ek) as [_ Hc]. contradiction.
  - destruct (lookup u (l_order l)) as [[|lv']|] eqn:Eu; try reflexivity.
    apply lookup_In in Eu. destruct (Hall _ _ Eu) as [Hk _]. discriminate.
Qed.

Lemma flat_conns_single l :
  (forall c k, In (c, k) (l_order l) -> k = KDev /\ c <> ext_id) ->
  forall u p c q,
    In (u, p, c, q) (flat_conns [(1%positive, l)]) <->
    In (u, p, c, q) (l_conns l) /\ lookup c (l_order l) = Some KDev /\ lookup u (l_order l) = Some KDev.
Proof.
  intros Hall u p c q. unfold flat_conns. cbn [flat_map fst snd]. rewrite app_nil_r, in_flat_map.
  assert (Hkind : forall x, kind_of [(1%positive, l)] 1%positive x = lookup x (l_order l)) by reflexivity.
  change 40%nat with (S 39).
  split.
  - intros [[[[u0 p0] c0] q0] [Hin Hx]]. rewrite Hkind, (resolve_single l 39 u0 p0 Hall) in Hx.
    destruct (lookup c0 (l_order l)) as [[|lv']|] eqn:Ec; try destruct Hx.
    destruct (lookup u0 (l_order l)) as [[|lv']|] eqn:Eu; try destruct Hx.
    + inversion H; subst. auto.
    + destruct H.
  - intros [Hin [Hc Hu]]. exists (u, p, c, q). split; [exact Hin|].
    rewrite Hkind, Hc, (resolve_single l 39 u p Hall), Hu. left. reflexivity.
Qed.

(* ---------- frame properties: a device update touches that device only; a component outside
   the extent of a tick is not touched at all *)
Lemma dev_update_frame devf s c time chg c' :
  c' <> c ->
  let '(s', _, _, _) := dev_update devf s c time chg in
  lookup c' (s_dc s') = lookup c' (s_dc s) /\ lookup c' (s_n s') = lookup c' (s_n s) /\
  s_wake s' = s_wake s /\ s_int s' = s_int s.
Proof.
  intros Hne. unfold dev_update. destruct (devf c _ time _) as [outs ca]. simpl.
  rewrite !lookup_upd_other by exact Hne. auto.
Qed.

Lemma tick_step_outside devf inner lv conns time roots ext a ck :
  in_extent conns roots (ta_touched a) (fst ck) = false ->
  tick_step devf inner lv conns time roots ext a ck = a.
Proof. intros H. unfold tick_step. rewrite H. reflexivity. Qed.

(* the cumulative inputs of a device component: after any history of input changes each port
   holds the value of the latest change that mentioned it *)
Lemma inputs_latest (chgs : list values) : forall d q,
  lookup q (fold_left (fun acc c => merge acc c) chgs d) =
  match last_write q (concat chgs) with Some v => Some v | None => lookup q d end.
Proof.
  induction chgs as [|c r IH]; intros d q; simpl; [reflexivity|].
  rewrite IH, lookup_merge_last.
  assert (Hlw : forall (a b : values), last_write q (a ++ b) = match last_write q b with Some v => Some v | None => last_write q a end).
  { intros a b. induction a as [|[k v] t IHa]; simpl.
    - destruct (last_write q b); reflexivity.
    - rewrite IHa. destruct (last_write q b); [reflexivity|]. reflexivity. }
  rewrite Hlw. destruct (last_write q (concat r)); [reflexivity|]. reflexivity.
Qed.

(* along any history of updates of one device component, the inputs handed to the device at the
   i-th update hold, per port, the latest value among all changes received up to and including
   that update *)
Lemma run_dc_inputs h : forall st i inp ch,
  nth_error (run_dc st h) i = Some (inp, ch) ->
  inp = fold_left (fun acc c => merge acc c) (map fst (firstn (S i) h)) (d_inputs st).
Proof.
  induction h as [|[chg outs] r IH]; intros st i inp ch H.
  - destruct i; discriminate.
  - cbn [run_dc] in H. unfold on_tick in H. cbn [nth_error] in H. destruct i as [|i].
    + cbn in H. inversion H; subst. reflexivity.
    + cbn [nth_error] in H. apply IH in H. cbn [d_inputs] in H. rewrite H. reflexivity.
Qed.

Lemma run_dc_latest h st i inp ch q :
  nth_error (run_dc st h) i = Some (inp, ch) ->
  lookup q inp = match last_write q (concat (map fst (firstn (S i) h))) with
                 | Some v => Some v | None => lookup q (d_inputs st) end.
Proof. intros H. rewrite (run_dc_inputs h st i inp ch H). apply inputs_latest. Qed.
