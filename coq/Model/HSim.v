(* The ticks of a whole nesting in progress at once, message by message: the configuration [hcfg] is the tree of the
   ticks that are running (Proofs/MsgTreeP.v gives the step relation [HS] and proves that every run ends like
   Model/Sim.v).  Here: the executable counterpart.  A move names the scheduler (by the path of system simulations
   from the level) and the message: the Input of a component is delivered ([MIn]: a device computes, a system simulation
   starts the tick of its own scheduler), an answer reaches the scheduler ([MOut]), a system simulation whose tick has
   ended answers ([MDone]).  [hs_apply] checks a move and applies it; [hs_enabled] lists the moves that can be made;
   [hs_loop] runs a tick to its end under a strategy that picks one of them at every step -- so the messages of
   sibling and nested schedulers interleave in whatever way the strategy wants. *)
From TV Require Import Base Model.Wiring Model.Ticker Model.Component Model.Sim Model.SimTime Model.NSim Model.Interrupts Model.NNSim.
Open Scope Z_scope.

Inductive hcfg := HC (st : tstate) (tr : list ev) (pd : list (comp * (changes * option Z))) (kids : list (comp * (values * hcfg))).

Inductive hmove := MIn (c : comp) | MOut (c : comp) | MKid (x : comp) (m : hmove) | MDone (x : comp).

Fixpoint split_at {A} (x : positive) (l : list (positive * A)) : option (list (positive * A) * A * list (positive * A)) :=
  match l with
  | [] => None
  | (k, v) :: r =>
      if Pos.eqb k x then Some ([], v, r)
      else match split_at x r with Some (a, w, b) => Some ((k, v) :: a, w, b) | None => None end
  end.

Definition answeredb (tr : list ev) (c : comp) : bool :=
  existsb (fun e : ev => match e with EAnswer c' _ => Pos.eqb c' c | EDispatch _ => false end) tr.

Section HX.
Variable cfg : config.
Variable devf : devfun.

(* what a component other than a system simulation with levels below does with the dispatch a *)
Definition comp_exec0 (f' : nat) (lv : positive) (time : Z) (chg : values) (a : action) (s : sstate)
  : option (sstate * changes * option Z * list obs) :=
  match a with
  | Skp _ _ => Some (s, [], None, [])
  | Upd x _ c =>
      if Pos.eqb x ext_id then Some (s, chg, None, [])
      else if Pos.eqb x exp_id then Some (s, [], None, [])
      else match lookup x (l_order (level_of cfg lv)) with
           | Some KDev => let '(s1, ch, ca, o) := dev_update devf s x time c in Some (s1, ch, ca, [o])
           | Some (KSys _) => match f' with O => Some (s, [], None, []) | S _ => None end
           | None => None
           end
  end.

(* the dispatch goes to a system simulation (with levels below): its name, the changes, its level *)
Definition sys_of (f' : nat) (lv : positive) (a : action) : option (comp * values * positive) :=
  match a with
  | Skp _ _ => None
  | Upd x _ c =>
      if Pos.eqb x ext_id then None
      else if Pos.eqb x exp_id then None
      else match lookup x (l_order (level_of cfg lv)), f' with
           | Some (KSys lv'), S _ => Some (x, c, lv')
           | _, _ => None
           end
  end.

Fixpoint hs_apply (f : nat) (lv : positive) (time : Z) (chg : values) (m : hmove) (k : hcfg) (s : sstate)
  : option (hcfg * sstate * list obs) :=
  match f with
  | O => None
  | S f' =>
      let conns := l_conns (level_of cfg lv) in
      let comps := lcomps (level_of cfg lv) in
      match k with
      | HC st tr pd kids =>
          match m with
          | MIn c =>
              match find_dispatch tr c with
              | None => None
              | Some a =>
                  if answeredb tr c || memb c (keys pd) || memb c (keys kids) then None
                  else match sys_of f' lv a with
                       | Some (x, chgx, lv') =>
                           match start_tick (l_conns (level_of cfg lv')) time (nroots cfg s lv' time) with
                           | None => None
                           | Some st0 =>
                               match schedule (l_conns (level_of cfg lv')) (lcomps (level_of cfg lv')) st0 with
                               | None => None
                               | Some (st1, acts) =>
                                   Some (HC st tr pd (kids ++ [(x, (chgx, HC st1 (map EDispatch acts) [] []))]), nprologue cfg s lv' time, [])
                               end
                           end
                       | None =>
                           match comp_exec0 f' lv time chg a s with
                           | Some (s1, ans, ca, o) => Some (HC st tr (pd ++ [(c, (ans, ca))]) kids, s1, o)
                           | None => None
                           end
                       end
              end
          | MOut c =>
              match split_at c pd with
              | Some (pd1, (ans, ca), pd2) =>
                  if existsb (fun cd : comp * bool => Pos.eqb (fst cd) c && snd cd) (todo st) then
                    match propagate conns comps st c time ans with
                    | POk st' acts _ => Some (HC st' (tr ++ EAnswer c ans :: map EDispatch acts) (pd1 ++ pd2) kids, wake_upd s lv c ca, [])
                    | PErr => None
                    end
                  else None
              | None => None
              end
          | MKid x m' =>
              match split_at x kids, lookup x (l_order (level_of cfg lv)) with
              | Some (k1, (chgx, kx), k2), Some (KSys lv') =>
                  match hs_apply f' lv' time chgx m' kx s with
                  | Some (kx', s1, o) => Some (HC st tr pd (k1 ++ (x, (chgx, kx')) :: k2), s1, o)
                  | None => None
                  end
              | _, _ => None
              end
          | MDone x =>
              match split_at x kids, lookup x (l_order (level_of cfg lv)) with
              | Some (k1, (chgx, HC stx trx [] []), k2), Some (KSys lv') =>
                  match todo stx with
                  | [] => Some (HC st tr (pd ++ [(x, (exposed trx, min_wake (wake_of s lv')))]) (k1 ++ k2), s, [])
                  | _ => None
                  end
              | _, _ => None
              end
          end
      end
  end.

(* the moves that can be made (nothing rests on this list being right: [hs_apply] checks the move that is picked) *)
Fixpoint hs_enabled (f : nat) (lv : positive) (k : hcfg) : list hmove :=
  match f with
  | O => []
  | S f' =>
      match k with
      | HC st tr pd kids =>
          flat_map (fun e : ev => match e with
                                  | EDispatch a => let c := act_comp a in
                                                   if answeredb tr c || memb c (keys pd) || memb c (keys kids) then [] else [MIn c]
                                  | EAnswer _ _ => []
                                  end) tr
          ++ map (fun e : comp * (changes * option Z) => MOut (fst e)) pd
          ++ flat_map (fun e : comp * (values * hcfg) =>
                         match lookup (fst e) (l_order (level_of cfg lv)) with
                         | Some (KSys lv') =>
                             match snd (snd e) with
                             | HC stx _ [] [] => match todo stx with [] => [MDone (fst e)] | _ => map (MKid (fst e)) (hs_enabled f' lv' (snd (snd e))) end
                             | kx => map (MKid (fst e)) (hs_enabled f' lv' kx)
                             end
                         | _ => []
                         end) kids
      end
  end.

Definition hstrategy := nat -> list hmove -> option hmove.

Fixpoint hs_loop (pick : hstrategy) (n i : nat) (f : nat) (lv : positive) (time : Z) (chg : values) (k : hcfg) (s : sstate) (ob : list obs)
  : option (hcfg * sstate * list obs) :=
  match n with
  | O => None
  | S n' =>
      match hs_enabled f lv k with
      | [] => Some (k, s, ob)
      | ms =>
          match pick i ms with
          | None => None
          | Some m =>
              match hs_apply f lv time chg m k s with
              | Some (k', s', o) => hs_loop pick n' (S i) f lv time chg k' s' (ob ++ o)
              | None => None
              end
          end
      end
  end.

(* a master tick, all the schedulers of the nesting running message by message *)
Definition htick_exec (pick : hstrategy) (n f : nat) (s : sstate) (when : Z) (roots : list comp) : option (sstate * list obs) :=
  let l := level_of cfg top in
  match start_tick (l_conns l) when roots with
  | None => None
  | Some st0 =>
      match schedule (l_conns l) (lcomps l) st0 with
      | None => None
      | Some (st1, acts) =>
          match hs_loop pick n O (S f) top when [] (HC st1 (map EDispatch acts) [] []) (log_tick s top when roots) [] with
          | Some (HC st _ [] [], s', ob) => match todo st with [] => Some (s', ob) | _ => None end
          | _ => None
          end
      end
  end.

Fixpoint hxrun_exec (pick : hstrategy) (n f : nat) (script : list xitem) (s : sstate) (ob : list obs) : option (sstate * list obs) :=
  match script with
  | [] => Some (s, ob)
  | XStim c lvc path w :: r => hxrun_exec pick n f r (stim_at s c lvc path w) ob
  | XTick :: r =>
      match first_wakeups (wake_of s top) with
      | None => hxrun_exec pick n f r s ob
      | Some (when, roots) =>
          match htick_exec pick n f (set_wake s top (filter (fun e : comp * Z => negb (memb (fst e) roots)) (wake_of s top))) when roots with
          | Some (s2, o) => hxrun_exec pick n f r s2 (ob ++ o)
          | None => None
          end
      end
  end.

Definition hxrun_from_start (pick : hstrategy) (n f : nat) (initial : Z) (script : list xitem) : option (sstate * list obs) :=
  match htick_exec pick n f (set_wake s_init top []) initial (map fst (l_order (level_of cfg top))) with
  | Some (s1, o1) => hxrun_exec pick n f script s1 o1
  | None => None
  end.
(* ... with the stimuli given by their time stamps and a horizon: the timing rule of Model/NNSim.v [xnsim_timed] *)
Fixpoint hxsim_timed (pick : hstrategy) (steps f n : nat) (stims : list xstimulus) (horizon now : Z)
                     (s : sstate) (ob : list obs) : option (sstate * list obs) :=
  match n with
  | O => Some (s, ob)
  | S k =>
      let next := first_wakeups (wake_of s top) in
      let tick_now :=
        match next with
        | Some (when, roots) =>
            if Z.leb when horizon then
              match htick_exec pick steps f (set_wake s top (filter (fun e : comp * Z => negb (memb (fst e) roots)) (wake_of s top))) when roots with
              | Some (s2, o) => hxsim_timed pick steps f k stims horizon (Z.max when now) s2 (ob ++ o)
              | None => None
              end
            else Some (s, ob)
        | None => Some (s, ob)
        end in
      match stims with
      | (r, c, lvc, path) :: rest =>
          if match next with Some (when, _) => Z.ltb r when || Z.leb r now | None => true end then
            if Z.leb r horizon then hxsim_timed pick steps f k rest horizon (Z.max r now) (stim_at s c lvc path r) ob else tick_now
          else tick_now
      | [] => tick_now
      end
  end.

Definition hxsim_timed_from_start (pick : hstrategy) (steps f n : nat) (initial : Z) (stims : list xstimulus) (horizon : Z)
  : option (sstate * list obs) :=
  match htick_exec pick steps f (set_wake s_init top []) initial (map fst (l_order (level_of cfg top))) with
  | Some (s1, o1) => hxsim_timed pick steps f n stims horizon initial s1 o1
  | None => None
  end.
End HX.

(* strategies: always the first / the last possible move, or the i-th (mod the number of moves) at step i *)
Definition hpick_first : hstrategy := fun _ ms => hd_error ms.
Definition hpick_last : hstrategy := fun _ ms => hd_error (rev ms).
Definition hpick_rot (stride : nat) : hstrategy := fun i ms => nth_error ms (Nat.modulo (i * stride) (length ms)).
