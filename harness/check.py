"""bin/check Cxx [--tier quick|thorough]   |   bin/check --replay file.json"""
import argparse
import importlib
import json
import logging
import os
import sys

logging.disable(logging.CRITICAL)


def main() -> int:
    ap = argparse.ArgumentParser()
    ap.add_argument("pid", nargs="?")
    ap.add_argument("--tier", default=os.environ.get("VERIF_TIER") or "quick", choices=["quick", "thorough"])
    ap.add_argument("--replay")
    a = ap.parse_args()
    seed = int(os.environ.get("VERIF_SEED") or 0)
    if a.replay:
        rp = json.load(open(a.replay))
        mod = importlib.import_module("props." + rp["property"].lower())
        return mod.replay(rp)
    mod = importlib.import_module("props." + a.pid.lower())
    return mod.main(a.tier, seed)


if __name__ == "__main__":
    sys.exit(main())
