(* Model of src/tickit/devices/iobox.py (IoBoxDevice): memory + pending buffer.
   Definitions only. *)
From TV Require Import Base.

Definition addr := positive.
Definition val := Z.
Definition writes := list (addr * val).

Record box := { mem : list (addr * val); buf : writes }.
Definition empty_box : box := {| mem := []; buf := [] |}.

Definition write (b : box) (a : addr) (v : val) : box :=
  {| mem := mem b; buf := buf b ++ [(a, v)] |}.

(* None = the KeyError of the implementation *)
Definition read (b : box) (a : addr) : option val := lookup a (mem b).

(* update: writes from the input port first, then the pending adapter writes,
   each in the order issued; the output lists them in application order *)
Definition update (b : box) (inputs : writes) : box * writes :=
  let applied := inputs ++ buf b in
  ({| mem := merge (mem b) applied; buf := [] |}, applied).

(* the behaviour of the pinned tree before the repair (buffer += inputs, then
   drained with pop(), i.e. from the end) -- kept for the refutation theorem *)
Definition update_lifo (b : box) (inputs : writes) : box * writes :=
  let applied := rev (buf b ++ inputs) in
  ({| mem := merge (mem b) applied; buf := [] |}, applied).

Inductive op := W (a : addr) (v : val) | R (a : addr) | U (inputs : writes).
Inductive res := RW | RR (o : option val) | RU (out : writes).

Fixpoint run (b : box) (ops : list op) : list res :=
  match ops with
  | [] => []
  | W a v :: t => RW :: run (write b a v) t
  | R a :: t => RR (read b a) :: run b t
  | U i :: t => let '(b', o) := update b i in RU o :: run b' t
  end.

(* a second box fed from the first one's update output *)
Fixpoint run2 (b1 b2 : box) (ops : list op) : box * box :=
  match ops with
  | [] => (b1, b2)
  | W a v :: t => run2 (write b1 a v) b2 t
  | R a :: t => run2 b1 b2 t
  | U i :: t => let '(b1', o) := update b1 i in
                let '(b2', _) := update b2 o in run2 b1' b2' t
  end.

(* comparison used by the generated case files *)
Definition writes_eqb : writes -> writes -> bool := list_eqb (pair_eqb Pos.eqb Z.eqb).
Definition res_eqb (a b : res) : bool :=
  match a, b with
  | RW, RW => true
  | RR x, RR y => opt_eqb Z.eqb x y
  | RU x, RU y => writes_eqb x y
  | _, _ => false
  end.

(* a case: the operations, what the implementation answered, and the final
   memories (in dict order) of the box and of a second box chained to it *)
Definition case := (list op * list res * (writes * writes))%type.

(* reason codes: 1 = a result differs from the model; 2 = final memory differs;
   3 = chained box's memory differs from the first box's memory *)
Definition check (c : case) : list Z :=
  let '(ops, obs, (m1, m2)) := c in
  (if list_eqb res_eqb (run empty_box ops) obs then [] else [1%Z]) ++
  (let '(b1, b2) := run2 empty_box empty_box ops in
   (if writes_eqb (mem b1) m1 then [] else [2%Z]) ++
   (if writes_eqb m1 m2 then [] else [3%Z])).
