(* Below the granularity of the ticker's answers: the messages of one scheduler level.  A component is handed its
   Input at one moment (it computes then, in the state as it is then) and its Output reaches the scheduler at a later
   one (only then does the ticker see the answer and is the callback registered); Inputs and Outputs of the components
   of a level are delivered in ANY order ([MRun]: [MR_in] / [MR_out]).  Such a run of a level has everything the
   comparison of two ticks of a level needs (the record [LT] of Proofs/NDetP.v): the component's footprint is untouched
   between the two moments, so the state threaded through the ANSWERS is as if it had computed when it answered.
   Hence every message-level schedule of every level, at any depth, ends like Model/Sim.v ([MNT_sim]).
   The tick of a system simulation is one event of its level here (its own level's messages are not interleaved with
   those of the enclosing level). *)
From TV Require Import Base Model.Wiring Model.Ticker Model.Component Model.Sim Model.SimTime Model.NSim Model.Interrupts Model.NNSim
  Proofs.WiringP Proofs.TickerP Proofs.SimP Proofs.NonInterfP Proofs.LatestP Proofs.FrameP Proofs.EqvP Proofs.ParDevP
  Proofs.ExtentP Proofs.Confluence2P Proofs.Confluence3P Proofs.ScheduleP Proofs.InlineLoopP Proofs.NScheduleP Proofs.NDetP Proofs.NDetXP Proofs.SimNTP.
Open Scope Z_scope.

Section ML.
Variable cfg : config.
Variable devf : devfun.
Hypothesis Hdev_nd : forall c n t i, NoDup (keys (fst (devf c n t i))).
Hypothesis Hdev_ext : forall c n t i i', NoDup (keys i) -> NoDup (keys i') -> eqv i i' -> devf c n t i = devf c n t i'.

Definition pend := list (comp * (changes * option Z)).      (* computed answers on their way to the scheduler *)

Section Level.
Variable I : ntick_rel.
Variable f : nat.
Variable lv : positive.
Variable time : Z.
Variable chg : values.
Notation conns := (l_conns (level_of cfg lv)).
Notation comps := (lcomps (level_of cfg lv)).

Inductive MRun (roots ext : list comp) (s0 : sstate) : tstate -> list ev -> pend -> sstate -> list obs -> Prop :=
| MR_start st0 st1 acts :
    start_tick conns time roots = Some st0 -> ext = pending st0 -> schedule conns comps st0 = Some (st1, acts) ->
    MRun roots ext s0 st1 (map EDispatch acts) [] s0 []
| MR_in st tr pd s ob a ans ca s1 o :
    MRun roots ext s0 st tr pd s ob ->
    In (EDispatch a) tr -> ~ In (act_comp a) (ans_comps tr) -> ~ In (act_comp a) (keys pd) ->
    comp_step0 cfg devf I lv time chg a s s1 ans ca o ->
    MRun roots ext s0 st tr (pd ++ [(act_comp a, (ans, ca))]) s1 (ob ++ o)
| MR_out st tr pd1 pd2 s ob c ans ca st' acts fin :
    MRun roots ext s0 st tr (pd1 ++ (c, (ans, ca)) :: pd2) s ob ->
    In (c, true) (todo st) ->
    propagate conns comps st c time ans = POk st' acts fin ->
    MRun roots ext s0 st' (tr ++ EAnswer c ans :: map EDispatch acts) (pd1 ++ pd2) (wake_upd s lv c ca) ob.

Lemma MRun_Run roots ext s0 st tr pd s ob : MRun roots ext s0 st tr pd s ob -> Run conns comps time roots ext st tr.
Proof.
  induction 1 as [st0 st1 acts H1 H2 H3 | st tr pd s ob a ans ca s1 o HR IH Ha Hna Hnp Hs
                  | st tr pd1 pd2 s ob c ans ca st' acts fin HR IH Hc Hp].
  - eapply Run_start; eassumption.
  - exact IH.
  - eapply Run_step; eassumption.
Qed.

Hypothesis Hok : subtree_ok cfg (S f) lv.
Hypothesis HIfr : inner_framed cfg f I.
Notation FD := (fpD cfg f lv).
Notation FL := (fpL cfg f lv).

Section Inv.
Variable s0 : sstate.

Record MI (tr : list ev) (pd : pend) (s : sstate) (ob : list obs) : Prop := {
  mi_un : forall x, ~ In x (ans_comps tr) -> ~ In x (keys pd) ->
      same_on (FD x) (FL x) s0 s /\ lookup x (wake_of s lv) = lookup x (wake_of s0 lv) /\ (forall d, In d (FD x) -> dev_obs d ob = []);
  mi_pd : forall x ans ca, In (x, (ans, ca)) pd -> ~ In x (ans_comps tr) /\ exists a sx sx1 o,
      In (EDispatch a) tr /\ act_comp a = x /\ same_on (FD x) (FL x) s0 sx /\
      comp_step0 cfg devf I lv time chg a sx sx1 ans ca o /\ same_on (FD x) (FL x) sx1 s /\
      lookup x (wake_of s lv) = lookup x (wake_of s0 lv) /\ (forall d, In d (FD x) -> dev_obs d ob = dev_obs d o);
  mi_an : forall x ch, In (EAnswer x ch) tr -> ~ In x (keys pd) /\ exists a sx sx1 ca o,
      In (EDispatch a) tr /\ act_comp a = x /\ same_on (FD x) (FL x) s0 sx /\
      comp_step0 cfg devf I lv time chg a sx sx1 ch ca o /\ same_on (FD x) (FL x) sx1 s /\
      lookup x (wake_of s lv) = match ca with Some w => Some w | None => lookup x (wake_of s0 lv) end /\
      (forall d, In d (FD x) -> dev_obs d ob = dev_obs d o);
  mi_int : int_of s lv = int_of s0 lv;
  mi_tk : memb lv (s_ticked s) = memb lv (s_ticked s0);
  mi_nd : NoDup (keys (wake_of s0 lv)) -> NoDup (keys (wake_of s lv));
  mi_pnd : NoDup (keys pd)
}.

Lemma keys_app {A} (a b : list (positive * A)) : keys (a ++ b) = keys a ++ keys b.
Proof. unfold keys. apply map_app. Qed.

Lemma mrun_MI roots ext st tr pd s ob : MRun roots ext s0 st tr pd s ob -> MI tr pd s ob.
Proof.
  destruct (fp_facts cfg f lv Hok) as [Hnlv Hdisj].
  induction 1 as [st0 st1 acts H1 H2 H3 | st tr pd s ob a ans ca s1 o HR IH Ha Hna Hnp Hs
                  | st tr pd1 pd2 s ob c ans ca st' acts fin HR IH Hc Hp].
  - constructor.
    + intros x _ _. split; [apply same_on_refl|]. split; [reflexivity | intros d _; reflexivity].
    + intros x ans ca [].
    + intros x ch Hi. exfalso. apply in_map_iff in Hi. destruct Hi as [a0 [E _]]. discriminate.
    + reflexivity.
    + reflexivity.
    + auto.
    + constructor.
  - (* a component is handed its input and computes *)
    set (c := act_comp a) in *.
    pose proof (comp_step0_framed cfg devf f I lv time chg a s s1 ans ca o HIfr Hs) as [FrD [FrL FrO]]. fold c in FrD, FrL, FrO.
    assert (Hw1 : wake_of s1 lv = wake_of s lv) by (apply (FrL lv); intros Hi; apply (Hnlv _ _ Hi); reflexivity).
    assert (Hi1 : int_of s1 lv = int_of s lv) by (apply (FrL lv); intros Hi; apply (Hnlv _ _ Hi); reflexivity).
    assert (Ht1 : memb lv (s_ticked s1) = memb lv (s_ticked s)) by (apply (FrL lv); intros Hi; apply (Hnlv _ _ Hi); reflexivity).
    assert (Hother : forall x, x <> c -> same_on (FD x) (FL x) s s1).
    { intros x Hx. destruct (Hdisj x c Hx) as [Dd Dl].
      split; [intros d Hd; apply FrD; apply Dd; exact Hd | intros l Hl; apply FrL; apply Dl; exact Hl]. }
    assert (Hobs_other : forall x, x <> c -> forall d, In d (FD x) -> dev_obs d o = []).
    { intros x Hx d Hd. apply (dev_obs_outside d o (FD c) FrO). destruct (Hdisj x c Hx) as [Dd _]. apply Dd. exact Hd. }
    destruct (mi_un _ _ _ _ IH c Hna Hnp) as [U1 [U2 U3]].
    constructor.
    + intros x Hx Hxp. rewrite keys_app in Hxp. cbn [keys map fst app] in Hxp.
      assert (Hxc : x <> c) by (intros E; apply Hxp; apply in_app_iff; right; left; symmetry; exact E).
      assert (Hxp' : ~ In x (keys pd)) by (intros Hi; apply Hxp; apply in_app_iff; left; exact Hi).
      destruct (mi_un _ _ _ _ IH x Hx Hxp') as [V1 [V2 V3]].
      split; [eapply same_on_trans; [exact V1 | apply Hother; exact Hxc]|]. split; [rewrite Hw1; exact V2|].
      intros d Hd. rewrite dev_obs_app, (V3 d Hd), (Hobs_other x Hxc d Hd). reflexivity.
    + intros x ans0 ca0 Hi. apply in_app_iff in Hi. destruct Hi as [Hi|[Hi|[]]].
      * destruct (mi_pd _ _ _ _ IH x ans0 ca0 Hi) as [P0 [a0 [sx [sx1 [o0 [P1 [P2 [P3 [P4 [P5 [P6 P7]]]]]]]]]]].
        assert (Hxc : x <> c) by (intros E; apply Hnp; rewrite <- E; apply in_map_iff; exists (x, (ans0, ca0)); split; [reflexivity | exact Hi]).
        split; [exact P0|]. exists a0, sx, sx1, o0. split; [exact P1|]. split; [exact P2|]. split; [exact P3|]. split; [exact P4|].
        split; [eapply same_on_trans; [exact P5 | apply Hother; exact Hxc]|]. split; [rewrite Hw1; exact P6|].
        intros d Hd. rewrite dev_obs_app, (P7 d Hd), (Hobs_other x Hxc d Hd), app_nil_r. reflexivity.
      * inversion Hi; subst x ans0 ca0. split; [exact Hna|]. exists a, s, s1, o. split; [exact Ha|]. split; [reflexivity|]. split; [exact U1|].
        split; [exact Hs|]. split; [apply same_on_refl|]. split; [rewrite Hw1; exact U2|].
        intros d Hd. rewrite dev_obs_app, (U3 d Hd). reflexivity.
    + intros x ch Hi. destruct (mi_an _ _ _ _ IH x ch Hi) as [A0 [a0 [sx [sx1 [ca0 [o0 [A1 [A2 [A3 [A4 [A5 [A6 A7]]]]]]]]]]]].
      assert (Hxc : x <> c) by (intros E; apply Hna; rewrite <- E; apply answered_In; exists ch; exact Hi).
      split.
      * rewrite keys_app. cbn [keys map fst app]. intros Hin. apply in_app_iff in Hin. destruct Hin as [Hin|[E|[]]]; [exact (A0 Hin) | apply Hxc; symmetry; exact E].
      * exists a0, sx, sx1, ca0, o0. split; [exact A1|]. split; [exact A2|]. split; [exact A3|]. split; [exact A4|].
        split; [eapply same_on_trans; [exact A5 | apply Hother; exact Hxc]|]. split; [rewrite Hw1; exact A6|].
        intros d Hd. rewrite dev_obs_app, (A7 d Hd), (Hobs_other x Hxc d Hd), app_nil_r. reflexivity.
    + rewrite Hi1. exact (mi_int _ _ _ _ IH).
    + rewrite Ht1. exact (mi_tk _ _ _ _ IH).
    + intros Hnd. rewrite Hw1. exact (mi_nd _ _ _ _ IH Hnd).
    + rewrite keys_app. cbn [keys map fst]. apply NoDup_app_disj; [exact (mi_pnd _ _ _ _ IH) | constructor; [intros [] | constructor] |].
      intros x Hx [E|[]]. subst x. exact (Hnp Hx).
  - (* an answer reaches the scheduler *)
    assert (Hpin : In (c, (ans, ca)) (pd1 ++ (c, (ans, ca)) :: pd2)) by (apply in_app_iff; right; left; reflexivity).
    destruct (mi_pd _ _ _ _ IH c ans ca Hpin) as [Hcna [a0 [sx [sx1 [o0 [P1 [P2 [P3 [P4 [P5 [P6 P7]]]]]]]]]]].
    pose proof (mi_pnd _ _ _ _ IH) as Hpnd. rewrite keys_app in Hpnd. cbn [keys map fst] in Hpnd.
    assert (Hcn12 : ~ In c (keys (pd1 ++ pd2))).
    { rewrite keys_app. apply NoDup_remove_2 in Hpnd. exact Hpnd. }
    assert (Hsame : forall D L, (forall l, In l L -> l <> lv) -> same_on D L s (wake_upd s lv c ca)).
    { intros D L HL. apply wake_upd_same_on. intros Hi. apply (HL lv Hi). reflexivity. }
    assert (Hint_new : int_of (wake_upd s lv c ca) lv = int_of s lv) by (unfold wake_upd; destruct ca; reflexivity).
    assert (Htk_new : s_ticked (wake_upd s lv c ca) = s_ticked s) by (unfold wake_upd; destruct ca; reflexivity).
    assert (Hsub : forall x, In x (keys (pd1 ++ pd2)) -> In x (keys (pd1 ++ (c, (ans, ca)) :: pd2))).
    { intros x. rewrite !keys_app. cbn [keys map fst]. rewrite !in_app_iff. intros [H|H]; [left; exact H | right; right; exact H]. }
    constructor.
    + intros x Hx Hxp. rewrite ans_comps_app in Hx. cbn [ans_comps flat_map app] in Hx. fold (ans_comps (map EDispatch acts)) in Hx.
      assert (Hxa : ~ In x (ans_comps tr)) by (intros Hi; apply Hx; apply in_app_iff; left; exact Hi).
      assert (Hxc : x <> c) by (intros E; apply Hx; apply in_app_iff; right; left; symmetry; exact E).
      assert (Hxp' : ~ In x (keys (pd1 ++ (c, (ans, ca)) :: pd2))).
      { rewrite keys_app. cbn [keys map fst]. intros Hi. apply in_app_iff in Hi. destruct Hi as [Hi|[E|Hi]];
          [apply Hxp; rewrite keys_app; apply in_app_iff; left; exact Hi | apply Hxc; symmetry; exact E
           | apply Hxp; rewrite keys_app; apply in_app_iff; right; exact Hi]. }
      destruct (mi_un _ _ _ _ IH x Hxa Hxp') as [V1 [V2 V3]].
      split; [eapply same_on_trans; [exact V1 | apply Hsame; intros l Hl; apply (Hnlv x l Hl)]|]. split; [|exact V3].
      rewrite wake_upd_lookup. destruct (Pos.eqb_spec x c); [contradiction | exact V2].
    + intros x ans0 ca0 Hi.
      assert (Hi' : In (x, (ans0, ca0)) (pd1 ++ (c, (ans, ca)) :: pd2)).
      { apply in_app_iff in Hi. apply in_app_iff. destruct Hi as [Hi|Hi]; [left; exact Hi | right; right; exact Hi]. }
      destruct (mi_pd _ _ _ _ IH x ans0 ca0 Hi') as [Q0 [a1 [sy [sy1 [o1 [Q1 [Q2 [Q3 [Q4 [Q5 [Q6 Q7]]]]]]]]]]].
      assert (Hxc : x <> c) by (intros E; apply Hcn12; rewrite <- E; apply in_map_iff; exists (x, (ans0, ca0)); split; [reflexivity | exact Hi]).
      split.
      * rewrite ans_comps_app. cbn [ans_comps flat_map app]. fold (ans_comps (map EDispatch acts)). intros Hin.
        apply in_app_iff in Hin. destruct Hin as [Hin|[E|Hin]]; [exact (Q0 Hin) | apply Hxc; symmetry; exact E|].
        clear - Hin. induction acts as [|a0 r IHr]; [destruct Hin | exact (IHr Hin)].
      * exists a1, sy, sy1, o1. split; [apply in_app_iff; left; exact Q1|]. split; [exact Q2|]. split; [exact Q3|]. split; [exact Q4|].
        split; [eapply same_on_trans; [exact Q5 | apply Hsame; intros l Hl; apply (Hnlv x l Hl)]|]. split; [|exact Q7].
        rewrite wake_upd_lookup. destruct (Pos.eqb_spec x c); [contradiction | exact Q6].
    + intros x ch Hi. apply in_app_iff in Hi. destruct Hi as [Hi|[Hi|Hi]].
      * destruct (mi_an _ _ _ _ IH x ch Hi) as [A0 [a1 [sy [sy1 [ca1 [o1 [A1 [A2 [A3 [A4 [A5 [A6 A7]]]]]]]]]]]].
        assert (Hxc : x <> c) by (intros E; apply Hcna; rewrite <- E; apply answered_In; exists ch; exact Hi).
        split; [intros Hin; apply A0; apply Hsub; exact Hin|].
        exists a1, sy, sy1, ca1, o1. split; [apply in_app_iff; left; exact A1|]. split; [exact A2|]. split; [exact A3|]. split; [exact A4|].
        split; [eapply same_on_trans; [exact A5 | apply Hsame; intros l Hl; apply (Hnlv x l Hl)]|]. split; [|exact A7].
        rewrite wake_upd_lookup. destruct (Pos.eqb_spec x c); [contradiction | exact A6].
      * inversion Hi; subst x ch. split; [exact Hcn12|].
        exists a0, sx, sx1, ca, o0. split; [apply in_app_iff; left; exact P1|]. split; [exact P2|]. split; [exact P3|]. split; [exact P4|].
        split; [eapply same_on_trans; [exact P5 | apply Hsame; intros l Hl; apply (Hnlv c l Hl)]|]. split; [|exact P7].
        rewrite wake_upd_lookup, Pos.eqb_refl, P6. reflexivity.
      * exfalso. apply in_map_iff in Hi. destruct Hi as [a1 [E _]]. discriminate.
    + rewrite Hint_new. exact (mi_int _ _ _ _ IH).
    + rewrite Htk_new. exact (mi_tk _ _ _ _ IH).
    + intros Hnd. specialize (mi_nd _ _ _ _ IH Hnd) as Hn. unfold wake_upd. destruct ca as [w|]; [|exact Hn].
      rewrite wake_of_set_wake. apply NoDup_keys_upd. exact Hn.
    + rewrite keys_app. apply NoDup_remove_1 in Hpnd. rewrite keys_app in Hcn12. exact Hpnd.
Qed.

Lemma MI_SI tr s ob : MI tr [] s ob -> SI cfg devf f lv time chg s0 I tr s ob.
Proof.
  intros H. constructor.
  - intros x Hx. apply (mi_un _ _ _ _ H x Hx). intros [].
  - intros x ch Hi. destruct (mi_an _ _ _ _ H x ch Hi) as [_ A]. exact A.
  - exact (mi_int _ _ _ _ H).
  - exact (mi_tk _ _ _ _ H).
  - exact (mi_nd _ _ _ _ H).
Qed.
End Inv.

Lemma mrun_framed roots ext s0 st tr pd s ob : MRun roots ext s0 st tr pd s ob ->
  framed (devices_below cfg (S f) lv) (levels_below cfg (S f) lv) s0 s ob.
Proof.
  induction 1 as [st0 st1 acts H1 H2 H3 | st tr pd s ob a ans ca s1 o HR IH Ha Hna Hnp Hs
                  | st tr pd1 pd2 s ob c ans ca st' acts fin HR IH Hc Hp].
  - apply framed_refl.
  - eapply framed_trans; [exact IH|].
    eapply framed_mono; [| |apply (comp_step0_framed cfg devf f I lv time chg a s s1 ans ca o HIfr Hs)]; [apply fpD_sub | apply fpL_sub].
  - rewrite <- (app_nil_r ob). eapply framed_trans; [exact IH|]. apply framed_wake_upd; [left; reflexivity | apply framed_refl].
Qed.

Hypothesis HInd : inner_nd I.
Hypothesis Hchg : NoDup (keys chg).

(* a complete message-level run of a level: every answer delivered *)
Theorem mrun_LT roots ext s0 st tr s ob :
  MRun roots ext s0 st tr [] s ob -> todo st = [] -> LT cfg devf f lv time I chg roots ext s0 tr s ob.
Proof.
  intros HR Ht.
  pose proof (MI_SI s0 tr s ob (mrun_MI s0 roots ext st tr [] s ob HR)) as SIr.
  pose proof (MRun_Run _ _ _ _ _ _ _ _ HR) as Rn.
  assert (Hlv : level_ok cfg lv) by (destruct Hok as [_ [_ H]]; apply H; left; reflexivity).
  destruct Hlv as [_ [_ [Hss _]]].
  assert (Wf : wf_answers tr).
  { intros c ch Hi. destruct (si_an _ _ _ _ _ _ _ _ _ _ _ SIr c ch Hi) as [a [sx [sx1 [ca [o [_ [_ [_ [A4 _]]]]]]]]].
    apply (step_nd cfg devf Hdev_nd I lv time chg a sx sx1 ch ca o HInd Hchg A4). }
  pose proof (run_inv _ _ _ _ _ _ _ Rn) as HI.
  constructor.
  - exact (run_gate _ _ _ _ _ _ _ Rn).
  - exact (run_disp_ok _ _ _ _ Hss _ _ _ Rn Wf).
  - exact (run_dispatch_nd _ _ _ _ _ _ _ Rn).
  - destruct (run_ext _ _ _ _ _ _ _ Rn) as [st0 [S0 E0]]. subst ext.
    destruct (start_tick_spec _ _ _ st0 S0) as [_ [_ [_ [_ [_ H]]]]]. exact H.
  - exact (run_finished _ _ _ _ _ _ _ Rn Ht).
  - exact (i_ans_ext _ _ _ _ _ _ HI).
  - exact (i_disp_ext _ _ _ _ _ _ HI).
  - exact SIr.
  - destruct (mrun_framed _ _ _ _ _ _ _ _ HR) as [_ [_ F]]. exact F.
Qed.
End Level.

(* ---------- a tick of a system simulation under message-level schedules of all its levels *)
Fixpoint MNT (f : nat) : ntick_rel :=
  fun lv time chg s s' out ca ob =>
  match f with
  | O => s' = s /\ out = [] /\ ca = None /\ ob = []
  | S f' =>
      exists ext st tr,
        MRun (MNT f') lv time chg (nroots cfg s lv time) ext (nprologue cfg s lv time) st tr [] s' ob /\
        todo st = [] /\ out = exposed tr /\ ca = min_wake (wake_of s' lv)
  end.

Theorem MNT_framed : forall f, inner_framed cfg f (MNT f).
Proof.
  induction f as [|f IH]; intros lv time chg s s' out ca ob H.
  - cbn [MNT] in H. destruct H as [-> [_ [_ ->]]]. apply framed_refl.
  - cbn [MNT] in H. destruct H as [ext [st [tr [HR _]]]].
    rewrite <- (app_nil_l ob). eapply framed_trans; [apply (prologue_framed cfg s lv time); left; reflexivity|].
    apply (mrun_framed (MNT f) f lv time chg IH _ ext _ st tr [] s' ob HR).
Qed.

Lemma MNT_inner_nd f : inner_nd (MNT f).
Proof.
  intros lv time chg s s' out ca ob H. destruct f as [|f]; cbn [MNT] in H.
  - destruct H as [_ [-> _]]. constructor.
  - destruct H as [ext [st [tr [HR [_ [-> _]]]]]]. apply (exposed_nd _ _ _ _ _ _ _ (MRun_Run _ _ _ _ _ _ _ _ _ _ _ _ HR)).
Qed.

(* every message-level schedule of a nested tick ends like Model/Sim.v *)
Theorem MNT_sim : forall f, rdet cfg (MNT f) (G cfg devf f) f.
Proof.
  induction f as [|f IH]; intros lv Hok time chgA chgB sA sB sA' sB' outA outB caA caB obA obB HnA HnB Hchg Hs HA HB.
  - cbn [MNT] in HA. destruct HA as [-> [-> [-> ->]]]. unfold G, GI in HB. cbn [on_tick_level] in HB. inversion HB; subst.
    split; [intros q; reflexivity|]. split; [constructor|]. split; [constructor|]. split; [reflexivity|]. split; [exact Hs | intros d; constructor].
  - pose proof (MNT_inner_nd (S f) _ _ _ _ _ _ _ _ HA) as NoA. pose proof (G_nd cfg devf (S f) _ _ _ _ _ _ _ _ HB) as NoB.
    cbn [MNT] in HA. destruct HA as [extA [stA [trA [HRA [HtA [-> ->]]]]]].
    unfold G, GI in HB. cbn [on_tick_level] in HB. rewrite tick_with_core in HB.
    change (int_of sB lv ++ map fst (filter (fun e : comp * Z => Z.leb (snd e) time) (wake_of sB lv)) ++ [ext_id] ++
            (if negb (memb lv (s_ticked sB)) then map fst (l_order (level_of cfg lv)) ++ [exp_id] else []))
      with (nroots cfg sB lv time) in HB.
    change (log_tick (mark_ticked (set_int (set_wake sB lv (filter (fun e : comp * Z => negb (Z.leb (snd e) time)) (wake_of sB lv))) lv []) lv) lv time (nroots cfg sB lv time))
      with (nprologue cfg sB lv time) in HB.
    destruct Hs as [HD HL]. destruct (HL lv (or_introl eq_refl)) as [W [Ei Et]].
    pose proof (nroots_iff cfg sA sB lv time W Ei Et) as Hroots.
    pose proof (mrun_LT (MNT f) f lv time chgA Hok (MNT_framed f) (MNT_inner_nd f) HnA _ extA _ stA trA sA' obA HRA HtA) as LA.
    assert (HextB : forall c, In c extA <-> exists r, In r (nroots cfg sB lv time) /\ reach (l_conns (level_of cfg lv)) r c).
    { intros c. rewrite (lt_ext _ _ _ _ _ _ _ _ _ _ _ _ _ LA c). split; intros [r [Hr Hre]]; exists r; (split; [apply Hroots; exact Hr | exact Hre]). }
    assert (Hsub : forall c, In c extA -> In c (lcomps (level_of cfg lv))).
    { apply (run_ext_comps _ _ _ _ _ _ _ (MRun_Run _ _ _ _ _ _ _ _ _ _ _ _ HRA)). }
    destruct (sim_LT cfg devf Hdev_nd f lv time chgB Hok HnB (on_tick_level cfg devf f) (G_framed cfg devf f) (G_nd cfg devf f)
                (nroots cfg sB lv time) extA HextB (nprologue cfg sB lv time) Hsub) as [LB Eout].
    unfold a_fin, a0 in LB, Eout.
    match type of HB with context [fold_left ?F ?l ?a] => set (afin := fold_left F l a) in HB, LB, Eout end.
    clearbody afin. cbv beta iota in HB. injection HB as E1 E2 E3 E4. subst sB' outB caB obB.
    destruct (level_rel cfg devf Hdev_ext f lv time Hok (MNT f) (G cfg devf f) chgA chgB _ _ extA extA _ _ trA sA' obA _ _ _
                IH (MNT_inner_nd f) (G_nd cfg devf f) HnA HnB Hchg Hroots (prologue_NSR cfg _ _ sA sB lv time (conj HD HL)) LA LB) as [Ho [Hs' Hob]].
    split; [rewrite Eout; exact Ho|]. split; [exact NoA|]. split; [exact NoB|]. split.
    + apply min_wake_weq. destruct Hs' as [_ HL']. apply (HL' lv (or_introl eq_refl)).
    + split; [exact Hs' | exact Hob].
Qed.

(* ---------- answer-order schedules are message-level schedules (so there are such runs: Model/NNSim.v executes them) *)
Lemma comp_step0_mono (I1 I2 : ntick_rel) lv time chg a s s1 ans ca o :
  (forall lv' t x u u' out c ob, I1 lv' t x u u' out c ob -> I2 lv' t x u u' out c ob) ->
  comp_step0 cfg devf I1 lv time chg a s s1 ans ca o -> comp_step0 cfg devf I2 lv time chg a s s1 ans ca o.
Proof.
  intros H. unfold comp_step0. destruct a as [x t0 c0|x t0]; [|exact (fun h => h)].
  destruct (Pos.eqb x ext_id); [exact (fun h => h)|]. destruct (Pos.eqb x exp_id); [exact (fun h => h)|].
  destruct (lookup x (l_order (level_of cfg lv))) as [[|lv']|]; [exact (fun h => h) | apply H | exact (fun h => h)].
Qed.

Lemma SRun_MRun (I1 I2 : ntick_rel) lv time chg roots ext s0 st tr s ob :
  (forall lv' t x u u' out c ob, I1 lv' t x u u' out c ob -> I2 lv' t x u u' out c ob) ->
  SRun cfg devf I1 lv time chg (l_conns (level_of cfg lv)) (lcomps (level_of cfg lv)) roots ext s0 st tr s ob ->
  MRun I2 lv time chg roots ext s0 st tr [] s ob.
Proof.
  intros Hmono. induction 1 as [st0 st1 acts H1 H2 H3 | st tr s ob c a ch s1 o st' acts fin HR IH Hc Ha Hac [s2 [ca [Hs Es1]]] Hp].
  - eapply MR_start; eassumption.
  - pose proof (SRun_Run cfg devf _ _ _ _ _ _ _ _ _ _ _ _ _ HR) as Hrun.
    pose proof (run_inv _ _ _ _ _ _ _ Hrun) as HI.
    assert (Hcna : ~ In c (ans_comps tr)).
    { intros Hin. apply answered_In in Hin.
      assert (Hpe : In c (pending st)) by (unfold pending, keys; apply in_map_iff; exists (c, true); split; [reflexivity | exact Hc]).
      apply (i_ans _ _ _ _ _ _ HI c (i_sub _ _ _ _ _ _ HI c Hpe)) in Hin. contradiction. }
    subst c s1.
    pose proof (MR_in I2 lv time chg roots ext s0 st tr [] s ob a ch ca s2 o IH Ha Hcna (fun h => h) (comp_step0_mono I1 I2 lv time chg a s s2 ch ca o Hmono Hs)) as M1.
    apply (MR_out I2 lv time chg roots ext s0 st tr [] [] s2 (ob ++ o) (act_comp a) ch ca st' acts fin M1 Hc Hp).
Qed.

Theorem NT_MNT : forall f lv t x u u' out c ob, NT cfg devf f lv t x u u' out c ob -> MNT f lv t x u u' out c ob.
Proof.
  induction f as [|f IH]; intros lv t x u u' out c ob H; cbn [NT MNT] in *; [exact H|].
  destruct H as [ext [st [tr [HR [Ht [Eo Ec]]]]]]. exists ext, st, tr. split; [|split; [exact Ht | split; assumption]].
  apply (SRun_MRun (NT cfg devf f) (MNT f) lv t x _ ext _ st tr u' ob IH HR).
Qed.

(* ---------- whole runs: scripts of master ticks and interrupts of devices at any depth, every tick of every level a
   message-level schedule *)
Notation NSRt f := (NSR (devices_below cfg (S f) top) (levels_below cfg (S f) top)).

Definition mmtick (f : nat) (s : sstate) (time : Z) (roots : list comp) (s' : sstate) (ob : list obs) : Prop :=
  exists ext st tr, MRun (MNT f) top time [] roots ext (log_tick s top time roots) st tr [] s' ob /\ todo st = [].

Inductive MXRun (f : nat) : list xitem -> sstate -> list obs -> sstate -> list obs -> Prop :=
| MX_nil s ob : MXRun f [] s ob s ob
| MX_stim c lvc path w r s ob s' ob' : MXRun f r (stim_at s c lvc path w) ob s' ob' -> MXRun f (XStim c lvc path w :: r) s ob s' ob'
| MX_idle r s ob s' ob' :
    first_wakeups (wake_of s top) = None -> MXRun f r s ob s' ob' -> MXRun f (XTick :: r) s ob s' ob'
| MX_tick r s ob when roots s2 o s' ob' :
    first_wakeups (wake_of s top) = Some (when, roots) ->
    mmtick f (set_wake s top (filter (fun e : comp * Z => negb (memb (fst e) roots)) (wake_of s top))) when roots s2 o ->
    MXRun f r s2 (ob ++ o) s' ob' -> MXRun f (XTick :: r) s ob s' ob'.

Definition mxrun (f : nat) (initial : Z) (script : list xitem) (s' : sstate) (ob' : list obs) : Prop :=
  exists s1 o1, mmtick f (set_wake s_init top []) initial (map fst (l_order (level_of cfg top))) s1 o1 /\ MXRun f script s1 o1 s' ob'.

Lemma mmtick_sim f sA sS t rA rS sA' oA :
  subtree_ok cfg (S f) top -> NSRt f sA sS -> (forall c, In c rA <-> In c rS) ->
  mmtick f sA t rA sA' oA ->
  let '(sS', _, oS) := tick_level cfg devf f top t rS [] (log_tick sS top t rS) in
  NSRt f sA' sS' /\ forall d, obs_rel (dev_obs d oA) (dev_obs d oS).
Proof.
  intros Hok Hs Hr [extA [stA [trA [HRA HtA]]]].
  assert (Hs0 : NSRt f (log_tick sA top t rA) (log_tick sS top t rS)) by (destruct Hs as [HD HL]; split; [exact HD | exact HL]).
  pose proof (mrun_LT (MNT f) f top t [] Hok (MNT_framed f) (MNT_inner_nd f) (NoDup_nil _) _ extA _ stA trA sA' oA HRA HtA) as LA.
  assert (HextB : forall c, In c extA <-> exists r, In r rS /\ reach (l_conns (level_of cfg top)) r c).
  { intros c. rewrite (lt_ext _ _ _ _ _ _ _ _ _ _ _ _ _ LA c). split; intros [r [Hr0 Hre]]; exists r; (split; [apply Hr; exact Hr0 | exact Hre]). }
  assert (Hsub : forall c, In c extA -> In c (lcomps (level_of cfg top))).
  { apply (run_ext_comps _ _ _ _ _ _ _ (MRun_Run _ _ _ _ _ _ _ _ _ _ _ _ HRA)). }
  destruct (sim_LT cfg devf Hdev_nd f top t [] Hok (NoDup_nil _) (on_tick_level cfg devf f) (G_framed cfg devf f) (G_nd cfg devf f)
              rS extA HextB (log_tick sS top t rS) Hsub) as [LB _].
  unfold tick_level. rewrite tick_with_core. unfold a_fin, a0 in LB.
  match goal with |- context [fold_left ?F ?l ?a] => set (afin := fold_left F l a) in * end.
  clearbody afin.
  destruct (level_rel cfg devf Hdev_ext f top t Hok (MNT f) (G cfg devf f) [] [] rA rS extA extA _ _ trA sA' oA _ _ _
              (MNT_sim f) (MNT_inner_nd f) (G_nd cfg devf f) (NoDup_nil _) (NoDup_nil _) (fun q => eq_refl) Hr Hs0 LA LB) as [_ [H1 H2]].
  split; assumption.
Qed.

Theorem mxrun_script_is_sim f : subtree_ok cfg (S f) top -> forall script sA obA sA' obA',
  MXRun f script sA obA sA' obA' -> forall sS obS,
  NSRt f sA sS -> (forall d, obs_rel (dev_obs d obA) (dev_obs d obS)) ->
  NSRt f sA' (fst (xsim_script cfg devf f script sS obS)) /\
  forall d, obs_rel (dev_obs d obA') (dev_obs d (snd (xsim_script cfg devf f script sS obS))).
Proof.
  intros Hok.
  assert (Wtop : forall sA sB, NSRt f sA sB -> weq (wake_of sA top) (wake_of sB top)).
  { intros sA sB [_ HL]. apply (HL top (or_introl eq_refl)). }
  induction 1 as [sA obA | c lvc path w r sA obA sA' obA' HA IH | r sA obA sA' obA' EA HA IH
                  | r sA obA when rootsA s2A oA sA' obA' EA TA HA IH]; intros sS obS HS HO; cbn [xsim_script].
  - split; assumption.
  - apply IH; [|exact HO]. apply NDetXP.stim_at_NSR; [left; reflexivity | exact HS].
  - pose proof (weq_first _ _ (Wtop _ _ HS)) as F. rewrite EA in F.
    destruct (first_wakeups (wake_of sS top)) as [[when0 roots0]|]; [destruct F|]. apply IH; assumption.
  - pose proof (weq_first _ _ (Wtop _ _ HS)) as F. rewrite EA in F.
    destruct (first_wakeups (wake_of sS top)) as [[when0 roots0]|]; [|destruct F]. destruct F as [Ew Hr]. subst when0.
    pose proof (mmtick_sim f _ _ when rootsA roots0 s2A oA Hok
                  (NSR_set_wake _ _ sA sS top _ _ HS (weq_filter _ _ rootsA roots0 (Wtop _ _ HS) Hr)) Hr TA) as T.
    destruct (tick_level cfg devf f top when roots0 [] _) as [[s2S outS] oS]. destruct T as [HS2 HO2].
    apply IH; [exact HS2|]. intros d. rewrite !dev_obs_app. apply InlineLoopP.obs_rel_app; [apply HO | apply HO2].
Qed.

Theorem mxrun_is_sim f initial script sA obA : subtree_ok cfg (S f) top ->
  mxrun f initial script sA obA ->
  NSRt f sA (fst (xsim_from_start cfg devf f initial script)) /\
  forall d, obs_rel (dev_obs d obA) (dev_obs d (snd (xsim_from_start cfg devf f initial script))).
Proof.
  intros Hok [s1A [o1A [TA RA]]]. unfold xsim_from_start.
  pose proof (mmtick_sim f _ _ initial _ (map fst (l_order (level_of cfg top))) s1A o1A Hok (NSR_init _ _) (fun c => iff_refl _) TA) as T.
  destruct (tick_level cfg devf f top initial _ [] _) as [[s1S outS] o1S]. destruct T as [HS HO].
  apply (mxrun_script_is_sim f Hok script s1A o1A sA obA RA s1S o1S HS HO).
Qed.

(* the answer-order runs of Proofs/NDetXP.v are among them *)
Theorem xnrun_mxrun f initial script s ob : xnrun cfg devf f initial script s ob -> mxrun f initial script s ob.
Proof.
  assert (Ht : forall u t r u' o, mtick cfg devf f u t r u' o -> mmtick f u t r u' o).
  { intros u t r u' o [ext [st [tr [HR Hd]]]]. exists ext, st, tr. split; [|exact Hd].
    apply (SRun_MRun (NT cfg devf f) (MNT f) top t [] r ext _ st tr u' o (NT_MNT f) HR). }
  intros [s1 [o1 [T R]]]. exists s1, o1. split; [apply Ht; exact T|].
  clear T. induction R as [u o | c lvc path w r u o u' o' H IH | r u o u' o' E H IH | r u o when roots u2 o2 u' o' E T H IH].
  - constructor.
  - apply MX_stim. exact IH.
  - apply MX_idle; assumption.
  - eapply MX_tick; [exact E | apply Ht; exact T | exact IH].
Qed.
End ML.
