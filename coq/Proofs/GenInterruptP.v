(* The hand-written model function IS the translation of the tickit function it models (see Proofs/GenWakeupsP.v).
   This file: the bookkeeping of MasterScheduler.schedule_interrupt -- given the stamp (real-time arithmetic, modelled
   over the rationals in Model/Master.v and compared, not translated), the wakeup the interrupt leaves is the stamp, but
   never later than a wakeup already pending for the component ([interrupt_wake] of Model/Master.v, [stim] of Model/NSim.v). *)
From Coq Require Import Lia.
From TV Require Import Base Model.PyLib Model.Wiring Model.Ticker Model.Master Gen.SourceFuns.
Open Scope Z_scope.

Theorem schedule_interrupt_is_source (w : list (comp * Z)) (c : comp) (t : Z) :
  gen_schedule_interrupt w c t = upd c (match lookup c w with Some w0 => Z.min t w0 | None => t end) w.
Proof.
  (* by cases, not by the shape of the generated term: min(a, b) may be written with a comparison in the source *)
  unfold gen_schedule_interrupt, gen_add_wakeup, py_get. cbv zeta.
  destruct (lookup c w) as [z|]; f_equal;
    repeat match goal with
           | |- context [Z.ltb ?a ?b] => destruct (Z.ltb_spec a b)
           | |- context [Z.leb ?a ?b] => destruct (Z.leb_spec a b)
           | |- context [Z.gtb ?a ?b] => rewrite (Z.gtb_ltb a b)
           | |- context [Z.geb ?a ?b] => rewrite (Z.geb_leb a b)
           end; lia.
Qed.

Theorem interrupt_wake_is_source num den (m : master) (r : Z) (c : comp) :
  gen_schedule_interrupt (mw m) c (stamp num den m r) = interrupt_wake num den m r c.
Proof. rewrite schedule_interrupt_is_source. reflexivity. Qed.
