From TV Require Import Base Gen.SourceConsts Model.Topics.
From Coq Require Import String Ascii.

Lemma input_topic_inj a b : input_topic a = input_topic b -> a = b.
Proof.
  unfold input_topic. intros H. apply app_inv_head in H. apply app_inv_tail in H. exact H.
Qed.

Lemma output_topic_inj a b : output_topic a = output_topic b -> a = b.
Proof.
  unfold output_topic. intros H. apply app_inv_head in H. apply app_inv_tail in H. exact H.
Qed.

(* decidable side condition on the actual constants: same prefix, suffixes ending in
   different characters *)
Definition consts_ok : bool :=
  name_eqb in_prefix out_prefix &&
  match rev in_suffix, rev out_suffix with
  | x :: _, y :: _ => negb (Ascii.eqb x y)
  | _, _ => false
  end.

Lemma name_eqb_eq a b : name_eqb a b = true -> a = b.
Proof. apply list_eqb_eq. intros x y H. apply Ascii.eqb_eq. exact H. Qed.

Lemma in_out_disjoint : consts_ok = true -> forall a b, input_topic a <> output_topic b.
Proof.
  unfold consts_ok. rewrite andb_true_iff. intros [Hp Hs] a b Heq.
  apply name_eqb_eq in Hp. unfold input_topic, output_topic in Heq. rewrite Hp in Heq.
  apply app_inv_head in Heq.
  destruct (rev in_suffix) as [|x ri] eqn:Ei; [discriminate|].
  destruct (rev out_suffix) as [|y ro] eqn:Eo; [discriminate|].
  assert (Hi : in_suffix = rev ri ++ [x]) by (rewrite <- (rev_involutive in_suffix), Ei; reflexivity).
  assert (Ho : out_suffix = rev ro ++ [y]) by (rewrite <- (rev_involutive out_suffix), Eo; reflexivity).
  rewrite Hi, Ho, !app_assoc in Heq. apply app_inj_tail in Heq. destruct Heq as [_ Hxy].
  subst. rewrite Ascii.eqb_refl in Hs. discriminate.
Qed.

Lemma consts_ok_now : consts_ok = true.
Proof. vm_compute. reflexivity. Qed.

(* the pseudo-component names used by nested schedulers, as found in the source *)
Definition pseudo_ok : bool :=
  list_eqb name_eqb pseudo_components
    [list_ascii_of_string "expose"; list_ascii_of_string "external"].
Lemma pseudo_ok_now : pseudo_ok = true.
Proof. vm_compute. reflexivity. Qed.
