(* The decision procedure [shape_of] is sound for [shape], and the table-driven devices the harness
   uses meet the device conditions of the inlining theorem. *)
From Coq Require Import Permutation.
From TV Require Import Base Model.Wiring Model.Ticker Model.Component Model.Sim Model.SimTime Model.Inline
  Oracle.SimCheck Proofs.WiringP Proofs.TickerP Proofs.SimP Proofs.EqvP Proofs.ParDevP Proofs.FuelP Proofs.InlineP Proofs.InlineLoopP.
Open Scope Z_scope.

Lemma all_dev_map l : forallb is_dev l = true -> l = map dv (map fst l).
Proof.
  induction l as [|[x k] r IH]; intros H; [reflexivity|]. cbn [forallb] in H. apply andb_true_iff in H. destruct H as [H1 H2].
  destruct k as [|lv]; [|discriminate]. cbn [map fst]. unfold dv at 1. f_equal. apply IH. exact H2.
Qed.

Lemma split_sys_sound l pre c lv post : split_sys l = Some (pre, c, lv, post) -> l = map dv pre ++ (c, KSys lv) :: map dv post.
Proof.
  revert pre. induction l as [|[x k] r IH]; intros pre H; [discriminate|]. cbn [split_sys] in H. destruct k as [|lv'].
  - destruct (split_sys r) as [[[[pre' c'] lv''] post']|]; [|discriminate]. inversion H; subst. cbn [map app]. unfold dv at 1. f_equal.
    apply IH. reflexivity.
  - destruct (forallb is_dev r) eqn:E; [|discriminate]. inversion H; subst. cbn [map app]. f_equal. apply all_dev_map. exact E.
Qed.

Lemma single_sourceb_sound cs : single_sourceb cs = true -> single_source cs.
Proof.
  intros H oc op oc' op' ic ip H1 H2. unfold single_sourceb in H.
  pose proof (proj1 (forallb_forall _ cs) H _ H1) as Ha. cbv beta in Ha.
  pose proof (proj1 (forallb_forall _ cs) Ha _ H2) as Hb. cbv beta iota in Hb.
  rewrite !Pos.eqb_refl in Hb. cbn [andb] in Hb. apply andb_true_iff in Hb. destruct Hb as [E1 E2].
  apply Pos.eqb_eq in E1. apply Pos.eqb_eq in E2. split; assumption.
Qed.

Lemma top_kinds_dev cfg pre c lvc post inn :
  l_order (level_of cfg top) = map dv pre ++ (c, KSys lvc) :: map dv post ->
  NoDup (c :: ext_id :: exp_id :: pre ++ inn ++ post) ->
  forall x, In x (pre ++ post) -> kd_of cfg x = KDev.
Proof.
  intros Etop Hnd x Hx. unfold kd_of. rewrite Etop.
  assert (Hk : NoDup (keys (map dv pre ++ (c, KSys lvc) :: map dv post))).
  { unfold keys. rewrite map_app. cbn [map fst]. unfold dv. rewrite !map_map. cbn [fst]. rewrite !map_id.
    inversion Hnd as [|? ? Hc Hnd1]; subst. inversion Hnd1 as [|? ? _ Hnd2]; subst. inversion Hnd2 as [|? ? _ Hnd3]; subst.
    apply NoDup_app_disj.
    - apply NoDup_app_l in Hnd3. exact Hnd3.
    - constructor; [intros Hi; apply Hc; right; right; apply in_app_iff; right; apply in_app_iff; right; exact Hi|].
      apply NoDup_app_r in Hnd3. apply NoDup_app_r in Hnd3. exact Hnd3.
    - intros z Hz [E|Hz2]; [subst z; apply Hc; right; right; apply in_app_iff; left; exact Hz|].
      apply (NoDup_app_disjoint pre _ z Hnd3 Hz). apply in_app_iff. right. exact Hz2. }
  assert (Hi : In (x, KDev) (map dv pre ++ (c, KSys lvc) :: map dv post)).
  { apply in_app_iff in Hx. apply in_app_iff. destruct Hx as [Hx|Hx]; [left | right; right]; apply in_map_iff; exists x; (split; [reflexivity | exact Hx]). }
  apply (lookup_In_iff _ x KDev Hk) in Hi. rewrite Hi. reflexivity.
Qed.

(* the order of the level of c, with the kinds read off the configuration *)
Lemma order_as_dki_gen cfg lvc (l : list (comp * ckind)) :
  (forall x k, In (x, k) l -> kd_in cfg lvc x = k) -> l = map (dki cfg lvc) (map fst l).
Proof.
  induction l as [|[x k] r IH]; intros H; [reflexivity|]. cbn [map fst]. unfold dki at 1. rewrite (H x k (or_introl eq_refl)).
  f_equal. apply IH. intros y ky Hy. apply H. right. exact Hy.
Qed.

Lemma order_as_dki cfg lvc : NoDup (keys (l_order (level_of cfg lvc))) ->
  l_order (level_of cfg lvc) = map (dki cfg lvc) (map fst (l_order (level_of cfg lvc))).
Proof.
  intros Hnd. apply order_as_dki_gen. intros x k Hi. unfold kd_in. apply (lookup_In_iff _ x k Hnd) in Hi. rewrite Hi. reflexivity.
Qed.

Lemma inner_nodup {A} (a b c : A) pre inn post : NoDup (a :: b :: c :: pre ++ inn ++ post) -> NoDup inn.
Proof.
  intros H. inversion H as [|? ? _ H1]; subst. inversion H1 as [|? ? _ H2]; subst. inversion H2 as [|? ? _ H3]; subst.
  apply NoDup_app_r in H3. apply NoDup_app_l in H3. exact H3.
Qed.

Lemma inner_kinds_dev cfg lvc : forallb is_dev (l_order (level_of cfg lvc)) = true ->
  forall x, In x (map fst (l_order (level_of cfg lvc))) -> kd_in cfg lvc x = KDev.
Proof.
  intros Hd x _. unfold kd_in. destruct (lookup x (l_order (level_of cfg lvc))) as [k|] eqn:E; [|reflexivity].
  apply lookup_In in E. pose proof (proj1 (forallb_forall _ _) Hd _ E) as Hk. destruct k; [reflexivity | discriminate].
Qed.

Theorem shape_of_sound cfg c lvc pre inn post :
  shape_of cfg = Some (c, lvc, pre, inn, post) -> shape cfg c lvc pre inn post.
Proof.
  unfold shape_of. destruct (split_sys (l_order (level_of cfg top))) as [[[[pre' c'] lv'] post']|] eqn:Es; [|discriminate].
  match goal with |- (if ?b then _ else _) = _ -> _ => destruct b eqn:Eb; [|discriminate] end.
  intros H. inversion H; subst. clear H.
  repeat (apply andb_true_iff in Eb; let H := fresh "K" in destruct Eb as [Eb H]).
  assert (Hnd : NoDup (c :: ext_id :: exp_id :: pre ++ map fst (l_order (level_of cfg lvc)) ++ post)) by (apply nodupb_NoDup; exact K4).
  pose proof (split_sys_sound _ _ _ _ _ Es) as Etop.
  assert (Hkd : forall x, In x (pre ++ post) -> kd_of cfg x = KDev) by (apply (top_kinds_dev cfg pre c lvc post _ Etop Hnd)).
  assert (Hdk : forall l, (forall x, In x l -> In x (pre ++ post)) -> map (dk cfg) l = map dv l).
  { intros l Hl. apply map_ext_in. intros x Hx. unfold dk, dv. rewrite (Hkd x (Hl x Hx)). reflexivity. }
  constructor.
  - rewrite (Hdk pre), (Hdk post); [exact Etop | intros x Hx; apply in_app_iff; right; exact Hx | intros x Hx; apply in_app_iff; left; exact Hx].
  - apply order_as_dki. exact (inner_nodup _ _ _ _ _ _ Hnd).
  - exact Hnd.
  - intros E. rewrite E, Pos.eqb_refl in K3. discriminate.
  - apply single_sourceb_sound. exact K2.
  - apply single_sourceb_sound. exact K1.
  - intros u p y q Hin. pose proof (proj1 (forallb_forall _ _) K0 _ Hin) as Hk. cbv beta iota in Hk.
    apply andb_true_iff in Hk. destruct Hk as [Hk Hn]. apply andb_true_iff in Hk. destruct Hk as [Hu Hy].
    split; [apply memb_In; exact Hu|]. split; [apply memb_In; exact Hy|]. intros [E1 E2]. subst. rewrite !Pos.eqb_refl in Hn. discriminate.
  - intros u p e q Hin. pose proof (proj1 (forallb_forall _ _) K _ Hin) as Hk. cbv beta iota in Hk.
    apply andb_true_iff in Hk. destruct Hk as [Hk Hn]. apply andb_true_iff in Hk. destruct Hk as [Hu Hy].
    split; [apply memb_In; exact Hu | apply memb_In; exact Hy].
  - intros x p q o _ Hin. exfalso. pose proof (proj1 (forallb_forall _ _) K _ Hin) as Hk. cbv beta iota in Hk.
    rewrite !Pos.eqb_refl in Hk. apply andb_true_iff in Hk. destruct Hk as [_ Hn]. discriminate.
  - intros q o y q' Hin _. exfalso. pose proof (proj1 (forallb_forall _ _) K _ Hin) as Hk. cbv beta iota in Hk.
    rewrite !Pos.eqb_refl in Hk. apply andb_true_iff in Hk. destruct Hk as [_ Hn]. discriminate.
Qed.

Lemma shape_of_devices cfg c lvc pre inn post :
  shape_of cfg = Some (c, lvc, pre, inn, post) -> forall g, sib_ok cfg g c lvc pre inn post.
Proof.
  intros Hs g. pose proof (shape_of_sound _ _ _ _ _ _ Hs) as Hsh.
  unfold shape_of in Hs. destruct (split_sys (l_order (level_of cfg top))) as [[[[pre' c'] lv'] post']|] eqn:Es; [|discriminate].
  match type of Hs with (if ?b then _ else _) = _ => destruct b eqn:Eb; [|discriminate] end. inversion Hs; subst. clear Hs.
  repeat (apply andb_true_iff in Eb; let H := fresh "K" in destruct Eb as [Eb H]).
  apply sib_ok_devices.
  - apply (top_kinds_dev cfg pre c lvc post _ (split_sys_sound _ _ _ _ _ Es) (sh_nodup _ _ _ _ _ _ Hsh)).
  - apply inner_kinds_dev. exact Eb.
Qed.

(* ---------- the harness's devices *)
Lemma eqv_perm (a b : values) : NoDup (keys a) -> NoDup (keys b) -> eqv a b -> Permutation a b.
Proof.
  intros Ha Hb H. apply NoDup_Permutation.
  - unfold keys in Ha. apply NoDup_map_inv in Ha. exact Ha.
  - unfold keys in Hb. apply NoDup_map_inv in Hb. exact Hb.
  - intros [k v]. rewrite (lookup_In_iff a k v Ha), (lookup_In_iff b k v Hb), (H k). reflexivity.
Qed.

Lemma fold_comm_perm (f : Z -> port * Z -> Z) l l' :
  (forall x a b, f (f x a) b = f (f x b) a) -> Permutation l l' ->
  forall x, fold_left f l x = fold_left f l' x.
Proof.
  intros Hf. induction 1 as [|e l l' _ IH|e e' l|l l' l'' _ IH1 _ IH2]; intros x; cbn [fold_left].
  - reflexivity.
  - apply IH.
  - rewrite Hf. reflexivity.
  - rewrite IH1. apply IH2.
Qed.

Lemma table_dev_ext tab c n t i i' : NoDup (keys i) -> NoDup (keys i') -> eqv i i' -> table_dev tab c n t i = table_dev tab c n t i'.
Proof.
  intros Hi Hi' H. unfold table_dev. destruct (lookup c tab) as [[[seed period] policy]|]; [|reflexivity].
  assert (E : fold_left (fun acc (kv : port * Z) => acc + Z.pos (fst kv) * 31 + snd kv) i 0 =
              fold_left (fun acc (kv : port * Z) => acc + Z.pos (fst kv) * 31 + snd kv) i' 0).
  { apply fold_comm_perm; [intros; lia | apply eqv_perm; assumption]. }
  rewrite E. reflexivity.
Qed.

Lemma table_dev_nd tab c n t i : NoDup (keys (fst (table_dev tab c n t i))).
Proof.
  unfold table_dev. destruct (lookup c tab) as [[[seed period] policy]|]; [|constructor]. cbn [fst flat_map].
  destruct (hsh seed (Z.pos c) n (Z.pos 1) mod 8 =? 0); [|destruct (hsh seed (Z.pos c) n (Z.pos 1) mod 8 <=? 3)];
  (destruct (hsh seed (Z.pos c) n (Z.pos 2) mod 8 =? 0); [|destruct (hsh seed (Z.pos c) n (Z.pos 2) mod 8 <=? 3)]);
  cbn [app keys map fst]; repeat constructor; cbn [In]; intuition discriminate.
Qed.

(* the table devices never ask to be called back in the past when their periods are not negative *)
Definition periods_ok (tab : dev_table) : bool := forallb (fun e : comp * (Z * Z * Z) => Z.leb 0 (snd (fst (snd e)))) tab.

Lemma lookup_in_tab (tab : dev_table) c x : lookup c tab = Some x -> In (c, x) tab.
Proof.
  induction tab as [|[k v] r IH]; [discriminate|]. cbn [lookup]. destruct (Pos.eqb_spec c k) as [E|_].
  - intros H. inversion H; subst. left. reflexivity.
  - intros H. right. apply IH. exact H.
Qed.

Lemma table_dev_well tab : periods_ok tab = true -> forall c n t i w, snd (table_dev tab c n t i) = Some w -> t <= w.
Proof.
  intros Hp c n t i w. unfold table_dev. destruct (lookup c tab) as [[[seed period] policy]|] eqn:El; [|discriminate].
  apply lookup_in_tab in El. pose proof (proj1 (forallb_forall _ tab) Hp _ El) as Hq. cbn [snd fst] in Hq. apply Z.leb_le in Hq.
  cbn [snd].
  assert (Hsome : forall x, Some x = Some w -> t <= x -> t <= w) by (intros x E Hx; injection E as E; rewrite <- E; exact Hx).
  destruct (policy =? 1); [intros H; apply (Hsome _ H); lia|].
  destruct (policy =? 2); [destruct (n =? 1); intros H; [apply (Hsome _ H); lia | discriminate]|].
  destruct (policy =? 3).
  { destruct (hsh seed (Z.pos c) n 7 mod 5 <? 3); intros H; [|discriminate]. apply (Hsome _ H).
    assert (0 <= hsh seed (Z.pos c) n 7 mod 3) by (apply Z.mod_pos_bound; lia).
    rewrite <- (Z.add_0_r t) at 1. apply Z.add_le_mono_l. apply Z.mul_nonneg_nonneg; lia. }
  destruct (policy =? 4); [destruct (n mod 2 =? 1); intros H; apply (Hsome _ H); lia|].
  destruct (policy =? 5); [destruct (n mod 2 =? 1); intros H; apply (Hsome _ H); lia|]. discriminate.
Qed.

(* ---------- the general scope: the system c anywhere among top-level devices AND system simulations
   (the siblings may be nested to any depth) -- decided for a given fuel g *)
Fixpoint split_at (c : comp) (l : list (comp * ckind)) : option (list comp * ckind * list comp) :=
  match l with
  | [] => None
  | (x, k) :: r =>
      if Pos.eqb x c then Some ([], k, map fst r)
      else match split_at c r with Some (pre, k', post) => Some (x :: pre, k', post) | None => None end
  end.

Fixpoint deep_enoughb (cfg : config) (f : nat) (lv : positive) : bool :=
  match f with
  | O => false
  | S f' => forallb (fun ck : comp * ckind => match snd ck with KDev => true | KSys lv' => deep_enoughb cfg f' lv' end) (l_order (level_of cfg lv))
  end.

(* the subtree of another system simulation lies apart from the top level, from the level of c and from
   the components named in the shape; every level of it is single-source *)
Definition sub_okb (cfg : config) (g : nat) (c : comp) (lvc : positive) (named : list comp) (ly : positive) : bool :=
  negb (memb top (levels_below cfg g ly)) && negb (memb lvc (levels_below cfg g ly))
  && forallb (fun z : comp => negb (memb z named) && negb (Pos.eqb z c)) (devices_below cfg g ly)
  && forallb (fun l : positive => single_sourceb (l_conns (level_of cfg l))) (levels_below cfg g ly).

(* pass-through ports (external -> expose): their sources come before the system, their sinks after it *)
Definition pt_okb (cfg : config) (c : comp) (lvc : positive) (pre post : list comp) : bool :=
  forallb (fun k2 : conn => let '(u, q, e, o) := k2 in
             if Pos.eqb u ext_id && Pos.eqb e exp_id then
               forallb (fun k : conn => let '(x, _, ic, q1) := k in if Pos.eqb ic c && Pos.eqb q1 q then memb x pre else true)
                       (l_conns (level_of cfg top))
               && forallb (fun k : conn => let '(oc, op, y, _) := k in if Pos.eqb oc c && Pos.eqb op o then memb y post else true)
                          (l_conns (level_of cfg top))
             else true) (l_conns (level_of cfg lvc)).

Lemma pt_okb_sound cfg c lvc pre post : pt_okb cfg c lvc pre post = true ->
  (forall x p q o, In (x, p, c, q) (l_conns (level_of cfg top)) -> In (ext_id, q, exp_id, o) (l_conns (level_of cfg lvc)) -> In x pre) /\
  (forall q o y q', In (ext_id, q, exp_id, o) (l_conns (level_of cfg lvc)) -> In (c, o, y, q') (l_conns (level_of cfg top)) -> In y post).
Proof.
  intros H. split.
  - intros x p q o H1 H2. pose proof (proj1 (forallb_forall _ _) H _ H2) as Hk. cbv beta iota in Hk. rewrite !Pos.eqb_refl in Hk. cbn [andb] in Hk.
    apply andb_true_iff in Hk. destruct Hk as [Hk _]. pose proof (proj1 (forallb_forall _ _) Hk _ H1) as Hx. cbv beta iota in Hx.
    rewrite !Pos.eqb_refl in Hx. cbn [andb] in Hx. apply memb_In. exact Hx.
  - intros q o y q' H2 H1. pose proof (proj1 (forallb_forall _ _) H _ H2) as Hk. cbv beta iota in Hk. rewrite !Pos.eqb_refl in Hk. cbn [andb] in Hk.
    apply andb_true_iff in Hk. destruct Hk as [_ Hk]. pose proof (proj1 (forallb_forall _ _) Hk _ H1) as Hx. cbv beta iota in Hx.
    rewrite !Pos.eqb_refl in Hx. cbn [andb] in Hx. apply memb_In. exact Hx.
Qed.

Definition shape_at (cfg : config) (g : nat) (c : comp) : option (positive * list comp * list comp * list comp) :=
  match g with
  | O => None
  | S f =>
  match split_at c (l_order (level_of cfg top)) with
  | Some (pre, KSys lvc, post) =>
      let inner := l_order (level_of cfg lvc) in
      let inn := map fst inner in
      if nodupb (c :: ext_id :: exp_id :: pre ++ inn ++ post)
         && negb (Pos.eqb lvc top)
         && single_sourceb (l_conns (level_of cfg top)) && single_sourceb (l_conns (level_of cfg lvc))
         && forallb (fun k : conn => let '(u, _, y, _) := k in
                       memb u (c :: pre ++ post) && memb y (c :: pre ++ post) && negb (Pos.eqb u c && Pos.eqb y c))
                    (l_conns (level_of cfg top))
         && forallb (fun k : conn => let '(u, _, e, _) := k in memb u (ext_id :: inn) && memb e (exp_id :: inn))
                    (l_conns (level_of cfg lvc))
         && pt_okb cfg c lvc pre post
         && forallb (fun y : comp =>
                       match kd_of cfg y with
                       | KDev => true
                       | KSys ly => sub_okb cfg (S f) c lvc (pre ++ inn ++ post) ly
                       end) (pre ++ post)
         && forallb (fun y : comp =>
                       match kd_in cfg lvc y with
                       | KDev => true
                       | KSys ly => sub_okb cfg f c lvc (pre ++ inn ++ post) ly && deep_enoughb cfg f ly
                       end) inn
      then Some (lvc, pre, inn, post) else None
  | _ => None
  end
  end.

Lemma deep_enoughb_sound cfg : forall f lv, deep_enoughb cfg f lv = true -> deep_enough cfg f lv.
Proof.
  induction f as [|f IH]; intros lv H; [discriminate|]. cbn [deep_enoughb] in H. cbn [deep_enough]. intros x lv' Hi.
  pose proof (proj1 (forallb_forall _ _) H _ Hi) as Hk. cbn [snd] in Hk. apply IH. exact Hk.
Qed.

Lemma sub_okb_sound cfg g c lvc named ly : sub_okb cfg g c lvc named ly = true ->
  ~ In top (levels_below cfg g ly) /\ ~ In lvc (levels_below cfg g ly) /\
  (forall z, In z (devices_below cfg g ly) -> ~ In z named /\ z <> c) /\
  (forall l, In l (levels_below cfg g ly) -> single_source (l_conns (level_of cfg l))).
Proof.
  unfold sub_okb. intros Hc.
  repeat (apply andb_true_iff in Hc; let H := fresh "Q" in destruct Hc as [Hc H]).
  split; [apply memb_false; destruct (memb top (levels_below cfg g ly)); [discriminate | reflexivity]|].
  split; [apply memb_false; destruct (memb lvc (levels_below cfg g ly)); [discriminate | reflexivity]|].
  split.
  - intros z Hz. pose proof (proj1 (forallb_forall _ _) Q0 _ Hz) as Hq. cbv beta in Hq. apply andb_true_iff in Hq. destruct Hq as [H1 H2].
    split; [apply memb_false; destruct (memb z _); [discriminate | reflexivity] | intros E; subst z; rewrite Pos.eqb_refl in H2; discriminate].
  - intros l Hl. apply single_sourceb_sound. apply (proj1 (forallb_forall _ _) Q _ Hl).
Qed.

Lemma split_at_sound c : forall l pre k post, split_at c l = Some (pre, k, post) ->
  exists prel postl, l = prel ++ (c, k) :: postl /\ pre = map fst prel /\ post = map fst postl.
Proof.
  induction l as [|[x k0] r IH]; intros pre k post H; [discriminate|]. cbn [split_at] in H.
  destruct (Pos.eqb_spec x c) as [E|_].
  - inversion H; subst. exists [], r. repeat split; reflexivity.
  - destruct (split_at c r) as [[[pre' k'] post']|] eqn:Es; [|discriminate]. inversion H; subst.
    destruct (IH pre' k post eq_refl) as [prel [postl [E1 [E2 E3]]]]. exists ((x, k0) :: prel), postl. subst. repeat split; reflexivity.
Qed.

Lemma order_as_dk cfg (l : list (comp * ckind)) :
  (forall x k, In (x, k) l -> kd_of cfg x = k) -> l = map (dk cfg) (map fst l).
Proof.
  induction l as [|[x k] r IH]; intros H; [reflexivity|]. cbn [map fst]. unfold dk at 1. rewrite (H x k (or_introl eq_refl)).
  f_equal. apply IH. intros y ky Hy. apply H. right. exact Hy.
Qed.

Theorem shape_at_sound cfg f c lvc pre inn post :
  shape_at cfg (S f) c = Some (lvc, pre, inn, post) -> shape cfg c lvc pre inn post /\ sib_ok cfg f c lvc pre inn post.
Proof.
  unfold shape_at. destruct (split_at c (l_order (level_of cfg top))) as [[[pre' k] post']|] eqn:Es; [|discriminate].
  destruct k as [|lvc']; [discriminate|].
  match goal with |- (if ?b then _ else _) = _ -> _ => destruct b eqn:Eb; [|discriminate] end.
  intros H. inversion H; subst. clear H.
  do 8 (apply andb_true_iff in Eb; let H := fresh "K" in destruct Eb as [Eb H]).
  assert (Hnd : NoDup (c :: ext_id :: exp_id :: pre ++ map fst (l_order (level_of cfg lvc)) ++ post)) by (apply nodupb_NoDup; exact Eb).
  destruct (split_at_sound c _ _ _ _ Es) as [prel [postl [Etop [Epre Epost]]]]. subst pre post.
  assert (Hkeys : NoDup (keys (l_order (level_of cfg top)))).
  { rewrite Etop. unfold keys. rewrite map_app. cbn [map fst].
    inversion Hnd as [|? ? Hc Hnd1]; subst. inversion Hnd1 as [|? ? _ Hnd2]; subst. inversion Hnd2 as [|? ? _ Hnd3]; subst.
    apply NoDup_app_disj.
    - apply NoDup_app_l in Hnd3. exact Hnd3.
    - constructor; [intros Hi; apply Hc; right; right; apply in_app_iff; right; apply in_app_iff; right; exact Hi|].
      apply NoDup_app_r in Hnd3. apply NoDup_app_r in Hnd3. exact Hnd3.
    - intros z Hz [E|Hz2]; [subst z; apply Hc; right; right; apply in_app_iff; left; exact Hz|].
      apply (NoDup_app_disjoint (map fst prel) _ z Hnd3 Hz). apply in_app_iff. right. exact Hz2. }
  assert (Hkd : forall x k, In (x, k) (l_order (level_of cfg top)) -> kd_of cfg x = k).
  { intros x k Hi. unfold kd_of. apply (lookup_In_iff _ x k Hkeys) in Hi. rewrite Hi. reflexivity. }
  split.
  - constructor.
    + rewrite Etop at 1.
      rewrite <- (order_as_dk cfg prel), <- (order_as_dk cfg postl); [reflexivity | |];
        intros x k Hi; apply Hkd; rewrite Etop; apply in_app_iff; [right; right; exact Hi | left; exact Hi].
    + apply order_as_dki. exact (inner_nodup _ _ _ _ _ _ Hnd).
    + exact Hnd.
    + intros E. rewrite E, Pos.eqb_refl in K6. discriminate.
    + apply single_sourceb_sound. exact K5.
    + apply single_sourceb_sound. exact K4.
    + intros u p y q Hin. pose proof (proj1 (forallb_forall _ _) K3 _ Hin) as Hk. cbv beta iota in Hk.
      apply andb_true_iff in Hk. destruct Hk as [Hk Hn]. apply andb_true_iff in Hk. destruct Hk as [Hu Hy].
      split; [apply memb_In; exact Hu|]. split; [apply memb_In; exact Hy|]. intros [E1 E2]. subst. rewrite !Pos.eqb_refl in Hn. discriminate.
    + intros u p e q Hin. pose proof (proj1 (forallb_forall _ _) K2 _ Hin) as Hk. cbv beta iota in Hk.
      apply andb_true_iff in Hk. destruct Hk as [Hu Hy].
      split; [apply memb_In; exact Hu | apply memb_In; exact Hy].
    + exact (proj1 (pt_okb_sound _ _ _ _ _ K1)).
    + exact (proj2 (pt_okb_sound _ _ _ _ _ K1)).
  - intros y ly g [[Hy [Hk Eg]]|[Hy [Hk Eg]]]; subst g.
    + pose proof (proj1 (forallb_forall _ _) K0 _ Hy) as Hc. cbv beta in Hc. rewrite Hk in Hc.
      destruct (sub_okb_sound _ _ _ _ _ _ Hc) as [A [B [C D]]].
      split; [exact A|]. split; [exact B|]. split; [exact C|]. split; [exact D|].
      intros E. exfalso. clear -E. induction f as [|f IH]; [discriminate | apply IH; injection E as E; exact E].
    + pose proof (proj1 (forallb_forall _ _) K _ Hy) as Hc. cbv beta in Hc. rewrite Hk in Hc.
      apply andb_true_iff in Hc. destruct Hc as [Hc Hdeep].
      destruct (sub_okb_sound _ _ _ _ _ _ Hc) as [A [B [C D]]].
      split; [exact A|]. split; [exact B|]. split; [exact C|]. split; [exact D|].
      intros _. apply deep_enoughb_sound. exact Hdeep.
Qed.
