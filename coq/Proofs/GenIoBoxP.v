(* The hand-written model function IS the translation of the tickit function it models: the definitions of
   Gen/SourceFuns.v -- regenerated from the sources of /repo on every run by harness/gen_funs.py -- are proved equal
   to the model functions the property theorems are about.  A change of a translated source function changes (or
   removes) the generated definition and breaks its equation here, whatever the sampled correspondence finds.
   This file: IoBoxDevice.write, read, update. *)
From TV Require Import Base Model.PyLib Model.Wiring Model.Component Model.Sim Model.IoBox Gen.SourceFuns.
Open Scope Z_scope.

(* ---------- IoBoxDevice (Model/IoBox.v) *)
Theorem iobox_write_is_source (b : box) a v : gen_iobox_write (mem b) (buf b) a v = buf (write b a v).
Proof. reflexivity. Qed.

Theorem iobox_read_is_source (b : box) a : gen_iobox_read (mem b) (buf b) a = read b a.
Proof. reflexivity. Qed.

Lemma iobox_fold (l : list (positive * Z)) : forall (m u : list (positive * Z)),
  fold_left (fun '(m0, u0) '(a, v) => (upd a v m0, u0 ++ [(a, v)])) l (m, u) = (merge m l, u ++ l).
Proof.
  induction l as [|[a v] r IH]; intros m u; cbn [fold_left]; [rewrite app_nil_r; reflexivity|].
  rewrite IH. unfold merge. cbn [fold_left fst snd]. rewrite <- app_assoc. reflexivity.
Qed.

Theorem iobox_update_is_source (b : box) (inputs : writes) :
  gen_iobox_update (mem b) (buf b) inputs =
  (buf (fst (update b inputs)), mem (fst (update b inputs)), (snd (update b inputs), None)).
Proof.
  unfold gen_iobox_update, update. cbv zeta. cbn [fst snd mem buf].
  match goal with |- context [fold_left ?F ?l ?a] =>
    replace (fold_left F l a) with (merge (mem b) (inputs ++ buf b), [] ++ (inputs ++ buf b)) by (symmetry; apply iobox_fold) end.
  reflexivity.
Qed.
