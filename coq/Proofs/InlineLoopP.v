(* Replacing a system simulation by its contents does not change what the devices see, over whole
   runs of the master in simulation time: the nested run and the run of [inline cfg c lvc] tick at
   the same times and update the same devices with equivalent inputs. *)
From TV Require Import Base Model.Wiring Model.Ticker Model.Component Model.Sim Model.SimTime Model.Inline Model.NSim
  Proofs.WiringP Proofs.SimP Proofs.NonInterfP Proofs.FrameP Proofs.ExtentP Proofs.LatestP Proofs.EqvP
  Proofs.NonInterfLoopP Proofs.WakeWfP Proofs.ParDevP Proofs.InlineP.
Open Scope Z_scope.

Lemma memb_keys_lookup {A} k (l : list (positive * A)) :
  memb k (keys l) = match lookup k l with Some _ => true | None => false end.
Proof.
  induction l as [|[k' v] r IH]; [reflexivity|]. unfold memb, keys in *. cbn [map fst existsb lookup].
  destruct (Pos.eqb k k'); [reflexivity | exact IH].
Qed.

Lemma memb_filter_lookup {A} (f : positive * A -> bool) k l : NoDup (keys l) ->
  memb k (map fst (filter f l)) = match lookup k l with Some v => f (k, v) | None => false end.
Proof.
  intros H. change (map fst (filter f l)) with (keys (filter f l)). rewrite memb_keys_lookup, lookup_filter_nodup by exact H.
  destruct (lookup k l) as [v|]; [destruct (f (k, v)); reflexivity | reflexivity].
Qed.

Lemma filter_all {A} (f : A -> bool) l : (forall e, In e l -> f e = true) -> filter f l = l.
Proof.
  induction l as [|a r IH]; intros H; [reflexivity|]. cbn [filter]. rewrite (H a (or_introl eq_refl)). f_equal.
  apply IH. intros e He. apply H. right. exact He.
Qed.

Lemma in_keys {A} k (v : A) l : In (k, v) l -> In k (keys l).
Proof. intros H. unfold keys. apply in_map_iff. exists (k, v). split; [reflexivity | exact H]. Qed.

(* ---------- the earliest wakeup of the two top-level tables *)
Section Mins.
Variable c : comp.
Variables outs inn : list comp.
Variables wN wI wF : list (comp * Z).
Hypothesis HnN : NoDup (keys wN).
Hypothesis HnI : NoDup (keys wI).
Hypothesis HnF : NoDup (keys wF).
Hypothesis HkN : forall k, In k (keys wN) -> k = c \/ In k outs.
Hypothesis HkI : forall k, In k (keys wI) -> In k inn.
Hypothesis HkF : forall k, In k (keys wF) -> In k outs \/ In k inn.
Hypothesis WO : forall y, In y outs -> lookup y wN = lookup y wF.
Hypothesis WI : forall d, In d inn -> lookup d wI = lookup d wF.
Hypothesis WC : lookup c wN = min_wake wI.

Lemma attN k v : In (k, v) wN -> exists k', In (k', v) wF.
Proof.
  intros Hi. destruct (HkN k (in_keys k v wN Hi)) as [E|Ho].
  - subst k. apply (lookup_In_iff wN c v HnN) in Hi. rewrite WC in Hi.
    pose proof (min_wake_spec wI) as Hs. rewrite Hi in Hs. destruct Hs as [[[d v'] [Hd Ev]] _]. cbn in Ev. subst v'.
    exists d. apply (lookup_In_iff wF d v HnF). rewrite <- WI by (apply HkI; apply (in_keys d v); exact Hd).
    apply (lookup_In_iff wI d v HnI). exact Hd.
  - exists k. apply (lookup_In_iff wF k v HnF). rewrite <- WO by exact Ho. apply (lookup_In_iff wN k v HnN). exact Hi.
Qed.

Lemma attF k v : In (k, v) wF -> exists k' v', In (k', v') wN /\ v' <= v.
Proof.
  intros Hi. destruct (HkF k (in_keys k v wF Hi)) as [Ho|Hd].
  - exists k, v. split; [|lia]. apply (lookup_In_iff wN k v HnN). rewrite WO by exact Ho. apply (lookup_In_iff wF k v HnF). exact Hi.
  - assert (Hi2 : In (k, v) wI) by (apply (lookup_In_iff wI k v HnI); rewrite WI by exact Hd; apply (lookup_In_iff wF k v HnF); exact Hi).
    pose proof (min_wake_spec wI) as Hs. destruct (min_wake wI) as [mi|] eqn:Em.
    + exists c, mi. split; [apply (lookup_In_iff wN c mi HnN); exact WC|]. destruct Hs as [_ Hall]. apply (Hall (k, v) Hi2).
    + rewrite Hs in Hi2. destruct Hi2.
Qed.

Lemma min_agree : min_wake wN = min_wake wF.
Proof.
  pose proof (min_wake_spec wN) as HN. pose proof (min_wake_spec wF) as HF.
  destruct (min_wake wN) as [m|], (min_wake wF) as [m'|].
  - destruct HN as [[[k v] [Hi Ev]] HallN]. destruct HF as [[[k' v'] [Hi' Ev']] HallF]. cbn in Ev, Ev'. subst v v'.
    destruct (attN k m Hi) as [k2 H2]. pose proof (HallF _ H2) as L1. cbn in L1.
    destruct (attF k' m' Hi') as [k3 [v3 [H3 L3]]]. pose proof (HallN _ H3) as L2. cbn in L2. f_equal. lia.
  - destruct HN as [[[k v] [Hi _]] _]. destruct (attN k v Hi) as [k2 H2]. rewrite HF in H2. destruct H2.
  - destruct HF as [[[k v] [Hi _]] _]. destruct (attF k v Hi) as [k2 [v2 [H2 _]]]. rewrite HN in H2. destruct H2.
  - reflexivity.
Qed.

Section At.
Variable m : Z.
Hypothesis Hm : min_wake wN = Some m.
Let rootsN := map fst (filter (fun e : comp * Z => Z.eqb (snd e) m) wN).
Let rootsF := map fst (filter (fun e : comp * Z => Z.eqb (snd e) m) wF).

Lemma minN : is_min wN m.
Proof. pose proof (min_wake_spec wN) as H. rewrite Hm in H. exact H. Qed.
Lemma minF : is_min wF m.
Proof. pose proof (min_wake_spec wF) as H. rewrite <- min_agree, Hm in H. exact H. Qed.

Lemma roots_outs y : In y outs -> memb y rootsN = memb y rootsF.
Proof. intros Hy. unfold rootsN, rootsF. rewrite !memb_filter_lookup by assumption. rewrite (WO y Hy). reflexivity. Qed.

Lemma root_c : memb c rootsN = match min_wake wI with Some v => Z.eqb v m | None => false end.
Proof. unfold rootsN. rewrite memb_filter_lookup by assumption. rewrite WC. reflexivity. Qed.

Lemma inner_ge d v : lookup d wI = Some v -> m <= v.
Proof.
  intros H. pose proof (min_wake_spec wI) as Hs. destruct (min_wake wI) as [mi|] eqn:Em.
  - destruct Hs as [_ Hall]. apply (lookup_In_iff wI d v HnI) in H. pose proof (Hall _ H) as L. cbn in L.
    destruct minN as [_ HallN]. assert (Hc : In (c, mi) wN) by (apply (lookup_In_iff wN c mi HnN); exact WC).
    pose proof (HallN _ Hc) as L2. cbn in L2. lia.
  - apply (lookup_In_iff wI d v HnI) in H. rewrite Hs in H. destruct H.
Qed.

Lemma roots_inn d : In d inn ->
  memb d (map fst (filter (fun e : comp * Z => Z.leb (snd e) m) wI)) = memb d rootsF.
Proof.
  intros Hd. unfold rootsF. rewrite !memb_filter_lookup by assumption. rewrite <- (WI d Hd).
  destruct (lookup d wI) as [v|] eqn:E; [|reflexivity]. cbn [snd]. pose proof (inner_ge d v E).
  destruct (Z.leb_spec v m), (Z.eqb_spec v m); try reflexivity; lia.
Qed.

Lemma idle_inn : memb c rootsN = false -> forall d, In d inn -> memb d rootsF = false.
Proof.
  intros Hc d Hd. unfold rootsF. rewrite memb_filter_lookup by assumption. rewrite <- (WI d Hd).
  destruct (lookup d wI) as [v|] eqn:E; [|reflexivity]. cbn [snd]. destruct (Z.eqb_spec v m) as [Ev|]; [|reflexivity]. subst v.
  rewrite root_c in Hc. pose proof (min_wake_spec wI) as Hs. destruct (min_wake wI) as [mi|] eqn:Em.
  - destruct Hs as [_ Hall]. pose proof (proj1 (lookup_In_iff wI d m HnI)) as X. 
    assert (Hi : In (d, m) wI) by (apply (lookup_In_iff wI d m HnI); exact E). pose proof (Hall _ Hi) as L. cbn in L.
    destruct minN as [_ HallN]. assert (Hcc : In (c, mi) wN) by (apply (lookup_In_iff wN c mi HnN); exact WC).
    pose proof (HallN _ Hcc) as L2. cbn in L2. destruct (Z.eqb_spec mi m); [discriminate | lia].
  - assert (Hi : In (d, m) wI) by (apply (lookup_In_iff wI d m HnI); exact E). rewrite Hs in Hi. destruct Hi.
Qed.

Lemma wake_inn d : In d inn ->
  lookup d (filter (fun e : comp * Z => negb (Z.leb (snd e) m)) wI) =
  lookup d (filter (fun e : comp * Z => negb (memb (fst e) rootsF)) wF).
Proof.
  intros Hd. rewrite !lookup_filter_nodup by assumption. cbn [fst snd]. unfold rootsF. rewrite memb_filter_lookup by assumption.
  rewrite <- (WI d Hd). destruct (lookup d wI) as [v|] eqn:E; [|reflexivity]. cbn [snd]. pose proof (inner_ge d v E).
  destruct (Z.leb_spec v m), (Z.eqb_spec v m); try reflexivity; lia.
Qed.

Lemma nodue_inn : memb c rootsN = false -> filter (fun e : comp * Z => negb (Z.leb (snd e) m)) wI = wI.
Proof.
  intros Hc. apply filter_all. intros [d v] Hi. cbn [snd]. rewrite root_c in Hc.
  pose proof (min_wake_spec wI) as Hs. destruct (min_wake wI) as [mi|] eqn:Em.
  - destruct Hs as [_ Hall]. pose proof (Hall _ Hi) as L. cbn in L.
    destruct minN as [_ HallN]. assert (Hcc : In (c, mi) wN) by (apply (lookup_In_iff wN c mi HnN); exact WC).
    pose proof (HallN _ Hcc) as L2. cbn in L2. destruct (Z.eqb_spec mi m); [discriminate|]. destruct (Z.leb_spec v m); [lia | reflexivity].
  - rewrite Hs in Hi. destruct Hi.
Qed.

Lemma wake_outs y : In y outs ->
  lookup y (filter (fun e : comp * Z => negb (memb (fst e) rootsN)) wN) =
  lookup y (filter (fun e : comp * Z => negb (memb (fst e) rootsF)) wF).
Proof.
  intros Hy. rewrite !lookup_filter_nodup by assumption. cbn [fst]. rewrite (roots_outs y Hy), (WO y Hy). reflexivity.
Qed.

(* an entry of the system in the top-level table that is not due stands for an inner entry that is not due either *)
Lemma stale_c : memb c rootsN = false -> forall mi, min_wake wI = Some mi ->
  exists d, lookup d (filter (fun e : comp * Z => negb (Z.leb (snd e) m)) wI) <> None.
Proof.
  intros Hc mi Em. pose proof (min_wake_spec wI) as Hs. rewrite Em in Hs. destruct Hs as [[[d v] [Hi Ev]] _]. cbn in Ev. subst v.
  exists d. rewrite (nodue_inn Hc). apply (lookup_In_iff wI d mi HnI) in Hi. rewrite Hi. discriminate.
Qed.
End At.

Definition rootsOf (m : Z) (w : list (comp * Z)) : list comp := map fst (filter (fun e : comp * Z => Z.eqb (snd e) m) w).

Lemma mins_pack :
  min_wake wN = min_wake wF /\
  forall m, min_wake wN = Some m ->
    (forall y, In y outs -> memb y (rootsOf m wN) = memb y (rootsOf m wF)) /\
    memb c (rootsOf m wN) = match min_wake wI with Some v => Z.eqb v m | None => false end /\
    (forall d, In d inn -> memb d (map fst (filter (fun e : comp * Z => Z.leb (snd e) m) wI)) = memb d (rootsOf m wF)) /\
    (memb c (rootsOf m wN) = false -> forall d, In d inn -> memb d (rootsOf m wF) = false) /\
    (forall d, In d inn -> lookup d (filter (fun e : comp * Z => negb (Z.leb (snd e) m)) wI) =
                           lookup d (filter (fun e : comp * Z => negb (memb (fst e) (rootsOf m wF))) wF)) /\
    (memb c (rootsOf m wN) = false -> filter (fun e : comp * Z => negb (Z.leb (snd e) m)) wI = wI) /\
    (forall y, In y outs -> lookup y (filter (fun e : comp * Z => negb (memb (fst e) (rootsOf m wN))) wN) =
                            lookup y (filter (fun e : comp * Z => negb (memb (fst e) (rootsOf m wF))) wF)) /\
    (memb c (rootsOf m wN) = false -> forall mi, min_wake wI = Some mi ->
       exists d, lookup d (filter (fun e : comp * Z => negb (Z.leb (snd e) m)) wI) <> None).
Proof.
  split; [exact min_agree|]. intros m Hm. unfold rootsOf.
  split; [exact (roots_outs m)|]. split; [exact (root_c m)|]. split; [exact (roots_inn m Hm)|]. split; [exact (idle_inn m Hm)|].
  split; [exact (wake_inn m Hm)|]. split; [exact (nodue_inn m Hm)|]. split; [exact (wake_outs m) | exact (stale_c m Hm)].
Qed.
End Mins.


(* ---------- the two runs *)
Section Loop.
Variable cfg : config.
Variable c : comp.
Variable lvc : positive.
Variables pre inn post : list comp.
Hypothesis Hsh : shape cfg c lvc pre inn post.
Variable devf : devfun.
Hypothesis Hdev_nd : forall c n t i, NoDup (keys (fst (devf c n t i))).
Hypothesis Hdev_ext : forall c n t i i', NoDup (keys i) -> NoDup (keys i') -> eqv i i' -> devf c n t i = devf c n t i'.
Variable f : nat.
Hypothesis Hsib : sib_ok cfg f c lvc pre inn post.
Notation cfgF := (inline cfg c lvc).
Notation allc_ := (allc pre inn post).
Notation outs := (outs_ pre post).

(* between two master ticks *)
Record B (sN sF : sstate) : Prop := {
  b_dev : forall z, In z allc_ -> drel sN sF z;
  b_wo : forall y, In y outs -> lookup y (wake_of sN top) = lookup y (wake_of sF top);
  b_wi : forall d, In d inn -> lookup d (wake_of sN lvc) = lookup d (wake_of sF top);
  b_wc : lookup c (wake_of sN top) = min_wake (wake_of sN lvc);
  b_int : int_of sN lvc = [];
  b_tk : memb lvc (s_ticked sN) = true;
  b_wfN : wake_wf cfg sN;
  b_wfF : wake_wf cfgF sF;
  b_sub : SUB cfg lvc pre inn post f sN sF
}.

Lemma keysN s : wake_wf cfg s -> forall k, In k (keys (wake_of s top)) -> k = c \/ In k outs.
Proof.
  intros H k Hk. apply (proj2 (H top)) in Hk. rewrite (sh_top _ _ _ _ _ _ Hsh) in Hk. rewrite map_app in Hk. cbn [map fst] in Hk.
  unfold outs_. apply in_app_iff in Hk. destruct Hk as [Hk|[E|Hk]].
  - right. apply in_app_iff. left. unfold dk in Hk. rewrite map_map in Hk. cbn [fst] in Hk. rewrite map_id in Hk. exact Hk.
  - left. symmetry. exact E.
  - right. apply in_app_iff. right. unfold dk in Hk. rewrite map_map in Hk. cbn [fst] in Hk. rewrite map_id in Hk. exact Hk.
Qed.

Lemma keysI s : wake_wf cfg s -> forall k, In k (keys (wake_of s lvc)) -> In k inn.
Proof.
  intros H k Hk. apply (proj2 (H lvc)) in Hk. rewrite (sh_in _ _ _ _ _ _ Hsh) in Hk.
  unfold dki in Hk. rewrite map_map in Hk. cbn [fst] in Hk. rewrite map_id in Hk. exact Hk.
Qed.

Lemma keysF s : wake_wf cfgF s -> forall k, In k (keys (wake_of s top)) -> In k outs \/ In k inn.
Proof.
  intros H k Hk. apply (proj2 (H top)) in Hk. rewrite (inline_top_order _ _ _ _ _ _ Hsh) in Hk.
  rewrite !map_app in Hk. unfold dki, dk in Hk. rewrite !map_map in Hk. cbn [fst] in Hk. rewrite !map_id in Hk.
  unfold outs_. apply in_app_iff in Hk. destruct Hk as [Hk|Hk]; [left; apply in_app_iff; left; exact Hk|].
  apply in_app_iff in Hk. destruct Hk as [Hk|Hk]; [right; exact Hk | left; apply in_app_iff; right; exact Hk].
Qed.

Lemma obs_rel_app o1 o1' o2 o2' : obs_rel o1 o1' -> obs_rel o2 o2' -> obs_rel (o1 ++ o2) (o1' ++ o2').
Proof. apply Forall2_app. Qed.

(* one master tick on both sides *)
Lemma master_tick sN sF : B sN sF ->
  match first_wakeups (wake_of sN top), first_wakeups (wake_of sF top) with
  | None, None => True
  | Some (m, rN), Some (m', rF) =>
      m = m' /\
      let s1N := set_wake sN top (filter (fun e : comp * Z => negb (memb (fst e) rN)) (wake_of sN top)) in
      let s1F := set_wake sF top (filter (fun e : comp * Z => negb (memb (fst e) rF)) (wake_of sF top)) in
      let '(sN2, _, oN) := tick_level cfg devf (S f) top m rN [] (log_tick s1N top m rN) in
      let '(sF2, _, oF) := tick_level cfgF devf (S f) top m rF [] (log_tick s1F top m rF) in
      B sN2 sF2 /\ obs_rel oN oF
  | _, _ => False
  end.
Proof.
  intros HB.
  assert (Hlv : lvc <> top) by exact (sh_lv _ _ _ _ _ _ Hsh).
  set (wN := wake_of sN top). set (wI := wake_of sN lvc). set (wF := wake_of sF top).
  pose proof (mins_pack c outs inn wN wI wF (proj1 (b_wfN _ _ HB top)) (proj1 (b_wfN _ _ HB lvc)) (proj1 (b_wfF _ _ HB top))
                (keysN sN (b_wfN _ _ HB)) (keysI sN (b_wfN _ _ HB)) (keysF sF (b_wfF _ _ HB))
                (b_wo _ _ HB) (b_wi _ _ HB) (b_wc _ _ HB)) as [Hmin Hat].
  unfold first_wakeups. rewrite <- Hmin. destruct (min_wake wN) as [m|] eqn:Em; [|exact I].
  split; [reflexivity|]. cbv zeta.
  fold (rootsOf m wN). fold (rootsOf m wF). set (rN := rootsOf m wN). set (rF := rootsOf m wF).
  destruct (Hat m eq_refl) as [A1 [A2 [A3 [A4 [A5 [A6 [A7 A8]]]]]]]. fold rN rF in A1, A2, A3, A4, A5, A6, A7, A8.
  set (s1N := log_tick (set_wake sN top (filter (fun e : comp * Z => negb (memb (fst e) rN)) wN)) top m rN).
  set (s1F := log_tick (set_wake sF top (filter (fun e : comp * Z => negb (memb (fst e) rF)) wF)) top m rF).
  assert (EwN : wake_of s1N top = filter (fun e : comp * Z => negb (memb (fst e) rN)) wN) by (unfold s1N; apply wake_of_set_wake).
  assert (EwF : wake_of s1F top = filter (fun e : comp * Z => negb (memb (fst e) rF)) wF) by (unfold s1F; apply wake_of_set_wake).
  assert (EwI : wake_of s1N lvc = wI) by (unfold s1N; apply wake_of_set_wake_other; exact Hlv).
  assert (HwfN1 : wake_wf cfg s1N) by (unfold s1N; eapply wake_wf_same; [|apply wake_wf_filter; exact (b_wfN _ _ HB)]; reflexivity).
  assert (HwfF1 : wake_wf cfgF s1F) by (unfold s1F; eapply wake_wf_same; [|apply wake_wf_filter; exact (b_wfF _ _ HB)]; reflexivity).
  assert (Erc : forall d, In d inn -> memb d (rootsC_of lvc inn m s1N) = memb d rF).
  { intros d Hd. unfold rootsC_of, due_of. rewrite EwI.
    assert (Ei : int_of s1N lvc = []) by exact (b_int _ _ HB). assert (Et : s_ticked s1N = s_ticked sN) by reflexivity.
    rewrite Ei, Et, (b_tk _ _ HB). cbn [negb app]. rewrite memb_app. cbn [memb existsb]. rewrite (A3 d Hd).
    destruct (nd_facts _ _ _ _ _ _ Hsh) as [_ [He _]].
    destruct (Pos.eqb_spec d ext_id) as [E|_]; [exfalso; apply He; subst d; apply in_app_iff; right; apply in_app_iff; left; exact Hd|].
    rewrite !orb_false_r. reflexivity. }
  pose proof (tick_inline cfg c lvc pre inn post Hsh devf Hdev_nd Hdev_ext m f Hsib rN rF s1N s1F) as T.
  unfold tick_level.
  assert (T' := T (b_dev _ _ HB)). clear T. rewrite EwN, EwF, EwI in T'. unfold notdue in T'.
  assert (Hsub1 : SUB cfg lvc pre inn post f s1N s1F).
  { intros y ly g Hy. destruct (Hsib y ly g Hy) as [Htop _].
    unfold s1N, s1F. apply (SR_set_wake_other _ _ sN sF top _ _ Htop (b_sub _ _ HB y ly g Hy)). }
  specialize (T' A7 A1 Erc A4 A5 A6 Hsub1).
  pose proof (tick_with_wf cfg devf (on_tick_level cfg devf (S f)) top m rN [] s1N (on_tick_level_wf cfg devf (S f)) HwfN1) as WN2.
  pose proof (tick_with_wf cfgF devf (on_tick_level cfgF devf (S f)) top m rF [] s1F (on_tick_level_wf cfgF devf (S f)) HwfF1) as WF2.
  destruct (tick_with cfg devf (on_tick_level cfg devf (S f)) top m rN [] s1N) as [[sN2 outN] oN].
  destruct (tick_with cfgF devf (on_tick_level cfgF devf (S f)) top m rF [] s1F) as [[sF2 outF] oF].
  cbn [fst] in WN2, WF2.
  destruct T' as [T1 [T2 [T3 [T4 [TS [tk [T5 [T6 [T7 [T8 [T9 T10]]]]]]]]]]].
  assert (Hwc : lookup c wN = min_wake wI) by exact (b_wc _ _ HB).
  split; [|exact T2]. constructor; try assumption.
  - (* the system's entry in the top-level table is the earliest inner wakeup *)
    rewrite T5. destruct tk.
    + destruct (min_wake (wake_of sN2 lvc)) as [w|] eqn:E2; [reflexivity|].
      rewrite lookup_filter_nodup by exact (proj1 (b_wfN _ _ HB top)). cbn [fst].
      destruct (memb c rN) eqn:Ec in |- *; [destruct (lookup c wN); reflexivity|].
      rewrite Hwc. destruct (min_wake wI) as [mi|] eqn:Ei; [|reflexivity]. exfalso.
      destruct (A8 Ec mi eq_refl) as [d Hd]. apply (T10 eq_refl) in Hd.
      pose proof (min_wake_spec (wake_of sN2 lvc)) as Hs. rewrite E2 in Hs. rewrite Hs in Hd. apply Hd. reflexivity.
    + destruct (T7 eq_refl) as [E1 _]. rewrite E1.
      rewrite lookup_filter_nodup by exact (proj1 (b_wfN _ _ HB top)). cbn [fst].
      destruct (memb c rN) eqn:Ec in |- *; [specialize (T8 Ec); discriminate|]. rewrite Hwc.
      destruct (min_wake wI); reflexivity.
  - rewrite T9. destruct tk; [reflexivity | exact (b_int _ _ HB)].
  - destruct tk; [apply T6; reflexivity|]. destruct (T7 eq_refl) as [_ [E2 _]]. rewrite E2. exact (b_tk _ _ HB).
Qed.

Theorem loop_inline horizon : forall n sN sF obN obF,
  B sN sF -> obs_rel obN obF ->
  let '(sN', obN', doneN) := sim_loop cfg devf n (S f) horizon sN obN in
  let '(sF', obF', doneF) := sim_loop cfgF devf n (S f) horizon sF obF in
  B sN' sF' /\ obs_rel obN' obF' /\ doneN = doneF.
Proof.
  induction n as [|n IH]; intros sN sF obN obF HB Ho; cbn [sim_loop]; [split; [exact HB | split; [exact Ho | reflexivity]]|].
  pose proof (master_tick sN sF HB) as T.
  destruct (first_wakeups (wake_of sN top)) as [[m rN]|], (first_wakeups (wake_of sF top)) as [[m' rF]|];
    try contradiction; [|split; [exact HB | split; [exact Ho | reflexivity]]].
  destruct T as [E T]. subst m'. destruct (Z.leb m horizon); [|split; [exact HB | split; [exact Ho | reflexivity]]].
  cbv zeta in T.
  destruct (tick_level cfg devf (S f) top m rN [] _) as [[sN2 outN] oN].
  destruct (tick_level cfgF devf (S f) top m rF [] _) as [[sF2 outF] oF].
  destruct T as [HB2 Ho2]. apply IH; [exact HB2 | apply obs_rel_app; assumption].
Qed.

(* scripts: master ticks interleaved with interrupts of the devices outside the system *)
Definition outer_script (script : list item) : Prop := forall y w, In (IStim y w) script -> In y outs.

Lemma B_stim sN sF y w : B sN sF -> In y outs -> B (stim sN y w) (stim sF y w).
Proof.
  intros HB Hy. assert (Hlv : lvc <> top) by exact (sh_lv _ _ _ _ _ _ Hsh).
  destruct (nd_facts _ _ _ _ _ _ Hsh) as [Hc_all [_ [_ [_ [_ Hnd]]]]].
  assert (Hyc : y <> c) by (intros E; subst y; apply Hc_all; apply in_outs_all; exact Hy).
  assert (Hyd : forall d, In d inn -> d <> y).
  { intros d Hd E. subst d. unfold outs_ in Hy. apply in_app_iff in Hy.
    destruct Hy as [Hy|Hy]; [apply (NoDup_app_disjoint pre (inn ++ post) y Hnd Hy); apply in_app_iff; left; exact Hd|].
    rewrite app_assoc in Hnd. apply (NoDup_app_disjoint (pre ++ inn) post y Hnd); [apply in_app_iff; right; exact Hd | exact Hy]. }
  unfold stim. rewrite (b_wo _ _ HB y Hy).
  set (v := match lookup y (wake_of sF top) with Some w0 => Z.min w w0 | None => w end).
  constructor.
  - exact (b_dev _ _ HB).
  - intros y' Hy'. rewrite !wake_of_set_wake, !lookup_upd, (b_wo _ _ HB y' Hy'). reflexivity.
  - intros d Hd. rewrite wake_of_set_wake_other by exact Hlv. rewrite wake_of_set_wake, lookup_upd_other by (apply Hyd; exact Hd). apply (b_wi _ _ HB d Hd).
  - rewrite wake_of_set_wake, wake_of_set_wake_other by exact Hlv. rewrite lookup_upd_other by (intros E; apply Hyc; symmetry; exact E). exact (b_wc _ _ HB).
  - exact (b_int _ _ HB).
  - exact (b_tk _ _ HB).
  - apply wake_wf_set; [exact (b_wfN _ _ HB) | apply NoDup_keys_upd; apply (b_wfN _ _ HB)|].
    intros k Hk. apply in_keys_upd in Hk. destruct Hk as [E|Hk]; [|apply (proj2 (b_wfN _ _ HB top)); exact Hk].
    subst k. rewrite (sh_top _ _ _ _ _ _ Hsh), map_app. cbn [map fst]. unfold outs_ in Hy. apply in_app_iff in Hy. apply in_app_iff.
    destruct Hy as [Hy|Hy]; [left | right; right]; unfold dv; rewrite map_map; cbn [fst]; rewrite map_id; exact Hy.
  - apply wake_wf_set; [exact (b_wfF _ _ HB) | apply NoDup_keys_upd; apply (b_wfF _ _ HB)|].
    intros k Hk. apply in_keys_upd in Hk. destruct Hk as [E|Hk]; [|apply (proj2 (b_wfF _ _ HB top)); exact Hk].
    subst k. rewrite (inline_top_order _ _ _ _ _ _ Hsh), !map_app. unfold dki, dk. rewrite !map_map. cbn [fst]. rewrite !map_id.
    unfold outs_ in Hy. apply in_app_iff in Hy. apply in_app_iff.
    destruct Hy as [Hy|Hy]; [left; exact Hy | right; apply in_app_iff; right; exact Hy].
  - intros y' ly g Hy'. destruct (Hsib y' ly g Hy') as [Htop _].
    apply SR_set_wake_other; [exact Htop | apply (b_sub _ _ HB y' ly g Hy')].
Qed.

Theorem script_inline : forall script sN sF obN obF,
  outer_script script -> B sN sF -> obs_rel obN obF ->
  let '(sN', obN') := sim_script cfg devf (S f) script sN obN in
  let '(sF', obF') := sim_script cfgF devf (S f) script sF obF in
  B sN' sF' /\ obs_rel obN' obF'.
Proof.
  induction script as [|[|y w] r IH]; intros sN sF obN obF Hok HB Ho; cbn [sim_script].
  - split; assumption.
  - assert (Hok' : outer_script r) by (intros y w Hi; apply (Hok y w); right; exact Hi).
    pose proof (master_tick sN sF HB) as T.
    destruct (first_wakeups (wake_of sN top)) as [[m rN]|], (first_wakeups (wake_of sF top)) as [[m' rF]|]; try contradiction;
      [|apply IH; assumption].
    destruct T as [E T]. subst m'. cbv zeta in T.
    destruct (tick_level cfg devf (S f) top m rN [] _) as [[sN2 outN] oN].
    destruct (tick_level cfgF devf (S f) top m rF [] _) as [[sF2 outF] oF].
    destruct T as [HB2 Ho2]. apply IH; [exact Hok' | exact HB2 | apply obs_rel_app; assumption].
  - apply IH; [intros y' w' Hi; apply (Hok y' w'); right; exact Hi | | exact Ho].
    apply B_stim; [exact HB | apply (Hok y w); left; reflexivity].
Qed.

Lemma map_fst_dv l : map fst (map dv l) = l.
Proof. unfold dv. rewrite map_map. cbn [fst]. apply map_id. Qed.
Lemma map_fst_dki' l : map fst (map (dki cfg lvc) l) = l.
Proof. unfold dki. rewrite map_map. cbn [fst]. apply map_id. Qed.
Lemma map_fst_dk l : map fst (map (dk cfg) l) = l.
Proof. unfold dk. rewrite map_map. cbn [fst]. apply map_id. Qed.

(* the initial tick of every component establishes the relation *)
Lemma initial_inline initial :
  let rN := map fst (l_order (level_of cfg top)) in
  let rF := map fst (l_order (level_of cfgF top)) in
  let s0 := set_wake s_init top [] in
  let '(sN', _, obN) := tick_level cfg devf (S f) top initial rN [] (log_tick s0 top initial rN) in
  let '(sF', _, obF) := tick_level cfgF devf (S f) top initial rF [] (log_tick s0 top initial rF) in
  B sN' sF' /\ obs_rel obN obF.
Proof.
  cbv zeta. unfold tick_level.
  assert (Hlv : lvc <> top) by exact (sh_lv _ _ _ _ _ _ Hsh).
  destruct (nd_facts _ _ _ _ _ _ Hsh) as [Hc_all [He_all [Hx_all [Hce [Hcx Hnd]]]]].
  set (rN := map fst (l_order (level_of cfg top))). set (rF := map fst (l_order (level_of cfgF top))).
  set (s0 := set_wake s_init top []).
  assert (ErN : rN = pre ++ c :: post).
  { unfold rN. rewrite (sh_top _ _ _ _ _ _ Hsh), map_app. cbn [map fst]. rewrite !map_fst_dk. reflexivity. }
  assert (ErF : rF = pre ++ inn ++ post).
  { unfold rF. rewrite (inline_top_order _ _ _ _ _ _ Hsh), !map_app, !map_fst_dk, map_fst_dki'. reflexivity. }
  assert (Ew0 : forall lv, wake_of s0 lv = []).
  { intros lv. unfold s0, wake_of, set_wake. cbn [s_wake s_init upd get_d lookup]. unfold get_d. cbn [lookup]. destruct (Pos.eqb lv top); reflexivity. }
  assert (Hwf0N : wake_wf cfg (log_tick s0 top initial rN)).
  { intros lv. change (wake_of (log_tick s0 top initial rN) lv) with (wake_of s0 lv). rewrite Ew0. split; [constructor | intros k []]. }
  assert (Hwf0F : wake_wf cfgF (log_tick s0 top initial rF)).
  { intros lv. change (wake_of (log_tick s0 top initial rF) lv) with (wake_of s0 lv). rewrite Ew0. split; [constructor | intros k []]. }
  pose proof (tick_inline cfg c lvc pre inn post Hsh devf Hdev_nd Hdev_ext initial f Hsib rN rF
                (log_tick s0 top initial rN) (log_tick s0 top initial rF)) as T.
  assert (HcN : memb c rN = true) by (apply memb_In; rewrite ErN; apply in_app_iff; right; left; reflexivity).
  change (wake_of (log_tick s0 top initial rN) top) with (wake_of s0 top) in T.
  change (wake_of (log_tick s0 top initial rF) top) with (wake_of s0 top) in T.
  change (wake_of (log_tick s0 top initial rN) lvc) with (wake_of s0 lvc) in T. rewrite !Ew0 in T.
  assert (T' : let '(sN', _, obN) := tick_with cfg devf (on_tick_level cfg devf (S f)) top initial rN [] (log_tick s0 top initial rN) in
               let '(sF', _, obF) := tick_with cfgF devf (on_tick_level cfgF devf (S f)) top initial rF [] (log_tick s0 top initial rF) in
               B sN' sF' /\ obs_rel obN obF).
  { pose proof (tick_with_wf cfg devf (on_tick_level cfg devf (S f)) top initial rN [] _ (on_tick_level_wf cfg devf (S f)) Hwf0N) as WN2.
    pose proof (tick_with_wf cfgF devf (on_tick_level cfgF devf (S f)) top initial rF [] _ (on_tick_level_wf cfgF devf (S f)) Hwf0F) as WF2.
    assert (T2 := T). clear T.
    destruct (tick_with cfg devf (on_tick_level cfg devf (S f)) top initial rN [] (log_tick s0 top initial rN)) as [[sN2 outN] oN].
    destruct (tick_with cfgF devf (on_tick_level cfgF devf (S f)) top initial rF [] (log_tick s0 top initial rF)) as [[sF2 outF] oF].
    cbn [fst] in WN2, WF2.
    destruct T2 as [T1 [T2 [T3 [T4 [TS [tk [T5 [T6 [T7 [T8 [T9 T10]]]]]]]]]]].
    - intros z _. split; [reflexivity|]. split; [intros q; reflexivity|]. split; [reflexivity|]. split; constructor.
    - intros y _. reflexivity.
    - intros y Hy. assert (H1 : memb y rN = true).
      { apply memb_In. rewrite ErN. unfold outs_ in Hy. apply in_app_iff in Hy. apply in_app_iff. destruct Hy as [Hy|Hy]; [left; exact Hy | right; right; exact Hy]. }
      assert (H2 : memb y rF = true).
      { apply memb_In. rewrite ErF. unfold outs_ in Hy. apply in_app_iff in Hy. apply in_app_iff. destruct Hy as [Hy|Hy]; [left; exact Hy | right; apply in_app_iff; right; exact Hy]. }
      rewrite H1, H2. reflexivity.
    - intros d Hd. assert (H2 : memb d rF = true) by (apply memb_In; rewrite ErF; apply in_app_iff; right; apply in_app_iff; left; exact Hd).
      rewrite H2. apply memb_In. unfold rootsC_of. apply in_app_iff. right. apply in_app_iff. right. apply in_app_iff. right.
      change (s_ticked (log_tick s0 top initial rN)) with (@nil positive). cbn [memb existsb negb]. apply in_app_iff. left.
      exact Hd.
    - intros Hc. rewrite Hc in HcN. discriminate.
    - intros d _. reflexivity.
    - intros Hc. rewrite Hc in HcN. discriminate.
    - intros y ly g _. split; [intros z _; split; [reflexivity|]; split; [intros q; reflexivity|]; split; [reflexivity|]; split; constructor | intros l _; repeat split; reflexivity].
    - specialize (T8 HcN). subst tk. split; [|exact T2]. constructor; try assumption.
      + rewrite T5. destruct (min_wake (wake_of sN2 lvc)); reflexivity.
      + apply T6. reflexivity. }
  exact T'.
Qed.

(* whole runs: the initial tick of every component, then the loop *)
Theorem run_inline n initial horizon :
  let '(sN, obN, doneN) := sim_run cfg devf n (S f) initial horizon in
  let '(sF, obF, doneF) := sim_run cfgF devf n (S f) initial horizon in
  B sN sF /\ obs_rel obN obF /\ doneN = doneF.
Proof.
  unfold sim_run. pose proof (initial_inline initial) as T. cbv zeta in T.
  destruct (tick_level cfg devf (S f) top initial _ [] _) as [[sN2 outN] oN].
  destruct (tick_level cfgF devf (S f) top initial _ [] _) as [[sF2 outF] oF].
  destruct T as [HB Ho]. apply (loop_inline horizon n sN2 sF2 oN oF HB Ho).
Qed.

(* the same for scripts with interrupts of the outer devices *)
Theorem script_run_inline initial script : outer_script script ->
  let '(sN, obN) := sim_script_from_start cfg devf (S f) initial script in
  let '(sF, obF) := sim_script_from_start cfgF devf (S f) initial script in
  B sN sF /\ obs_rel obN obF.
Proof.
  intros Hok. unfold sim_script_from_start. pose proof (initial_inline initial) as T. cbv zeta in T.
  destruct (tick_level cfg devf (S f) top initial _ [] _) as [[sN2 outN] oN].
  destruct (tick_level cfgF devf (S f) top initial _ [] _) as [[sF2 outF] oF].
  destruct T as [HB Ho]. apply (script_inline script sN2 sF2 oN oF Hok HB Ho).
Qed.
End Loop.
