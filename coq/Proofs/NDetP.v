(* Nested simulations are schedule independent: any two runs of [NT] (Proofs/NScheduleP.v) -- any answer
   order at every level, at every depth -- from states that agree as dictionaries on the subtree end in
   states that agree as dictionaries, with equal output changes and callback and the same updates of
   every device.  By induction on the nesting depth: within a level the ticker is confluent for components
   whose answers are RELATIONS (Proofs/Confluence3P.v); a component's answer and effect depend only on, and
   touch only, its own footprint (the device itself / the subtree of the system simulation), and the
   footprints of the components of a level are disjoint. *)
From TV Require Import Base Model.Wiring Model.Ticker Model.Component Model.Sim Model.SimTime Model.NSim Model.NNSim
  Proofs.WiringP Proofs.TickerP Proofs.SimP Proofs.NonInterfP Proofs.LatestP Proofs.FrameP Proofs.EqvP Proofs.ParDevP
  Proofs.Confluence2P Proofs.Confluence3P Proofs.ScheduleP Proofs.NScheduleP Proofs.NonInterfLoopP Proofs.InlineLoopP.
Open Scope Z_scope.

Section ND.
Variable cfg : config.
Variable devf : devfun.
Hypothesis Hdev_nd : forall c n t i, NoDup (keys (fst (devf c n t i))).
Hypothesis Hdev_ext : forall c n t i i', NoDup (keys i) -> NoDup (keys i') -> eqv i i' -> devf c n t i = devf c n t i'.

(* ---------- footprints *)
Definition fpD (f : nat) (lv : positive) (x : comp) : list comp :=
  match lookup x (l_order (level_of cfg lv)) with
  | Some KDev => [x] | Some (KSys lv') => devices_below cfg f lv' | None => [] end.
Definition fpL (f : nat) (lv : positive) (x : comp) : list positive :=
  match lookup x (l_order (level_of cfg lv)) with
  | Some (KSys lv') => levels_below cfg f lv' | _ => [] end.

Lemma fpD_sub f lv x d : In d (fpD f lv x) -> In d (devices_below cfg (S f) lv).
Proof.
  unfold fpD. destruct (lookup x (l_order (level_of cfg lv))) as [[|lv']|] eqn:E; [| |intros []]; apply lookup_In in E.
  - intros [<-|[]]. apply in_devices_below_dev. exact E.
  - intros H. eapply devices_below_sub; eassumption.
Qed.
Lemma fpL_sub f lv x l : In l (fpL f lv x) -> In l (levels_below cfg (S f) lv).
Proof.
  unfold fpL. destruct (lookup x (l_order (level_of cfg lv))) as [[|lv']|] eqn:E; try (intros []). apply lookup_In in E.
  intros H. eapply levels_below_sub; eassumption.
Qed.

(* ---------- a nested tick under any schedule touches only its own subtree *)
Lemma framed_wake_upd D L s s1 ob lv x ca : In lv L -> framed D L s s1 ob -> framed D L s (wake_upd s1 lv x ca) ob.
Proof.
  intros Hlv [A [B C]]. unfold wake_upd. destruct ca as [w|]; [|split; [exact A | split; [exact B | exact C]]].
  split; [exact A|]. split; [|exact C]. intros l Hl. rewrite wake_of_set_wake_other by (intros E; subst l; contradiction). apply (B l Hl).
Qed.

Lemma dev_update_framed D L s x time chg : In x D ->
  let '(s1, _, _, o) := dev_update devf s x time chg in framed D L s s1 [o] /\ obs_comp o = x.
Proof.
  intros Hx. unfold dev_update. destruct (devf x _ time _) as [outs ca]. split; [|reflexivity]. split; [|split].
  - intros c0 Hc0. assert (c0 <> x) by (intros E; subst c0; contradiction). cbn [s_dc s_n]. rewrite !lookup_upd_other by assumption. split; reflexivity.
  - intros l _. repeat split; reflexivity.
  - intros o [E|[]]. subst o. exact Hx.
Qed.

Definition inner_framed (f : nat) (inner : ntick_rel) : Prop :=
  forall lv time chg s s' out ca ob, inner lv time chg s s' out ca ob -> framed (devices_below cfg f lv) (levels_below cfg f lv) s s' ob.

Lemma comp_step0_framed f inner lv time ext_chg a s s1 ans ca ob : inner_framed f inner ->
  comp_step0 cfg devf inner lv time ext_chg a s s1 ans ca ob -> framed (fpD f lv (act_comp a)) (fpL f lv (act_comp a)) s s1 ob.
Proof.
  intros Hin. unfold comp_step0. destruct a as [x t0 chg|x t0]; cbn [act_comp].
  - destruct (Pos.eqb x ext_id); [intros [-> [_ [_ ->]]]; apply framed_refl|].
    destruct (Pos.eqb x exp_id); [intros [-> [_ [_ ->]]]; apply framed_refl|].
    unfold fpD, fpL. destruct (lookup x (l_order (level_of cfg lv))) as [[|lv']|] eqn:E; [| |intros []].
    + intros [o [Hd ->]]. pose proof (dev_update_framed [x] [] s x time chg (or_introl eq_refl)) as H. rewrite Hd in H. apply H.
    + intros H. apply (Hin lv' time chg s s1 ans ca ob H).
  - intros [-> [_ [_ ->]]]. apply framed_refl.
Qed.

Lemma srun_framed f inner lv time ext_chg conns comps roots ext s0 st tr s ob : inner_framed f inner ->
  SRun cfg devf inner lv time ext_chg conns comps roots ext s0 st tr s ob ->
  framed (devices_below cfg (S f) lv) (levels_below cfg (S f) lv) s0 s ob.
Proof.
  intros Hin. induction 1 as [st0 st1 acts H1 H2 H3 | st tr s ob c a ch s1 o st' acts fin HR IH Hc Ha Hac [s2 [ca [Hs ->]]] Hp].
  - apply framed_refl.
  - eapply framed_trans; [exact IH|]. apply framed_wake_upd; [left; reflexivity|].
    eapply framed_mono; [| |apply (comp_step0_framed f inner lv time ext_chg a s s2 ch ca o Hin Hs)]; [apply fpD_sub | apply fpL_sub].
Qed.

Lemma prologue_framed s lv time D L : In lv L -> framed D L s (nprologue cfg s lv time) [].
Proof.
  intros Hlv. unfold nprologue. split; [intros c _; split; reflexivity|]. split; [|intros o []].
  intros l Hl. assert (Hne : l <> lv) by (intros E; subst l; contradiction). split; [|split].
  - change (wake_of (log_tick (mark_ticked (set_int (set_wake s lv ?w) lv []) lv) lv time ?r) l) with (wake_of (set_wake s lv w) l).
    apply wake_of_set_wake_other. exact Hne.
  - unfold int_of, log_tick, mark_ticked, set_int, set_wake. cbn [s_int]. apply get_d_upd_other. exact Hne.
  - unfold log_tick, mark_ticked, set_int, set_wake. cbn [s_ticked].
    destruct (memb lv (s_ticked s)); [reflexivity|]. cbn [memb existsb]. destruct (Pos.eqb_spec l lv); [contradiction | reflexivity].
Qed.

Theorem NT_framed : forall f, inner_framed f (NT cfg devf f).
Proof.
  induction f as [|f IH]; intros lv time chg s s' out ca ob H.
  - cbn [NT] in H. destruct H as [-> [_ [_ ->]]]. apply framed_refl.
  - cbn [NT] in H. destruct H as [ext [st [tr [HR _]]]].
    rewrite <- (app_nil_l ob). eapply framed_trans; [apply (prologue_framed s lv time); left; reflexivity|].
    apply (srun_framed f (NT cfg devf f) lv time chg _ _ _ ext _ st tr s' ob IH HR).
Qed.

(* ---------- agreement of two states on a footprint: exactly, and as dictionaries *)
Definition same_on (D : list comp) (L : list positive) (s t : sstate) : Prop :=
  (forall d, In d D -> lookup d (s_dc t) = lookup d (s_dc s) /\ lookup d (s_n t) = lookup d (s_n s)) /\
  (forall l, In l L -> wake_of t l = wake_of s l /\ int_of t l = int_of s l /\ memb l (s_ticked t) = memb l (s_ticked s)).

Definition NSR (D : list comp) (L : list positive) (sA sB : sstate) : Prop :=
  (forall d, In d D -> drel sA sB d) /\
  (forall l, In l L -> weq (wake_of sA l) (wake_of sB l) /\ int_of sA l = int_of sB l /\ memb l (s_ticked sA) = memb l (s_ticked sB)).

Lemma same_on_refl D L s : same_on D L s s.
Proof. split; intros; repeat split; reflexivity. Qed.

Lemma same_on_trans D L s1 s2 s3 : same_on D L s1 s2 -> same_on D L s2 s3 -> same_on D L s1 s3.
Proof.
  intros [A1 B1] [A2 B2]. split.
  - intros d Hd. destruct (A1 d Hd) as [X1 Y1]. destruct (A2 d Hd) as [X2 Y2]. split; congruence.
  - intros l Hl. destruct (B1 l Hl) as [X1 [Y1 Z1]]. destruct (B2 l Hl) as [X2 [Y2 Z2]]. repeat split; congruence.
Qed.

Lemma same_on_sym D L s t : same_on D L s t -> same_on D L t s.
Proof.
  intros [A B]. split.
  - intros d Hd. destruct (A d Hd) as [X Y]. split; congruence.
  - intros l Hl. destruct (B l Hl) as [X [Y Z]]. repeat split; congruence.
Qed.

Lemma framed_same_on D' L' D L s t ob :
  framed D' L' s t ob -> (forall d, In d D -> ~ In d D') -> (forall l, In l L -> ~ In l L') -> same_on D L s t.
Proof.
  intros [A [B _]] HD HL. split; [intros d Hd; apply A; apply HD; exact Hd | intros l Hl; apply B; apply HL; exact Hl].
Qed.

Lemma dcs_lookup s t d : lookup d (s_dc t) = lookup d (s_dc s) -> dcs t d = dcs s d.
Proof. intros H. unfold dcs. rewrite H. reflexivity. Qed.

Lemma NSR_same_on D L sA sB tA tB : NSR D L sA sB -> same_on D L sA tA -> same_on D L sB tB -> NSR D L tA tB.
Proof.
  intros [A B] [A1 B1] [A2 B2]. split.
  - intros d Hd. destruct (A1 d Hd) as [X1 Y1]. destruct (A2 d Hd) as [X2 Y2]. specialize (A d Hd). unfold drel in *.
    rewrite (dcs_lookup sA tA d X1), (dcs_lookup sB tB d X2), Y1, Y2. exact A.
  - intros l Hl. destruct (B1 l Hl) as [X1 [Y1 Z1]]. destruct (B2 l Hl) as [X2 [Y2 Z2]]. destruct (B l Hl) as [P [Q R]].
    rewrite X1, X2, Y1, Y2, Z1, Z2. split; [exact P | split; [exact Q | exact R]].
Qed.

Lemma NSR_mono D L D' L' sA sB : (forall d, In d D' -> In d D) -> (forall l, In l L' -> In l L) -> NSR D L sA sB -> NSR D' L' sA sB.
Proof. intros HD HL [A B]. split; [intros d Hd; apply A; apply HD; exact Hd | intros l Hl; apply B; apply HL; exact Hl]. Qed.

(* ---------- lists without repetition built by flat_map *)
Lemma NoDup_flat_map_in {A B} (g : A -> list B) l a : NoDup (flat_map g l) -> In a l -> NoDup (g a).
Proof.
  induction l as [|x r IH]; intros H Hi; [destruct Hi|]. cbn [flat_map] in H.
  destruct Hi as [->|Hi]; [apply (NoDup_app_l _ _ H) | apply IH; [apply (NoDup_app_r _ _ H) | exact Hi]].
Qed.

Lemma NoDup_flat_map_disj {A B} (g : A -> list B) : forall l, NoDup (flat_map g l) ->
  forall l1 a l2 b l3, l = l1 ++ a :: l2 ++ b :: l3 -> forall z, In z (g a) -> ~ In z (g b).
Proof.
  intros l H l1 a l2 b l3 -> z Ha Hb. rewrite flat_map_app in H. apply NoDup_app_r in H. cbn [flat_map] in H.
  apply (NoDup_app_disjoint (g a) _ z H Ha). rewrite flat_map_app. apply in_app_iff. right. cbn [flat_map]. apply in_app_iff. left. exact Hb.
Qed.

Lemma in_two_split {A} (a b : A) l : In a l -> In b l -> a <> b ->
  (exists l1 l2 l3, l = l1 ++ a :: l2 ++ b :: l3) \/ (exists l1 l2 l3, l = l1 ++ b :: l2 ++ a :: l3).
Proof.
  intros Ha Hb Hne. destruct (in_split a l Ha) as [l1 [l2 E]]. subst l.
  apply in_app_iff in Hb. destruct Hb as [Hb|[Hb|Hb]]; [| congruence |].
  - destruct (in_split b l1 Hb) as [m1 [m2 E]]. subst l1. right. exists m1, m2, l2. rewrite <- app_assoc. reflexivity.
  - destruct (in_split b l2 Hb) as [m1 [m2 E]]. subst l2. left. exists l1, m1, m2. reflexivity.
Qed.

(* ---------- the shape of a subtree the theorem needs *)
Fixpoint idx (x : comp) (l : list comp) : nat :=
  match l with [] => O | y :: r => if Pos.eqb x y then O else S (idx x r) end.

Definition level_ok (l : positive) : Prop :=
  NoDup (keys (l_order (level_of cfg l))) /\ real_ids cfg l /\ single_source (l_conns (level_of cfg l)) /\
  (forall k, In k (l_conns (level_of cfg l)) ->
     (idx (out_comp k) (lcomps (level_of cfg l)) < idx (in_comp k) (lcomps (level_of cfg l)))%nat).

Definition subtree_ok (f : nat) (lv : positive) : Prop :=
  NoDup (levels_below cfg f lv) /\ NoDup (devices_below cfg f lv) /\
  forall l, In l (levels_below cfg f lv) -> level_ok l.

Lemma subtree_ok_child f lv x lv' : subtree_ok (S f) lv -> In (x, KSys lv') (l_order (level_of cfg lv)) -> subtree_ok f lv'.
Proof.
  intros [HL [HD Hok]] Hi. split; [|split].
  - cbn [levels_below] in HL. inversion HL as [|? ? _ HL2]; subst.
    apply (NoDup_flat_map_in (fun ck : comp * ckind => match snd ck with KDev => [] | KSys l0 => levels_below cfg f l0 end) _ (x, KSys lv') HL2 Hi).
  - cbn [devices_below] in HD.
    apply (NoDup_flat_map_in (fun ck : comp * ckind => match snd ck with KDev => [fst ck] | KSys l0 => devices_below cfg f l0 end) _ (x, KSys lv') HD Hi).
  - intros l Hl. apply Hok. eapply levels_below_sub; eassumption.
Qed.

(* the footprints of two different components of a level are disjoint, and none contains the level itself *)
Lemma fp_facts f lv : subtree_ok (S f) lv ->
  (forall x l, In l (fpL f lv x) -> l <> lv) /\
  (forall x y, x <> y -> (forall d, In d (fpD f lv x) -> ~ In d (fpD f lv y)) /\ (forall l, In l (fpL f lv x) -> ~ In l (fpL f lv y))).
Proof.
  intros [HL [HD Hok]].
  assert (Hlv : level_ok lv) by (apply Hok; left; reflexivity). destruct Hlv as [Hnk _].
  cbn [levels_below] in HL. inversion HL as [|? ? Hnl HL2]; subst. cbn [devices_below] in HD.
  split.
  - intros x l Hl E. subst l. apply Hnl. unfold fpL in Hl.
    destruct (lookup x (l_order (level_of cfg lv))) as [[|lv']|] eqn:E; try destruct Hl. apply lookup_In in E.
    apply in_flat_map. exists (x, KSys lv'). split; [exact E | exact Hl].
  - intros x y Hne.
    assert (Hgen : forall (B : Type) (g : comp * ckind -> list B) (gx gy : list B),
              NoDup (flat_map g (l_order (level_of cfg lv))) ->
              (forall k, lookup x (l_order (level_of cfg lv)) = Some k -> gx = g (x, k)) -> (lookup x (l_order (level_of cfg lv)) = None -> gx = []) ->
              (forall k, lookup y (l_order (level_of cfg lv)) = Some k -> gy = g (y, k)) -> (lookup y (l_order (level_of cfg lv)) = None -> gy = []) ->
              forall z, In z gx -> ~ In z gy).
    { intros B g gx gy Hnd Hx1 Hx2 Hy1 Hy2 z Hzx Hzy.
      destruct (lookup x (l_order (level_of cfg lv))) as [kx|] eqn:Ex; [|rewrite (Hx2 eq_refl) in Hzx; destruct Hzx].
      destruct (lookup y (l_order (level_of cfg lv))) as [ky|] eqn:Ey; [|rewrite (Hy2 eq_refl) in Hzy; destruct Hzy].
      rewrite (Hx1 kx eq_refl) in Hzx. rewrite (Hy1 ky eq_refl) in Hzy. apply lookup_In in Ex. apply lookup_In in Ey.
      assert (Hne2 : (x, kx) <> (y, ky)) by (intros E; inversion E; contradiction).
      destruct (in_two_split (x, kx) (y, ky) _ Ex Ey Hne2) as [[l1 [l2 [l3 E]]]|[l1 [l2 [l3 E]]]].
      - apply (NoDup_flat_map_disj g _ Hnd l1 (x, kx) l2 (y, ky) l3 E z Hzx Hzy).
      - apply (NoDup_flat_map_disj g _ Hnd l1 (y, ky) l2 (x, kx) l3 E z Hzy Hzx). }
    split.
    + apply (Hgen comp (fun ck : comp * ckind => match snd ck with KDev => [fst ck] | KSys l0 => devices_below cfg f l0 end) (fpD f lv x) (fpD f lv y) HD).
      * intros k E. unfold fpD. rewrite E. destruct k; reflexivity.
      * intros E. unfold fpD. rewrite E. reflexivity.
      * intros k E. unfold fpD. rewrite E. destruct k; reflexivity.
      * intros E. unfold fpD. rewrite E. reflexivity.
    + apply (Hgen positive (fun ck : comp * ckind => match snd ck with KDev => [] | KSys l0 => levels_below cfg f l0 end) (fpL f lv x) (fpL f lv y) HL2).
      * intros k E. unfold fpL. rewrite E. destruct k; reflexivity.
      * intros E. unfold fpL. rewrite E. reflexivity.
      * intros k E. unfold fpL. rewrite E. destruct k; reflexivity.
      * intros E. unfold fpL. rewrite E. reflexivity.
Qed.

(* every device / level of the subtree lies in the footprint of one component of the level (or is the level) *)
Lemma in_subtree_fp f lv : NoDup (keys (l_order (level_of cfg lv))) ->
  (forall d, In d (devices_below cfg (S f) lv) -> exists x, In d (fpD f lv x)) /\
  (forall l, In l (levels_below cfg (S f) lv) -> l = lv \/ exists x, In l (fpL f lv x)).
Proof.
  intros Hnk. split.
  - intros d Hd. cbn [devices_below] in Hd. apply in_flat_map in Hd. destruct Hd as [[x k] [Hi Hd]]. cbn [snd fst] in Hd.
    exists x. unfold fpD. apply (lookup_In_iff _ x k Hnk) in Hi. rewrite Hi. destruct k; exact Hd.
  - intros l Hl. cbn [levels_below] in Hl. destruct Hl as [E|Hl]; [left; symmetry; exact E|]. right.
    apply in_flat_map in Hl. destruct Hl as [[x k] [Hi Hl]]. cbn [snd] in Hl.
    exists x. unfold fpL. apply (lookup_In_iff _ x k Hnk) in Hi. rewrite Hi. destruct k; [destruct Hl | exact Hl].
Qed.

(* ---------- the statement, for one fuel: two tick relations (two ways of running the ticks of system simulations) agree *)
Definition rdet (IA IB : ntick_rel) (f : nat) : Prop :=
  forall lv, subtree_ok f lv ->
  forall time chgA chgB sA sB sA' sB' outA outB caA caB obA obB,
    NoDup (keys chgA) -> NoDup (keys chgB) -> eqv chgA chgB ->
    NSR (devices_below cfg f lv) (levels_below cfg f lv) sA sB ->
    IA lv time chgA sA sA' outA caA obA -> IB lv time chgB sB sB' outB caB obB ->
    eqv outA outB /\ NoDup (keys outA) /\ NoDup (keys outB) /\ caA = caB /\
    NSR (devices_below cfg f lv) (levels_below cfg f lv) sA' sB' /\
    (forall d, obs_rel (dev_obs d obA) (dev_obs d obB)).
Definition det_at (f : nat) : Prop := rdet (NT cfg devf f) (NT cfg devf f) f.
Definition inner_nd (I : ntick_rel) : Prop := forall lv time chg s s' out ca ob, I lv time chg s s' out ca ob -> NoDup (keys out).

(* the output changes of a nested tick never mention a port twice *)
Lemma exposed_nd conns comps t roots ext st tr : Run conns comps t roots ext st tr -> NoDup (keys (exposed tr)).
Proof.
  intros HR. unfold exposed. destruct (find_dispatch tr exp_id) as [[c t0 x|c t0]|] eqn:E; try constructor.
  destruct (find_dispatch_In tr exp_id _ E) as [Hi _]. apply (run_dispatch_nd conns comps t roots ext st tr HR _ Hi).
Qed.

Lemma NT_out_nd f lv time chg s s' out ca ob : NT cfg devf f lv time chg s s' out ca ob -> NoDup (keys out).
Proof.
  destruct f as [|f]; cbn [NT].
  - intros [_ [-> _]]. constructor.
  - intros [ext [st [tr [HR [_ [-> _]]]]]]. apply (exposed_nd _ _ _ _ _ _ _ (SRun_Run cfg devf _ _ _ _ _ _ _ _ _ _ _ _ _ HR)).
Qed.

Lemma dev_obs_single d (o : obs) : dev_obs d [o] = if Pos.eqb (obs_comp o) d then [o] else [].
Proof. reflexivity. Qed.

(* ---------- one component, locally: two runs that agree on its footprint answer and change alike *)
Lemma step_nd (I : ntick_rel) lv time ext_chg a s s1 ans ca o : inner_nd I ->
  NoDup (keys ext_chg) -> comp_step0 cfg devf I lv time ext_chg a s s1 ans ca o -> NoDup (keys ans).
Proof.
  intros HI Hext. unfold comp_step0. destruct a as [x t0 chg|x t0].
  - destruct (Pos.eqb x ext_id); [intros [_ [-> _]]; exact Hext|].
    destruct (Pos.eqb x exp_id); [intros [_ [-> _]]; constructor|].
    destruct (lookup x (l_order (level_of cfg lv))) as [[|lv']|]; [| |intros []].
    + intros [o0 [Hd _]].
      pose proof (dev_update_view devf s x time chg) as V. rewrite Hd in V. cbv zeta in V. destruct V as [_ [_ [E _]]]. rewrite E.
      unfold diff_outputs. apply NoDup_keys_filter. apply Hdev_nd.
    + apply HI.
  - intros [_ [-> _]]. constructor.
Qed.

Lemma NT_inner_nd f : inner_nd (NT cfg devf f).
Proof. intros lv time chg s s' out ca ob. apply NT_out_nd. Qed.

Lemma obs_rel_refl_nil : obs_rel [] [].
Proof. constructor. Qed.

Lemma step_det (IA IB : ntick_rel) f lv time extA extB a b sA sB sA1 sB1 ansA ansB caA caB oA oB :
  rdet IA IB f -> subtree_ok (S f) lv ->
  NoDup (keys extA) -> NoDup (keys extB) -> eqv extA extB ->
  action_equiv a b -> nd_action a -> nd_action b ->
  NSR (fpD f lv (act_comp a)) (fpL f lv (act_comp a)) sA sB ->
  comp_step0 cfg devf IA lv time extA a sA sA1 ansA caA oA ->
  comp_step0 cfg devf IB lv time extB b sB sB1 ansB caB oB ->
  ch_equiv ansA ansB /\ caA = caB /\
  NSR (fpD f lv (act_comp a)) (fpL f lv (act_comp a)) sA1 sB1 /\ (forall d, obs_rel (dev_obs d oA) (dev_obs d oB)).
Proof.
  intros Hdet Hok HnA HnB Hext Heq Hna Hnb Hsr.
  destruct a as [x t1 chgA|x t1], b as [y t2 chgB|y t2]; cbn [action_equiv] in Heq; try contradiction; cbn [act_comp] in *.
  2: { intros [-> [-> [-> ->]]] [-> [-> [-> ->]]]. split; [intros q; reflexivity|]. split; [reflexivity|]. split; [exact Hsr | intros d; constructor]. }
  destruct Heq as [<- [_ Hch]]. cbn [nd_action] in Hna, Hnb. unfold comp_step0.
  destruct (Pos.eqb x ext_id).
  { intros [-> [-> [-> ->]]] [-> [-> [-> ->]]]. split; [exact Hext|]. split; [reflexivity|]. split; [exact Hsr | intros d; constructor]. }
  destruct (Pos.eqb x exp_id).
  { intros [-> [-> [-> ->]]] [-> [-> [-> ->]]]. split; [intros q; reflexivity|]. split; [reflexivity|]. split; [exact Hsr | intros d; constructor]. }
  unfold fpD, fpL in *. destruct (lookup x (l_order (level_of cfg lv))) as [[|lv']|] eqn:Ek; [| |intros []].
  - (* a device *)
    intros [o1 [HdA ->]] [o2 [HdB ->]].
    assert (Hdx : drel sA sB x) by (apply (proj1 Hsr); left; reflexivity).
    pose proof (dev_update_rel devf Hdev_ext sA sB x time chgA chgB Hdx Hna Hnb Hch) as H. rewrite HdA, HdB in H.
    destruct H as [E1 [E2 [Hd1 [Ef Ei]]]]. subst ansB caB.
    split; [intros q; reflexivity|]. split; [reflexivity|]. split.
    + split; [intros d [<-|[]]; exact Hd1 | intros l []].
    + intros d. rewrite !dev_obs_single. unfold obs_comp. rewrite <- Ef.
      destruct (Pos.eqb (fst (fst o1)) d); [|constructor]. constructor; [|constructor]. split; [exact Ef | exact Ei].
  - (* a system simulation *)
    intros HA HB. apply lookup_In in Ek.
    destruct (Hdet lv' (subtree_ok_child f lv x lv' Hok Ek) time chgA chgB sA sB sA1 sB1 ansA ansB caA caB oA oB Hna Hnb Hch Hsr HA HB)
      as [Ho [_ [_ [Eca [Hs1 Hob]]]]].
    split; [exact Ho|]. split; [exact Eca|]. split; [exact Hs1 | exact Hob].
Qed.

(* ---------- one run of a level: what it leaves on the footprint of every component *)
Lemma wake_upd_same_on D L s lv x ca : ~ In lv L -> same_on D L s (wake_upd s lv x ca).
Proof.
  intros Hlv. unfold wake_upd. destruct ca as [w|]; [|apply same_on_refl]. split; [intros d _; split; reflexivity|].
  intros l Hl. assert (Hne : l <> lv) by (intros E; subst l; contradiction).
  rewrite wake_of_set_wake_other by exact Hne. repeat split; reflexivity.
Qed.

Lemma wake_upd_lookup s lv x ca k :
  lookup k (wake_of (wake_upd s lv x ca) lv) =
  if Pos.eqb k x then match ca with Some w => Some w | None => lookup k (wake_of s lv) end else lookup k (wake_of s lv).
Proof.
  unfold wake_upd. destruct ca as [w|]; [rewrite wake_of_set_wake, lookup_upd; reflexivity | destruct (Pos.eqb k x); reflexivity].
Qed.

Lemma dev_obs_outside d (o : list obs) (D : list comp) : (forall e, In e o -> In (obs_comp e) D) -> ~ In d D -> dev_obs d o = [].
Proof.
  intros H Hd. induction o as [|e r IH]; [reflexivity|]. unfold dev_obs. cbn [filter].
  destruct (Pos.eqb_spec (obs_comp e) d) as [E|_]; [exfalso; apply Hd; rewrite <- E; apply H; left; reflexivity|].
  apply IH. intros e' He'. apply H. right. exact He'.
Qed.

Section Level.
Variable f : nat.
Variable lv : positive.
Variable time : Z.
Variable ext_chg : values.
Hypothesis Hok : subtree_ok (S f) lv.
Variables roots ext : list comp.
Variable s0 : sstate.
Variable I : ntick_rel.
Hypothesis HIfr : inner_framed f I.
Notation conns := (l_conns (level_of cfg lv)).
Notation comps := (lcomps (level_of cfg lv)).
Notation FD := (fpD f lv).
Notation FL := (fpL f lv).

Record SI (tr : list ev) (s : sstate) (ob : list obs) : Prop := {
  si_un : forall x, ~ In x (ans_comps tr) ->
      same_on (FD x) (FL x) s0 s /\ lookup x (wake_of s lv) = lookup x (wake_of s0 lv) /\ (forall d, In d (FD x) -> dev_obs d ob = []);
  si_an : forall x ch, In (EAnswer x ch) tr -> exists a sx sx1 ca o,
      In (EDispatch a) tr /\ act_comp a = x /\ same_on (FD x) (FL x) s0 sx /\
      comp_step0 cfg devf I lv time ext_chg a sx sx1 ch ca o /\
      same_on (FD x) (FL x) sx1 s /\
      lookup x (wake_of s lv) = match ca with Some w => Some w | None => lookup x (wake_of s0 lv) end /\
      (forall d, In d (FD x) -> dev_obs d ob = dev_obs d o);
  si_int : int_of s lv = int_of s0 lv;
  si_tk : memb lv (s_ticked s) = memb lv (s_ticked s0);
  si_nd : NoDup (keys (wake_of s0 lv)) -> NoDup (keys (wake_of s lv))
}.

(* one more answer: the component of the dispatch [a], not answered so far, handles it in the current state *)
Lemma SI_step tr s ob a ch s2 ca o acts :
  SI tr s ob -> ~ In (act_comp a) (ans_comps tr) -> In (EDispatch a) tr ->
  comp_step0 cfg devf I lv time ext_chg a s s2 ch ca o ->
  SI (tr ++ EAnswer (act_comp a) ch :: map EDispatch acts) (wake_upd s2 lv (act_comp a) ca) (ob ++ o).
Proof.
  destruct (fp_facts f lv Hok) as [Hnlv Hdisj].
  intros IH Hcna Ha Hs.
    pose proof (comp_step0_framed f I lv time ext_chg a s s2 ch ca o HIfr Hs) as Hfr.
    destruct Hfr as [FrD [FrL FrO]].
    assert (Hw2 : wake_of s2 lv = wake_of s lv) by (apply (FrL lv); intros Hi; apply (Hnlv _ _ Hi); reflexivity).
    assert (Hi2 : int_of s2 lv = int_of s lv) by (apply (FrL lv); intros Hi; apply (Hnlv _ _ Hi); reflexivity).
    assert (Ht2 : memb lv (s_ticked s2) = memb lv (s_ticked s)) by (apply (FrL lv); intros Hi; apply (Hnlv _ _ Hi); reflexivity).
    (* components other than the one that has just answered keep their footprint *)
    assert (Hother : forall x, x <> act_comp a -> same_on (FD x) (FL x) s (wake_upd s2 lv (act_comp a) ca)).
    { intros x Hx. destruct (Hdisj x (act_comp a) Hx) as [Dd Dl].
      eapply same_on_trans; [|apply wake_upd_same_on; intros Hi; apply (Hnlv _ _ Hi); reflexivity].
      split; [intros d Hd; apply FrD; apply Dd; exact Hd | intros l Hl; apply FrL; apply Dl; exact Hl]. }
    assert (Hobs_other : forall x, x <> act_comp a -> forall d, In d (FD x) -> dev_obs d o = []).
    { intros x Hx d Hd. apply (dev_obs_outside d o (FD (act_comp a)) FrO). destruct (Hdisj x (act_comp a) Hx) as [Dd _]. apply Dd. exact Hd. }
    assert (Hint_new : int_of (wake_upd s2 lv (act_comp a) ca) lv = int_of s2 lv) by (unfold wake_upd; destruct ca; reflexivity).
    assert (Htk_new : s_ticked (wake_upd s2 lv (act_comp a) ca) = s_ticked s2) by (unfold wake_upd; destruct ca; reflexivity).
    constructor.
    + intros x Hx. rewrite ans_comps_app in Hx. cbn [ans_comps flat_map app] in Hx. fold (ans_comps (map EDispatch acts)) in Hx.
      assert (Hxa : ~ In x (ans_comps tr)) by (intros Hi; apply Hx; apply in_app_iff; left; exact Hi).
      assert (Hxc : x <> act_comp a) by (intros E; apply Hx; apply in_app_iff; right; left; symmetry; exact E).
      destruct (si_un _ _ _ IH x Hxa) as [U1 [U2 U3]].
      split; [eapply same_on_trans; [exact U1 | apply Hother; exact Hxc]|]. split.
      * rewrite wake_upd_lookup, Hw2. destruct (Pos.eqb_spec x (act_comp a)); [contradiction | exact U2].
      * intros d Hd. rewrite dev_obs_app, (U3 d Hd), (Hobs_other x Hxc d Hd). reflexivity.
    + intros x ch0 Hi. apply in_app_iff in Hi. destruct Hi as [Hi|[Hi|Hi]].
      * (* an earlier answer *)
        assert (Hxc : x <> act_comp a) by (intros E; apply Hcna; rewrite <- E; apply answered_In; exists ch0; exact Hi).
        destruct (si_an _ _ _ IH x ch0 Hi) as [a0 [sx [sx1 [ca0 [o0 [A1 [A2 [A3 [A4 [A5 [A6 A7]]]]]]]]]]].
        exists a0, sx, sx1, ca0, o0. split; [apply in_app_iff; left; exact A1|]. split; [exact A2|]. split; [exact A3|]. split; [exact A4|].
        split; [eapply same_on_trans; [exact A5 | apply Hother; exact Hxc]|]. split.
        -- rewrite wake_upd_lookup, Hw2. destruct (Pos.eqb_spec x (act_comp a)); [contradiction | exact A6].
        -- intros d Hd. rewrite dev_obs_app, (A7 d Hd), (Hobs_other x Hxc d Hd), app_nil_r. reflexivity.
      * (* the answer just given *)
        inversion Hi; subst x ch0. destruct (si_un _ _ _ IH (act_comp a) Hcna) as [U1 [U2 U3]].
        exists a, s, s2, ca, o. split; [apply in_app_iff; left; exact Ha|]. split; [reflexivity|]. split; [exact U1|]. split; [exact Hs|].
        split; [apply wake_upd_same_on; intros Hi2'; apply (Hnlv _ _ Hi2'); reflexivity|]. split.
        -- rewrite wake_upd_lookup, Pos.eqb_refl, Hw2, U2. reflexivity.
        -- intros d Hd. rewrite dev_obs_app, (U3 d Hd). reflexivity.
      * exfalso. apply in_map_iff in Hi. destruct Hi as [a0 [E _]]. discriminate.
    + rewrite Hint_new, Hi2. exact (si_int _ _ _ IH).
    + rewrite Htk_new, Ht2. exact (si_tk _ _ _ IH).
    + intros Hnd. specialize (si_nd _ _ _ IH Hnd) as Hn. unfold wake_upd. destruct ca as [w|]; [|rewrite Hw2; exact Hn].
      rewrite wake_of_set_wake, Hw2. apply NoDup_keys_upd. exact Hn.
Qed.

(* further dispatches change nothing *)
Lemma SI_disps tr s ob acts : SI tr s ob -> SI (tr ++ map EDispatch acts) s ob.
Proof.
  intros H.
  assert (Ea : ans_comps (tr ++ map EDispatch acts) = ans_comps tr).
  { rewrite ans_comps_app. replace (ans_comps (map EDispatch acts)) with (@nil comp); [apply app_nil_r|].
    induction acts as [|a0 r IH]; [reflexivity | exact IH]. }
  constructor.
  - intros x Hx. rewrite Ea in Hx. exact (si_un _ _ _ H x Hx).
  - intros x ch Hi. apply in_app_iff in Hi. destruct Hi as [Hi|Hi]; [|exfalso; apply in_map_iff in Hi; destruct Hi as [a0 [E _]]; discriminate].
    destruct (si_an _ _ _ H x ch Hi) as [a0 [sx [sx1 [ca0 [o0 [A1 A2]]]]]].
    exists a0, sx, sx1, ca0, o0. split; [apply in_app_iff; left; exact A1 | exact A2].
  - exact (si_int _ _ _ H).
  - exact (si_tk _ _ _ H).
  - exact (si_nd _ _ _ H).
Qed.

Lemma SI_init tr : (forall x, ~ In x (ans_comps tr)) -> SI tr s0 [].
Proof.
  intros Hn. constructor.
  - intros x _. split; [apply same_on_refl|]. split; [reflexivity | intros d _; reflexivity].
  - intros x ch Hi. exfalso. apply (Hn x). apply answered_In. exists ch. exact Hi.
  - reflexivity.
  - reflexivity.
  - auto.
Qed.

Lemma srun_SI st tr s ob :
  SRun cfg devf I lv time ext_chg conns comps roots ext s0 st tr s ob -> SI tr s ob.
Proof.
  intros HR. induction HR as [st0 st1 acts H1 H2 H3 | st tr s ob c a ch s1 o st' acts fin HR IH Hc Ha Hac [s2 [ca [Hs Es1]]] Hp].
  - apply SI_init. intros x Hx. apply answered_In in Hx. destruct Hx as [ch Hi]. apply in_map_iff in Hi. destruct Hi as [a0 [E _]]. discriminate.
  - pose proof (SRun_Run cfg devf _ _ _ _ _ _ _ _ _ _ _ _ _ HR) as Hrun.
    pose proof (run_inv conns comps time roots ext st tr Hrun) as HI.
    assert (Hcna : ~ In c (ans_comps tr)).
    { intros Hin. apply answered_In in Hin.
      assert (Hpe : In c (pending st)) by (unfold pending, keys; apply in_map_iff; exists (c, true); split; [reflexivity | exact Hc]).
      apply (i_ans _ _ _ _ _ _ HI c (i_sub _ _ _ _ _ _ HI c Hpe)) in Hin. contradiction. }
    subst c. subst s1. apply (SI_step tr s ob a ch s2 ca o acts IH Hcna Ha Hs).
Qed.
End Level.

(* ---------- two complete runs of one level *)
Lemma min_wake_weq a b : weq a b -> min_wake a = min_wake b.
Proof.
  intros H. pose proof (weq_in a b H) as Hin.
  pose proof (min_wake_spec a) as Sa. pose proof (min_wake_spec b) as Sb.
  destruct (min_wake a) as [m|], (min_wake b) as [m'|].
  - destruct Sa as [[ea [Hea Ea]] La], Sb as [[eb [Heb Eb]] Lb].
    pose proof (La eb (proj2 (Hin eb) Heb)). pose proof (Lb ea (proj1 (Hin ea) Hea)). f_equal. lia.
  - destruct Sa as [[ea [Hea _]] _]. subst b. apply Hin in Hea. destruct Hea.
  - destruct Sb as [[eb [Heb _]] _]. subst a. apply Hin in Heb. destruct Heb.
  - reflexivity.
Qed.

Lemma find_dispatch_None tr c : find_dispatch tr c = None -> ~ dispatched tr c.
Proof.
  unfold find_dispatch. intros H [a [Hi E]].
  set (p := fun e : ev => match e with EDispatch a0 => Pos.eqb (act_comp a0) c | _ => false end) in *.
  assert (Hf : In (EDispatch a) (filter p tr)) by (apply filter_In; split; [exact Hi | apply Pos.eqb_eq; exact E]).
  destruct (filter p tr) as [|e r] eqn:F; [destruct Hf|].
  destruct e as [a0|c0 ch0]; [discriminate|].
  assert (Hh : In (EAnswer c0 ch0) (filter p tr)) by (rewrite F; left; reflexivity).
  apply filter_In in Hh. destruct Hh as [_ Hb]. discriminate.
Qed.

(* what the comparison of two ticks of a level needs to know about each: a trace of the ticker that is complete for its
   extent, with the state threaded through the answers ([SI]) -- whether it comes from a run under some schedule
   ([srun_LT]) or from the fold of Model/Sim.v (Proofs/SimNTP.v) *)
Section LevelRel.
Variable f : nat.
Variable lv : positive.
Variable time : Z.
Hypothesis Hok : subtree_ok (S f) lv.
Notation conns := (l_conns (level_of cfg lv)).
Notation comps := (lcomps (level_of cfg lv)).

Record LT (I : ntick_rel) (chg : values) (roots ext : list comp) (s0 : sstate) (tr : list ev) (s : sstate) (ob : list obs) : Prop := {
  lt_gate : gate_from conns ext [] tr;
  lt_dok : disp_ok conns time roots [] tr;
  lt_nd : forall a, In (EDispatch a) tr -> nd_action a;
  lt_ext : forall c, In c ext <-> exists r, In r roots /\ reach conns r c;
  lt_fin : forall c, In c ext -> dispatched tr c /\ answered tr c;
  lt_ans_ext : forall c, answered tr c -> In c ext;
  lt_disp_ext : forall c, dispatched tr c -> In c ext;
  lt_si : SI f lv time chg s0 I tr s ob;
  lt_obs : forall e, In e ob -> In (obs_comp e) (devices_below cfg (S f) lv)
}.

Lemma srun_LT (I : ntick_rel) chg roots ext s0 st tr s ob :
  inner_framed f I -> inner_nd I -> NoDup (keys chg) ->
  SRun cfg devf I lv time chg conns comps roots ext s0 st tr s ob -> todo st = [] ->
  LT I chg roots ext s0 tr s ob.
Proof.
  intros Hfr Hnd Hchg HR Ht.
  pose proof (srun_SI f lv time chg Hok roots ext s0 I Hfr st tr s ob HR) as SIr.
  pose proof (SRun_Run cfg devf _ _ _ _ _ _ _ _ _ _ _ _ _ HR) as Rn.
  assert (Hlv : level_ok lv) by (destruct Hok as [_ [_ H]]; apply H; left; reflexivity).
  destruct Hlv as [_ [_ [Hss _]]].
  assert (Wf : wf_answers tr).
  { intros c ch Hi. destruct (si_an _ _ _ _ _ _ _ _ _ SIr c ch Hi) as [a [sx [sx1 [ca [o [_ [_ [_ [A4 _]]]]]]]]].
    apply (step_nd I lv time chg a sx sx1 ch ca o Hnd Hchg A4). }
  pose proof (run_inv _ _ _ _ _ _ _ Rn) as HI.
  constructor.
  - exact (run_gate _ _ _ _ _ _ _ Rn).
  - exact (run_disp_ok _ _ _ _ Hss _ _ _ Rn Wf).
  - exact (run_dispatch_nd _ _ _ _ _ _ _ Rn).
  - destruct (run_ext _ _ _ _ _ _ _ Rn) as [st0 [S0 E0]]. subst ext.
    destruct (start_tick_spec _ _ _ st0 S0) as [_ [_ [_ [_ [_ H]]]]]. exact H.
  - exact (run_finished _ _ _ _ _ _ _ Rn Ht).
  - exact (i_ans_ext _ _ _ _ _ _ HI).
  - exact (i_disp_ext _ _ _ _ _ _ HI).
  - exact SIr.
  - destruct (srun_framed f I lv time chg _ _ _ _ _ _ _ _ _ Hfr HR) as [_ [_ F]]. exact F.
Qed.

Lemma level_rel (IA IB : ntick_rel) chgA chgB rootsA rootsB extA extB s0A s0B trA sA obA trB sB obB :
  rdet IA IB f -> inner_nd IA -> inner_nd IB ->
  NoDup (keys chgA) -> NoDup (keys chgB) -> eqv chgA chgB ->
  (forall c, In c rootsA <-> In c rootsB) ->
  NSR (devices_below cfg (S f) lv) (levels_below cfg (S f) lv) s0A s0B ->
  LT IA chgA rootsA extA s0A trA sA obA -> LT IB chgB rootsB extB s0B trB sB obB ->
  eqv (exposed trA) (exposed trB) /\
  NSR (devices_below cfg (S f) lv) (levels_below cfg (S f) lv) sA sB /\
  (forall d, obs_rel (dev_obs d obA) (dev_obs d obB)).
Proof.
  intros Hdet HndA HndB HnA HnB Hchg Hroots Hs0 LA LB.
  pose proof (lt_si _ _ _ _ _ _ _ _ LA) as SA. pose proof (lt_si _ _ _ _ _ _ _ _ LB) as SB.
  assert (Hlv : level_ok lv) by (destruct Hok as [_ [_ H]]; apply H; left; reflexivity).
  destruct Hlv as [Hnk [Hreal [Hss Hrank]]].
  set (RelA := fun (c : comp) (x a : changes) => exists sx sx1 ca o,
        same_on (fpD f lv c) (fpL f lv c) s0A sx /\ comp_step0 cfg devf IA lv time chgA (Upd c time x) sx sx1 a ca o).
  set (RelB := fun (c : comp) (x a : changes) => exists sx sx1 ca o,
        same_on (fpD f lv c) (fpL f lv c) s0B sx /\ comp_step0 cfg devf IB lv time chgB (Upd c time x) sx sx1 a ca o).
  assert (ArA : answers_rel RelA trA).
  { intros c ch Hi. destruct (si_an _ _ _ _ _ _ _ _ _ SA c ch Hi) as [a [sx [sx1 [ca [o [A1 [A2 [A3 [A4 _]]]]]]]]].
    exists a. split; [exact A1|]. split; [exact A2|]. destruct a as [c' t0 x|c' t0]; cbn [resp_rel].
    - cbn [act_comp] in A2. subst c'. exists sx, sx1, ca, o. split; [exact A3 | exact A4].
    - destruct A4 as [_ [E _]]. exact E. }
  assert (ArB : answers_rel RelB trB).
  { intros c ch Hi. destruct (si_an _ _ _ _ _ _ _ _ _ SB c ch Hi) as [a [sx [sx1 [ca [o [A1 [A2 [A3 [A4 _]]]]]]]]].
    exists a. split; [exact A1|]. split; [exact A2|]. destruct a as [c' t0 x|c' t0]; cbn [resp_rel].
    - cbn [act_comp] in A2. subst c'. exists sx, sx1, ca, o. split; [exact A3 | exact A4].
    - destruct A4 as [_ [E _]]. exact E. }
  assert (Rext : forall c x y a b, NoDup (keys x) -> NoDup (keys y) -> ch_equiv x y -> RelA c x a -> RelB c y b -> ch_equiv a b).
  { intros c x y a b Hx Hy Hxy [sx [sx1 [ca [o [S1 C1]]]]] [sy [sy1 [cb [o2 [S2 C2]]]]].
    assert (Hn : NSR (fpD f lv c) (fpL f lv c) sx sy).
    { apply (NSR_same_on _ _ s0A s0B); [|exact S1|exact S2].
      apply (NSR_mono _ _ _ _ _ _ (fpD_sub f lv c) (fpL_sub f lv c) Hs0). }
    assert (Hab : action_equiv (Upd c time x) (Upd c time y)) by (cbn; split; [reflexivity|]; split; [reflexivity | exact Hxy]).
    destruct (step_det IA IB f lv time chgA chgB (Upd c time x) (Upd c time y) sx sy sx1 sy1 a b ca cb o o2 Hdet Hok HnA HnB Hchg Hab Hx Hy Hn C1 C2) as [H _].
    exact H. }
  assert (Hx : forall x, In x extA <-> In x extB).
  { intros x. rewrite (lt_ext _ _ _ _ _ _ _ _ LA x), (lt_ext _ _ _ _ _ _ _ _ LB x).
    split; intros [r [Hr Hre]]; exists r; (split; [apply Hroots; exact Hr | exact Hre]). }
  assert (WA : WT3 conns time rootsA extA RelA trA).
  { constructor; [exact (lt_gate _ _ _ _ _ _ _ _ LA) | exact (lt_dok _ _ _ _ _ _ _ _ LA) | exact (lt_ans_ext _ _ _ _ _ _ _ _ LA) | exact (lt_nd _ _ _ _ _ _ _ _ LA) | exact ArA]. }
  assert (WB : WT3 conns time rootsB extB RelB trB).
  { constructor; [exact (lt_gate _ _ _ _ _ _ _ _ LB) | exact (lt_dok _ _ _ _ _ _ _ _ LB) | exact (lt_ans_ext _ _ _ _ _ _ _ _ LB) | exact (lt_nd _ _ _ _ _ _ _ _ LB) | exact ArB]. }
  assert (Conf : forall a1 a2, In (EDispatch a1) trA -> In (EDispatch a2) trB -> act_comp a1 = act_comp a2 -> action_equiv a1 a2).
  { intros a1 a2 H1 H2 E.
    apply (confluent_WT3 conns time (fun c => idx c comps) Hrank rootsA rootsB Hroots RelA RelB Rext extA trA extB trB WA WB Hx
             (S (idx (act_comp a2) comps)) (act_comp a2) (Nat.lt_succ_diag_r _) a1 a2 H1 H2 E eq_refl). }
  assert (Part : forall c, dispatched trA c <-> dispatched trB c).
  { intros c. split; intros H.
    - apply (lt_fin _ _ _ _ _ _ _ _ LB). apply Hx. apply (lt_disp_ext _ _ _ _ _ _ _ _ LA). exact H.
    - apply (lt_fin _ _ _ _ _ _ _ _ LA). apply Hx. apply (lt_disp_ext _ _ _ _ _ _ _ _ LB). exact H. }
  assert (AnsAB : forall x, In x (ans_comps trA) <-> In x (ans_comps trB)).
  { intros x. rewrite <- !answered_In. split; intros H.
    - apply (lt_fin _ _ _ _ _ _ _ _ LB). apply Hx. apply (lt_ans_ext _ _ _ _ _ _ _ _ LA). exact H.
    - apply (lt_fin _ _ _ _ _ _ _ _ LA). apply Hx. apply (lt_ans_ext _ _ _ _ _ _ _ _ LB). exact H. }
  (* what the two runs leave on the footprint of one component *)
  assert (Comp : forall x, NSR (fpD f lv x) (fpL f lv x) sA sB /\ lookup x (wake_of sA lv) = lookup x (wake_of sB lv) /\
                           (forall d, In d (fpD f lv x) -> obs_rel (dev_obs d obA) (dev_obs d obB))).
  { intros x. pose proof (NSR_mono _ _ _ _ _ _ (fpD_sub f lv x) (fpL_sub f lv x) Hs0) as Hx0.
    assert (Hw0 : lookup x (wake_of s0A lv) = lookup x (wake_of s0B lv)).
    { destruct Hs0 as [_ HL]. destruct (HL lv (or_introl eq_refl)) as [[_ [_ W]] _]. apply W. }
    destruct (in_dec Pos.eq_dec x (ans_comps trA)) as [Hin|Hnin].
    - pose proof (proj1 (AnsAB x) Hin) as HinB. apply answered_In in Hin. apply answered_In in HinB.
      destruct Hin as [chA HiA]. destruct HinB as [chB HiB].
      destruct (si_an _ _ _ _ _ _ _ _ _ SA x chA HiA) as [a [sx [sx1 [ca [o [A1 [A2 [A3 [A4 [A5 [A6 A7]]]]]]]]]]].
      destruct (si_an _ _ _ _ _ _ _ _ _ SB x chB HiB) as [b [sy [sy1 [cb [o2 [B1 [B2 [B3 [B4 [B5 [B6 B7]]]]]]]]]]].
      pose proof (Conf a b A1 B1 (eq_trans A2 (eq_sym B2))) as Hab.
      assert (Hn : NSR (fpD f lv x) (fpL f lv x) sx sy) by (apply (NSR_same_on _ _ s0A s0B); assumption).
      rewrite <- A2 in Hn.
      destruct (step_det IA IB f lv time chgA chgB a b sx sy sx1 sy1 chA chB ca cb o o2 Hdet Hok HnA HnB Hchg Hab
                  (lt_nd _ _ _ _ _ _ _ _ LA a A1) (lt_nd _ _ _ _ _ _ _ _ LB b B1) Hn A4 B4) as [_ [Eca [Hn1 Hob]]].
      rewrite A2 in Hn1. subst cb.
      split; [apply (NSR_same_on _ _ sx1 sy1); assumption|]. split.
      + rewrite A6, B6, Hw0. reflexivity.
      + intros d Hd. rewrite (A7 d Hd), (B7 d Hd). apply Hob.
    - assert (HninB : ~ In x (ans_comps trB)) by (intros H; apply Hnin; apply AnsAB; exact H).
      destruct (si_un _ _ _ _ _ _ _ _ _ SA x Hnin) as [U1 [U2 U3]]. destruct (si_un _ _ _ _ _ _ _ _ _ SB x HninB) as [V1 [V2 V3]].
      split; [apply (NSR_same_on _ _ s0A s0B); assumption|]. split.
      + rewrite U2, V2. exact Hw0.
      + intros d Hd. rewrite (U3 d Hd), (V3 d Hd). constructor. }
  destruct (in_subtree_fp f lv Hnk) as [HD HL].
  split; [|split].
  - unfold exposed. destruct (find_dispatch trA exp_id) as [a|] eqn:EA, (find_dispatch trB exp_id) as [b|] eqn:EB.
    + destruct (find_dispatch_In _ _ _ EA) as [Ia Ea]. destruct (find_dispatch_In _ _ _ EB) as [Ib Eb].
      pose proof (Conf a b Ia Ib (eq_trans Ea (eq_sym Eb))) as Hab.
      destruct a as [c1 t1 x|c1 t1], b as [c2 t2 y|c2 t2]; cbn [action_equiv] in Hab; try contradiction.
      * destruct Hab as [_ [_ H]]. exact H.
      * intros q. reflexivity.
    + exfalso. destruct (find_dispatch_In _ _ _ EA) as [Ia Ea]. apply (find_dispatch_None _ _ EB). apply Part. exists a. split; assumption.
    + exfalso. destruct (find_dispatch_In _ _ _ EB) as [Ib Eb]. apply (find_dispatch_None _ _ EA). apply Part. exists b. split; assumption.
    + intros q. reflexivity.
  - split.
    + intros d Hd. destruct (HD d Hd) as [x Hx']. destruct (Comp x) as [[Hdr _] _]. apply Hdr. exact Hx'.
    + intros l Hl. destruct (HL l Hl) as [->|[x Hx']].
      * destruct Hs0 as [_ HL0]. destruct (HL0 lv (or_introl eq_refl)) as [[Na [Nb W]] [Ei Et]].
        split; [|split].
        -- split; [apply (si_nd _ _ _ _ _ _ _ _ _ SA Na)|]. split; [apply (si_nd _ _ _ _ _ _ _ _ _ SB Nb)|]. intros c. apply (Comp c).
        -- rewrite (si_int _ _ _ _ _ _ _ _ _ SA), (si_int _ _ _ _ _ _ _ _ _ SB). exact Ei.
        -- rewrite (si_tk _ _ _ _ _ _ _ _ _ SA), (si_tk _ _ _ _ _ _ _ _ _ SB). exact Et.
      * destruct (Comp x) as [[_ Hlr] _]. apply Hlr. exact Hx'.
  - intros d. destruct (in_dec Pos.eq_dec d (devices_below cfg (S f) lv)) as [Hd|Hd].
    + destruct (HD d Hd) as [x Hx']. apply (Comp x). exact Hx'.
    + rewrite (dev_obs_outside d obA _ (lt_obs _ _ _ _ _ _ _ _ LA) Hd), (dev_obs_outside d obB _ (lt_obs _ _ _ _ _ _ _ _ LB) Hd). constructor.
Qed.
End LevelRel.

Lemma level_det f lv time chgA chgB rootsA rootsB extA extB s0A s0B stA trA sA obA stB trB sB obB :
  det_at f -> subtree_ok (S f) lv ->
  NoDup (keys chgA) -> NoDup (keys chgB) -> eqv chgA chgB ->
  (forall c, In c rootsA <-> In c rootsB) ->
  NSR (devices_below cfg (S f) lv) (levels_below cfg (S f) lv) s0A s0B ->
  SRun cfg devf (NT cfg devf f) lv time chgA (l_conns (level_of cfg lv)) (lcomps (level_of cfg lv)) rootsA extA s0A stA trA sA obA -> todo stA = [] ->
  SRun cfg devf (NT cfg devf f) lv time chgB (l_conns (level_of cfg lv)) (lcomps (level_of cfg lv)) rootsB extB s0B stB trB sB obB -> todo stB = [] ->
  eqv (exposed trA) (exposed trB) /\
  NSR (devices_below cfg (S f) lv) (levels_below cfg (S f) lv) sA sB /\
  (forall d, obs_rel (dev_obs d obA) (dev_obs d obB)).
Proof.
  intros Hdet Hok HnA HnB Hchg Hroots Hs0 HRA HtA HRB HtB.
  apply (level_rel f lv time Hok (NT cfg devf f) (NT cfg devf f) chgA chgB rootsA rootsB extA extB s0A s0B trA sA obA trB sB obB
           Hdet (NT_inner_nd f) (NT_inner_nd f) HnA HnB Hchg Hroots Hs0
           (srun_LT f lv time Hok _ chgA rootsA extA s0A stA trA sA obA (NT_framed f) (NT_inner_nd f) HnA HRA HtA)
           (srun_LT f lv time Hok _ chgB rootsB extB s0B stB trB sB obB (NT_framed f) (NT_inner_nd f) HnB HRB HtB)).
Qed.

(* ---------- the prologue of a level's tick (due wakeups and interrupts are taken, the tick is logged) *)
Lemma weq_filter_any (p : comp * Z -> bool) a b : weq a b -> weq (filter p a) (filter p b).
Proof.
  intros [Ha [Hb H]]. split; [apply NoDup_keys_filter; exact Ha|]. split; [apply NoDup_keys_filter; exact Hb|].
  intros c. rewrite !lookup_filter_nodup by assumption. rewrite (H c). reflexivity.
Qed.

Lemma prologue_lv s lv time :
  wake_of (nprologue cfg s lv time) lv = filter (fun e : comp * Z => negb (Z.leb (snd e) time)) (wake_of s lv) /\
  int_of (nprologue cfg s lv time) lv = [] /\ memb lv (s_ticked (nprologue cfg s lv time)) = true.
Proof.
  unfold nprologue. split; [|split].
  - change (wake_of (log_tick (mark_ticked (set_int (set_wake s lv ?w) lv []) lv) lv time ?r) lv) with (wake_of (set_wake s lv w) lv).
    apply wake_of_set_wake.
  - unfold int_of, log_tick, mark_ticked, set_int, set_wake. cbn [s_int]. apply get_d_upd_same.
  - unfold log_tick, mark_ticked, set_int, set_wake. cbn [s_ticked].
    destruct (memb lv (s_ticked s)) eqn:E; [exact E|]. cbn [memb existsb]. rewrite Pos.eqb_refl. reflexivity.
Qed.

Lemma prologue_NSR D L sA sB lv time :
  NSR D L sA sB -> NSR D L (nprologue cfg sA lv time) (nprologue cfg sB lv time).
Proof.
  intros [HD HL]. split.
  - intros d Hd. exact (HD d Hd).
  - intros l Hl. destruct (HL l Hl) as [W [Ei Et]]. destruct (Pos.eq_dec l lv) as [->|Hne].
    + destruct (prologue_lv sA lv time) as [A1 [A2 A3]]. destruct (prologue_lv sB lv time) as [B1 [B2 B3]].
      rewrite A1, A2, A3, B1, B2, B3. split; [apply weq_filter_any; exact W | split; reflexivity].
    + destruct (prologue_framed sA lv time [] [lv] (or_introl eq_refl)) as [_ [FA _]].
      destruct (prologue_framed sB lv time [] [lv] (or_introl eq_refl)) as [_ [FB _]].
      assert (Hn : ~ In l [lv]) by (intros [E|[]]; apply Hne; symmetry; exact E).
      destruct (FA l Hn) as [A1 [A2 A3]]. destruct (FB l Hn) as [B1 [B2 B3]].
      rewrite A1, A2, A3, B1, B2, B3. split; [exact W | split; assumption].
Qed.

Lemma nroots_iff sA sB lv time :
  weq (wake_of sA lv) (wake_of sB lv) -> int_of sA lv = int_of sB lv -> memb lv (s_ticked sA) = memb lv (s_ticked sB) ->
  forall c, In c (nroots cfg sA lv time) <-> In c (nroots cfg sB lv time).
Proof.
  intros W Ei Et c. unfold nroots. rewrite Ei, Et. rewrite !in_app_iff.
  assert (Hm : In c (map fst (filter (fun e : comp * Z => Z.leb (snd e) time) (wake_of sA lv))) <->
               In c (map fst (filter (fun e : comp * Z => Z.leb (snd e) time) (wake_of sB lv)))).
  { rewrite !in_map_iff. pose proof (weq_in _ _ W) as Hin.
    split; intros [e [Ee Hi]]; exists e; (split; [exact Ee|]); apply filter_In in Hi; apply filter_In; (split; [apply Hin; apply Hi | apply Hi]). }
  rewrite Hm. reflexivity.
Qed.

(* ---------- the theorem: a tick of a nested simulation, under any two schedules of all its levels *)
Theorem NT_det : forall f, det_at f.
Proof.
  induction f as [|f IH]; intros lv Hok time chgA chgB sA sB sA' sB' outA outB caA caB obA obB HnA HnB Hchg Hs HA HB.
  - cbn [NT] in HA, HB. destruct HA as [-> [-> [-> ->]]]. destruct HB as [-> [-> [-> ->]]].
    split; [intros q; reflexivity|]. split; [constructor|]. split; [constructor|]. split; [reflexivity|]. split; [exact Hs | intros d; constructor].
  - pose proof (NT_out_nd _ _ _ _ _ _ _ _ _ HA) as NoA. pose proof (NT_out_nd _ _ _ _ _ _ _ _ _ HB) as NoB.
    cbn [NT] in HA, HB. destruct HA as [extA [stA [trA [HRA [HtA [-> ->]]]]]]. destruct HB as [extB [stB [trB [HRB [HtB [-> ->]]]]]].
    destruct Hs as [HD HL]. destruct (HL lv (or_introl eq_refl)) as [W [Ei Et]].
    destruct (level_det f lv time chgA chgB _ _ extA extB _ _ stA trA sA' obA stB trB sB' obB IH Hok HnA HnB Hchg
                (nroots_iff sA sB lv time W Ei Et) (prologue_NSR _ _ sA sB lv time (conj HD HL)) HRA HtA HRB HtB) as [Ho [Hs' Hob]].
    split; [exact Ho|]. split; [exact NoA|]. split; [exact NoB|]. split.
    + apply min_wake_weq. destruct Hs' as [_ HL']. apply (HL' lv (or_introl eq_refl)).
    + split; [exact Hs' | exact Hob].
Qed.


(* ---------- whole runs of the master on a script, under any two schedules of all levels *)
Notation NSRt f := (NSR (devices_below cfg (S f) top) (levels_below cfg (S f) top)).

Lemma NSR_set_wake D L sA sB lv wa wb : NSR D L sA sB -> weq wa wb -> NSR D L (set_wake sA lv wa) (set_wake sB lv wb).
Proof.
  intros [HD HL] Hw. split; [intros d Hd; exact (HD d Hd)|].
  intros l Hl. destruct (HL l Hl) as [W [Ei Et]]. destruct (Pos.eq_dec l lv) as [->|Hne].
  - rewrite !wake_of_set_wake. split; [exact Hw | split; [exact Ei | exact Et]].
  - rewrite !wake_of_set_wake_other by exact Hne. split; [exact W | split; [exact Ei | exact Et]].
Qed.

Lemma mtick_det f sA sB t rA rB sA' oA sB' oB :
  subtree_ok (S f) top -> NSRt f sA sB -> (forall c, In c rA <-> In c rB) ->
  mtick cfg devf f sA t rA sA' oA -> mtick cfg devf f sB t rB sB' oB ->
  NSRt f sA' sB' /\ forall d, obs_rel (dev_obs d oA) (dev_obs d oB).
Proof.
  intros Hok Hs Hr [extA [stA [trA [HRA HtA]]]] [extB [stB [trB [HRB HtB]]]].
  assert (Hs0 : NSRt f (log_tick sA top t rA) (log_tick sB top t rB)) by (destruct Hs as [HD HL]; split; [exact HD | exact HL]).
  destruct (level_det f top t [] [] rA rB extA extB _ _ stA trA sA' oA stB trB sB' oB (NT_det f) Hok (NoDup_nil _) (NoDup_nil _)
              (fun q => eq_refl) Hr Hs0 HRA HtA HRB HtB) as [_ [H1 H2]].
  split; assumption.
Qed.

Theorem nested_schedule_independent f : subtree_ok (S f) top -> forall script sA obA sA' obA',
  NNRun cfg devf f script sA obA sA' obA' -> forall sB obB sB' obB', NNRun cfg devf f script sB obB sB' obB' ->
  NSRt f sA sB -> (forall d, obs_rel (dev_obs d obA) (dev_obs d obB)) ->
  NSRt f sA' sB' /\ forall d, obs_rel (dev_obs d obA') (dev_obs d obB').
Proof.
  intros Hok.
  assert (Wtop : forall sA sB, NSRt f sA sB -> weq (wake_of sA top) (wake_of sB top)).
  { intros sA sB [_ HL]. apply (HL top (or_introl eq_refl)). }
  induction 1 as [sA obA | c w r sA obA sA' obA' HA IH | r sA obA sA' obA' EA HA IH
                  | r sA obA when rootsA s2A oA sA' obA' EA TA HA IH]; intros sB obB sB' obB' HB HS HO.
  - inversion HB as [s0 ob0 | c0 w0 r0 s0 ob0 s0' ob0' HB' | r0 s0 ob0 s0' ob0' EB HB' | r0 s0 ob0 when0 roots0 s20 o0 s0' ob0' EB TB HB']; subst. split; assumption.
  - inversion HB as [s0 ob0 | c0 w0 r0 s0 ob0 s0' ob0' HB' | r0 s0 ob0 s0' ob0' EB HB' | r0 s0 ob0 when0 roots0 s20 o0 s0' ob0' EB TB HB']; subst. apply (IH _ _ _ _ HB'); [|exact HO].
    unfold stim. apply NSR_set_wake; [exact HS|].
    destruct (Wtop _ _ HS) as [Hna [Hnb Hlk]]. rewrite (Hlk c). apply weq_upd. split; [exact Hna | split; [exact Hnb | exact Hlk]].
  - pose proof (weq_first _ _ (Wtop _ _ HS)) as F. rewrite EA in F. inversion HB as [s0 ob0 | c0 w0 r0 s0 ob0 s0' ob0' HB' | r0 s0 ob0 s0' ob0' EB HB' | r0 s0 ob0 when0 roots0 s20 o0 s0' ob0' EB TB HB']; subst.
    + apply (IH _ _ _ _ HB' HS HO).
    + rewrite EB in F. destruct F.
  - pose proof (weq_first _ _ (Wtop _ _ HS)) as F. rewrite EA in F. inversion HB as [s0 ob0 | c0 w0 r0 s0 ob0 s0' ob0' HB' | r0 s0 ob0 s0' ob0' EB HB' | r0 s0 ob0 when0 roots0 s20 o0 s0' ob0' EB TB HB']; subst.
    + rewrite EB in F. destruct F.
    + rewrite EB in F. destruct F as [Ew Hr]. subst when0.
      destruct (mtick_det f _ _ _ _ _ _ _ _ _ Hok (NSR_set_wake _ _ sA sB top _ _ HS (weq_filter _ _ rootsA roots0 (Wtop _ _ HS) Hr)) Hr TA TB) as [HS2 HO2].
      apply (IH _ _ _ _ HB' HS2). intros d. rewrite !dev_obs_app. apply obs_rel_app; [apply HO | apply HO2].
Qed.

Lemma NSR_init D L : NSR D L (set_wake s_init top []) (set_wake s_init top []).
Proof.
  split.
  - intros c _. split; [reflexivity|]. split; [intros q; reflexivity|]. split; [reflexivity|]. split; constructor.
  - intros l _. split; [|split; reflexivity]. destruct (Pos.eq_dec l top) as [->|Hne].
    + rewrite wake_of_set_wake. split; [constructor|]. split; [constructor | reflexivity].
    + rewrite wake_of_set_wake_other by exact Hne. split; [constructor|]. split; [constructor | reflexivity].
Qed.

(* from the start: every device observes the same sequence of (time, inputs), and the simulation ends in the
   same state (as dictionaries), under every schedule of every level *)
Theorem nnrun_deterministic f initial script sA obA sB obB : subtree_ok (S f) top ->
  nnrun cfg devf f initial script sA obA -> nnrun cfg devf f initial script sB obB ->
  NSRt f sA sB /\ forall d, obs_rel (dev_obs d obA) (dev_obs d obB).
Proof.
  intros Hok [s1A [o1A [TA RA]]] [s1B [o1B [TB RB]]].
  destruct (mtick_det f _ _ _ _ _ _ _ _ _ Hok (NSR_init _ _) (fun c => iff_refl _) TA TB) as [HS HO].
  apply (nested_schedule_independent f Hok script s1A o1A sA obA RA s1B o1B sB obB RB HS HO).
Qed.

End ND.
