(* Theorems about the message-level model of the master scheduler (Model/Master.v). *)
From TV Require Import Base Model.Wiring Model.Ticker Model.Master Proofs.WiringP Proofs.TickerP.
Open Scope Z_scope.

(* ---------- arithmetic of pacing *)
Lemma cdiv_le a b n : 0 < n -> a <= b * n -> cdiv a n <= b.
Proof.
  intros Hn H. unfold cdiv. assert (Hlt : (a + n - 1) / n < b + 1) by (apply Z.div_lt_upper_bound; [exact Hn | nia]). lia.
Qed.

Lemma cdiv_ge a n : 0 < n -> a <= cdiv a n * n.
Proof.
  intros Hn. unfold cdiv. assert (H := Z.div_mod (a + n - 1) n). assert (H2 := Z.mod_pos_bound (a + n - 1) n Hn). nia.
Qed.

Lemma cdiv_mono a b n : 0 < n -> a <= b -> cdiv a n <= cdiv b n.
Proof. intros Hn H. unfold cdiv. apply Z.div_le_mono; lia. Qed.

Lemma fdiv_le x d : 0 < d -> (x / d) * d <= x.
Proof. intros Hd. assert (H := Z.div_mod x d). assert (H2 := Z.mod_pos_bound x d Hd). nia. Qed.

Lemma fdiv_ge k x d : 0 < d -> k * d <= x -> k <= x / d.
Proof. intros Hd H. apply Z.div_le_lower_bound; [exact Hd | nia]. Qed.

(* ---------- get_first_wakeups *)
Lemma min_of_acc w : forall acc,
  fold_left (fun m (e : comp * Z) => match m with None => Some (snd e) | Some x => Some (Z.min x (snd e)) end) w (Some acc)
  = Some (fold_left (fun x (e : comp * Z) => Z.min x (snd e)) w acc).
Proof. induction w as [|e r IH]; intros acc; simpl; [reflexivity | apply IH]. Qed.

Lemma fold_min_le w : forall acc, fold_left (fun x (e : comp * Z) => Z.min x (snd e)) w acc <= acc /\
  (forall e, In e w -> fold_left (fun x (e : comp * Z) => Z.min x (snd e)) w acc <= snd e).
Proof.
  induction w as [|e r IH]; intros acc; simpl.
  - split; [lia | intros e []].
  - destruct (IH (Z.min acc (snd e))) as [H1 H2]. split; [lia|]. intros e' [<-|He']; [lia | apply H2; exact He'].
Qed.

Lemma fold_min_attained w : forall acc,
  fold_left (fun x (e : comp * Z) => Z.min x (snd e)) w acc = acc \/
  exists e, In e w /\ fold_left (fun x (e : comp * Z) => Z.min x (snd e)) w acc = snd e.
Proof.
  induction w as [|e r IH]; intros acc; simpl; [left; reflexivity|].
  destruct (IH (Z.min acc (snd e))) as [H|[e' [He' H]]].
  - destruct (Z.min_spec acc (snd e)) as [[_ Hm]|[_ Hm]].
    + left. rewrite H. exact Hm.
    + right. exists e. split; [left; reflexivity | rewrite H; exact Hm].
  - right. exists e'. split; [right; exact He' | exact H].
Qed.

(* the wakeup time chosen is the minimum, and the components chosen are exactly those due then *)
Lemma min_of_spec w m : min_of w = Some m ->
  (forall c x, In (c, x) w -> m <= x) /\ (exists c, In (c, m) w).
Proof.
  unfold min_of. destruct w as [|[c0 x0] r]; simpl; [discriminate|].
  rewrite min_of_acc. intros H. inversion H; subst m; clear H.
  destruct (fold_min_le r x0) as [Hle Hall]. split.
  - intros c x [Hx|Hx]; [inversion Hx; subst; exact Hle | apply (Hall (c, x) Hx)].
  - destruct (fold_min_attained r x0) as [Hm|[[c x] [Hin Hm]]].
    + exists c0. left. rewrite Hm. reflexivity.
    + exists c. right. simpl in Hm. rewrite Hm. exact Hin.
Qed.

Lemma first_wakeups_spec w when roots :
  first_wakeups w = Some (when, roots) ->
  (forall c x, In (c, x) w -> when <= x) /\
  (exists c, In (c, when) w) /\
  (forall c, In c roots <-> In (c, when) w).
Proof.
  unfold first_wakeups. destruct (min_of w) as [m|] eqn:E; [|discriminate].
  intros H. inversion H; subst when roots; clear H.
  destruct (min_of_spec w m E) as [H1 H2]. split; [exact H1|]. split; [exact H2|].
  intros c. rewrite in_map_iff. split.
  - intros [[c' x] [Hc Hf]]. simpl in Hc. subst c'. apply filter_In in Hf. destruct Hf as [Hf He]. simpl in He.
    apply Z.eqb_eq in He. subst x. exact Hf.
  - intros Hin. exists (c, m). split; [reflexivity|]. apply filter_In. split; [exact Hin | apply Z.eqb_refl].
Qed.

Lemma first_wakeups_none w : first_wakeups w = None <-> w = [].
Proof.
  unfold first_wakeups, min_of. destruct w as [|[c x] r]; simpl; [split; reflexivity|].
  rewrite min_of_acc. split; discriminate.
Qed.

Section M.
Variable conns : list conn.
Variable comps : list comp.
Variable initial : Z.
Variable num den : Z.
Hypothesis Hnum : 0 < num.
Hypothesis Hden : 0 < den.

Notation step := (step conns comps initial num den).
Notation plan := (plan num den).
Notation stamp := (stamp num den).
Notation due_real := (due_real num den).

(* ---------- C07 / C12: the scheduler never sleeps past the due time of any pending wakeup *)
Lemma plan_never_sleeps_past m r c w m' outs :
  plan m r = (m', outs) -> In (c, w) (mw m) ->
  exists when roots d, mp m' = PSleep when roots d /\ outs = [OArm d] /\ when <= w /\
                       d = Z.max r (due_real m when) /\ d <= Z.max r (due_real m w).
Proof.
  unfold Master.plan. destruct (first_wakeups (mw m)) as [[when roots]|] eqn:E.
  - intros H Hin. inversion H; subst m' outs; clear H. destruct (first_wakeups_spec _ _ _ E) as [Hmin _].
    specialize (Hmin c w Hin). exists when, roots, (Z.max r (due_real m when)). simpl.
    repeat split; auto. unfold Master.due_real.
    assert (cdiv ((when - ma_t m) * den) num <= cdiv ((w - ma_t m) * den) num) by (apply cdiv_mono; [exact Hnum | nia]). lia.
  - intros _ Hin. apply first_wakeups_none in E. rewrite E in Hin. destruct Hin.
Qed.

(* the time stamp of an interrupt: the simulation time corresponding to the real time of its
   arrival, rounded down to a whole nanosecond *)
Lemma stamp_bounds m r : ma_r m <= r ->
  (stamp m r - ma_t m) * den <= (r - ma_r m) * num < (stamp m r - ma_t m + 1) * den.
Proof.
  intros Hr. unfold Master.stamp. replace (ma_t m + (r - ma_r m) * num / den - ma_t m) with ((r - ma_r m) * num / den) by lia.
  assert (H := Z.div_mod ((r - ma_r m) * num) den). assert (H2 := Z.mod_pos_bound ((r - ma_r m) * num) den Hden). nia.
Qed.

(* ... and it is already due: its real due time is not after r *)
Lemma stamp_due m r : ma_r m <= r -> due_real m (stamp m r) <= r.
Proof.
  intros Hr. unfold Master.due_real. destruct (stamp_bounds m r Hr) as [H1 _].
  assert (cdiv ((stamp m r - ma_t m) * den) num <= r - ma_r m) by (apply cdiv_le; [exact Hnum | lia]). lia.
Qed.

Lemma due_real_mono m a b : a <= b -> due_real m a <= due_real m b.
Proof.
  intros H. unfold Master.due_real. assert (cdiv ((a - ma_t m) * den) num <= cdiv ((b - ma_t m) * den) num) by (apply cdiv_mono; [exact Hnum | nia]). lia.
Qed.

(* an interrupt of c, in any phase once the scheduler has started: c gets a wakeup not later
   than the stamp -- never later than one that was already pending *)
Lemma interrupt_owed m r c m' outs :
  step m r (IInterrupt c) = (m', outs) -> mp m <> PInit -> mp m <> PStopped ->
  exists w, lookup c (mw m') = Some w /\ w <= stamp m r /\
            (forall w0, lookup c (mw m) = Some w0 -> w <= w0).
Proof.
  intros Hs Hi Hst. simpl in Hs.
  assert (Hw : exists w, lookup c (interrupt_wake num den m r c) = Some w /\ w <= stamp m r /\
                         (forall w0, lookup c (mw m) = Some w0 -> w <= w0)).
  { unfold interrupt_wake. rewrite lookup_upd_same. destruct (lookup c (mw m)) as [w0|] eqn:E.
    - exists (Z.min (stamp m r) w0). split; [reflexivity|]. split; [lia|]. intros w1 H1. inversion H1; subst. lia.
    - exists (stamp m r). split; [reflexivity|]. split; [lia|]. intros w1 H1. discriminate. }
  destruct (mp m) eqn:Ep; try contradiction.
  - inversion Hs; subst m' outs. simpl. exact Hw.
  - unfold Master.plan in Hs. simpl in Hs. destruct (first_wakeups (interrupt_wake num den m r c)) as [[w1 r1]|]; inversion Hs; subst m'; simpl; exact Hw.
  - unfold Master.plan in Hs. simpl in Hs. destruct (first_wakeups (interrupt_wake num den m r c)) as [[w1 r1]|]; inversion Hs; subst m'; simpl; exact Hw.
Qed.

(* ... and if the scheduler is not in a tick it wakes up at once: the sleep it arms ends now *)
Lemma interrupt_prompt_when_idle m r c m' outs :
  step m r (IInterrupt c) = (m', outs) -> ma_r m <= r ->
  (mp m = PIdle \/ exists w0 r0 d0, mp m = PSleep w0 r0 d0) ->
  exists when roots, mp m' = PSleep when roots r /\ outs = [OArm r] /\ when <= stamp m r.
Proof.
  intros Hs Hr Hph. simpl in Hs.
  set (m1 := {| mp := PIdle; mw := interrupt_wake num den m r c; ma_t := ma_t m; ma_r := ma_r m; m_err := m_err m |}) in *.
  assert (Hplan : plan m1 r = (m', outs)).
  { destruct Hph as [Hp|[w0 [r0 [d0 Hp]]]]; rewrite Hp in Hs; exact Hs. }
  assert (Hin : exists w, In (c, w) (mw m1) /\ w <= stamp m r).
  { unfold m1. simpl. unfold interrupt_wake. destruct (lookup c (mw m)) as [w0|].
    - exists (Z.min (stamp m r) w0). split; [apply lookup_In; apply lookup_upd_same | lia].
    - exists (stamp m r). split; [apply lookup_In; apply lookup_upd_same | lia]. }
  destruct Hin as [w [Hin Hw]].
  destruct (plan_never_sleeps_past m1 r c w m' outs Hplan Hin) as [when [roots [d [Hp [Ho [Hle [Hd Hd2]]]]]]].
  assert (Hdue : due_real m1 w <= r).
  { eapply Z.le_trans; [apply due_real_mono; exact Hw|]. apply (stamp_due m r Hr). }
  assert (Hdr : d = r) by (rewrite Hd in *; lia). subst d. rewrite Hdr in *. exists when, roots. split; [exact Hp|]. split; [exact Ho|]. lia.
Qed.
End M.

(* ---------- runs of the master in real time, with a well-behaved environment *)
Section Runs.
Variable conns : list conn.
Variable comps : list comp.
Variable initial : Z.
Variable num den : Z.
Hypothesis Hnum : 0 < num.
Hypothesis Hden : 0 < den.

Notation step := (Master.step conns comps initial num den).
Notation due_real := (Master.due_real num den).
Notation stamp := (Master.stamp num den).

(* what the environment may do: real time does not run backwards (stated in MRun), the sleep
   timer does not fire before its deadline, no component asks to be called back before the time
   of the tick it is answering *)
Definition env_ok (m : master) (r : Z) (i : min) : Prop :=
  match i with
  | ITimer => match mp m with PSleep _ _ d => d <= r | _ => True end
  | IOutput _ t _ (Some w) => t <= w
  | _ => True
  end.

Inductive MRun : master -> Z -> list mout -> Prop :=
| MR_init : forall r, MRun (m_init initial) r []
| MR_step : forall m now outs r i m' o,
    MRun m now outs -> now <= r -> env_ok m r i -> step m r i = (m', o) -> MRun m' r (outs ++ o).

(* the time of the latest tick started so far *)
Definition low (m : master) : Z := match mp m with PTick _ when => when | _ => ma_t m end.

Definition tick_times (outs : list mout) : list Z :=
  flat_map (fun o => match o with OTickStart t _ => [t] | _ => [] end) outs.

Record MInv (m : master) (now : Z) : Prop := {
  mi_real : mp m = PInit \/ ma_r m <= now;
  mi_wake : forall c w, In (c, w) (mw m) -> low m <= w;
  mi_tick : forall st when, mp m = PTick st when -> tt st = when /\ due_real m when <= now /\ ma_t m <= when;
  mi_sleep : forall when roots d, mp m = PSleep when roots d ->
             first_wakeups (mw m) = Some (when, roots) /\ due_real m when <= d;
  mi_init : mp m = PInit -> mw m = [] /\ ma_t m = initial
}.

Lemma MInv_later m now r : MInv m now -> now <= r -> MInv m r.
Proof.
  intros [H1 H2 H3 H4 H5] Hr. constructor; auto.
  - destruct H1; [left; assumption | right; lia].
  - intros st when Hp. destruct (H3 st when Hp) as [A [B C]]. repeat split; auto; lia.
Qed.

Lemma schedule_times st st' acts : schedule conns comps st = Some (st', acts) ->
  tt st' = tt st /\ forall a, In a acts -> act_time a = tt st.
Proof.
  intros H. destruct (schedule_fields conns comps st st' acts H) as [Ht _]. split; [exact Ht|].
  intros a Ha. apply (schedule_acts conns comps st st' acts a H) in Ha. destruct Ha as [c [_ [_ ->]]]. apply mk_action_time.
Qed.

Lemma begin_tick_spec m when roots w m' outs :
  begin_tick conns comps m when roots w = (m', outs) ->
  (m' = m /\ outs = [OFail]) \/
  (exists st1 acts, mp m' = PTick st1 when /\ tt st1 = when /\ mw m' = w /\ ma_t m' = ma_t m /\ ma_r m' = ma_r m /\
                    outs = OTickStart when roots :: map OAct acts /\ forall a, In a acts -> act_time a = when).
Proof.
  unfold begin_tick. destruct (start_tick conns when roots) as [st0|] eqn:Es; [|intros H; inversion H; auto].
  destruct (schedule conns comps st0) as [[st1 acts]|] eqn:Esch; [|intros H; inversion H; auto].
  intros H. inversion H; subst m' outs. right. exists st1, acts. simpl.
  destruct (schedule_times st0 st1 acts Esch) as [Ht Ha].
  assert (Ht0 : tt st0 = when) by (apply (start_tick_spec conns when roots st0 Es)). rewrite Ht0 in *.
  repeat split; auto.
Qed.

Lemma stamp_ge_tick m r when : ma_r m <= r -> due_real m when <= r -> when <= stamp m r.
Proof.
  intros Hr Hd. unfold Master.due_real in Hd. unfold Master.stamp.
  assert (H1 : cdiv ((when - ma_t m) * den) num <= r - ma_r m) by lia.
  assert (H2 := cdiv_ge ((when - ma_t m) * den) num Hnum).
  assert (H3 : (when - ma_t m) * den <= (r - ma_r m) * num) by nia.
  assert (H4 : when - ma_t m <= (r - ma_r m) * num / den) by (apply fdiv_ge; [exact Hden | exact H3]). lia.
Qed.

Lemma stamp_ge_anchor m r : ma_r m <= r -> ma_t m <= stamp m r.
Proof.
  intros Hr. unfold Master.stamp. assert (0 <= (r - ma_r m) * num / den) by (apply Z.div_pos; nia). lia.
Qed.

Lemma tick_times_acts acts : tick_times (map OAct acts) = [].
Proof. induction acts as [|a r IH]; simpl; [reflexivity | exact IH]. Qed.

Lemma tick_times_stops l : tick_times (map OStop l) = [].
Proof. induction l as [|x r IH]; simpl; [reflexivity | exact IH]. Qed.

Lemma tick_times_app a b : tick_times (a ++ b) = tick_times a ++ tick_times b.
Proof. unfold tick_times. apply flat_map_app. Qed.

Lemma interrupt_wake_in m r c c' w :
  In (c', w) (interrupt_wake num den m r c) ->
  In (c', w) (mw m) \/ (c' = c /\ (w = stamp m r \/ exists w0, In (c, w0) (mw m) /\ w = Z.min (stamp m r) w0)).
Proof.
  unfold interrupt_wake. intros H. apply In_upd_cases in H. destruct H as [[-> Hw]|H]; [|left; exact H].
  right. split; [reflexivity|]. destruct (lookup c (mw m)) as [w0|] eqn:E.
  - right. exists w0. split; [apply lookup_In; exact E | exact Hw].
  - left. exact Hw.
Qed.

Lemma plan_inv m r m' outs :
  Master.plan num den m r = (m', outs) -> ma_r m <= r ->
  (forall c w, In (c, w) (mw m) -> ma_t m <= w) ->
  mw m' = mw m /\ ma_t m' = ma_t m /\ ma_r m' = ma_r m /\
  (mp m' = PIdle \/ exists when roots d, mp m' = PSleep when roots d /\ first_wakeups (mw m) = Some (when, roots) /\
                                        due_real m when <= d /\ r <= d).
Proof.
  unfold Master.plan. intros H Hr Hw. destruct (first_wakeups (mw m)) as [[when roots]|] eqn:E; inversion H; subst m' outs; simpl.
  - repeat split; auto. right. exists when, roots, (Z.max r (due_real m when)). repeat split; auto; lia.
  - repeat split; auto.
Qed.

Lemma MInv_rest p w t a e r :
  (p = PIdle \/ p = PStopped) -> a <= r -> (forall c x, In (c, x) w -> t <= x) ->
  MInv {| mp := p; mw := w; ma_t := t; ma_r := a; m_err := e |} r.
Proof.
  intros Hp Ha Hw. constructor; simpl.
  - right. exact Ha.
  - intros c x Hin. unfold low. simpl. destruct Hp as [-> | ->]; apply (Hw c x Hin).
  - intros st when H. destruct Hp as [-> | ->]; discriminate.
  - intros when roots d H. destruct Hp as [-> | ->]; discriminate.
  - intros H. destruct Hp as [-> | ->]; discriminate.
Qed.

Lemma MInv_tick st when w t a e r :
  tt st = when -> a <= r -> a + cdiv ((when - t) * den) num <= r -> t <= when ->
  (forall c x, In (c, x) w -> when <= x) ->
  MInv {| mp := PTick st when; mw := w; ma_t := t; ma_r := a; m_err := e |} r.
Proof.
  intros Htt Ha Hdue Ht Hw. constructor; simpl.
  - right. exact Ha.
  - intros c x Hin. unfold low. simpl. apply (Hw c x Hin).
  - intros st2 wn H. inversion H; subst st2 wn. repeat split; auto.
  - intros wn roots d H. discriminate.
  - intros H. discriminate.
Qed.

Lemma MInv_planned m r m' po :
  Master.plan num den m r = (m', po) -> ma_r m <= r -> (forall c x, In (c, x) (mw m) -> ma_t m <= x) ->
  MInv m' r /\ low m' = ma_t m /\ tick_times po = [].
Proof.
  intros Hpl Hr Hw. destruct (plan_inv m r m' po Hpl Hr Hw) as [Pmw [Pat [Par Pph]]].
  assert (Hlow : low m' = ma_t m).
  { unfold low. destruct Pph as [->|[wn [rs [d [-> _]]]]]; rewrite Pat; reflexivity. }
  split; [|split; [exact Hlow|]].
  - constructor.
    + right. rewrite Par. exact Hr.
    + intros c x Hin. rewrite Hlow. rewrite Pmw in Hin. apply (Hw c x Hin).
    + intros st2 wn Hp2. destruct Pph as [Hp|[wn2 [rs [d [Hp _]]]]]; rewrite Hp in Hp2; discriminate.
    + intros wn rs d Hp2. destruct Pph as [Hp|[wn2 [rs2 [d2 [Hp [Hfw [Hd _]]]]]]]; rewrite Hp in Hp2; [discriminate|].
      inversion Hp2; subst wn2 rs2 d2. rewrite Pmw. split; [exact Hfw|].
      unfold Master.due_real in *. rewrite Pat, Par. exact Hd.
    + intros Hp2. destruct Pph as [Hp|[wn2 [rs [d [Hp _]]]]]; rewrite Hp in Hp2; discriminate.
  - unfold Master.plan in Hpl. destruct (first_wakeups (mw m)) as [[? ?]|]; inversion Hpl; reflexivity.
Qed.

Lemma MInv_err m r e :
  MInv m r -> MInv {| mp := mp m; mw := mw m; ma_t := ma_t m; ma_r := ma_r m; m_err := e |} r.
Proof.
  intros [H1 H2 H3 H4 H5]. constructor; simpl; auto.
Qed.

Definition StepOk (m : master) (r : Z) (m' : master) (o : list mout) : Prop :=
  MInv m' r /\ low m <= low m' /\
  (forall t, In t (tick_times o) -> low m <= t /\ t <= low m') /\ (length (tick_times o) <= 1)%nat.

Lemma StepOk_noticks m r m' o :
  MInv m' r -> low m <= low m' -> tick_times o = [] -> StepOk m r m' o.
Proof.
  intros H1 H2 H3. unfold StepOk. rewrite H3. split; [exact H1|]. split; [exact H2|]. split; [intros t []|simpl; lia].
Qed.

(* an answer (Output with optional callback, or Skip) arriving during a tick *)
Lemma answer_ok m r c t ch ca m' o :
  MInv m r -> (match ca with Some w => t <= w | None => True end) ->
  on_answer conns comps num den m r c t ch ca = (m', o) -> StepOk m r m' o.
Proof.
  intros HI Henv Hs. destruct HI as [Ireal Iwake Itick Isleep Iinit]. unfold on_answer in Hs.
  assert (Hsame : (m', o) = (m, [OFail]) -> StepOk m r m' o).
  { intros H. inversion H; subst. apply StepOk_noticks; [constructor; auto | lia | reflexivity]. }
  destruct (mp m) as [|st when| |w0 r0 d0|] eqn:Ep; try (apply Hsame; symmetry; exact Hs).
  destruct (Itick st when eq_refl) as [Htt [Hdue Hat]].
  destruct (propagate conns comps st c t ch) as [|st' acts fin] eqn:Epr; [apply Hsame; symmetry; exact Hs|].
  destruct (propagate_ok conns comps st c t ch st' acts fin Epr) as [_ [Ht [Hsch _]]].
  destruct (schedule_times _ st' acts Hsch) as [Htt' _]. simpl in Htt'.
  assert (Hlow : low m = when) by (unfold low; rewrite Ep; reflexivity).
  assert (Hreal : ma_r m <= r) by (destruct Ireal as [H|H]; [congruence | exact H]).
  set (w' := match ca with Some x => upd c x (mw m) | None => mw m end) in *.
  assert (Hw' : forall c' x, In (c', x) w' -> when <= x).
  { intros c' x Hin. unfold w' in Hin. destruct ca as [x0|].
    - apply In_upd_cases in Hin. destruct Hin as [[_ ->]|Hin]; [lia|]. rewrite <- Hlow. apply (Iwake c' x Hin).
    - rewrite <- Hlow. apply (Iwake c' x Hin). }
  destruct fin.
  - destruct (m_err m) eqn:Eerr.
    + inversion Hs; subst m' o. apply StepOk_noticks.
      * apply MInv_rest; [right; reflexivity | lia | exact Hw'].
      * rewrite Hlow. unfold low. simpl. lia.
      * rewrite tick_times_app, tick_times_acts. reflexivity.
    + set (m1 := {| mp := PIdle; mw := w'; ma_t := when; ma_r := r; m_err := false |}) in *.
      destruct (Master.plan num den m1 r) as [m2 po] eqn:Epl. inversion Hs; subst m' o.
      destruct (MInv_planned m1 r m2 po Epl (Z.le_refl r) Hw') as [HI2 [Hlow2 Hpo]]. simpl in Hlow2.
      apply StepOk_noticks; [exact HI2 | lia |].
      rewrite tick_times_app, tick_times_acts. simpl. exact Hpo.
  - inversion Hs; subst m' o. apply StepOk_noticks.
    + apply MInv_tick; auto. rewrite Htt'. exact Htt.
    + rewrite Hlow. unfold low. simpl. lia.
    + apply tick_times_acts.
Qed.

Lemma interrupt_entries m r c lowv :
  ma_r m <= r -> lowv <= stamp m r -> (forall c0 x0, In (c0, x0) (mw m) -> lowv <= x0) ->
  forall c' x, In (c', x) (interrupt_wake num den m r c) -> lowv <= x.
Proof.
  intros Hr Hst Hold c' x Hin. apply interrupt_wake_in in Hin.
  destruct Hin as [Hin|[_ [->|[w1 [Hin ->]]]]]; [eapply Hold; exact Hin | exact Hst |].
  specialize (Hold c w1 Hin). lia.
Qed.

(* one step of the master: the invariant is kept, the latest tick time never decreases, at most
   one tick starts, and its time lies between the previous and the new latest tick time *)
Lemma step_inv m now r i m' o :
  MInv m now -> now <= r -> env_ok m r i -> step m r i = (m', o) -> StepOk m r m' o.
Proof.
  intros HI Hr Henv Hs. assert (HIr := MInv_later m now r HI Hr).
  assert (Hsame : (m', o) = (m, [OFail]) \/ (m', o) = (m, []) -> StepOk m r m' o).
  { intros [H|H]; inversion H; subst; (apply StepOk_noticks; [exact HIr | lia | reflexivity]). }
  destruct HIr as [Ireal Iwake Itick Isleep Iinit].
  destruct i as [|c t ch ca|c t|c|c|]; simpl in Hs.
  - (* IStart *)
    destruct (mp m) eqn:Ep; try (apply Hsame; left; symmetry; exact Hs).
    destruct (Iinit eq_refl) as [Hmw Hat].
    set (m0 := {| mp := PInit; mw := mw m; ma_t := initial; ma_r := r; m_err := m_err m |}) in *.
    assert (Hlow : low m = initial) by (unfold low; rewrite Ep; exact Hat).
    destruct (begin_tick_spec m0 initial comps (mw m) m' o Hs) as [[-> ->]|[st1 [acts [Hp [Htt [Hmw' [Hat' [Har' [Ho Ha]]]]]]]]].
    + apply StepOk_noticks; [|rewrite Hlow; unfold low, m0; simpl; lia | reflexivity].
      constructor; unfold m0; simpl; auto; try discriminate. intros c w Hin. rewrite Hmw in Hin. destruct Hin.
    + unfold StepOk. assert (Hlow' : low m' = initial) by (unfold low; rewrite Hp; reflexivity).
      split; [|split; [lia|split]].
      * constructor.
        -- right. rewrite Har'. unfold m0. simpl. lia.
        -- intros c w Hin. rewrite Hmw', Hmw in Hin. destruct Hin.
        -- intros st when Hp2. rewrite Hp in Hp2. inversion Hp2; subst st when. split; [exact Htt|]. split.
           ++ unfold Master.due_real. rewrite Hat', Har'. unfold m0. simpl. replace ((initial - initial) * den) with 0 by lia.
              unfold cdiv. rewrite Z.div_small by lia. lia.
           ++ rewrite Hat'. unfold m0. simpl. lia.
        -- intros when roots d Hp2. rewrite Hp in Hp2. discriminate.
        -- intros Hp2. rewrite Hp in Hp2. discriminate.
      * intros t Ht. rewrite Ho in Ht. simpl in Ht. rewrite tick_times_acts in Ht. destruct Ht as [<-|[]]. lia.
      * rewrite Ho. simpl. rewrite tick_times_acts. simpl. lia.
  - (* IOutput *)
    apply (answer_ok m r c t ch ca m' o); [constructor; auto | destruct ca; [exact Henv | exact I] | exact Hs].
  - (* ISkip *)
    apply (answer_ok m r c t [] None m' o); [constructor; auto | exact I | exact Hs].
  - (* IInterrupt *)
    destruct (mp m) as [|st when| |w0 r0 d0|] eqn:Ep; try (apply Hsame; left; symmetry; exact Hs).
    + destruct (Itick st when eq_refl) as [Htt [Hdue Hat]].
      assert (Hreal : ma_r m <= r) by (destruct Ireal as [H|H]; [congruence | exact H]).
      assert (Hlow : low m = when) by (unfold low; rewrite Ep; reflexivity).
      inversion Hs; subst m' o. apply StepOk_noticks; [|rewrite Hlow; unfold low; simpl; lia | reflexivity].
      apply MInv_tick; auto. apply interrupt_entries; [exact Hreal | apply stamp_ge_tick; assumption |].
      intros c0 x0 H0. rewrite <- Hlow. apply (Iwake c0 x0 H0).
    + assert (Hreal : ma_r m <= r) by (destruct Ireal as [H|H]; [congruence | exact H]).
      assert (Hlow : low m = ma_t m) by (unfold low; rewrite Ep; reflexivity).
      set (m1 := {| mp := PIdle; mw := interrupt_wake num den m r c; ma_t := ma_t m; ma_r := ma_r m; m_err := m_err m |}) in *.
      destruct (MInv_planned m1 r m' o Hs Hreal) as [HI2 [Hlow2 Hpo]].
      { simpl. apply interrupt_entries; [exact Hreal | apply stamp_ge_anchor; exact Hreal |].
        intros c0 x0 H0. rewrite <- Hlow. apply (Iwake c0 x0 H0). }
      simpl in Hlow2. apply StepOk_noticks; [exact HI2 | lia | exact Hpo].
    + assert (Hreal : ma_r m <= r) by (destruct Ireal as [H|H]; [congruence | exact H]).
      assert (Hlow : low m = ma_t m) by (unfold low; rewrite Ep; reflexivity).
      set (m1 := {| mp := PIdle; mw := interrupt_wake num den m r c; ma_t := ma_t m; ma_r := ma_r m; m_err := m_err m |}) in *.
      destruct (MInv_planned m1 r m' o Hs Hreal) as [HI2 [Hlow2 Hpo]].
      { simpl. apply interrupt_entries; [exact Hreal | apply stamp_ge_anchor; exact Hreal |].
        intros c0 x0 H0. rewrite <- Hlow. apply (Iwake c0 x0 H0). }
      simpl in Hlow2. apply StepOk_noticks; [exact HI2 | lia | exact Hpo].
  - (* IException *)
    assert (Hstops : tick_times (map OStop comps) = []) by apply tick_times_stops.
    destruct (mp m) as [|st when| |w0 r0 d0|] eqn:Ep.
    + apply Hsame; left; symmetry; exact Hs.
    + destruct (Itick st when eq_refl) as [Htt [Hdue Hat]].
      assert (Hreal : ma_r m <= r) by (destruct Ireal as [H|H]; [congruence | exact H]).
      assert (Hlow : low m = when) by (unfold low; rewrite Ep; reflexivity).
      inversion Hs; subst m' o.
      apply StepOk_noticks; [|rewrite Hlow; unfold low; simpl; lia | exact Hstops].
      apply MInv_rest; [right; reflexivity | lia |]. intros c0 x0 H0. rewrite <- Hlow. apply (Iwake c0 x0 H0).
    + assert (Hreal : ma_r m <= r) by (destruct Ireal as [H|H]; [congruence | exact H]).
      assert (Hlow : low m = ma_t m) by (unfold low; rewrite Ep; reflexivity).
      inversion Hs; subst m' o. apply StepOk_noticks; [|rewrite Hlow; unfold low; simpl; lia | exact Hstops].
      apply MInv_rest; [left; reflexivity | exact Hreal |]. intros c0 x0 H0. rewrite <- Hlow. apply (Iwake c0 x0 H0).
    + assert (Hreal : ma_r m <= r) by (destruct Ireal as [H|H]; [congruence | exact H]).
      assert (Hlow : low m = ma_t m) by (unfold low; rewrite Ep; reflexivity).
      destruct (Isleep w0 r0 d0 eq_refl) as [Hfw Hdue].
      inversion Hs; subst m' o. apply StepOk_noticks; [|rewrite Hlow; unfold low; simpl; lia | exact Hstops].
      constructor; simpl.
      * right. exact Hreal.
      * intros c0 x0 H0. unfold low. simpl. rewrite <- Hlow. apply (Iwake c0 x0 H0).
      * intros st when H. discriminate.
      * intros when roots d H. inversion H; subst. split; [exact Hfw | exact Hdue].
      * intros H. discriminate.
    + assert (Hreal : ma_r m <= r) by (destruct Ireal as [H|H]; [congruence | exact H]).
      assert (Hlow : low m = ma_t m) by (unfold low; rewrite Ep; reflexivity).
      inversion Hs; subst m' o. apply StepOk_noticks; [|rewrite Hlow; unfold low; simpl; lia | exact Hstops].
      apply MInv_rest; [right; reflexivity | exact Hreal |]. intros c0 x0 H0. rewrite <- Hlow. apply (Iwake c0 x0 H0).
  - (* ITimer *)
    destruct (mp m) as [|st when0| |when roots d|] eqn:Ep; try (apply Hsame; right; symmetry; exact Hs).
    destruct (Isleep when roots d eq_refl) as [Hfw Hdue]. simpl in Henv. rewrite Ep in Henv.
    assert (Hreal : ma_r m <= r) by (destruct Ireal as [H|H]; [congruence | exact H]).
    assert (Hlow : low m = ma_t m) by (unfold low; rewrite Ep; reflexivity).
    destruct (first_wakeups_spec _ _ _ Hfw) as [Hmin [[c0 Hc0] Hroots]].
    assert (Hwhen : ma_t m <= when) by (rewrite <- Hlow; apply (Iwake c0 when Hc0)).
    destruct (begin_tick_spec m when roots _ m' o Hs) as [[-> ->]|[st1 [acts [Hp [Htt [Hmw' [Hat' [Har' [Ho Ha]]]]]]]]].
    + apply Hsame. left. reflexivity.
    + assert (Hlow' : low m' = when) by (unfold low; rewrite Hp; reflexivity).
      unfold StepOk. split; [|split; [lia|split]].
      * constructor.
        -- right. rewrite Har'. exact Hreal.
        -- intros c x Hin. rewrite Hlow'. rewrite Hmw' in Hin. apply filter_In in Hin. destruct Hin as [Hin _]. apply (Hmin c x Hin).
        -- intros st wn Hp2. rewrite Hp in Hp2. inversion Hp2; subst st wn. split; [exact Htt|]. split.
           ++ unfold Master.due_real in *. rewrite Hat', Har'. lia.
           ++ rewrite Hat'. exact Hwhen.
        -- intros wn rs d2 Hp2. rewrite Hp in Hp2. discriminate.
        -- intros Hp2. rewrite Hp in Hp2. discriminate.
      * intros t Ht. rewrite Ho in Ht. simpl in Ht. rewrite tick_times_acts in Ht. destruct Ht as [<-|[]]. lia.
      * rewrite Ho. simpl. rewrite tick_times_acts. simpl. lia.
Qed.

(* ---------- consequences over whole runs *)
Lemma run_inv m now outs : MRun m now outs -> MInv m now /\ (forall t, In t (tick_times outs) -> t <= low m).
Proof.
  induction 1 as [r | m now outs r i m' o HR [IH IHt] Hnow Henv Hs].
  - split; [|intros t []]. constructor; simpl; auto; try discriminate. intros c w [].
  - destruct (step_inv m now r i m' o IH Hnow Henv Hs) as [HI [Hlow [Hnew _]]]. split; [exact HI|].
    intros t Ht. rewrite tick_times_app in Ht. apply in_app_iff in Ht. destruct Ht as [Ht|Ht].
    + specialize (IHt t Ht). lia.
    + apply Hnew. exact Ht.
Qed.

Fixpoint nondecr (l : list Z) : Prop :=
  match l with
  | a :: ((b :: _) as r) => a <= b /\ nondecr r
  | _ => True
  end.

Lemma nondecr_app_single l x : nondecr l -> (forall t, In t l -> t <= x) -> nondecr (l ++ [x]).
Proof.
  induction l as [|a r IH]; intros Hn Hle; simpl; [exact I|].
  destruct r as [|b r'].
  - simpl. split; [apply Hle; left; reflexivity | exact I].
  - simpl in Hn. destruct Hn as [Hab Hn]. simpl. split; [exact Hab|]. apply IH; [exact Hn|]. intros t Ht. apply Hle. right. exact Ht.
Qed.

(* successive tick times never decrease *)
Lemma run_monotone m now outs : MRun m now outs -> nondecr (tick_times outs).
Proof.
  induction 1 as [r | m now outs r i m' o HR IH Hnow Henv Hs]; [exact I|].
  destruct (run_inv m now outs HR) as [HI Hle].
  destruct (step_inv m now r i m' o HI Hnow Henv Hs) as [_ [_ [Hnew Hlen]]].
  rewrite tick_times_app. destruct (tick_times o) as [|x [|y l]] eqn:E.
  - rewrite app_nil_r. exact IH.
  - apply nondecr_app_single; [exact IH|]. intros t Ht. specialize (Hle t Ht). destruct (Hnew x (or_introl eq_refl)). lia.
  - simpl in Hlen. lia.
Qed.

(* ---------- C12: a tick started by the timer is never early; C06: its roots are exactly the
   components due at that time, and exactly their wakeups are consumed *)
Lemma timer_tick_spec m now r m' o when roots :
  MInv m now -> now <= r -> env_ok m r ITimer -> step m r ITimer = (m', o) ->
  In (OTickStart when roots) o ->
  (when - ma_t m) * den <= (r - ma_r m) * num /\
  (forall c x, In (c, x) (mw m) -> when <= x) /\
  (forall c, In c roots <-> In (c, when) (mw m)) /\
  (forall c x, In (c, x) (mw m') <-> In (c, x) (mw m) /\ ~ In c roots).
Proof.
  intros HI Hr Henv Hs Hin. assert (HIr := MInv_later m now r HI Hr). destruct HIr as [Ireal Iwake Itick Isleep Iinit].
  simpl in Hs. destruct (mp m) as [|st when0| |when1 roots1 d|] eqn:Ep;
    try (inversion Hs; subst m' o; destruct Hin; fail).
  - destruct (Isleep when1 roots1 d eq_refl) as [Hfw Hdue]. simpl in Henv. rewrite Ep in Henv.
    destruct (begin_tick_spec m when1 roots1 _ m' o Hs) as [[-> ->]|[st1 [acts [Hp [Htt [Hmw' [Hat' [Har' [Ho Ha]]]]]]]]].
    + destruct Hin as [H|[]]. discriminate.
    + rewrite Ho in Hin. destruct Hin as [H|H]; [|apply in_map_iff in H; destruct H as [a [Ha' _]]; discriminate].
      injection H as E1 E2. clear Htt. subst when1 roots1. destruct (first_wakeups_spec _ _ _ Hfw) as [Hmin [_ Hroots]].
      split; [|split; [exact Hmin|split; [exact Hroots|]]].
      * unfold Master.due_real in Hdue. assert (H1 := cdiv_ge ((when - ma_t m) * den) num Hnum).
        assert (cdiv ((when - ma_t m) * den) num <= r - ma_r m) by lia. nia.
      * intros c x. rewrite Hmw'. rewrite filter_In. simpl. rewrite negb_true_iff, memb_false. reflexivity.
Qed.

(* when a tick ends at real time r the scheduler plans its sleep: it ends exactly at the due
   time of the earliest wakeup (or at once if that is already past) *)
Lemma plan_deadline m r m' d :
  Master.plan num den m r = (m', [OArm d]) ->
  exists when roots, first_wakeups (mw m) = Some (when, roots) /\ d = Z.max r (due_real m when).
Proof.
  unfold Master.plan. destruct (first_wakeups (mw m)) as [[when roots]|]; intros H; inversion H. exists when, roots. auto.
Qed.

(* ---------- C04: ticks never overlap and every dispatch carries the running tick's time *)
Definition cur_of (m : master) : option Z := match mp m with PTick _ when => Some when | _ => None end.

Lemma master_phase_dec m : mp m = PStopped \/ mp m <> PStopped.
Proof. destruct (mp m); auto; right; discriminate. Qed.

(* reading the outputs from the left: is each tick closed before the next starts, does each tick
   end with its own time, does every dispatch lie inside a tick and carry its time?  Returns the
   time of the tick left open, or None if the bracket structure is violated *)
Fixpoint bracket (cur : option Z) (outs : list mout) : option (option Z) :=
  match outs with
  | [] => Some cur
  | OTickStart t _ :: r => match cur with None => bracket (Some t) r | Some _ => None end
  | OTickEnd t :: r => match cur with Some t' => if Z.eqb t t' then bracket None r else None | None => None end
  | OAct a :: r => match cur with Some t' => if Z.eqb (act_time a) t' then bracket cur r else None | None => None end
  | _ :: r => bracket cur r
  end.

Lemma bracket_app a : forall cur b,
  bracket cur (a ++ b) = match bracket cur a with Some c => bracket c b | None => None end.
Proof.
  induction a as [|x r IH]; intros cur b; simpl; [reflexivity|].
  destruct x; simpl; try apply IH.
  - destruct cur as [t'|]; [|reflexivity]. destruct (Z.eqb (act_time a) t'); [apply IH | reflexivity].
  - destruct cur; [reflexivity | apply IH].
  - destruct cur as [t'|]; [|reflexivity]. destruct (Z.eqb t t'); [apply IH | reflexivity].
Qed.

Lemma bracket_acts t acts : (forall a, In a acts -> act_time a = t) -> bracket (Some t) (map OAct acts) = Some (Some t).
Proof.
  induction acts as [|a r IH]; intros Ha; simpl; [reflexivity|].
  rewrite (Ha a (or_introl eq_refl)), Z.eqb_refl. apply IH. intros x Hx. apply Ha. right. exact Hx.
Qed.

Lemma bracket_plan m r m' po cur : Master.plan num den m r = (m', po) -> bracket cur po = Some cur.
Proof. unfold Master.plan. destruct (first_wakeups (mw m)) as [[? ?]|]; intros H; inversion H; reflexivity. Qed.

Lemma bracket_stops cur l : bracket cur (map OStop l) = Some cur.
Proof. induction l as [|x r IH]; simpl; [reflexivity | exact IH]. Qed.

Lemma plan_cur m r m' po : Master.plan num den m r = (m', po) -> cur_of m' = None.
Proof. unfold Master.plan, cur_of. destruct (first_wakeups (mw m)) as [[? ?]|]; intros H; inversion H; reflexivity. Qed.

Lemma step_bracket_live m now r i m' o :
  MInv m now -> mp m <> PStopped -> step m r i = (m', o) ->
  exists c', bracket (cur_of m) o = Some c' /\ (mp m' = PStopped \/ c' = cur_of m').
Proof.
  intros [Ireal Iwake Itick Isleep Iinit] Hlive Hs.
  assert (Hanswer : forall c t ch ca, on_answer conns comps num den m r c t ch ca = (m', o) ->
            exists c', bracket (cur_of m) o = Some c' /\ (mp m' = PStopped \/ c' = cur_of m')).
  { intros c t ch ca Ha. unfold on_answer in Ha. unfold cur_of at 1.
    destruct (mp m) as [|st when| |w0 r0 d0|] eqn:Ep; try (inversion Ha; subst; eexists; split; [reflexivity|]; right; unfold cur_of; rewrite Ep; reflexivity).
    destruct (Itick st when eq_refl) as [Htt _].
    destruct (propagate conns comps st c t ch) as [|st' acts fin] eqn:Epr;
      [inversion Ha; subst; eexists; split; [reflexivity|]; right; unfold cur_of; rewrite Ep; reflexivity|].
    destruct (propagate_ok conns comps st c t ch st' acts fin Epr) as [_ [_ [Hsch _]]].
    destruct (schedule_times _ st' acts Hsch) as [_ Hacts]. simpl in Hacts. rewrite Htt in Hacts.
    destruct fin.
    - destruct (m_err m).
      + inversion Ha; subst m' o. exists None. rewrite bracket_app, (bracket_acts when acts Hacts). simpl. rewrite Z.eqb_refl. auto.
      + destruct (Master.plan num den _ r) as [m2 po] eqn:Epl. inversion Ha; subst m' o. exists None.
        rewrite bracket_app, (bracket_acts when acts Hacts). simpl. rewrite Z.eqb_refl.
        rewrite (bracket_plan _ _ _ _ None Epl), (plan_cur _ _ _ _ Epl). auto.
    - inversion Ha; subst m' o. exists (Some when). rewrite (bracket_acts when acts Hacts). auto. }
  destruct i as [|c t ch ca|c t|c|c|]; simpl in Hs.
  - destruct (mp m) eqn:Ep; try (inversion Hs; subst; eexists; split; [reflexivity|]; right; unfold cur_of; rewrite Ep; reflexivity).
    destruct (begin_tick_spec _ initial comps (mw m) m' o Hs) as [[-> ->]|[st1 [acts [Hp [Htt [_ [_ [_ [Ho Ha]]]]]]]]].
    + eexists. split; [reflexivity|]. right. unfold cur_of. rewrite Ep. reflexivity.
    + exists (Some initial). rewrite Ho. unfold cur_of. rewrite Ep, Hp. simpl. split; [apply bracket_acts; exact Ha | auto].
  - eapply Hanswer. exact Hs.
  - eapply Hanswer. exact Hs.
  - unfold cur_of at 1. destruct (mp m) as [|st when| |w0 r0 d0|] eqn:Ep;
      try (inversion Hs; subst; eexists; split; [reflexivity|]; right; unfold cur_of; simpl; rewrite ?Ep; reflexivity).
    + exists None. rewrite (bracket_plan _ _ _ _ None Hs), (plan_cur _ _ _ _ Hs). auto.
    + exists None. rewrite (bracket_plan _ _ _ _ None Hs), (plan_cur _ _ _ _ Hs). auto.
  - unfold cur_of at 1. destruct (mp m) as [|st when| |w0 r0 d0|] eqn:Ep; inversion Hs; subst.
    + eexists. split; [reflexivity|]. right. unfold cur_of. rewrite Ep. reflexivity.
    + eexists. split; [apply bracket_stops|]. left. reflexivity.
    + eexists. split; [apply bracket_stops|]. right. unfold cur_of. simpl. rewrite ?Ep. reflexivity.
    + eexists. split; [apply bracket_stops|]. right. unfold cur_of. simpl. rewrite ?Ep. reflexivity.
    + contradiction.
  - unfold cur_of at 1. destruct (mp m) as [|st when0| |when roots d|] eqn:Ep;
      try (inversion Hs; subst; eexists; split; [reflexivity|]; right; unfold cur_of; rewrite Ep; reflexivity).
    destruct (begin_tick_spec m when roots _ m' o Hs) as [[-> ->]|[st1 [acts [Hp [Htt [_ [_ [_ [Ho Ha]]]]]]]]].
    + eexists. split; [reflexivity|]. right. unfold cur_of. rewrite Ep. reflexivity.
    + exists (Some when). rewrite Ho. unfold cur_of. rewrite Hp. simpl. split; [apply bracket_acts; exact Ha | auto].
Qed.

(* once stopped, the scheduler only fails requests or repeats the stop broadcast *)
Lemma step_stopped m r i m' o c :
  mp m = PStopped -> step m r i = (m', o) -> bracket c o = Some c /\ mp m' = PStopped.
Proof.
  intros Hp Hs. destruct i as [|c0 t ch ca|c0 t|c0|c0|]; simpl in Hs; unfold on_answer in Hs; rewrite ?Hp in Hs;
    inversion Hs; subst; simpl; auto. split; [apply bracket_stops | reflexivity].
Qed.

Lemma run_bracket m now outs : MRun m now outs ->
  exists c, bracket None outs = Some c /\ (mp m = PStopped \/ c = cur_of m).
Proof.
  induction 1 as [r | m now outs r i m' o HR [c [IH Hc]] Hnow Henv Hs].
  - exists None. split; [reflexivity | right; reflexivity].
  - destruct (run_inv m now outs HR) as [HI _]. rewrite bracket_app, IH.
    destruct (master_phase_dec m) as [Hst|Hlive].
    + destruct (step_stopped m r i m' o c Hst Hs) as [Hb Hp]. exists c. split; [exact Hb | left; exact Hp].
    + destruct Hc as [Hc|Hc]; [contradiction|]. subst c. eapply step_bracket_live; eassumption.
Qed.
End Runs.
