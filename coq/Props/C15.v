(* C15 -- the in-memory bus delivers per topic, in order, exactly once, with replay;
   distinct components never share a topic.  Property theorems only. *)
From TV Require Import Base Model.Bus Model.Topics Proofs.BusP Proofs.TopicsP.

(* For every handler behaviour that publishes only to strictly higher topics (bounded by N),
   every history of subscribe/produce operations in which a consumer subscribes to a topic
   at most once ends -- after every operation -- in a state where each consumer subscribed
   to a topic has received exactly that topic's log, in order, and a consumer not subscribed
   to a topic has received nothing from it.  [InvT] is that statement for one topic. *)
Theorem C15_exactly_once_in_order :
  forall (h : handler) (N : positive) (fuel : nat),
    wf_handler h N -> (Pos.to_nat N < fuel)%nat ->
    forall ops, valid h fuel empty_bus ops ->
    forall t c,
      (In c (subs_of (run h fuel ops) t) -> recv_on (run h fuel ops) c t = log_of (run h fuel ops) t) /\
      (~ In c (subs_of (run h fuel ops) t) -> recv_on (run h fuel ops) c t = []).
Proof.
  intros h N fuel Hwf Hf ops Hv t c.
  destruct (run_inv h N Hwf fuel Hf ops empty_bus Inv_all_empty Hv t) as [_ H]. apply H.
Qed.

(* a produced message is appended exactly once to its topic's log; lower topics and all
   subscriptions are untouched, and the delivery invariant is re-established *)
Theorem C15_produce_appends :
  forall (h : handler) (N : positive) (fuel : nat),
    wf_handler h N -> (Pos.to_nat N < fuel)%nat ->
    forall b t m, Inv_all b ->
      Inv_all (push h fuel b t m) /\
      log_of (push h fuel b t m) t = log_of b t ++ [m] /\
      (forall t', subs_of (push h fuel b t m) t' = subs_of b t') /\
      (forall t', (t' < t)%positive -> log_of (push h fuel b t m) t' = log_of b t').
Proof.
  intros h N fuel Hwf Hf b t m Hinv.
  apply (push_all h N Hwf fuel b t m (fuel_any N fuel Hf t) Hinv).
Qed.

(* a late subscriber is replayed the whole backlog: subscribing preserves the invariant and
   registers exactly the requested topics *)
Theorem C15_subscribe_replays :
  forall (h : handler) (N : positive) (fuel : nat),
    wf_handler h N -> (Pos.to_nat N < fuel)%nat ->
    forall ts b c, Inv_all b -> NoDup ts -> (forall t, In t ts -> ~ In c (subs_of b t)) ->
      Inv_all (subscribe h fuel b c ts) /\
      (forall t, In c (subs_of (subscribe h fuel b c ts) t) <-> In t ts \/ In c (subs_of b t)).
Proof. intros h N fuel Hwf Hf ts b c. apply (subscribe_spec h N Hwf fuel Hf). Qed.

(* distinct components never share an input or output topic -- over the prefix/suffix
   constants extracted from the current source *)
Theorem C15_topic_injective : forall a b,
  (input_topic a = input_topic b -> a = b) /\
  (output_topic a = output_topic b -> a = b) /\
  input_topic a <> output_topic b.
Proof.
  intros a b. split; [apply input_topic_inj | split; [apply output_topic_inj|]].
  apply in_out_disjoint. exact consts_ok_now.
Qed.

(* non-vacuity: a history with a replay and a re-entrant forwarding handler *)
Example C15_example :
  let h := table_handler [(1%positive, 1%Z, [(2%positive, 101%Z)])] in
  let ops := [Produce 1%positive 1%Z; Subscribe 1%positive [1; 2]%positive; Subscribe 2%positive [2%positive]; Produce 2%positive 7%Z; Subscribe 3%positive [1%positive]] in
  let b := run h 5 ops in
  log_of b 2%positive = [101; 7]%Z /\ recv_on b 1%positive 2%positive = [101; 7]%Z /\
  recv_on b 2%positive 2%positive = [101; 7]%Z /\ recv_on b 3%positive 1%positive = [1%Z] /\
  recv_on b 3%positive 2%positive = [].
Proof. vm_compute. repeat split; reflexivity. Qed.
