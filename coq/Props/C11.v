(* C11 -- a failing component stops the whole simulation cleanly (fail-stop).
   The stop protocol over the nesting tree.  That run() then returns relies on asyncio's
   Task.cancel (modelled as "cancelled tasks end") and is observed by the correspondence run for
   every (device, n-th update) failure point; the exception message is forwarded unchanged by
   every level (handle_component_exception stores it, SystemComponent.on_tick re-publishes the
   stored object), which the run checks by identity.  Property theorems only. *)
From TV Require Import Base Model.Wiring Model.Sim Model.FailStop Proofs.FailStopP.

(* a scheduler's StopComponent broadcast reaches exactly the components below its level, at
   every depth (a system component that is told to stop tells its inner components) *)
Theorem C11_broadcast_reaches_subtree : forall cfg fuel lv c,
  In c (stop_level cfg fuel lv) <-> Below cfg fuel lv c.
Proof. exact stop_level_spec. Qed.

(* wherever the failing device lives -- top level or inside nested system simulations -- every
   component of the simulation is told to stop (the master is always among the schedulers that
   handle the exception) *)
Theorem C11_all_stopped : forall cfg fuel lvc path c,
  In 1%positive (handling_levels lvc path) ->
  In c (all_components cfg fuel) -> In c (stopped cfg fuel lvc path).
Proof. exact all_stopped. Qed.

(* the pinned tree violated this: components inside a system simulation were not told to stop
   when the failure was outside it *)
Theorem C11_pinned_refuted : exists cfg c,
  In c (all_components cfg 5) /\ ~ In c (flat_map (stop_level_pinned cfg) (handling_levels 1%positive [])).
Proof. exact pinned_refuted. Qed.

Example C11_example :
  let cfg := [(1%positive, {| l_order := [(3%positive, KDev); (4%positive, KSys 2%positive)]; l_conns := [] |});
              (2%positive, {| l_order := [(5%positive, KDev); (6%positive, KSys 3%positive)]; l_conns := [] |});
              (3%positive, {| l_order := [(7%positive, KDev)]; l_conns := [] |})] in
  stopped cfg 5 3%positive [(1%positive, 4%positive); (2%positive, 6%positive)]
  = [7; 3; 4; 5; 6; 7; 5; 6; 7]%positive.
Proof. vm_compute. reflexivity. Qed.
