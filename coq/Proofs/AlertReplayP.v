(* What Oracle/AlertReplay.v replays is a run of the alert protocol: every event it accepts is a step [AStep] of
   Model/Alert.v, so a recorded execution of the real schedulers that replays from the initial state ends in a reachable
   state -- and Proofs/AlertP.v speaks about it. *)
From Coq Require Import Lia.
From TV Require Import Base Model.Wiring Model.Ticker Model.Component Model.Sim Model.Alert Oracle.AlertReplay Proofs.WiringP Proofs.AlertP.
Open Scope Z_scope.

Lemma split_first_spec c want q q1 m q2 : split_first c want q = Some (q1, m, q2) ->
  q = q1 ++ (c, m) :: q2 /\ ~ In c (keys q1) /\ want m = true.
Proof.
  revert q1 m q2. induction q as [|[k m0] r IH]; intros q1 m q2 H; cbn [split_first] in H; [discriminate|].
  destruct (Pos.eqb_spec k c) as [->|Hne].
  - destruct (want m0) eqn:Ew; [|discriminate]. inversion H; subst. split; [reflexivity|]. split; [intros [] | exact Ew].
  - destruct (split_first c want r) as [[[a m'] b]|] eqn:E; [|discriminate]. inversion H; subst.
    destruct (IH a m q2 eq_refl) as [E1 [E2 E3]]. split; [rewrite E1; reflexivity|]. split; [|exact E3].
    cbn [keys map fst]. intros [Hk|Hi]; [congruence | exact (E2 Hi)].
Qed.

Lemma inclb_incl a b : inclb a b = true -> incl a b.
Proof. unfold inclb. rewrite forallb_forall. intros H x Hx. apply memb_In. apply H. exact Hx. Qed.

Lemma opt_z_eqb_eq a b : opt_z_eqb a b = true -> a = b.
Proof. destruct a, b; cbn; intros H; try discriminate; [apply Z.eqb_eq in H; subst|]; reflexivity. Qed.

Section AXP.
Variable cfg : config.

Lemma childb_child p x lv : childb cfg p x lv = true -> child cfg p x lv.
Proof.
  unfold childb, child. destruct (lookup x (l_order (level_of cfg p))) as [[|lv']|]; try discriminate.
  intros H. apply Pos.eqb_eq in H. subst. reflexivity.
Qed.

Ltac bools H := repeat (apply andb_true_iff in H; let H' := fresh H in destruct H as [H H']).

Theorem a_apply_sound e s s' : a_apply cfg e s = inl s' -> AStep cfg s s'.
Proof.
  destruct e as [lv d | c w | p x lv c | when roots todo | lv c ca | p x lv roots' todo' | lv c | lv c ca | p x lv ca |]; cbn [a_apply]; intros H.
  - destruct (lookup d (l_order (level_of cfg lv))) as [[|l0]|] eqn:E; try discriminate. inversion H; subst. apply A_raise. exact E.
  - destruct (split_first c is_int (a_q (getl s top))) as [[[q1 m] q2]|] eqn:E; [|discriminate]. inversion H; subst.
    destruct (split_first_spec _ _ _ _ _ _ E) as [E1 [E2 E3]]. destruct m; [|discriminate]. apply A_int_top; assumption.
  - destruct (childb cfg p x lv && negb (lv =? p)%positive && negb (lv =? top)%positive) eqn:B; [|discriminate].
    destruct (split_first c is_int (a_q (getl s lv))) as [[[q1 m] q2]|] eqn:E; [|discriminate]. inversion H; subst.
    destruct (split_first_spec _ _ _ _ _ _ E) as [E1 [E2 E3]]. destruct m; [|discriminate].
    apply andb_true_iff in B. destruct B as [B B3]. apply andb_true_iff in B. destruct B as [B1 B2].
    apply A_int_nested; [apply childb_child; exact B1 | | | exact E1 | exact E2].
    + intros ->. rewrite Pos.eqb_refl in B2. discriminate.
    + intros ->. rewrite Pos.eqb_refl in B3. discriminate.
  - destruct (a_tick (getl s top)) eqn:Et; [discriminate|].
    destruct (opt_z_eqb (min_wake (a_wake (getl s top))) (Some when) && forallb (fun c => opt_z_eqb (lookup c (a_wake (getl s top))) (Some when)) roots); [|discriminate].
    destruct (inclb roots todo) eqn:Ei; [|discriminate].
    inversion H; subst. apply A_mtick; [exact Et | apply inclb_incl; exact Ei].
  - destruct (a_tick (getl s lv)) as [t|] eqn:Et; [|discriminate].
    destruct (memb c (t_todo t) && negb (memb c (t_handed t)) && negb (is_sys cfg lv c)) eqn:B; [|discriminate]. inversion H; subst.
    apply andb_true_iff in B. destruct B as [B B3]. apply andb_true_iff in B. destruct B as [B1 B2].
    apply A_in_dev; [exact Et | apply memb_In; exact B1 | apply memb_false; destruct (memb c (t_handed t)); [discriminate | reflexivity]
                     | destruct (is_sys cfg lv c); [discriminate | reflexivity]].
  - destruct (a_tick (getl s p)) as [t|] eqn:Et; [|discriminate]. destruct (a_tick (getl s lv)) eqn:El; [discriminate|].
    destruct (memb x (t_todo t) && negb (memb x (t_handed t)) && childb cfg p x lv && negb (lv =? p)%positive && negb (lv =? top)%positive) eqn:B; [|discriminate].
    destruct (inclb (a_ints (getl s lv) ++ map fst (filter (due (t_time t)) (a_wake (getl s lv)))) roots') eqn:I1; [|discriminate].
    destruct (inclb roots' todo') eqn:I2; [|discriminate]. inversion H; subst.
    apply andb_true_iff in B. destruct B as [B B5]. apply andb_true_iff in B. destruct B as [B B4]. apply andb_true_iff in B. destruct B as [B B3].
    apply andb_true_iff in B. destruct B as [B1 B2].
    apply A_in_sys; [exact Et | apply memb_In; exact B1 | apply memb_false; destruct (memb x (t_handed t)); [discriminate | reflexivity]
                     | apply childb_child; exact B3 | | | exact El | apply inclb_incl; exact I1 | apply inclb_incl; exact I2].
    + intros ->. rewrite Pos.eqb_refl in B4. discriminate.
    + intros ->. rewrite Pos.eqb_refl in B5. discriminate.
  - destruct (a_tick (getl s lv)) as [t|] eqn:Et; [|discriminate].
    destruct (memb c (t_todo t) && negb (memb c (t_handed t)) && negb (memb c (t_roots t))) eqn:B; [|discriminate]. inversion H; subst.
    apply andb_true_iff in B. destruct B as [B B3]. apply andb_true_iff in B. destruct B as [B1 B2].
    apply A_skip; [exact Et | apply memb_In; exact B1 | apply memb_false; destruct (memb c (t_handed t)); [discriminate | reflexivity]
                   | apply memb_false; destruct (memb c (t_roots t)); [discriminate | reflexivity]].
  - destruct (a_tick (getl s lv)) as [t|] eqn:Et; [|discriminate]. destruct (memb c (t_todo t)) eqn:Bc; [|discriminate].
    destruct (split_first c (is_out ca) (a_q (getl s lv))) as [[[q1 m] q2]|] eqn:E; [|discriminate]. destruct m as [|ca']; [discriminate|].
    inversion H; subst. destruct (split_first_spec _ _ _ _ _ _ E) as [E1 [E2 E3]].
    eapply A_out; [exact Et | exact E1 | exact E2 | apply memb_In; exact Bc].
  - destruct (a_tick (getl s lv)) as [t|] eqn:Et; [|discriminate].
    destruct (childb cfg p x lv && negb (lv =? p)%positive && negb (lv =? top)%positive) eqn:B; [|discriminate].
    destruct (t_todo t) eqn:Etd; [|discriminate]. destruct (opt_z_eqb ca (done_ca (getl s lv) (t_time t))); [|discriminate]. inversion H; subst.
    apply andb_true_iff in B. destruct B as [B B3]. apply andb_true_iff in B. destruct B as [B1 B2].
    eapply A_done; [apply childb_child; exact B1 | | | exact Et | exact Etd].
    + intros ->. rewrite Pos.eqb_refl in B2. discriminate.
    + intros ->. rewrite Pos.eqb_refl in B3. discriminate.
  - destruct (a_tick (getl s top)) as [t|] eqn:Et; [|discriminate]. destruct (t_todo t) eqn:Etd; [|discriminate]. inversion H; subst.
    eapply A_mdone; eassumption.
Qed.

Theorem a_replay_sound : forall evs s i s' n, AReach cfg s -> a_replay cfg evs s i = inl (s', n) -> AReach cfg s'.
Proof.
  induction evs as [|e r IH]; intros s i s' n HR H; cbn [a_replay] in H; [inversion H; subst; exact HR|].
  destruct (a_apply cfg e s) as [s1|code] eqn:E; [|discriminate].
  apply (IH s1 (S i) s' n); [eapply AR_step; [exact HR | eapply a_apply_sound; exact E] | exact H].
Qed.

Lemma quiescentb_sound s : quiescentb s = true -> quiescent s.
Proof.
  unfold quiescentb, quiescent. rewrite forallb_forall. intros H lv. unfold getl.
  destruct (lookup lv (a_lv s)) as [L|] eqn:E; [|split; reflexivity]. apply lookup_In in E. specialize (H (lv, L) E). cbn [snd] in H.
  destruct (a_tick L); [discriminate|]. destruct (a_q L); [split; reflexivity | discriminate].
Qed.

Theorem a_replay_from : forall evs s0 s i s' n, AReachFrom cfg s0 s -> a_replay cfg evs s i = inl (s', n) -> AReachFrom cfg s0 s'.
Proof.
  induction evs as [|e r IH]; intros s0 s i s' n HR H; cbn [a_replay] in H; [inversion H; subst; exact HR|].
  destruct (a_apply cfg e s) as [s1|code] eqn:E; [|discriminate].
  apply (IH s0 s1 (S i) s' n); [eapply ARF_step; [exact HR | eapply a_apply_sound; exact E] | exact H].
Qed.
End AXP.

(* a recorded run: the configuration, the top-level components, the initial time, the events *)
Definition alert_case := (config * list comp * Z * list aevent)%type.

(* 30-33 of the replay, with the index of the event; 35 the nesting is not a tree; 36 the run ends with something still
   running or in flight (only reported when [must_settle]); 34 -- which Proofs/AlertP.v rules out -- a device that raised an
   interrupt and has not been updated is not queued / has no wakeup by hi at some level up to the master *)
Definition served_nowb (s : astate) (p : positive) (c : comp) : bool :=
  (negb (Pos.eqb p top) && memb c (a_ints (getl s p))) ||
  match lookup c (a_wake (getl s p)) with Some v => Z.leb v (a_hi s) | None => false end.

Fixpoint chainb (cfg : config) (s : astate) (fuel : nat) (lv : positive) : bool :=
  if Pos.eqb lv top then true
  else match fuel with
       | O => false
       | S f =>
           match filter (fun t : positive * comp * positive => Pos.eqb (snd t) lv) (triples cfg) with
           | (p, x, _) :: _ => served_nowb s p x && chainb cfg s f p
           | [] => false
           end
       end.

Definition check_alert_case (g : alert_case) : list Z :=
  let '(cfg, tops, initial, evs) := g in
  if tree_okb cfg then
    match a_replay cfg evs (a_boot tops initial) O with
    | inl (s, n) =>
        if quiescentb s then
          if forallb (fun e : positive * comp => served_nowb s (fst e) (snd e) && chainb cfg s 20 (fst e)) (a_owed s) then
            (* the record ends well after the last interrupt and ticks take no (virtual) time: nothing may still be owed *)
            match a_owed s with [] => [] | _ => [37] end
          else [34]
        else [36]        (* the record ends although a tick is still running or a message still in flight: ticks take no (virtual) time *)
    | inr (code, i) => [code; Z.of_nat i]
    end
  else [35].

(* how many events, how many of them interrupts handled while a tick was running somewhere *)
Definition alert_size (g : alert_case) : nat * nat :=
  let '(cfg, tops, initial, evs) := g in
  (length evs,
   snd (fold_left (fun (acc : nat * nat) e =>
                     let '(running, n) := acc in
                     match e with
                     | EMTick _ _ _ => (S running, n)
                     | EMDone => (O, n)
                     | EIntTop _ _ | EIntNested _ _ _ _ => (running, if Nat.eqb running O then n else S n)
                     | _ => acc
                     end) evs (O, O))).
