(* The hand-written model function IS the translation of the tickit function it models: the definitions of
   Gen/SourceFuns.v -- regenerated from the sources of /repo on every run by harness/gen_funs.py -- are proved equal
   to the model functions the property theorems are about.  A change of a translated source function changes (or
   removes) the generated definition and breaks its equation here, whatever the sampled correspondence finds.
   This file: the inputs DeviceComponent.on_tick hands to the device. *)
From TV Require Import Base Model.PyLib Model.Wiring Model.Component Model.Sim Model.IoBox Gen.SourceFuns.
Open Scope Z_scope.

(* ---------- DeviceComponent.on_tick (Model/Component.v [merge], [diff_outputs]) *)
Theorem device_inputs_is_source (inputs chg : values) : gen_device_inputs inputs chg = merge inputs chg.
Proof. reflexivity. Qed.

