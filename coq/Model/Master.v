(* Message-level model of src/tickit/core/management/schedulers/master.py (+ base.py):
   the MasterScheduler as a reactive machine.  Inputs: start, messages arriving on the
   components' output topics, the sleep timer firing -- each with the real time (ns) at which
   it happens.  Outputs: the messages it produces, tick start/end, the timer it arms.
   The ticker inside is Model/Ticker.v.  Definitions only.

   Speed = num/den; the divisions are exact for the inputs the harness generates (the code
   computes in floats: modelled, not verified). *)
From TV Require Import Base Model.Wiring Model.Ticker.
Open Scope Z_scope.

Inductive mphase :=
| PInit                                   (* run_forever has not started yet *)
| PTick (st : tstate) (when : Z)          (* inside ticker(when, roots) *)
| PIdle                                   (* no wakeups: waiting for new_wakeup *)
| PSleep (when : Z) (roots : list comp) (deadline : Z)   (* sleeping until deadline, or a new wakeup *)
| PStopped.

Record master := {
  mp : mphase;
  mw : list (comp * Z);        (* self.wakeups *)
  ma_t : Z;                    (* simulation time of the last completed tick (anchor) *)
  ma_r : Z;                    (* self.last_time: real time at which it completed *)
  m_err : bool                 (* self.error *)
}.

Inductive min :=
| IStart
| IOutput (c : comp) (t : Z) (ch : changes) (call_at : option Z)
| ISkip (c : comp) (t : Z)
| IInterrupt (c : comp)
| IException (c : comp)
| ITimer.

Inductive mout :=
| OAct (a : action)                  (* Input / Skip produced *)
| OTickStart (t : Z) (roots : list comp)
| OTickEnd (t : Z)
| OArm (deadline : Z)                (* asyncio.sleep armed: absolute real time at which it fires *)
| OStop (c : comp)                   (* StopComponent produced to c *)
| OFail.                             (* an assertion / exception escaped the handler *)

Section M.
Variable conns : list conn.
Variable comps : list comp.
Variable initial : Z.
Variable num den : Z.

Definition min_of (w : list (comp * Z)) : option Z :=
  fold_left (fun m (e : comp * Z) => match m with None => Some (snd e) | Some x => Some (Z.min x (snd e)) end) w None.

(* get_first_wakeups *)
Definition first_wakeups (w : list (comp * Z)) : option (Z * list comp) :=
  match min_of w with
  | None => None
  | Some m => Some (m, map fst (filter (fun e : comp * Z => Z.eqb (snd e) m) w))
  end.

(* the simulation time corresponding to real time r (interrupt stamp) *)
Definition stamp (m : master) (r : Z) : Z := ma_t m + (r - ma_r m) * num / den.

(* schedule_interrupt: stamp, but never later than a wakeup already pending for c *)
Definition interrupt_wake (m : master) (r : Z) (c : comp) : list (comp * Z) :=
  upd c (match lookup c (mw m) with Some w => Z.min (stamp m r) w | None => stamp m r end) (mw m).

(* ceiling division: a timer never fires before the real-valued deadline *)
Definition cdiv (a b : Z) : Z := (a + b - 1) / b.

(* the real time at which the tick for simulation time [when] is due *)
Definition due_real (m : master) (when : Z) : Z := ma_r m + cdiv ((when - ma_t m) * den) num.

(* _do_tick up to the wait: choose what to wait for *)
Definition plan (m : master) (r : Z) : master * list mout :=
  match first_wakeups (mw m) with
  | None => ({| mp := PIdle; mw := mw m; ma_t := ma_t m; ma_r := ma_r m; m_err := m_err m |}, [])
  | Some (when, roots) =>
      let d := Z.max r (due_real m when) in
      ({| mp := PSleep when roots d; mw := mw m; ma_t := ma_t m; ma_r := ma_r m; m_err := m_err m |}, [OArm d])
  end.

Definition begin_tick (m : master) (when : Z) (roots : list comp) (w : list (comp * Z)) : master * list mout :=
  match start_tick conns when roots with
  | None => (m, [OFail])
  | Some st0 =>
      match schedule conns comps st0 with
      | None => (m, [OFail])
      | Some (st1, acts) =>
          ({| mp := PTick st1 when; mw := w; ma_t := ma_t m; ma_r := ma_r m; m_err := m_err m |},
           OTickStart when roots :: map OAct acts)
      end
  end.

(* an Output / Skip handed to ticker.propagate *)
Definition on_answer (m : master) (r : Z) (c : comp) (t : Z) (ch : changes) (call_at : option Z)
  : master * list mout :=
  match mp m with
  | PTick st when =>
      match propagate conns comps st c t ch with
      | PErr => (m, [OFail])
      | POk st' acts fin =>
          let w := match call_at with Some x => upd c x (mw m) | None => mw m end in
          if fin then
            if m_err m then
              ({| mp := PStopped; mw := w; ma_t := when; ma_r := r; m_err := true |}, map OAct acts ++ [OTickEnd when])
            else
              let m1 := {| mp := PIdle; mw := w; ma_t := when; ma_r := r; m_err := m_err m |} in
              let '(m2, o) := plan m1 r in
              (m2, map OAct acts ++ [OTickEnd when] ++ o)
          else
            ({| mp := PTick st' when; mw := w; ma_t := ma_t m; ma_r := ma_r m; m_err := m_err m |}, map OAct acts)
      end
  | _ => (m, [OFail])        (* propagate asserts: nothing is awaiting an answer *)
  end.

Definition step (m : master) (r : Z) (i : min) : master * list mout :=
  match i with
  | IStart =>
      match mp m with
      | PInit =>
          begin_tick {| mp := PInit; mw := mw m; ma_t := initial; ma_r := r; m_err := m_err m |} initial comps (mw m)
      | _ => (m, [OFail])
      end
  | IOutput c t ch call_at => on_answer m r c t ch call_at
  | ISkip c t => on_answer m r c t [] None
  | IInterrupt c =>
      match mp m with
      | PInit | PStopped => (m, [OFail])
      | PTick st when =>
          ({| mp := PTick st when; mw := interrupt_wake m r c; ma_t := ma_t m; ma_r := ma_r m; m_err := m_err m |}, [])
      | PIdle | PSleep _ _ _ =>
          plan {| mp := PIdle; mw := interrupt_wake m r c; ma_t := ma_t m; ma_r := ma_r m; m_err := m_err m |} r
      end
  | ITimer =>
      match mp m with
      | PSleep when roots d =>
          begin_tick m when roots (filter (fun e : comp * Z => negb (memb (fst e) roots)) (mw m))
      | _ => (m, [])
      end
  | IException c =>
      match mp m with
      | PTick st when =>
          (* StopComponent to every component, error set, the running tick is released *)
          ({| mp := PStopped; mw := mw m; ma_t := when; ma_r := r; m_err := true |}, map OStop comps)
      | PInit => (m, [OFail])
      | _ => ({| mp := mp m; mw := mw m; ma_t := ma_t m; ma_r := ma_r m; m_err := true |}, map OStop comps)
      end
  end.

Definition m_init : master := {| mp := PInit; mw := []; ma_t := initial; ma_r := 0; m_err := false |}.

Fixpoint run_master (m : master) (evs : list (Z * min)) : list (list mout) :=
  match evs with
  | [] => []
  | (r, i) :: rest => let '(m', o) := step m r i in o :: run_master m' rest
  end.
End M.

(* ---------- comparison with the implementation *)
Definition mout_eqb (a b : mout) : bool :=
  match a, b with
  | OAct x, OAct y => action_eqb x y
  | OTickStart t r, OTickStart t' r' => Z.eqb t t' && forallb (fun x => memb x r') r && forallb (fun x => memb x r) r'
  | OTickEnd t, OTickEnd t' => Z.eqb t t'
  | OArm d, OArm d' => Z.eqb d d'
  | OStop c, OStop c' => Pos.eqb c c'
  | OFail, OFail => true
  | _, _ => false
  end.
Definition mouts_eqb (a b : list mout) : bool :=
  Nat.eqb (length a) (length b) &&
  forallb (fun x => existsb (mout_eqb x) b) a && forallb (fun y => existsb (mout_eqb y) a) b.

Record master_case := {
  mc_conns : list conn; mc_comps : list comp; mc_initial : Z; mc_num : Z; mc_den : Z;
  mc_events : list (Z * min);
  mc_observed : list (list mout)
}.

(* reason code 101: after some event the scheduler produced something else than the model *)
Definition check_master (c : master_case) : list Z :=
  let m := run_master (mc_conns c) (mc_comps c) (mc_initial c) (mc_num c) (mc_den c)
                      (m_init (mc_initial c)) (mc_events c) in
  if list_eqb mouts_eqb m (mc_observed c) then [] else [101].
