"""child process: EPICS adapters set up concurrently on the real softioc builder (the IOC start is stubbed)"""
import asyncio, json, os, sys, tempfile
import tickit.adapters.epics as epics
from tickit.adapters.epics import EpicsAdapter
from tickit.adapters.io.epics_io import EpicsIo
from softioc import builder

spec = json.loads(sys.argv[1])      # [[name, has_db_file], ...]
started = []
epics._build_and_run_ioc = lambda: started.append(1)
out = {}

class A(EpicsAdapter):
    def __init__(self, name):
        super().__init__(); self.name_ = name
    def on_db_load(self):
        r = builder.aIn("VALUE")
        out[self.name_] = r.name

async def main():
    ios = []
    for name, has_db in spec:
        db = None
        if has_db:
            f = tempfile.NamedTemporaryFile("w", suffix=".db", delete=False)
            f.write('record(ai, "$(device):FROMDB") {\n  field(DTYP, "Soft Channel")\n  field(VAL, "1")\n}\n'); f.close(); db = f.name
        ios.append((EpicsIo(name, db), A(name)))
    async def ri(): pass
    res = await asyncio.gather(*[io.setup(a, ri) for io, a in ios], return_exceptions=True)
    return [repr(r) for r in res if isinstance(r, Exception)]
errs = asyncio.run(main())
print(json.dumps(dict(records=out, started=len(started), errors=errs)))
