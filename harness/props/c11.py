"""C11 -- a failing component stops the whole simulation cleanly (fail-stop).
Whole flat/nested simulations run through TickitSimulation.run() on the internal bus and virtual
time; device d raises at its n-th update, for every (device, n).  Every device has a blocking
adapter task, so run() can only return if every component was really told to stop.  Observed:
the ComponentException the master handled (source, exception identity), which components ran
stop_component, whether run() returned, whether the master started another tick.  Compared in
Coq with Model/FailStop.v."""
import asyncio
import json
import random

import slevel
import sprops
from common import Check, P, Zr, L, T, O, B, run_shards

PID = "C11"
EXT, EXP = 1, 2
HEADER = "From TV Require Import Base Model.Wiring Model.Sim Model.FailStop."
REASONS = {111: "failure-not-reported-to-master-with-original-identity", 112: "component-not-told-to-stop",
           113: "run-did-not-return", 114: "master-continued-ticking-after-failure", 115: "stop-set-differs-from-model"}


def run_failing(cfg, devs, device, n, t_end=2_000_000_003, kind="device", bus=None, also=None):
    """also: a second device that fails at its n-th update as well (two failures in one tick when n = 1)"""
    import tickit.core.management.schedulers.master as mm
    import tickit.core.management.ticker as tk
    from tickit.core.adapter import AdapterContainer
    from tickit.core.management.event_router import InverseWiring
    from tickit.core.simulation import TickitSimulation

    slevel.reset_bus()
    slevel.TRACE.clear()
    slevel.TRACE_RT.clear()
    slevel.REG.clear()
    obs = dict(reported=None, same_error=False, stopped=[], returned=False, ticks_after=0, error=None, failed_at=None)
    raised = {}

    class BlockingAdapter:
        def after_update(self):
            pass

    class FailingAdapter:
        """raises in its after_update hook at the n-th update of its device"""
        def __init__(self):
            self.k = 0

        def after_update(self):
            self.k += 1
            if self.k == n:
                raise slevel.failure(device, n, f"device c{device} fails (adapter hook) at update {n}")

    class BlockingIo:
        async def setup(self, adapter, raise_interrupt):
            await asyncio.Event().wait()     # serve forever (until cancelled)

    class ReturningIo:
        async def setup(self, adapter, raise_interrupt):
            return                           # an io that only starts a server and returns (as TcpIo, EpicsIo do)

    def adapters():
        # adapters whose task has long finished next to adapters that serve until cancelled, in both orders
        return [AdapterContainer(BlockingAdapter(), ReturningIo()), AdapterContainer(BlockingAdapter(), BlockingIo()),
                AdapterContainer(BlockingAdapter(), BlockingIo()), AdapterContainer(BlockingAdapter(), ReturningIo()),
                AdapterContainer(BlockingAdapter(), BlockingIo())]

    def failing_adapters():
        return [AdapterContainer(BlockingAdapter(), ReturningIo()), AdapterContainer(BlockingAdapter(), BlockingIo()),
                AdapterContainer(FailingAdapter(), BlockingIo())]

    async def main(loop):
        import tickit.core.components.component as cc
        ad = {d: adapters for d in slevel.devices_of(cfg)}
        if kind == "hook":
            ad[device] = failing_adapters
        configs = slevel.build_configs(cfg, devs, 1, ({device: n, also: n} if also else {device: n}) if kind == "device" else {}, ad)
        backend = "internal"
        if bus is not None:
            # a conforming broker-like backend (harness/cbus.py) registered next to the shipped ones
            import cbus
            from tickit.core.state_interfaces import state_interface as si
            cons, prod = cbus.make_interface(bus)
            si.consumers["cbus"], si.producers["cbus"] = (cons, False), (prod, False)
            backend = "cbus"
        from tickit.core.state_interfaces.state_interface import get_interface
        sched = mm.MasterScheduler(InverseWiring.from_component_configs(configs), *get_interface(backend))
        comps = {c.name: c() for c in configs}
        # observe stop_component of every component class and the master's exception handler
        orig_hce = mm.MasterScheduler.handle_component_exception
        orig_call = tk.Ticker.__call__
        seen = {}

        async def hce(self, message):
            obs["reported"] = slevel.cid(message.source)
            obs["same_error"] = isinstance(message.error, (RuntimeError, slevel.DeviceFault)) and any(
                f"device c{x} fails" in str(message.error) for x in ([device, also] if also else [device]))
            seen["after"] = True
            return await orig_hce(self, message)

        async def logged_call(tself, time, roots):
            owner = getattr(getattr(tself.update_component, "__self__", None), "raise_interrupt", None)
            if seen.get("after") and owner is None:
                obs["ticks_after"] += 1
            return await orig_call(tself, time, roots)

        import tickit.core.components.device_component as dcm
        import tickit.core.components.system_component as scm
        orig_dstop, orig_sstop = dcm.DeviceComponent.stop_component, scm.SystemComponent.stop_component

        async def dstop(self):
            obs["stopped"].append(slevel.cid(self.name))
            return await orig_dstop(self)

        async def sstop(self):
            obs["stopped"].append(slevel.cid(self.name))
            return await orig_sstop(self)

        mm.MasterScheduler.handle_component_exception = hce
        tk.Ticker.__call__ = logged_call
        dcm.DeviceComponent.stop_component, scm.SystemComponent.stop_component = dstop, sstop
        try:
            sim = TickitSimulation(backend, sched, comps)
            run = asyncio.create_task(sim.run())
            done, _ = await asyncio.wait([run], timeout=t_end / 1e9)
            obs["returned"] = bool(done)
            if done and (run.cancelled() or run.exception() is not None):
                # run() is over, but not by returning: it raised (CancelledError included) -- not a clean stop
                obs["returned"] = False
                obs["error"] = "run() raised " + ("CancelledError" if run.cancelled() else repr(run.exception()))
            obs["failed_at"] = next((rt for (c, t, _), rt in zip(slevel.TRACE, slevel.TRACE_RT)
                                     if c == device and sum(1 for (c2, _, _) in slevel.TRACE[:slevel.TRACE.index((c, t, _)) + 1] if c2 == device) == n), None)
            if not done:
                run.cancel()
            if bus is not None:
                # run() has returned; with a broker-like backend the stop messages already published are still on
                # their way: "told to stop" is judged once the bus has delivered what was published
                for _ in range(2000):
                    await asyncio.sleep(0)
                    if not bus._candidates() and not any(c.busy for c in bus.consumers):
                        break
        finally:
            mm.MasterScheduler.handle_component_exception = orig_hce
            tk.Ticker.__call__ = orig_call
            dcm.DeviceComponent.stop_component, scm.SystemComponent.stop_component = orig_dstop, orig_sstop

    try:
        slevel.vrun(main)
    except slevel.Deadlock:
        obs["error"] = "deadlock"
    except Exception as e:  # noqa
        obs["error"] = repr(e)
    obs["n_updates_of_device"] = sum(1 for (c, _, _) in slevel.TRACE if c == device)
    if bus is not None:
        from tickit.core.state_interfaces import state_interface as si
        si.consumers.pop("cbus", None)
        si.producers.pop("cbus", None)
        obs["bus_errors"] = list(bus.errors)[:3]
    return obs


def slevel_get_interface():
    from tickit.core.state_interfaces.state_interface import get_interface
    return get_interface("internal")


def render(cfg, device, obs):
    lvc, path = slevel.path_of(cfg, device)
    return ("{| fs_cfg := %s; fs_device := %s; fs_level := %s; fs_path := %s; fs_reported := %s; fs_same_error := %s; "
            "fs_stopped := %s; fs_returned := %s; fs_ticks_after := %s |}") % (
        slevel.r_config(cfg), P(device), P(lvc), L(T(P(l), P(s)) for l, s in path), O(obs["reported"], P), B(obs["same_error"]),
        L(P(c) for c in sorted(set(obs["stopped"]))), B(obs["returned"]), Zr(obs["ticks_after"]))


def configs(tier, rng):
    out = [
        ({1: dict(order=[(3, "dev"), (4, "dev"), (5, "dev")], conns=[(3, 1, 4, 1), (3, 2, 5, 1)])},
         {3: (3, 300_000_000, 1), 4: (3, 300_000_000, 0), 5: (3, 400_000_000, 1)}),
        ({1: dict(order=[(3, "dev"), (4, 2), (7, "dev"), (8, "dev")], conns=[(3, 1, 4, 1), (4, 1, 7, 1)]),
          2: dict(order=[(5, "dev"), (6, "dev")], conns=[(EXT, 1, 5, 1), (5, 1, 6, 1), (6, 1, EXP, 1)])},
         {3: (5, 300_000_000, 1), 5: (5, 300_000_000, 0), 6: (5, 500_000_000, 1), 7: (5, 300_000_000, 0), 8: (5, 400_000_000, 1)}),
        ({1: dict(order=[(3, 2), (8, "dev"), (9, 4)], conns=[(3, 1, 8, 1)]),
          2: dict(order=[(4, "dev"), (5, 3)], conns=[(4, 1, 5, 1), (5, 1, EXP, 1)]),
          3: dict(order=[(6, "dev"), (7, "dev")], conns=[(EXT, 1, 6, 1), (7, 1, EXP, 1)]),
          4: dict(order=[(10, "dev")], conns=[])},
         {4: (9, 400_000_000, 1), 6: (9, 300_000_000, 0), 7: (9, 300_000_000, 1), 8: (9, 300_000_000, 0), 10: (9, 500_000_000, 1)}),
    ]
    # devices that ask to be re-evaluated at once (a callback at the time of the update itself): a wakeup that is due
    # already when another component of the same tick fails
    out.append(({1: dict(order=[(3, "dev"), (4, "dev"), (5, "dev")], conns=[(3, 1, 4, 1)])},
                {3: (3, 300_000_000, 1), 4: (3, 300_000_000, 0), 5: (3, 300_000_000, 5)}))
    out.append(({1: dict(order=[(3, "dev"), (4, 2), (8, "dev")], conns=[(3, 1, 4, 1)]),
                 2: dict(order=[(5, "dev"), (6, "dev")], conns=[(EXT, 1, 5, 1), (5, 1, 6, 1), (6, 1, EXP, 1)])},
                {3: (5, 300_000_000, 1), 5: (5, 300_000_000, 5), 6: (5, 500_000_000, 0), 8: (5, 300_000_000, 5)}))
    for _ in range({"quick": 4, "thorough": 60}[tier]):
        cfg = slevel.gen_config(rng, depth=rng.choice([0, 1, 2]))
        out.append((cfg, slevel.gen_devs(rng, cfg, (1, 1, 3, 4, 5))))
    return out


def main(tier, seed):
    ck = Check(PID, tier, seed, "Props.C11", ["Model/FailStop.v", "Proofs/FailStopP.v", "Props/C11.v"])
    ck.build_and_audit()
    rng = random.Random(seed)
    cases, terms = [], []
    nmax = 3 if tier == "quick" else 4
    for cfg, devs in configs(tier, rng):
        for d in slevel.devices_of(cfg):
            for n in range(1, nmax + 1):
                for kind in ("device", "hook"):
                    obs = run_failing(cfg, devs, d, n, kind=kind)
                    if obs["n_updates_of_device"] < n:
                        continue    # the device is not updated that often in this run: no failure happened
                    cases.append(dict(cfg=cfg, devs=devs, device=d, n=n, kind=kind, obs=obs))
                    terms.append(render(cfg, d, obs))
                    if tier == "thorough" or (d + n) % 3 == 0:
                        # the same failure point under delayed, reordered message delivery
                        from props import c08
                        pol, bseed = rng.choice(c08.POLICIES), rng.randrange(10 ** 6)
                        obs2 = run_failing(cfg, devs, d, n, kind=kind, bus=c08.make_bus(pol, bseed, cfg))
                        if obs2["n_updates_of_device"] >= n:
                            cases.append(dict(cfg=cfg, devs=devs, device=d, n=n, kind=kind, obs=obs2, schedule=[pol, bseed]))
                            terms.append(render(cfg, d, obs2))
    # two devices failing in the same tick (both at their first update, i.e. in the initial tick): whichever failure the
    # master hears of first, the run must end the same way
    ndouble = 0
    for cfg, devs in configs(tier, random.Random(seed))[:3]:
        dl = slevel.devices_of(cfg)
        for i, d1 in enumerate(dl):
            for d2 in dl[i + 1:]:
                obs = run_failing(cfg, devs, d1, 1, kind="device", also=d2)
                who = obs["reported"] if obs["reported"] in (d1, d2) else d1
                path_of_who = slevel.path_of(cfg, who)[1]
                if path_of_who and obs["reported"] not in (d1, d2):
                    who = d1
                cases.append(dict(cfg=cfg, devs=devs, device=who, n=1, kind="device", obs=obs, also=[d1, d2]))
                terms.append(render(cfg, who, obs))
                ndouble += 1
    bad = run_shards(PID, HEADER, "fs_case", "check_fs", terms, shard_size=60)
    for c in cases:
        ck.count(json.dumps([sprops.describe(dict(c, speed=(1, 1), initial=0, stim=[])), c["device"], c["n"], c["kind"]]),
                 len(slevel.path_of(c["cfg"], c["device"])[1]) >= 1 or c["n"] >= 2)
    ck.rule = ("every pair of devices of the fixed configurations failing in the same (initial) tick; every (device, n-th update) failure point -- in the device's update and in an adapter's after_update hook -- with n <= %d on flat / nested / doubly nested configurations with sibling "
               "systems and on random nested configurations, run through TickitSimulation.run(); every device carries a blocking "
               "adapter task; non-trivial = failure inside a system simulation or after the initial tick" % nmax)
    ck.coverage.update(failure_points=len(cases), double_failures_in_one_tick=ndouble, disagreements=len(bad), under_delayed_delivery=sum(1 for c in cases if c.get("schedule")),
                       nested_failures=sum(1 for c in cases if slevel.path_of(c["cfg"], c["device"])[1]),
                       initial_tick_failures=sum(1 for c in cases if c["n"] == 1))
    ck.sample(dict(device=cases[-1]["device"], n=cases[-1]["n"], observed=cases[-1]["obs"]))
    done = set()
    for i in sorted(bad):
        c = cases[i]
        nested = bool(slevel.path_of(c["cfg"], c["device"])[1])
        for code in bad[i]:
            if (code, nested) in done:
                continue
            done.add((code, nested))
            d = sprops.describe(dict(c, speed=(1, 1), initial=0, stim=[]))
            d.update(device=c["device"], n=c["n"], fail_kind=c["kind"], observed=c["obs"], codes=bad[i], schedule=c.get("schedule"),
                     failing_devices=c.get("also"))
            ck.report(REASONS[code] + ("-two-failures-in-one-tick" if c.get("also") else "")
                      + ("-failure-inside-system" if nested else "-failure-at-top-level"),
                      (f"devices {c['also']} both fail" if c.get("also") else f"device c{c['device']} ({c['kind']}) fails")
                      + f" at update {c['n']}: {REASONS[code]}", d)
    return ck.finish()


def replay(rp):
    cfg = {int(k): dict(order=[(c, (k2 if k2 == "dev" else int(k2))) for c, k2 in v["order"]],
                        conns=[tuple(x) for x in v["conns"]]) for k, v in rp["cfg"].items()}
    devs = {int(k): tuple(v) for k, v in rp["devs"].items()}
    bus = None
    if rp.get("schedule"):
        from props import c08
        bus = c08.make_bus(rp["schedule"][0], rp["schedule"][1], cfg)
    also = rp.get("failing_devices")
    if also:
        obs = run_failing(cfg, devs, also[0], rp["n"], kind="device", bus=bus, also=also[1])
        who = obs["reported"] if obs["reported"] in also else also[0]
    else:
        obs = run_failing(cfg, devs, rp["device"], rp["n"], kind=rp.get("fail_kind", "device"), bus=bus)
        who = rp["device"]
    bad = run_shards("replay", HEADER, "fs_case", "check_fs", [render(cfg, who, obs)])
    print("observed:", obs)
    print("codes:", bad.get(0, []), [REASONS[c] for c in bad.get(0, [])])
    return 1 if bad else 0
