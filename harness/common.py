"""Shared machinery of the /verif checks.

* builds the Coq development (full coqc build through coq_makefile, under a lock),
* audits it (forbidden vernacular, Print Assumptions of every property theorem),
* renders Python values as Gallina literals, runs generated case files through
  coqc/vm_compute in parallel shards and parses the (index, reason codes) result,
* turns failures into replay files, VIOLATION / KNOWN-FINDING lines, evidence.
"""
from __future__ import annotations

import fcntl
import json
import os
import re
import shutil
import subprocess
import sys
import time
from concurrent.futures import ThreadPoolExecutor
from pathlib import Path

# VERIF_ROOT / VERIF_REPO: used only to run the checks on a scratch copy (seeded-change matrix); the
# registered commands leave them unset
VERIF = Path(os.environ.get("VERIF_ROOT") or "/verif")
REPO = Path(os.environ.get("VERIF_REPO") or "/repo")
COQ = VERIF / "coq"
WORK = VERIF / "work"
# the committed evidence directory records runs on /repo only: a run against a scratch tree (VERIF_REPO set,
# seeded-change experiments) writes its evidence and replays under work/ (untracked) unless told otherwise
_SCRATCH_RUN = REPO.resolve() != Path("/repo")
EVID = Path(os.environ.get("VERIF_EVID") or (WORK / "scratch_evidence" if _SCRATCH_RUN else VERIF / "evidence"))
REPLAYS = WORK / "scratch_replays" if _SCRATCH_RUN else VERIF / "replays"
KNOWN = VERIF / "known_findings.txt"

ALLOWED_AXIOMS: set[str] = set()  # every Props theorem is closed under the global context

FORBIDDEN = re.compile(
    r"\b(Admitted|admit|Axiom|Axioms|Parameter|Parameters|Conjecture|Conjectures|"
    r"Admit Obligations|bypass_check|native_compute)\b|Unset\s+Guard|Unset\s+Positivity|"
    r"Unset\s+Universe|type-in-type|impredicative-set"
)
TOPLEVEL_HYP = re.compile(r"^\s*(Variable|Variables|Hypothesis|Hypotheses|Context)\b")

TRUSTED_BASE = [
    "Coq 8.16.1 kernel and its vm_compute bytecode VM (no native_compute)",
    "axioms: none -- Print Assumptions of every Props theorem is re-run on each check and must say 'Closed under the global context'",
    "hand-written Gallina models under /verif/coq/Model tied to /repo/src by the correspondence run of this check",
    "the Python harness (/verif/harness): case generators, drivers of the real tickit classes, virtual-time asyncio loop, renderer to Gallina literals, parser of the (index, reason codes) list printed by coqc",
    "constants translator harness/gen_consts.py (Python ast, fail-closed) -> coq/Gen/SourceConsts.v",
    "function translator harness/gen_funs.py (Python ast -> Gallina over Model/PyLib.v, fail-closed per function) -> coq/Gen/SourceFuns.v; "
    "Proofs/Gen*P.v prove the generated definitions equal to the model functions",
    "CPython 3.12 / asyncio semantics (run-to-completion between suspensions, FIFO ready queue)",
]


# ----------------------------------------------------------------------------- build

def sh(cmd, **kw):
    return subprocess.run(cmd, capture_output=True, text=True, **kw)


class BuildError(Exception):
    pass


def coq_files() -> list[Path]:
    return sorted(p for p in COQ.rglob("*.v") if ".coq-native" not in str(p))


def audit_sources() -> list[str]:
    problems = []
    for p in coq_files():
        depth = 0
        for n, line in enumerate(p.read_text().splitlines(), 1):
            code = re.sub(r"\(\*.*?\*\)", "", line)
            if "(*" in code:  # start of a multi-line comment: ignore the tail
                code = code.split("(*")[0]
            if FORBIDDEN.search(code):
                problems.append(f"{p.relative_to(VERIF)}:{n}: forbidden: {line.strip()}")
            if re.match(r"^\s*Section\b", code):
                depth += 1
            if re.match(r"^\s*End\b", code) and depth > 0:
                depth -= 1
            if depth == 0 and TOPLEVEL_HYP.match(code):
                problems.append(f"{p.relative_to(VERIF)}:{n}: hypothesis outside a section: {line.strip()}")
    return problems


LAST_BUILD: dict = {}


def _dep_graph() -> dict[str, set[str]]:
    """file.v -> the .v files it depends on, from coq_makefile's dependency file"""
    g: dict[str, set[str]] = {}
    f = COQ / ".Makefile.d"
    if not f.exists():
        return g
    for line in f.read_text().replace("\\\n", " ").splitlines():
        if ":" not in line:
            continue
        lhs, rhs = line.split(":", 1)
        tg = [x for x in lhs.split() if x.endswith(".vo")]
        if not tg:
            continue
        me = tg[0][:-1]
        g.setdefault(me, set()).update(x[:-1] for x in rhs.split() if x.endswith(".vo"))
    return g


def build_coq(log=None) -> dict:
    """Regenerate Gen/SourceConsts.v from the repository, then run a full (incremental) `make -k`.
    Returns dict(seconds, broken = {relative .v path: why}) where broken holds every file that failed to
    compile and, transitively, every file that depends on one (their stale .vo files are removed).
    Only a check whose own proof files are in there reports its proof as broken."""
    t0 = time.time()
    WORK.mkdir(exist_ok=True)
    with open(WORK / ".build.lock", "w") as lk:
        fcntl.flock(lk, fcntl.LOCK_EX)
        import gen_consts

        consts = gen_consts.regenerate()
        import gen_funs

        gen_funs.main()       # Gen/SourceFuns.v: an untranslatable function leaves its definition out (fail-closed per function)
        proj = COQ / "_CoqProject"
        mk = COQ / "Makefile"
        if not mk.exists() or mk.stat().st_mtime < proj.stat().st_mtime:
            r = sh(["coq_makefile", "-f", "_CoqProject", "-o", "Makefile"], cwd=COQ)
            if r.returncode != 0:
                raise BuildError("coq_makefile failed:\n" + r.stdout + r.stderr)
        r = sh(["timeout", "1500", "make", "-k", "-j16"], cwd=COQ)
        out = r.stdout + r.stderr
        if log is not None:
            log.append(out[-8000:])
        broken: dict[str, str] = {}
        if r.returncode != 0:
            failed = re.findall(r"\*\*\* \[Makefile[^:]*:\d+: (\S+?)\.vo\] Error", out)
            if not failed:
                raise BuildError("coq build failed:\n" + out[-6000:])
            terr = "; ".join(f"translator section {k} not recognised: {v}" for k, v in sorted(consts["errors"].items()))
            for f in failed:
                m = re.search(r'File "\./' + re.escape(f) + r'\.v", line (\d+)[^\n]*\n((?:.*\n){0,6})', out)
                why = f"{f}.v does not compile" + (f" (line {m.group(1)}: {' '.join(m.group(2).split())[:300]})" if m else "")
                broken[f + ".v"] = why + (" -- " + terr if terr else "")
            g = _dep_graph()
            changed = True
            while changed:
                changed = False
                for f, deps in g.items():
                    if f not in broken:
                        hit = [d for d in deps if d in broken]
                        if hit:
                            broken[f] = f"depends on {hit[0]}: {broken[hit[0]]}"
                            changed = True
            for f in broken:
                for ext in (".vo", ".glob", ".vos", ".vok"):
                    q = COQ / (f[:-2] + ext)
                    if q.exists():
                        q.unlink()
        res = dict(seconds=time.time() - t0, broken=broken, translator_errors=consts["errors"])
        LAST_BUILD.clear()
        LAST_BUILD.update(res)
        return res


def theorems_of(prop_file: Path) -> list[str]:
    return re.findall(r"^\s*(?:Theorem|Example)\s+(\w+)", prop_file.read_text(), re.M)


def count_qed(files: list[Path]) -> int:
    return sum(len(re.findall(r"\bQed\.", p.read_text())) for p in files if p.exists())


def print_assumptions(pid: str, prop_mod: str, names: list[str]) -> dict[str, str]:
    d = WORK / pid
    d.mkdir(parents=True, exist_ok=True)
    src = f"From TV Require Import {prop_mod}.\n" + "".join(
        f'Print Assumptions {n}.\n' for n in names
    )
    f = d / "assumptions.v"
    f.write_text(src)
    r = sh(["timeout", "300", "coqc", "-Q", str(COQ), "TV", str(f)], cwd=d)
    if r.returncode != 0:
        raise BuildError("Print Assumptions failed:\n" + r.stdout + r.stderr)
    # coqc prints one block per command
    blocks = re.split(r"(?=Closed under the global context|Axioms:)", r.stdout)
    blocks = [b.strip() for b in blocks if b.strip()]
    out = {}
    for n, b in zip(names, blocks):
        out[n] = " ".join(b.split())
    if len(blocks) != len(names):
        raise BuildError(f"Print Assumptions: expected {len(names)} blocks, got {len(blocks)}")
    return out


# ----------------------------------------------------------------------------- rendering

def P(n: int) -> str:
    assert n >= 1, n
    return f"{n}%positive"


def Zr(n: int) -> str:
    return f"({n})%Z"


def Nr(n: int) -> str:
    assert 0 <= n < 5000
    return f"{n}%nat"


def B(b: bool) -> str:
    return "true" if b else "false"


def L(items) -> str:
    return "[" + "; ".join(items) + "]"


def O(x, f=lambda s: s) -> str:
    return "None" if x is None else f"(Some {f(x)})"


def T(*xs) -> str:
    return "(" + ", ".join(xs) + ")"


def dictPZ(d) -> str:
    """dict/list of pairs positive -> Z in iteration order"""
    items = d.items() if isinstance(d, dict) else d
    return L(T(P(k), Zr(v)) for k, v in items)


# ----------------------------------------------------------------------------- coqc shards

RES_RE = re.compile(r"\((\d+),\[([0-9;\-]*)\]\)")


def run_shards(pid: str, header: str, case_type: str, check_fn: str, cases: list[str],
               shard_size: int = 400, timeout: int = 600) -> dict[int, list[int]]:
    """cases: Gallina terms of type case_type; returns {case index: reason codes} for the
    cases on which `check_fn` returned a non-empty list."""
    d = WORK / pid
    if d.exists():
        for p in d.glob("shard_*"):
            p.unlink()
    d.mkdir(parents=True, exist_ok=True)
    shards = [cases[i:i + shard_size] for i in range(0, len(cases), shard_size)]
    files = []
    for k, sh_cases in enumerate(shards):
        body = ";\n".join(sh_cases)
        src = (
            f"{header}\nOpen Scope Z_scope.\n"
            f"Definition cases : list ({case_type}) := [\n{body}\n].\n"
            f"Eval vm_compute in (run_cases {check_fn} {k * shard_size} cases).\n"
        )
        f = d / f"shard_{k}.v"
        f.write_text(src)
        files.append(f)

    def one(f: Path):
        r = sh(["timeout", str(timeout), "coqc", "-Q", str(COQ), "TV", str(f)], cwd=d)
        return f, r

    bad: dict[int, list[int]] = {}
    with ThreadPoolExecutor(max_workers=16) as ex:
        for f, r in ex.map(one, files):
            if r.returncode != 0:
                raise BuildError(f"coqc failed on {f}:\n{(r.stdout + r.stderr)[-3000:]}")
            txt = re.sub(r"\s+", "", r.stdout)
            if not txt.startswith("="):
                raise BuildError(f"unexpected coqc output for {f}: {r.stdout[:500]}")
            payload = txt.split(":list(Z*listZ)")[0]
            for m in RES_RE.finditer(payload):
                bad[int(m.group(1))] = [int(x) for x in m.group(2).split(";") if x]
            # sanity: number of tuples == number of "(" at depth of list elements
            if payload.count("(") != len(RES_RE.findall(payload)):
                raise BuildError(f"cannot parse coqc output for {f}: {r.stdout[:500]}")
    for f in files:  # keep disk use low
        for ext in (".vo", ".vok", ".vos", ".glob"):
            q = f.with_suffix(ext)
            if q.exists():
                q.unlink()
        aux = f.parent / ("." + f.stem + ".aux")
        if aux.exists():
            aux.unlink()
    return bad


# ----------------------------------------------------------------------------- known findings

def load_known(pid: str):
    known, fixed = [], []
    if KNOWN.exists():
        for line in KNOWN.read_text().splitlines():
            line = line.strip()
            if not line or line.startswith("#"):
                continue
            m = re.match(r"^(known|fixed): property=(\w+)\s+(.*)$", line)
            if not m or m.group(2) != pid:
                continue
            if m.group(1) == "known":
                km = re.match(r"key=(\S+)\s+(.*)$", m.group(3))
                if km:
                    known.append((km.group(1), km.group(2)))
            else:
                fixed.append(m.group(3))
    return known, fixed


# ----------------------------------------------------------------------------- the check context

class Check:
    def __init__(self, pid: str, tier: str, seed: int, prop_mod: str, serving_files: list[str]):
        self.pid, self.tier, self.seed = pid, tier, seed
        self.prop_mod = prop_mod
        self.serving_files = [COQ / f for f in serving_files]
        self.t0 = time.time()
        self.violations: list[dict] = []
        self.known_hits: list[str] = []
        self.coverage: dict = {}
        self.assumptions: list[str] = []
        self.samples: list = []
        self.evaluations = 0
        self.nontrivial: set = set()
        self.rule = ""
        self.notes: dict = {}
        self.known, self.fixed = load_known(pid)
        if REPLAYS.exists():
            for old in REPLAYS.glob(f"{pid}_{tier}_*.json"):
                old.unlink()
        self.proof_broken: list[str] = []
        self.print_assumptions: dict[str, str] = {}

    # -- phase 1: proofs
    def build_and_audit(self):
        try:
            res = build_coq()
            self.build_s = res["seconds"]
        except BuildError as e:
            self.proof_broken.append(str(e))
            self.build_s = time.time() - self.t0
            return False
        mine = [str(f.relative_to(COQ)) for f in self.serving_files]
        hit = [f for f in mine if f in res["broken"]]
        if hit:
            # only files this property's theorems rest on count; other properties' files may be broken too
            self.proof_broken.append("coq build failed: " + "; ".join(f"{f}: {res['broken'][f]}" for f in hit[:4]))
            if str(self.serving_files[-1].relative_to(COQ)) in res["broken"]:
                return False
        probs = audit_sources()
        if probs:
            self.proof_broken.append("source audit: " + "; ".join(probs[:10]))
        names = theorems_of(self.serving_files[-1])
        try:
            self.print_assumptions = print_assumptions(self.pid, self.prop_mod, names)
        except BuildError as e:
            self.proof_broken.append(str(e))
            return False
        for n, txt in self.print_assumptions.items():
            if not txt.startswith("Closed under the global context"):
                axs = set(re.findall(r"(\w[\w\.]*)\s*:", txt))
                if not axs <= ALLOWED_AXIOMS:
                    self.proof_broken.append(f"theorem {n} depends on axioms: {txt[:300]}")
        return not self.proof_broken

    # -- phase 2: bookkeeping of explored cases
    def count(self, key, nontrivial: bool):
        self.evaluations += 1
        if nontrivial:
            self.nontrivial.add(key)

    def sample(self, x):
        if len(self.samples) < 3:
            self.samples.append(x)

    # -- phase 3: verdict
    def report(self, reason: str, what: str, replay: dict, no_input: bool = False):
        """reason: stable discriminator used for matching known findings."""
        for key, desc in self.known:
            if key == reason:
                msg = f"KNOWN-FINDING: property={self.pid} {desc} [{reason}]"
                if msg not in self.known_hits:
                    self.known_hits.append(msg)
                return
        REPLAYS.mkdir(parents=True, exist_ok=True)
        k = len(self.violations)
        path = REPLAYS / f"{self.pid}_{self.tier}_{k}.json"
        replay = dict(replay)
        replay.update(property=self.pid, reason=reason, what=what, seed=self.seed, tier=self.tier,
                      replay_cmd=f"{VERIF}/bin/replay {path}")
        path.write_text(json.dumps(replay, indent=1, default=str))
        self.violations.append(dict(reason=reason, what=what, path=str(path), no_input=no_input))

    def finish(self) -> int:
        wall = time.time() - self.t0
        obligations = count_qed(self.serving_files)
        discharged = 0 if any("coq build failed" in b for b in self.proof_broken) else obligations
        ev = {
            "property_id": self.pid,
            "tier": self.tier,
            "seed": self.seed,
            "level": "proof",
            "coverage": {
                "obligations": obligations,
                "discharged": discharged,
                "checker_cmd": "cd /verif/coq && coq_makefile -f _CoqProject -o Makefile && make -j16 (coqc 8.16.1, full .vo build) ; coqc Print Assumptions of every theorem in " + self.prop_mod,
                "trusted_base": TRUSTED_BASE,
                "theorems": self.print_assumptions,
                "evaluations": self.evaluations,
                "distinct_nontrivial": len(self.nontrivial),
                "rule": self.rule,
                "samples": self.samples,
                "traces_validated_against_impl": self.evaluations,
                "proof_files": [str(p.relative_to(VERIF)) for p in self.serving_files],
                "known_findings_hit": self.known_hits,
                **self.coverage,
            },
            "assumptions": self.assumptions or [
                "the theorems are about the hand-written models; the tie to the code is this run's correspondence (model evaluated "
                "inside Coq on the same inputs as the implementation) plus the constants / start-up / loop-skeleton translator",
                "values are integers in all correspondence runs; Python dict/set semantics are modelled as insertion-ordered association lists",
                "asyncio, floats of the pacing arithmetic, re/codecs, pydantic/YAML, aiohttp/aiozmq/softioc/Kafka are exercised or stubbed, "
                "not modelled (DESIGN.md section 6)",
            ],
            "wall_s": round(wall, 2),
            "violations": len(self.violations),
        }
        if self.proof_broken:
            ev["coverage"]["proof_broken"] = [b[:2000] for b in self.proof_broken]
        EVID.mkdir(parents=True, exist_ok=True)
        (EVID / f"{self.pid}.json").write_text(json.dumps(ev, indent=1, default=str))
        for msg in self.known_hits:
            print(msg)
        if self.proof_broken and not self.violations:
            # a proof obligation no longer checks and no failing input was found
            REPLAYS.mkdir(parents=True, exist_ok=True)
            path = REPLAYS / f"{self.pid}_{self.tier}_proof.json"
            path.write_text(json.dumps(dict(property=self.pid, broken=self.proof_broken,
                                            note="theorem / build / assumption audit no longer checks; no failing input found"), indent=1))
            print(f"VIOLATION property={self.pid} replay={path} no-failing-input-found")
            return 1
        for v in self.violations:
            tail = " no-failing-input-found" if v["no_input"] else ""
            print(f"VIOLATION property={self.pid} replay={v['path']}{tail}")
        if self.violations:
            return 1
        print(f"OK property={self.pid} tier={self.tier} cases={self.evaluations} "
              f"obligations={obligations} wall={wall:.1f}s")
        return 0
