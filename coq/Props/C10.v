From TV Require Import Base.
Example C10_placeholder : True. Proof. exact I. Qed.
