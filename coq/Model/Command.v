(* Model of the command adapters: src/tickit/adapters/tcp.py (CommandAdapter.handle,
   handle_message), adapters/specifications/regex_command.py (parse) and the TCP handler of
   adapters/io/tcp_io.py.  Decoding and regular-expression matching are data of the run
   (computed by Python's own codecs / re, independently of tickit): for a given message each
   command either fails to decode it, does not match it, or matches it with some groups.
   Definitions only. *)
From TV Require Import Base.

Inductive parse_res :=
| DecodeFails              (* the bytes cannot be decoded with the command's format *)
| NoMatch                  (* decoded (or raw), but the pattern does not match the whole message *)
| Match (args : list Z).   (* full match; the captured groups (as identities) *)

Record command := {
  cmd_interrupt : bool;
  cmd_replies : list (option Z)     (* what the handler yields: Some reply | None = empty marker *)
}.

(* one message, as seen by each command, in the adapter's member order *)
Definition message := list parse_res.

Inductive hresult :=
| HUnknown                                   (* the standard unknown-command reply, no interrupt *)
| HCommand (i : nat) (args : list Z)         (* the handler of command i ran once with args *)
| HRaise.                                    (* an exception escaped *)

Fixpoint handle_from (i : nat) (m : message) : hresult :=
  match m with
  | [] => HUnknown
  | Match args :: _ => HCommand i args
  | _ :: r => handle_from (S i) r
  end.
(* CommandAdapter.handle *)
Definition handle (m : message) : hresult := handle_from 0 m.

(* the behaviour of the pinned tree before the repair: trying a text command on undecodable
   bytes raised UnicodeDecodeError out of handle *)
Fixpoint handle_pinned_from (i : nat) (m : message) : hresult :=
  match m with
  | [] => HUnknown
  | Match args :: _ => HCommand i args
  | DecodeFails :: _ => HRaise
  | NoMatch :: r => handle_pinned_from (S i) r
  end.

Inductive cev :=
| EvHandler (i : nat) (args : list Z)
| EvInterrupt
| EvWrite (reply : Z)            (* format % reply written to the connection *)
| EvWriteUnknown.

(* handle_message: the handler's effect, then the interrupt iff the command is interrupting;
   returns the events and the replies to stream *)
Definition handle_message (cmds : list command) (m : message) : list cev * list (option Z) * bool :=
  match handle m with
  | HCommand i args =>
      match nth_error cmds i with
      | Some c => (EvHandler i args :: (if cmd_interrupt c then [EvInterrupt] else []), cmd_replies c, false)
      | None => ([], [], false)
      end
  | HUnknown => ([], [], true)
  | HRaise => ([], [], false)
  end.

(* the reply task: every reply other than the empty marker is written once, in order *)
Definition stream (replies : list (option Z)) (unknown : bool) : list cev :=
  if unknown then [EvWriteUnknown]
  else flat_map (fun r => match r with Some x => [EvWrite x] | None => [] end) replies.

(* a connection whose drain never suspends: on_connect replies, then chunk by chunk *)
Definition connection (cmds : list command) (on_connect : list (option Z)) (chunks : list message) : list cev :=
  stream on_connect false ++
  flat_map (fun m => let '(evs, replies, unk) := handle_message cmds m in evs ++ stream replies unk) chunks.

(* ---- comparison *)
Definition cev_eqb (a b : cev) : bool :=
  match a, b with
  | EvHandler i x, EvHandler j y => Nat.eqb i j && list_eqb Z.eqb x y
  | EvInterrupt, EvInterrupt => true
  | EvWrite x, EvWrite y => Z.eqb x y
  | EvWriteUnknown, EvWriteUnknown => true
  | _, _ => false
  end.

(* a case: the commands, on_connect, the chunks (as parse results), the observed event list;
   [raised]: the implementation raised while handling some chunk *)
Definition cmd_case := (list command * list (option Z) * list message * list cev * bool)%type.

(* 121 the observed events differ from the model, 122 an exception escaped the handler *)
Definition check_cmd (c : cmd_case) : list Z :=
  let '(cmds, onc, chunks, observed, raised) := c in
  (if raised then [122%Z] else []) ++
  (if list_eqb cev_eqb (connection cmds onc chunks) observed then [] else [121%Z]).
