(* The interrupt scripts of Model/Interrupts.v agree with the other models: on the bookkeeping an
   interrupt is [raise_interrupt] of the real-time master (Model/Sim.v) with the stamp made explicit;
   for top-level components it is [stim] of Model/NSim.v, so scripts without interrupts of inner
   devices are the scripts of the C08 / C09 theorems. *)
From TV Require Import Base Model.Wiring Model.Ticker Model.Component Model.Sim Model.SimTime Model.NSim Model.Interrupts.
Open Scope Z_scope.

Lemma raise_interrupt_is_stim_at m num den r c lvc path :
  m_s (raise_interrupt num den m r c lvc path) = stim_at (m_s m) c lvc path (stamp num den m r).
Proof. unfold raise_interrupt, stim_at. destruct path as [|[l sys0] rest]; reflexivity. Qed.

Lemma stim_at_top s c lv w : stim_at s c lv [] w = stim s c w.
Proof. reflexivity. Qed.

Lemma xsim_script_top cfg devf fuel : forall script s ob,
  (forall c lvc path w, In (XStim c lvc path w) script -> path = []) ->
  xsim_script cfg devf fuel script s ob = sim_script cfg devf fuel (map to_item script) s ob.
Proof.
  induction script as [|[|c lvc path w] r IH]; intros s ob H; cbn [xsim_script sim_script map to_item].
  - reflexivity.
  - destruct (first_wakeups (wake_of s top)) as [[when roots]|]; [|apply IH; intros; eapply H; right; eassumption].
    destruct (tick_level cfg devf fuel top when roots [] _) as [[s2 o2] o]. apply IH. intros; eapply H; right; eassumption.
  - rewrite (H c lvc path w (or_introl eq_refl)). rewrite stim_at_top. apply IH. intros; eapply H; right; eassumption.
Qed.
