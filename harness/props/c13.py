"""C13 -- start-up order does not matter.
Whole simulations on the internal bus where the scheduler and every top-level component are
started at their own event-loop step (exhaustive delay vectors on small configurations, random on
larger ones), optionally with an already running component raising an interrupt before a late
scheduler has come up.  Per-device observations, tick logs and the initial-tick oracle are compared
inside Coq with the run of Model/Sim.v (which has no notion of start order)."""
import itertools
import json
import random

import slevel
import sprops
from common import Check, run_shards

PID = "C13"
EXT, EXP = 1, 2


def main(tier, seed):
    ck = Check(PID, tier, seed, "Props.C13", ["Model/Sim.v", "Model/Bus.v", "Oracle/SimCheck.v", "Oracle/SimOracle.v",
                                              "Model/Startup.v", "Proofs/BusP.v", "Props/C13.v"])
    ck.build_and_audit()
    rng = random.Random(seed)
    small = [
        ({1: dict(order=[(3, "dev"), (4, "dev")], conns=[(3, 1, 4, 1)])}, {3: (2, 300_000_000, 1), 4: (2, 300_000_000, 0)}),
        ({1: dict(order=[(3, "dev"), (4, 2)], conns=[(3, 1, 4, 1)]),
          2: dict(order=[(5, "dev"), (6, "dev")], conns=[(EXT, 1, 5, 1), (5, 1, 6, 1), (6, 1, EXP, 1)])},
         {3: (4, 400_000_000, 1), 5: (4, 300_000_000, 0), 6: (4, 300_000_000, 2)}),
        ({1: dict(order=[(3, 2), (6, "dev")], conns=[(3, 1, 6, 1)]),
          2: dict(order=[(4, "dev"), (5, "dev")], conns=[(4, 1, 5, 1), (5, 2, EXP, 1)])},
         {4: (6, 300_000_000, 1), 5: (6, 300_000_000, 0), 6: (6, 300_000_000, 0)}),
    ]
    cases = []
    dmax = 3 if tier == "quick" else 5
    for cfg, devs in small:
        tops = [c for (c, _) in cfg[1]["order"]]
        for vec in itertools.product(range(0, dmax + 1), repeat=len(tops) + 1):
            delays = dict(zip(["sched"] + tops, vec))
            cases.append(dict(cfg=cfg, devs=devs, delays=delays, early=None, initial=0))
        # an early interrupt of a running top-level device while the scheduler starts late
        for d in [c for (c, k) in cfg[1]["order"] if k == "dev"]:
            for sd in (2, 4, 6):
                for init in (0, 7_000_000_000):
                    cases.append(dict(cfg=cfg, devs=devs, delays={"sched": sd}, early=(1, d), initial=init))
    for _ in range({"quick": 40, "thorough": 800}[tier]):
        cfg = slevel.gen_config(rng, depth=rng.choice([0, 1, 2]))
        devs = slevel.gen_devs(rng, cfg)
        tops = [c for (c, _) in cfg[1]["order"]]
        delays = {k: rng.randint(0, 9) for k in ["sched"] + tops}
        cases.append(dict(cfg=cfg, devs=devs, delays=delays, early=None, initial=rng.choice([0, 2_000_000, 5_000_000_000])))
    runs, terms = [], []
    t_end = 1_000_000_003
    for c in cases:
        r = slevel.run_internal(c["cfg"], c["devs"], (1, 1), c["initial"], [], t_end, delays=c["delays"], early=c["early"])
        c["stim"] = []
        runs.append(r)
        terms.append(slevel.render_sim_case(c["cfg"], c["devs"], (1, 1), c["initial"], [], t_end, r,
                                            pre=[c["early"][1]] if c["early"] else []))
    bad = run_shards(PID, sprops.HEADER, "sim_case", "check_sim_all", terms, shard_size=25)
    for i, (c, r) in enumerate(zip(cases, runs)):
        late = [k for k, v in c["delays"].items() if v > 0]
        ck.count(json.dumps([sprops.describe(dict(c, speed=(1, 1))), {str(k): v for k, v in c["delays"].items()}, c["early"]]),
                 len(late) >= 1)
        if r["error"] or r["errors"]:
            bad.setdefault(i, []).append(99)
        if c["early"]:
            # the interrupt's own tick legitimately updates the device a second time at the initial time
            if i in bad:
                bad[i] = [x for x in bad[i] if x != 61]
                if not bad[i]:
                    del bad[i]
            if not r.get("early_before_scheduler") and i in bad and 99 not in bad[i]:
                del bad[i]   # the interrupt arrived once the scheduler was up: that is C07's quantifier, not C13's
    # a device fails in the initial tick while other participants have not come up yet: the components that start late
    # find the stop request in what is replayed to them and end like those that were there -- every device has an adapter
    # that serves until it is cancelled, so a component's task only finishes if it has really been stopped
    from tickit.core.adapter import AdapterContainer
    import asyncio

    class BlockingAdapter:
        def after_update(self):
            pass

    class BlockingIo:
        async def setup(self, adapter, raise_interrupt):
            await asyncio.Event().wait()

    def blocking():
        return [AdapterContainer(BlockingAdapter(), BlockingIo())]

    fcases = []
    # ... also a failing device that has nothing to do with a (late) system simulation holding a chain of devices: the stop
    # request can reach the system simulation while the tick replayed to it is still on its way through the chain
    indep = ({1: dict(order=[(3, "dev"), (4, 2)], conns=[]),
              2: dict(order=[(5, "dev"), (6, "dev"), (7, "dev")], conns=[(5, 1, 6, 1), (6, 1, 7, 1), (7, 1, EXP, 1)])},
             {3: (4, 400_000_000, 1), 5: (4, 300_000_000, 1), 6: (4, 300_000_000, 0), 7: (4, 300_000_000, 0)})
    for cfg, devs in small + [indep]:
        tops = [c for (c, _) in cfg[1]["order"]]
        ad = {d: blocking for d in slevel.devices_of(cfg)}
        for failing in slevel.devices_of(cfg):
            ref = slevel.run_internal(cfg, devs, (1, 1), 0, [], 300_000_003, fail={failing: 1}, adapters=ad)
            vectors = list(itertools.product((0, 3, 6), repeat=len(tops) + 1))
            if cfg is indep[0] and failing == 3:
                vectors += [(0, a, b) for a in range(0, 9) for b in range(0, 9)]      # every pair of start delays of the two
            for vec in vectors:
                delays = dict(zip(["sched"] + tops, vec))
                if not any(vec):
                    continue
                r = slevel.run_internal(cfg, devs, (1, 1), 0, [], 300_000_003, fail={failing: 1}, adapters=ad, delays=delays)
                fcases.append((cfg, devs, failing, delays, ref, r))
    ck.evaluations += len(fcases)
    ck.coverage["failure_in_the_initial_tick_with_late_participants"] = len(fcases)
    for (cfg, devs, failing, delays, ref, r) in fcases:
        ck.count("fail-start:" + json.dumps([{str(k): v for k, v in cfg.items()}, failing, {str(k): v for k, v in delays.items()}], default=str), True)
        if r["done_by"] != ref["done_by"] or r["error"]:
            d = sprops.describe(dict(cfg=cfg, devs=devs, speed=(1, 1), initial=0, stim=[]))
            d.update(kind="failing-start", failing=failing, delays={str(k): v for k, v in delays.items()},
                     finished_all_started_together=ref["done_by"], finished=r["done_by"], error=r["error"])
            ck.report("failure-during-start-up-leaves-late-participants-running",
                      f"device c{failing} fails in the initial tick, start delays {delays}: participants whose task has ended "
                      f"{r['done_by']}, all started together {ref['done_by']}", d)
            break
    ck.rule = ("whole simulations (flat, one system, system without inputs; random nested) where the scheduler and each top-level "
               f"component are started at their own event-loop step: every delay vector in 0..{dmax} exhaustively on the small "
               "configurations, random delays 0..9 on random ones; early interrupt of a running device before a late scheduler; "
               "non-trivial = at least one participant started late")
    ck.coverage.update(exhaustive=True, delay_vectors=len(cases), disagreements=len(bad),
                       early_interrupt_before_scheduler=sum(1 for r in runs if r.get("early_before_scheduler")))
    ck.sample(dict(delays={str(k): v for k, v in cases[7]["delays"].items()}, ticklog=runs[7]["ticklog"][:4], error=runs[7]["error"]))
    done = set()
    for i in sorted(bad):
        codes = bad[i]
        key = tuple(sorted(set(codes) & {61, 62, 99, 51, 53}))
        sig = (key, bool(cases[i]["early"]), slevel.depth_of(cases[i]["cfg"]) > 1)
        if sig in done or len(done) > 5:
            continue
        done.add(sig)
        c, r = cases[i], runs[i]
        reason = ("participant-crashed-or-stalled-at-start-up" if 99 in codes else
                  "initial-tick-incomplete-after-late-start" if (61 in codes or 62 in codes) else
                  "run-differs-from-all-started-together")
        d = sprops.describe(dict(c, speed=(1, 1)))
        d.update(delays={str(k): v for k, v in c["delays"].items()}, early=c["early"], codes=codes, error=r["error"], errors=r["errors"][:3],
                 observed={str(k): [t for t, _ in v] for k, v in r["per"].items()})
        ck.report(reason + ("-early-interrupt" if c["early"] else "") + ("-nested" if sig[2] else ""),
                  f"start delays {c['delays']}, early interrupt {c['early']}: {reason}", d)
    return ck.finish()


def replay(rp):
    if rp.get("kind") == "failing-start":
        import asyncio
        from tickit.core.adapter import AdapterContainer

        class BlockingAdapter:
            def after_update(self):
                pass

        class BlockingIo:
            async def setup(self, adapter, raise_interrupt):
                await asyncio.Event().wait()

        cfg = {int(k): dict(order=[(c, (k2 if k2 == "dev" else int(k2))) for c, k2 in v["order"]],
                            conns=[tuple(x) for x in v["conns"]]) for k, v in rp["cfg"].items()}
        devs = {int(k): tuple(v) for k, v in rp["devs"].items()}
        ad = {d: (lambda: [AdapterContainer(BlockingAdapter(), BlockingIo())]) for d in slevel.devices_of(cfg)}
        delays = {(k if k == "sched" else int(k)): v for k, v in rp["delays"].items()}
        ref = slevel.run_internal(cfg, devs, (1, 1), 0, [], 300_000_003, fail={rp["failing"]: 1}, adapters=ad)
        r = slevel.run_internal(cfg, devs, (1, 1), 0, [], 300_000_003, fail={rp["failing"]: 1}, adapters=ad, delays=delays)
        print("device", rp["failing"], "fails in the initial tick; start delays", delays)
        print("participants whose task has ended:", r["done_by"], "all started together:", ref["done_by"], r["error"], r["errors"][:2])
        return 1 if (r["done_by"] != ref["done_by"] or r["error"] or r["errors"]) else 0
    cfg = {int(k): dict(order=[(c, (k2 if k2 == "dev" else int(k2))) for c, k2 in v["order"]],
                        conns=[tuple(x) for x in v["conns"]]) for k, v in rp["cfg"].items()}
    devs = {int(k): tuple(v) for k, v in rp["devs"].items()}
    delays = {(k if k == "sched" else int(k)): v for k, v in rp["delays"].items()}
    early = tuple(rp["early"]) if rp["early"] else None
    init = rp.get("initial", 0)
    r = slevel.run_internal(cfg, devs, (1, 1), init, [], 1_000_000_003, delays=delays, early=early)
    term = slevel.render_sim_case(cfg, devs, (1, 1), init, [], 1_000_000_003, r, pre=[early[1]] if early else [])
    bad = run_shards("replay", sprops.HEADER, "sim_case", "check_sim_all", [term])
    print("delays:", delays, "early:", early)
    print("observed:", {k: [t for t, _ in v] for k, v in r["per"].items()}, r["error"], r["errors"][:2])
    print("codes:", bad.get(0, []))
    return 1 if (bad or r["error"] or r["errors"]) else 0
