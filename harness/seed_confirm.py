"""Confirm a seeded change and run the /verif checks against it.
usage: seed_confirm.py <mutant dir containing patch.diff demo.py notes.md> <seed id> <property> [other properties...]
 1. in a scratch worktree of /repo (outside /repo and /verif): demo passes without the patch, fails with it,
    the test suite gives the same pass/fail set with and without the patch
 2. stores /verif/seeded/<seed id>/{patch.diff,demo.py,notes.md,meta.json}
 3. runs the listed checks against the change through mutant_matrix.py (scratch copies; /repo is not touched)"""
import json
import os
import re
import shutil
import subprocess
import sys
import time
from pathlib import Path

mdir, sid, props = Path(sys.argv[1]), sys.argv[2], sys.argv[3:]
skip_suite = os.environ.get("SKIP_SUITE") == "1"
WT = Path(f"/tmp/confirm_{sid}")


def sh(cmd, cwd=None, env=None, timeout=3600):
    e = dict(os.environ)
    e.update(env or {})
    r = subprocess.run(cmd, shell=True, cwd=cwd, env=e, capture_output=True, text=True, timeout=timeout)
    return r.returncode, r.stdout + r.stderr


def suite(wt):
    base = ("/venv/bin/python -m pytest -q -p no:cacheprovider --no-cov --timeout=900 -q "
            "--deselect tests/test_cli.py::test_cli_version --deselect tests/adapters/test_system.py::test_base_has_components_and_wiring ")
    # the HTTP tests bind a fixed port: run them separately and retry when another process holds it
    rc, out = sh(base + "tests --ignore=tests/adapters/io/test_http_io.py 2>&1 | tail -3", cwd=wt, env={"PYTHONPATH": f"{wt}/src"})
    m = re.search(r"(\d+) passed", out)
    f = re.search(r"(\d+) failed", out)
    e = re.search(r"(\d+) error", out)
    passed, failed = (int(m.group(1)) if m else 0), (int(f.group(1)) if f else 0) + (int(e.group(1)) if e else 0)
    hp = 0
    for _ in range(4):
        rc, out2 = sh(base + "tests/adapters/io/test_http_io.py 2>&1 | tail -3", cwd=wt, env={"PYTHONPATH": f"{wt}/src"})
        m2 = re.search(r"(\d+) passed", out2)
        bad2 = re.search(r"(\d+) (failed|error)", out2)
        hp = int(m2.group(1)) if m2 else 0
        if not bad2:
            break
        time.sleep(3)
    else:
        failed += 1
    return (passed + hp, failed, out[-300:])


def demo(wt):
    rc, out = sh(f"/venv/bin/python {mdir}/demo.py", cwd=wt, env={"PYTHONPATH": f"{wt}/src", "PYTHONHASHSEED": "0"}, timeout=600)
    return rc, out[-600:]


meta = dict(id=sid, property=props[0], checks_run=props, source=str(mdir))
sh(f"git -C /repo worktree remove --force {WT}")
rc, out = sh(f"git -C /repo worktree add --detach {WT} HEAD")
assert rc == 0, out
try:
    d0 = demo(WT)
    rc, out = sh(f"git apply {mdir}/patch.diff", cwd=WT)
    assert rc == 0, "patch does not apply: " + out
    d1 = demo(WT)
    meta["demo_without_patch_rc"], meta["demo_with_patch_rc"] = d0[0], d1[0]
    meta["demo_with_patch_tail"] = d1[1][-300:]
    if not skip_suite:
        s1 = suite(WT)
        meta["suite_with_patch"] = dict(passed=s1[0], failed=s1[1])
    confirmed = d0[0] == 0 and d1[0] != 0 and (skip_suite or (s1[1] == 0 and s1[0] >= 258))
    meta["confirmed"] = confirmed
finally:
    sh(f"git -C /repo worktree remove --force {WT}")

dst = Path("/verif/seeded") / sid
dst.mkdir(parents=True, exist_ok=True)
for f in ("patch.diff", "demo.py", "notes.md"):
    if (mdir / f).exists():
        shutil.copy(mdir / f, dst / f)
notes = (mdir / "notes.md").read_text() if (mdir / "notes.md").exists() else ""
meta["needs_to_manifest"] = notes[:1500]
(dst / "meta.json").write_text(json.dumps(meta, indent=1))
print(json.dumps({k: meta[k] for k in ("id", "confirmed", "demo_without_patch_rc", "demo_with_patch_rc")}, indent=None))
if meta["confirmed"] and os.environ.get("NO_MATRIX") != "1":
    # the checks run on scratch copies of /verif and /repo (mutant_matrix.py): /repo itself is never modified
    rc, out = sh(f"/venv/bin/python /verif/harness/mutant_matrix.py -j 1 {sid}", timeout=7200)
    print(out[-3000:])
