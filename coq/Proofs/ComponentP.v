From TV Require Import Base Model.Wiring Model.Component.

Lemma opt_eqb_Z x v : opt_eqb Z.eqb x (Some v) = true <-> x = Some v.
Proof.
  destruct x as [y|]; simpl.
  - rewrite Z.eqb_eq. split; [intros ->; reflexivity | intros H; inversion H; reflexivity].
  - split; discriminate.
Qed.

(* an output port is reported exactly when its value differs from the previous report
   (a port absent last time counts as different) *)
Lemma diff_outputs_spec last outs k v :
  In (k, v) (diff_outputs last outs) <-> In (k, v) outs /\ lookup k last <> Some v.
Proof.
  unfold diff_outputs. rewrite filter_In. simpl. rewrite negb_true_iff.
  split; intros [H1 H2]; split; auto.
  - intros He. apply opt_eqb_Z in He. congruence.
  - destruct (opt_eqb Z.eqb (lookup k last) (Some v)) eqn:E; [|reflexivity].
    apply opt_eqb_Z in E. contradiction.
Qed.

(* the device is handed the cumulative inputs: the latest value ever received on each port *)
Lemma on_tick_inputs st chg outs q :
  lookup q (snd (fst (on_tick st chg outs))) =
  match last_write q chg with Some v => Some v | None => lookup q (d_inputs st) end.
Proof. unfold on_tick. simpl. apply lookup_merge_last. Qed.

Lemma on_tick_state st chg outs :
  d_last (fst (fst (on_tick st chg outs))) = outs /\
  d_inputs (fst (fst (on_tick st chg outs))) = snd (fst (on_tick st chg outs)).
Proof. split; reflexivity. Qed.
