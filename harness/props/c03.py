import sprops

PID = "C03"


def main(tier, seed):
    return sprops.main_S(PID, tier, seed, {81}, "Props.C03",
                         ["Model/Sim.v", "Oracle/SimCheck.v", "Oracle/SimOracle.v", "Model/Wiring.v", "Model/Ticker.v", "Model/Component.v", "Proofs/WiringP.v", "Proofs/TickerP.v", "Proofs/SimP.v", "Proofs/FlattenP.v", "Proofs/NonInterfP.v", "Proofs/LatestP.v", "Model/SimTime.v", "Model/Inline.v", "Proofs/EqvP.v", "Proofs/WakeWfP.v", "Proofs/InlineP.v", "Proofs/InlineLoopP.v", "Proofs/InlineScopeP.v", "Proofs/InlineLatestP.v", "Props/C03.v"],
                         "values along the wiring", "nested")


replay = sprops.replay_S
