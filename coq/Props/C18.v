From TV Require Import Base.
Example C18_placeholder : True. Proof. exact I. Qed.
