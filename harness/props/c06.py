"""C06 -- callbacks are honoured exactly, merged when simultaneous, never invented.
Whole simulations against Model/Sim.v with the callback oracles (65 honoured, 66 not invented, 67 every update has a
cause); in addition the step-exhaustive interrupt injection sweep of C07 (an interrupt of every device at every
event-loop step of a window, also in the middle of master and nested ticks) is judged by the callback oracle alone:
whatever the interrupt does, every callback a device asked for is still served -- up to the end of the run."""
import slevel
import sprops
from common import run_shards
from props import c07

PID = "C06"


def injection_part(ck, tier, rng):
    icases, _ = c07.s_part(ck, tier, rng)
    iterms = [slevel.render_sim_case(c["cfg"], c["devs"], (1, 1), c.get("initial", 0), [], 1_300_000_003, c["run"]) for c in icases]
    ibad = run_shards(PID + "_i", sprops.HEADER, "sim_case", "oracle_c06", iterms, shard_size=60)
    ck.coverage["injection_sweep_runs_judged_by_the_callback_oracle"] = len(icases)
    for i in sorted(ibad):
        c = icases[i]
        ck.report(sprops.REASONS[65], f"interrupt of device c{c['device']} injected at loop step {c['step']} ({c['name']}): a callback "
                  "requested by a device is not served afterwards",
                  dict(kind="injection", initial=c.get("initial", 0), cfg={str(k): v for k, v in c["cfg"].items()}, devs={str(k): v for k, v in c["devs"].items()},
                       device=c["device"], step=c["step"], inj=c["inj"], ticklog=c["run"]["ticklog"][-12:], codes=ibad[i],
                       observed={str(k): [t for t, _ in v] for k, v in c["run"]["per"].items()}))
        break


def main(tier, seed):
    return sprops.main_S(PID, tier, seed, {65, 66, 67}, "Props.C06",
                         ["Model/Sim.v", "Model/Master.v", "Oracle/SimCheck.v", "Oracle/SimOracle.v", "Proofs/MasterP.v", "Model/PyLib.v", "Gen/SourceFuns.v", "Proofs/GenWakeupsP.v", "Proofs/GenNestedEpilogueP.v", "Props/C06.v"],
                         "callbacks", "callbacks", extra=injection_part)


def replay(rp):
    if rp.get("kind") == "injection":
        cfg = {int(k): dict(order=[(c, kk) for c, kk in v["order"]], conns=[tuple(x) for x in v["conns"]]) for k, v in rp["cfg"].items()}
        devs = {int(k): tuple(v) for k, v in rp["devs"].items()}
        r = slevel.run_internal(cfg, devs, (1, 1), rp.get("initial", 0), [], 1_300_000_003, inject=(rp["step"], rp["device"]))
        bad = run_shards("replay", sprops.HEADER, "sim_case", "oracle_c06", [slevel.render_sim_case(cfg, devs, (1, 1), rp.get("initial", 0), [], 1_300_000_003, r)])
        print("injection", rp["device"], "at step", rp["step"], "updates:", {k: [t for t, _ in v] for k, v in r["per"].items()})
        print("codes:", bad.get(0, []))
        return 1 if bad else 0
    return sprops.replay_S(rp)
