(* Model of src/tickit/core/components/device_component.py (DeviceComponent.on_tick):
   cumulative device inputs, output diff against the previous report.  The device itself is
   an arbitrary function (its reports are data of the run).  Definitions only. *)
From TV Require Import Base Model.Wiring.

Definition values := list (port * Z).

Record dcstate := { d_inputs : values; d_last : values }.
Definition dc_init : dcstate := {| d_inputs := []; d_last := [] |}.

(* {k: v for k, v in outputs.items() if k not in last or not last[k] == v} *)
Definition diff_outputs (last outs : values) : values :=
  filter (fun kv : port * Z => negb (opt_eqb Z.eqb (lookup (fst kv) last) (Some (snd kv)))) outs.

(* one update: returns the new state, the inputs handed to the device and the reported changes *)
Definition on_tick (st : dcstate) (chg : values) (outs : values) : dcstate * values * values :=
  let inputs := merge (d_inputs st) chg in
  ({| d_inputs := inputs; d_last := outs |}, inputs, diff_outputs (d_last st) outs).

(* a history: per update, the input changes received and what the device reported *)
Fixpoint run_dc (st : dcstate) (h : list (values * values)) : list (values * values) :=
  match h with
  | [] => []
  | (chg, outs) :: r =>
      let '(st', inputs, ch) := on_tick st chg outs in (inputs, ch) :: run_dc st' r
  end.

Definition values_eqb (a b : values) : bool :=
  forallb (fun kv : port * Z => opt_eqb Z.eqb (lookup (fst kv) b) (Some (snd kv))) a &&
  forallb (fun kv : port * Z => opt_eqb Z.eqb (lookup (fst kv) a) (Some (snd kv))) b.

(* case: the history, what the device saw / the component reported at each update, and how
   often each attached adapter was notified *)
Definition dc_case := (list (values * values) * list (values * values) * list Z)%type.

(* reason codes: 41 inputs handed to the device differ, 42 reported changes differ,
   43 an adapter was not notified exactly once per update *)
Definition check_dc (c : dc_case) : list Z :=
  let '(h, obs, notif) := c in
  let m := run_dc dc_init h in
  (if list_eqb (fun x y : values * values => values_eqb (fst x) (fst y)) m obs then [] else [41%Z]) ++
  (if list_eqb (fun x y : values * values => values_eqb (snd x) (snd y)) m obs then [] else [42%Z]) ++
  (if forallb (fun n => Z.eqb n (Z.of_nat (length h))) notif then [] else [43%Z]).
