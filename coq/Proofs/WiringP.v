(* Lemmas about Model/Wiring.v *)
From TV Require Import Base Model.Wiring.

(* ---------- generic: invariant over the processed prefix of a fold *)
Lemma fold_left_prefix {A B} (f : A -> B -> A) (P : A -> list B -> Prop) :
  (forall a done x, P a done -> P (f a x) (done ++ [x])) ->
  forall l a d0, P a d0 -> P (fold_left f l a) (d0 ++ l).
Proof.
  intros Hstep l. induction l as [|x t IH]; intros a d0 H; simpl.
  - rewrite app_nil_r. exact H.
  - replace (d0 ++ x :: t) with ((d0 ++ [x]) ++ t) by (rewrite <- app_assoc; reflexivity).
    apply IH. apply Hstep. exact H.
Qed.

Lemma lookup_app {A} k (l1 l2 : list (positive * A)) :
  lookup k (l1 ++ l2) = match lookup k l1 with Some v => Some v | None => lookup k l2 end.
Proof.
  induction l1 as [|[k' v'] t IH]; simpl; [reflexivity|].
  destruct (Pos.eqb k k'); [reflexivity | exact IH].
Qed.

Lemma lookup_In_iff {A} (l : list (positive * A)) k v :
  NoDup (keys l) -> (In (k, v) l <-> lookup k l = Some v).
Proof.
  induction l as [|[k' v'] t IH]; simpl; intros Hnd.
  - split; [intros [] | discriminate].
  - inversion Hnd as [|? ? Hni Hnd']; subst.
    destruct (Pos.eqb_spec k k') as [->|Hne].
    + split.
      * intros [H|H]; [inversion H; reflexivity|].
        exfalso. apply Hni. apply in_map_iff. exists (k', v). split; [reflexivity | exact H].
      * intros H. inversion H. left. reflexivity.
    + rewrite <- (IH Hnd'). split.
      * intros [H|H]; [inversion H; congruence | exact H].
      * intros H. right. exact H.
Qed.

Lemma nodupb_NoDup l : nodupb l = true <-> NoDup l.
Proof.
  induction l as [|x t IH]; simpl.
  - split; [constructor | reflexivity].
  - rewrite andb_true_iff, negb_true_iff, memb_false, IH. split.
    + intros [H1 H2]. constructor; assumption.
    + intros H. inversion H. split; assumption.
Qed.

Lemma cport_eqb_eq a b : cport_eqb a b = true <-> a = b.
Proof.
  destruct a as [a1 a2], b as [b1 b2]. unfold cport_eqb. simpl.
  rewrite andb_true_iff, !Pos.eqb_eq. split; [intros [-> ->]; reflexivity | intros H; inversion H; auto].
Qed.

Lemma cport_eq_dec (a b : cport) : {a = b} + {a <> b}.
Proof. decide equality; apply Pos.eq_dec. Qed.

Lemma mem_cport_In t l : mem_cport t l = true <-> In t l.
Proof.
  unfold mem_cport. rewrite existsb_exists. split.
  - intros [x [Hx He]]. apply cport_eqb_eq in He. subst. exact Hx.
  - intros H. exists t. split; [exact H | apply cport_eqb_eq; reflexivity].
Qed.

(* ---------- In over an updated dictionary: [upd] rewrites the first entry of the key or appends *)
Lemma In_upd_present {A} k (v v0 : A) l :
  lookup k l = Some v0 ->
  exists l1 l2, l = l1 ++ (k, v0) :: l2 /\ ~ In k (keys l1) /\ upd k v l = l1 ++ (k, v) :: l2.
Proof.
  induction l as [|[k' v'] t IH]; simpl; [discriminate|].
  destruct (Pos.eqb_spec k k') as [->|Hne]; intros H.
  - inversion H; subst. exists [], t. simpl. auto.
  - destruct (IH H) as [l1 [l2 [E [Hn Eu]]]]. exists ((k', v') :: l1), l2. simpl.
    rewrite E at 1. rewrite Eu. split; [reflexivity|]. split; [|reflexivity].
    intros [Hk|Hk]; [congruence | contradiction].
Qed.

Lemma upd_absent {A} k (v : A) l : lookup k l = None -> upd k v l = l ++ [(k, v)].
Proof.
  induction l as [|[k' v'] t IH]; simpl; [reflexivity|].
  destruct (Pos.eqb k k'); [discriminate|]. intros H. rewrite IH by exact H. reflexivity.
Qed.

(* ---------- from_inverse: connections, In-based on both sides *)
Definition mkc (oc : comp) (op : port) (t : cport) : conn := (oc, op, fst t, snd t).

Definition conns_outs (oc : comp) (outs : list (port * list cport)) : list conn :=
  flat_map (fun o : port * list cport => map (mkc oc (fst o)) (snd o)) outs.

Lemma conns_w_unfold w :
  conns_w w = flat_map (fun e : comp * list (port * list cport) => conns_outs (fst e) (snd e)) w.
Proof. reflexivity. Qed.

Lemma conns_w_app a b : conns_w (a ++ b) = conns_w a ++ conns_w b.
Proof. unfold conns_w. apply flat_map_app. Qed.
Lemma conns_w_cons oc outs b : conns_w ((oc, outs) :: b) = conns_outs oc outs ++ conns_w b.
Proof. reflexivity. Qed.

Lemma conns_outs_upd oc op tg' outs c :
  (forall x, In x (get_d op outs) -> In x tg') ->
  (In c (conns_outs oc (upd op tg' outs)) <->
   In c (conns_outs oc outs) \/ exists t, In t tg' /\ ~ In t (get_d op outs) /\ c = mkc oc op t).
Proof.
  intros Hsub. unfold get_d in *. destruct (lookup op outs) as [tg|] eqn:E.
  - destruct (In_upd_present op tg' tg outs E) as [l1 [l2 [E1 [Hn E2]]]].
    rewrite E2. rewrite E1. unfold conns_outs. rewrite !flat_map_app. simpl.
    rewrite !in_app_iff, !in_map_iff. split.
    + intros [H|[[t [Ht Hi]]|H]]; auto.
      destruct (in_dec cport_eq_dec t tg) as [Hin|Hnin].
      * left. right. left. exists t. auto.
      * right. exists t. auto.
    + intros [[H|[[t [Ht Hi]]|H]]|[t [Hi [Hn' Hc]]]]; auto.
      * right. left. exists t. auto.
      * right. left. exists t. auto.
  - rewrite upd_absent by exact E. unfold conns_outs. rewrite flat_map_app. simpl.
    rewrite app_nil_r, in_app_iff, in_map_iff. split.
    + intros [H|[t [Ht Hi]]]; auto. right. exists t. split; [exact Hi|]. split; [intros []|auto].
    + intros [H|[t [Hi [_ Hc]]]]; auto. right. exists t. auto.
Qed.

Lemma conns_add_target w oc op t c :
  In c (conns_w (add_target w oc op t)) <-> c = mkc oc op t \/ In c (conns_w w).
Proof.
  unfold add_target.
  set (outs := get_d oc w). set (tg := get_d op outs).
  set (tg' := if mem_cport t tg then tg else tg ++ [t]).
  assert (Hsub : forall x, In x (get_d op outs) -> In x tg').
  { intros x Hx. subst tg'. fold tg in Hx. destruct (mem_cport t tg); [exact Hx|].
    apply in_or_app. left. exact Hx. }
  assert (Hnew : forall x, (In x tg' /\ ~ In x tg) <-> (x = t /\ ~ In t tg)).
  { intros x. subst tg'. destruct (mem_cport t tg) eqn:Em.
    - apply mem_cport_In in Em. split; [intros [H1 H2]; contradiction | intros [-> H]; contradiction].
    - rewrite in_app_iff. simpl. split.
      + intros [[H|[H|[]]] Hn]; [contradiction|]. subst. auto.
      + intros [-> Hn]. auto. }
  assert (Hinner : In c (conns_outs oc (upd op tg' outs)) <->
                   In c (conns_outs oc outs) \/ (c = mkc oc op t /\ ~ In t tg)).
  { rewrite (conns_outs_upd oc op tg' outs c Hsub). fold tg. split.
    - intros [H|[x [H1 [H2 H3]]]]; auto. right. destruct (proj1 (Hnew x) (conj H1 H2)) as [-> Hn]. auto.
    - intros [H|[H1 H2]]; auto. right. exists t. split; [apply Hnew; auto|]. auto. }
  assert (Hdec : In t tg -> In (mkc oc op t) (conns_outs oc outs)).
  { intros Hi. unfold conns_outs. apply in_flat_map. subst tg. unfold get_d in Hi.
    destruct (lookup op outs) as [tgl|] eqn:E; [|contradiction].
    exists (op, tgl). split; [apply lookup_In; exact E|]. simpl. apply in_map. exact Hi. }
  subst outs. unfold get_d in *.
  destruct (lookup oc w) as [outs0|] eqn:E.
  - destruct (In_upd_present oc (upd op tg' outs0) outs0 w E) as [l1 [l2 [E1 [Hn E2]]]].
    rewrite E2. rewrite E1. rewrite !conns_w_app, !conns_w_cons.
    rewrite !in_app_iff. rewrite Hinner. split.
    + intros [H|[[H|[H _]]|H]]; auto.
    + intros [H|[H|[H|H]]]; auto.
      destruct (in_dec cport_eq_dec t tg) as [Hin|Hnin].
      * right. left. left. subst c. apply Hdec. exact Hin.
      * right. left. right. auto.
  - rewrite upd_absent by exact E. rewrite conns_w_app, conns_w_cons.
    rewrite !in_app_iff. rewrite Hinner. cbn [conns_outs flat_map conns_w]. split.
    + intros [H|[[[]|[H _]]|[]]]; auto.
    + intros [H|H]; auto.
Qed.

Lemma conns_touch w k c : In c (conns_w (touch k w)) <-> In c (conns_w w).
Proof.
  unfold touch. destruct (lookup k w); [reflexivity|].
  rewrite conns_w_app, conns_w_cons. simpl. rewrite app_nil_r. reflexivity.
Qed.

Lemma from_inverse_conns iw c : In c (conns_w (from_inverse iw)) <-> In c (conns_iw iw).
Proof.
  unfold from_inverse.
  set (inner := fun (ic : comp) (w : wiring) (i : port * cport) =>
                  add_target w (fst (snd i)) (snd (snd i)) (ic, fst i)).
  set (outer := fun (w : wiring) (e : comp * list (port * cport)) =>
                  fold_left (inner (fst e)) (snd e) (touch (fst e) w)).
  change (In c (conns_w (fold_left outer iw [])) <-> In c (conns_iw iw)).
  pose (P := fun (w : wiring) (done : iwiring) => forall c, In c (conns_w w) <-> In c (conns_iw done)).
  assert (H : P (fold_left outer iw []) ([] ++ iw)).
  { apply fold_left_prefix.
    - intros w done e HP. unfold outer.
      pose (Q := fun (w' : wiring) (ins : list (port * cport)) =>
                   forall c, In c (conns_w w') <-> In c (conns_iw done) \/
                     In c (map (fun i : port * cport => (fst (snd i), snd (snd i), fst e, fst i)) ins)).
      assert (HQ : Q (fold_left (inner (fst e)) (snd e) (touch (fst e) w)) ([] ++ snd e)).
      { apply fold_left_prefix.
        - intros w' ins i HQ c'. unfold inner. rewrite conns_add_target, (HQ c').
          rewrite map_app, in_app_iff. simpl. unfold mkc. simpl. intuition.
        - intros c'. rewrite conns_touch, (HP c'). simpl. intuition. }
      intros c'. rewrite (HQ c'). unfold conns_iw. rewrite flat_map_app, in_app_iff. simpl.
      rewrite app_nil_r. reflexivity.
    - intros c'. simpl. reflexivity. }
  apply H.
Qed.

(* ---------- from_wiring: the resulting dictionary, by lookup, holds exactly the connections *)
Lemma has_conn_set_source iw ic ip src oc op ic' ip' :
  has_conn_iw (set_source iw ic ip src) (oc, op, ic', ip') <->
  (ic' = ic /\ ip' = ip /\ (oc, op) = src) \/
  (~ (ic' = ic /\ ip' = ip) /\ has_conn_iw iw (oc, op, ic', ip')).
Proof.
  unfold has_conn_iw, set_source. split.
  - intros [ins [H1 H2]]. rewrite lookup_upd in H1. destruct (Pos.eqb_spec ic' ic) as [Ec|Hne].
    + injection H1 as H1. rewrite <- H1 in H2. rewrite lookup_upd in H2.
      destruct (Pos.eqb_spec ip' ip) as [Ep|Hne2].
      * left. injection H2 as H2. auto.
      * right. split; [intros [_ H]; contradiction|].
        unfold get_d in H2. rewrite Ec. destruct (lookup ic iw) as [ins0|]; [|discriminate]. exists ins0. auto.
    + right. split; [intros [H _]; contradiction|]. exists ins. auto.
  - intros [[Ec [Ep Es]]|[Hne [ins [H1 H2]]]].
    + subst. exists (upd ip (oc, op) (get_d ic iw)). rewrite !lookup_upd_same. auto.
    + destruct (Pos.eqb_spec ic' ic) as [Ec|Hnc].
      * subst ic'. exists (upd ip src (get_d ic iw)). rewrite lookup_upd_same. split; [reflexivity|].
        rewrite lookup_upd_other by (intros Ep; apply Hne; auto).
        unfold get_d. rewrite H1. exact H2.
      * exists ins. rewrite lookup_upd_other by exact Hnc. auto.
Qed.

Lemma has_conn_touch_iw (iw : iwiring) k c : has_conn_iw (touch k iw) c <-> has_conn_iw iw c.
Proof.
  destruct c as [[[oc op] ic] ip]. unfold has_conn_iw, touch.
  destruct (lookup k iw) eqn:E; [reflexivity|]. split.
  - intros [ins [H1 H2]]. rewrite lookup_app in H1. destruct (lookup ic iw) as [x|] eqn:E2.
    + inversion H1; subst. exists ins. auto.
    + simpl in H1. destruct (Pos.eqb ic k); [|discriminate]. inversion H1; subst. discriminate.
  - intros [ins [H1 H2]]. exists ins. rewrite lookup_app, H1. auto.
Qed.

Section FromWiring.
Variable all : list conn.
Hypothesis Hss : single_source all.

Definition InvFW (acc : iwiring) (done : list conn) : Prop :=
  incl done all /\ forall c, has_conn_iw acc c <-> In c done.

Lemma InvFW_step acc done oc op t :
  InvFW acc done -> In (mkc oc op t) all ->
  InvFW (set_source acc (fst t) (snd t) (oc, op)) (done ++ [mkc oc op t]).
Proof.
  intros [Hincl Hiff] Hin. split.
  - intros x Hx. apply in_app_iff in Hx. destruct Hx as [Hx|[<-|[]]]; auto.
  - intros [[[oc' op'] ic'] ip']. rewrite has_conn_set_source, in_app_iff, Hiff. simpl. unfold mkc. split.
    + intros [[-> [-> H]]|[_ H]]; auto. inversion H; subst. auto.
    + intros [H|[H|[]]].
      * destruct (Pos.eq_dec ic' (fst t)) as [->|Hn1];
          [destruct (Pos.eq_dec ip' (snd t)) as [->|Hn2]|].
        -- left. destruct (Hss oc' op' oc op (fst t) (snd t) (Hincl _ H) Hin) as [-> ->]. auto.
        -- right. split; [intros [_ Hc]; contradiction | exact H].
        -- right. split; [intros [Hc _]; contradiction | exact H].
      * inversion H; subst. left. auto.
Qed.

Definition fw3 (oc : comp) (op : port) (iw : iwiring) (t : cport) : iwiring :=
  set_source iw (fst t) (snd t) (oc, op).
Definition fw2 (oc : comp) (iw : iwiring) (o : port * list cport) : iwiring :=
  fold_left (fw3 oc (fst o)) (snd o) iw.
Definition fw1 (iw : iwiring) (e : comp * list (port * list cport)) : iwiring :=
  fold_left (fw2 (fst e)) (snd e) (touch (fst e) iw).

Lemma fw_level3 oc op : forall tg acc done,
  InvFW acc done -> incl (map (mkc oc op) tg) all ->
  InvFW (fold_left (fw3 oc op) tg acc) (done ++ map (mkc oc op) tg).
Proof.
  induction tg as [|t tg IH]; intros acc done H0 Hall; simpl.
  - rewrite app_nil_r. exact H0.
  - replace (done ++ mkc oc op t :: map (mkc oc op) tg)
      with ((done ++ [mkc oc op t]) ++ map (mkc oc op) tg)
      by (rewrite <- app_assoc; reflexivity).
    apply IH.
    + unfold fw3. apply InvFW_step; [exact H0 | apply Hall; left; reflexivity].
    + intros x Hx. apply Hall. right. exact Hx.
Qed.

Lemma fw_level2 oc : forall outs acc done,
  InvFW acc done -> incl (conns_outs oc outs) all ->
  InvFW (fold_left (fw2 oc) outs acc) (done ++ conns_outs oc outs).
Proof.
  induction outs as [|[op tg] outs IH]; intros acc done H0 Hall; simpl.
  - rewrite app_nil_r. exact H0.
  - change (conns_outs oc ((op, tg) :: outs)) with (map (mkc oc op) tg ++ conns_outs oc outs) in *.
    rewrite app_assoc. apply IH.
    + unfold fw2. simpl. apply fw_level3; [exact H0|].
      intros x Hx. apply Hall. apply in_or_app. left. exact Hx.
    + intros x Hx. apply Hall. apply in_or_app. right. exact Hx.
Qed.

Lemma fw_level1 : forall w acc done,
  InvFW acc done -> incl (conns_w w) all ->
  InvFW (fold_left fw1 w acc) (done ++ conns_w w).
Proof.
  induction w as [|[oc outs] w IH]; intros acc done H0 Hall; simpl.
  - rewrite app_nil_r. exact H0.
  - rewrite conns_w_cons in *. rewrite app_assoc. apply IH.
    + unfold fw1. simpl. apply fw_level2.
      * destruct H0 as [Hi Hc]. split; [exact Hi|]. intros c. rewrite has_conn_touch_iw. apply Hc.
      * intros x Hx. apply Hall. apply in_or_app. left. exact Hx.
    + intros x Hx. apply Hall. apply in_or_app. right. exact Hx.
Qed.
End FromWiring.

Lemma from_wiring_conns w :
  single_source (conns_w w) ->
  forall c, has_conn_iw (from_wiring w) c <-> In c (conns_w w).
Proof.
  intros Hss.
  assert (H : InvFW (conns_w w) (fold_left fw1 w []) ([] ++ conns_w w)).
  { apply fw_level1; [exact Hss| |intros x Hx; exact Hx].
    split; [intros x []|]. intros [[[oc op] ic] ip]. simpl.
    split; [intros [ins [H1 _]]; discriminate | intros []]. }
  destruct H as [_ H]. exact H.
Qed.

(* ---------- dictionaries produced by from_wiring have unique keys at both levels *)
Definition WFiw (iw : iwiring) : Prop :=
  NoDup (keys iw) /\ forall ic ins, In (ic, ins) iw -> NoDup (keys ins).

Lemma fold_left_inv {A B} (f : A -> B -> A) (P : A -> Prop) :
  (forall a x, P a -> P (f a x)) -> forall l a, P a -> P (fold_left f l a).
Proof.
  intros Hs l. induction l as [|x t IH]; intros a H; simpl; [exact H|]. apply IH. apply Hs. exact H.
Qed.

Lemma In_upd_cases {A} k (v : A) l k' v' :
  In (k', v') (upd k v l) -> (k' = k /\ v' = v) \/ In (k', v') l.
Proof.
  induction l as [|[k2 v2] t IH]; simpl.
  - intros [H|[]]. inversion H. auto.
  - destruct (Pos.eqb_spec k k2).
    + intros [H|H]; [inversion H; auto | auto].
    + intros [H|H]; [auto|]. destruct (IH H); auto.
Qed.

Lemma get_d_nodup (iw : iwiring) ic : WFiw iw -> NoDup (keys (get_d ic iw)).
Proof.
  intros [_ H]. unfold get_d. destruct (lookup ic iw) as [ins|] eqn:E; [|constructor].
  apply (H ic). apply lookup_In. exact E.
Qed.

Lemma WFiw_set_source iw ic ip src : WFiw iw -> WFiw (set_source iw ic ip src).
Proof.
  intros Hwf. split.
  - apply NoDup_keys_upd. apply Hwf.
  - intros ic' ins Hin. apply In_upd_cases in Hin. destruct Hin as [[_ ->]|Hin].
    + apply NoDup_keys_upd. apply get_d_nodup. exact Hwf.
    + destruct Hwf as [_ H]. eapply H. exact Hin.
Qed.

Lemma WFiw_touch (iw : iwiring) k : WFiw iw -> WFiw (touch k iw).
Proof.
  intros [H1 H2]. unfold touch. destruct (lookup k iw) eqn:E; [split; assumption|]. split.
  - unfold keys. rewrite map_app. simpl. apply lookup_None_keys in E. fold (keys iw).
    clear H2. induction (keys iw) as [|x t IH]; simpl.
    + constructor; [intros []|constructor].
    + inversion H1; subst. constructor.
      * rewrite in_app_iff. simpl. intros [Hx|[Hx|[]]]; [contradiction|]. subst. apply E. left. reflexivity.
      * apply IH; [assumption|]. intros Hx. apply E. right. exact Hx.
  - intros ic ins Hin. apply in_app_iff in Hin. destruct Hin as [Hin|[Hin|[]]].
    + eapply H2. exact Hin.
    + inversion Hin. constructor.
Qed.

Lemma WFiw_from_wiring w : WFiw (from_wiring w).
Proof.
  unfold from_wiring. apply fold_left_inv.
  - intros a e Ha. apply fold_left_inv.
    + intros a2 o Ha2. apply fold_left_inv; [|exact Ha2].
      intros a3 t Ha3. apply WFiw_set_source. exact Ha3.
    + apply WFiw_touch. exact Ha.
  - split; [constructor | intros ? ? []].
Qed.

Lemma conns_iw_has_conn iw c : WFiw iw -> (In c (conns_iw iw) <-> has_conn_iw iw c).
Proof.
  intros [Hk Hin]. destruct c as [[[oc op] ic] ip]. unfold conns_iw, has_conn_iw. rewrite in_flat_map. split.
  - intros [[ic' ins] [He Hc]]. simpl in Hc. apply in_map_iff in Hc. destruct Hc as [[ip' [oc' op']] [Heq Hi]].
    simpl in Heq. inversion Heq; subst. exists ins. split.
    + apply lookup_In_iff; assumption.
    + apply lookup_In_iff; [eapply Hin; exact He | exact Hi].
  - intros [ins [H1 H2]]. exists (ic, ins). split; [apply lookup_In; exact H1|].
    simpl. apply in_map_iff. exists (ip, (oc, op)). split; [reflexivity | apply lookup_In; exact H2].
Qed.

Lemma wf_iw_WFiw iw : wf_iw iw = true -> WFiw iw.
Proof.
  unfold wf_iw. rewrite andb_true_iff, forallb_forall. intros [H1 H2]. split.
  - apply nodupb_NoDup. exact H1.
  - intros ic ins Hin. apply nodupb_NoDup. apply (H2 (ic, ins)). exact Hin.
Qed.

Lemma WFiw_single_source iw : WFiw iw -> single_source (conns_iw iw).
Proof.
  intros Hwf oc op oc' op' ic ip H1 H2.
  apply (conns_iw_has_conn iw _ Hwf) in H1. apply (conns_iw_has_conn iw _ Hwf) in H2.
  destruct H1 as [ins [A1 A2]]. destruct H2 as [ins' [B1 B2]].
  rewrite A1 in B1. inversion B1; subst. rewrite A2 in B2. inversion B2. auto.
Qed.

(* ---------- round trips *)
Lemma roundtrip_w_conns w c :
  single_source (conns_w w) ->
  (In c (conns_w (from_inverse (from_wiring w))) <-> In c (conns_w w)).
Proof.
  intros Hss. rewrite from_inverse_conns.
  rewrite (conns_iw_has_conn _ c (WFiw_from_wiring w)). apply from_wiring_conns. exact Hss.
Qed.

Lemma roundtrip_iw_conns iw c :
  single_source (conns_iw iw) ->
  (has_conn_iw (from_wiring (from_inverse iw)) c <-> In c (conns_iw iw)).
Proof.
  intros Hss. rewrite from_wiring_conns.
  - apply from_inverse_conns.
  - intros oc op oc' op' ic ip H1 H2. apply from_inverse_conns in H1. apply from_inverse_conns in H2.
    eapply Hss; eassumption.
Qed.

Definition lookup2 (iw : iwiring) (ic : comp) (ip : port) : option cport :=
  match lookup ic iw with Some ins => lookup ip ins | None => None end.

Lemma lookup2_has_conn iw oc op ic ip :
  lookup2 iw ic ip = Some (oc, op) <-> has_conn_iw iw (oc, op, ic, ip).
Proof.
  unfold lookup2, has_conn_iw. split.
  - destruct (lookup ic iw) as [ins|]; [|discriminate]. intros H. exists ins. auto.
  - intros [ins [H1 H2]]. rewrite H1. exact H2.
Qed.

Lemma roundtrip_iw_lookup iw :
  wf_iw iw = true ->
  forall ic ip, lookup2 (from_wiring (from_inverse iw)) ic ip = lookup2 iw ic ip.
Proof.
  intros Hwf ic ip. apply wf_iw_WFiw in Hwf.
  assert (Heq : forall oc op, lookup2 (from_wiring (from_inverse iw)) ic ip = Some (oc, op) <->
                              lookup2 iw ic ip = Some (oc, op)).
  { intros oc op. rewrite !lookup2_has_conn.
    rewrite (roundtrip_iw_conns iw _ (WFiw_single_source iw Hwf)).
    apply conns_iw_has_conn. exact Hwf. }
  destruct (lookup2 (from_wiring (from_inverse iw)) ic ip) as [[oc op]|] eqn:E1.
  - symmetry. apply Heq. reflexivity.
  - destruct (lookup2 iw ic ip) as [[oc op]|] eqn:E2; [|reflexivity].
    assert (H : None = Some (oc, op)) by (apply Heq; reflexivity). discriminate.
Qed.

(* ---------- components are preserved *)
Lemma dedup_In x l : In x (dedup l) <-> In x l.
Proof.
  induction l as [|y t IH]; simpl; [reflexivity|].
  destruct (memb y t) eqn:E.
  - rewrite IH. apply memb_In in E. split; [auto|]. intros [->|H]; auto.
  - simpl. rewrite IH. reflexivity.
Qed.

Lemma keys_touch {A} (l : list (positive * list A)) k x : In x (keys (touch k l)) <-> x = k \/ In x (keys l).
Proof.
  unfold touch. destruct (lookup k l) eqn:E.
  - split; [auto|]. intros [->|H]; [|exact H]. eapply lookup_Some_keys. exact E.
  - unfold keys. rewrite map_app, in_app_iff. simpl. intuition.
Qed.

Lemma keys_add_target w oc op t x : In x (keys (add_target w oc op t)) <-> x = oc \/ In x (keys w).
Proof. unfold add_target. apply in_keys_upd. Qed.

Lemma keys_set_source iw ic ip s x : In x (keys (set_source iw ic ip s)) <-> x = ic \/ In x (keys iw).
Proof. unfold set_source. apply in_keys_upd. Qed.

Lemma keys_from_inverse iw x :
  In x (keys (from_inverse iw)) <-> In x (keys iw) \/ In x (map out_comp (conns_iw iw)).
Proof.
  unfold from_inverse.
  pose (P := fun (w : wiring) (done : iwiring) =>
               forall x, In x (keys w) <-> In x (keys done) \/ In x (map out_comp (conns_iw done))).
  assert (H : P (fold_left (fun w (e : comp * list (port * cport)) =>
               fold_left (fun w (i : port * cport) =>
                            add_target w (fst (snd i)) (snd (snd i)) (fst e, fst i))
                         (snd e) (touch (fst e) w)) iw []) ([] ++ iw)).
  { apply fold_left_prefix with (P := P).
    - intros w done e HP.
      pose (Q := fun (w' : wiring) (ins : list (port * cport)) =>
                   forall x, In x (keys w') <-> x = fst e \/ In x (keys done) \/
                     In x (map out_comp (conns_iw done)) \/ In x (map (fun i : port * cport => fst (snd i)) ins)).
      assert (HQ : Q (fold_left (fun w (i : port * cport) =>
                            add_target w (fst (snd i)) (snd (snd i)) (fst e, fst i))
                         (snd e) (touch (fst e) w)) ([] ++ snd e)).
      { apply fold_left_prefix with (P := Q).
        - intros w' ins i HQ y. rewrite keys_add_target, (HQ y), map_app, in_app_iff. simpl. intuition.
        - intros y. rewrite keys_touch, (HP y). simpl. intuition. }
      intros y. rewrite (HQ y). unfold keys, conns_iw. rewrite !map_app, flat_map_app, map_app, !in_app_iff.
      simpl. rewrite app_nil_r, map_map. simpl. fold (keys done). unfold conns_iw. intuition.
    - intros y. simpl. intuition. }
  apply H.
Qed.

Lemma keys_from_wiring w x :
  In x (keys (from_wiring w)) <-> In x (keys w) \/ In x (map in_comp (conns_w w)).
Proof.
  change (from_wiring w) with (fold_left fw1 w []).
  assert (H : forall w acc x, In x (keys (fold_left fw1 w acc)) <->
                In x (keys acc) \/ In x (keys w) \/ In x (map in_comp (conns_w w))).
  { clear. induction w as [|[oc outs] w IH]; intros acc x; simpl.
    - intuition.
    - rewrite IH. rewrite map_app, in_app_iff. unfold fw1 at 1. simpl.
      change (flat_map (fun o : port * list cport =>
                map (fun t : cport => (oc, fst o, fst t, snd t)) (snd o)) outs) with (conns_outs oc outs).
      assert (H2 : forall outs acc x, In x (keys (fold_left (fw2 oc) outs acc)) <->
                     In x (keys acc) \/ In x (map in_comp (conns_outs oc outs))).
      { clear. induction outs as [|[op tg] outs IHo]; intros acc x; simpl.
        - intuition.
        - rewrite IHo. change (conns_outs oc ((op, tg) :: outs)) with (map (mkc oc op) tg ++ conns_outs oc outs).
          rewrite map_app, in_app_iff. unfold fw2 at 1. simpl.
          assert (H3 : forall tg acc x, In x (keys (fold_left (fw3 oc op) tg acc)) <->
                         In x (keys acc) \/ In x (map in_comp (map (mkc oc op) tg))).
          { clear. induction tg as [|t tg IHt]; intros acc x; simpl.
            - intuition.
            - rewrite IHt. unfold fw3 at 1. rewrite keys_set_source. intuition. }
          rewrite H3. intuition. }
      rewrite H2, keys_touch. intuition. }
  rewrite H. simpl. intuition.
Qed.

Lemma in_comp_conns_iw_key iw c : In c (conns_iw iw) -> In (in_comp c) (keys iw).
Proof.
  unfold conns_iw. rewrite in_flat_map. intros [[ic ins] [He Hc]]. simpl in Hc.
  apply in_map_iff in Hc. destruct Hc as [i [<- _]]. simpl.
  apply in_map_iff. exists (ic, ins). auto.
Qed.

Lemma out_comp_conns_w_key w c : In c (conns_w w) -> In (out_comp c) (keys w).
Proof.
  unfold conns_w. rewrite in_flat_map. intros [[oc outs] [He Hc]]. simpl in Hc.
  apply in_flat_map in Hc. destruct Hc as [o [_ Hc]]. apply in_map_iff in Hc. destruct Hc as [t [<- _]]. simpl.
  apply in_map_iff. exists (oc, outs). auto.
Qed.

Lemma components_from_inverse iw x :
  In x (components_w (from_inverse iw)) <-> In x (components_iw iw).
Proof.
  unfold components_w, components_iw. rewrite !dedup_In, !in_app_iff, keys_from_inverse. split.
  - intros [[H|H]|H]; auto. apply in_map_iff in H. destruct H as [c [<- Hc]].
    apply from_inverse_conns in Hc. left. apply in_comp_conns_iw_key. exact Hc.
  - intros [H|H]; auto.
Qed.

Lemma components_from_wiring w x :
  single_source (conns_w w) ->
  (In x (components_iw (from_wiring w)) <-> In x (components_w w)).
Proof.
  intros Hss. unfold components_w, components_iw. rewrite !dedup_In, !in_app_iff, keys_from_wiring. split.
  - intros [[H|H]|H]; auto. apply in_map_iff in H. destruct H as [c [<- Hc]].
    apply (conns_iw_has_conn _ _ (WFiw_from_wiring w)) in Hc. apply from_wiring_conns in Hc; [|exact Hss].
    left. apply out_comp_conns_w_key. exact Hc.
  - intros [H|H]; auto.
Qed.

(* ---------- dependants = reflexive-transitive closure of the wire relation *)
Lemma succs_In conns x y :
  In y (succs conns x) <-> exists k, In k conns /\ out_comp k = x /\ in_comp k = y.
Proof.
  unfold succs. rewrite dedup_In, in_flat_map. split.
  - intros [k [Hk Hy]]. destruct (Pos.eqb_spec (out_comp k) x); [|destruct Hy].
    destruct Hy as [Hy|[]]. exists k. auto.
  - intros [k [Hk [Ho Hi]]]. exists k. split; [exact Hk|]. rewrite Ho, Pos.eqb_refl. left. exact Hi.
Qed.

Lemma preds_In conns x y :
  In y (preds conns x) <-> exists k, In k conns /\ in_comp k = x /\ out_comp k = y.
Proof.
  unfold preds. rewrite dedup_In, in_flat_map. split.
  - intros [k [Hk Hy]]. destruct (Pos.eqb_spec (in_comp k) x); [|destruct Hy].
    destruct Hy as [Hy|[]]. exists k. auto.
  - intros [k [Hk [Ho Hi]]]. exists k. split; [exact Hk|]. rewrite Ho, Pos.eqb_refl. left. exact Hi.
Qed.

Lemma crawl_sound conns root : forall fuel queue seen s,
  (forall x, In x queue -> reach conns root x) ->
  (forall x, In x seen -> reach conns root x) ->
  crawl conns fuel queue seen = Some s ->
  forall x, In x s -> reach conns root x.
Proof.
  induction fuel as [|f IH]; intros queue seen s Hq Hs Hc; destruct queue as [|x0 q]; simpl in Hc;
    try discriminate.
  - inversion Hc; subst. exact Hs.
  - inversion Hc; subst. exact Hs.
  - destruct (memb x0 seen) eqn:E.
    + eapply IH; [| |exact Hc]; [intros x Hx; apply Hq; right; exact Hx | exact Hs].
    + eapply IH; [| |exact Hc].
      * intros x Hx. apply in_app_iff in Hx. destruct Hx as [Hx|Hx]; [apply Hq; right; exact Hx|].
        apply filter_In in Hx. destruct Hx as [Hx _]. apply succs_In in Hx.
        destruct Hx as [k [Hk [Ho Hi]]]. subst x. eapply reach_step; [|exact Hk|exact Ho].
        apply Hq. left. reflexivity.
      * intros x Hx. apply in_app_iff in Hx. destruct Hx as [Hx|[<-|[]]]; [apply Hs; exact Hx|].
        apply Hq. left. reflexivity.
Qed.

Lemma crawl_keeps conns : forall fuel queue seen s,
  crawl conns fuel queue seen = Some s ->
  forall x, In x queue \/ In x seen -> In x s.
Proof.
  induction fuel as [|f IH]; intros queue seen s Hc x Hx; destruct queue as [|x0 q]; simpl in Hc;
    try discriminate.
  - inversion Hc; subst. destruct Hx as [[]|Hx]; exact Hx.
  - inversion Hc; subst. destruct Hx as [[]|Hx]; exact Hx.
  - destruct (memb x0 seen) eqn:E.
    + apply (IH _ _ _ Hc). destruct Hx as [[<-|Hx]|Hx]; auto. right. apply memb_In. exact E.
    + apply (IH _ _ _ Hc). rewrite !in_app_iff. simpl. destruct Hx as [[<-|Hx]|Hx]; auto.
Qed.

Lemma closedb_closed conns s : closedb conns s = true ->
  forall k, In k conns -> In (out_comp k) s -> In (in_comp k) s.
Proof.
  unfold closedb. rewrite forallb_forall. intros H k Hk Ho. specialize (H k Hk).
  apply orb_true_iff in H. destruct H as [H|H].
  - apply negb_true_iff, memb_false in H. contradiction.
  - apply memb_In. exact H.
Qed.

Lemma dependants_reach conns root s :
  dependants conns root = Some s -> forall c, In c s <-> reach conns root c.
Proof.
  unfold dependants. destruct (crawl conns (2 + length conns) [root] []) as [s0|] eqn:E; [|discriminate].
  destruct (closedb conns s0) eqn:Ec; [|discriminate]. intros H. inversion H; subst. intros c. split.
  - eapply crawl_sound; [| |exact E].
    + intros x [<-|[]]. constructor.
    + intros x [].
  - intros Hr. induction Hr as [|c k Hr IH Hk Ho].
    + eapply crawl_keeps; [exact E|]. left. left. reflexivity.
    + eapply closedb_closed; [exact Ec | exact Hk|]. rewrite Ho. exact IH.
Qed.

(* ---------- route delivers exactly along the wires *)
Definition rkey := (comp * port)%type.
Definition rkey_eqb (a b : rkey) : bool := Pos.eqb (fst a) (fst b) && Pos.eqb (snd a) (snd b).

Section Route.
Context {V : Type}.

Definition upd2 (r : list (comp * list (port * V))) (w : rkey * V) : list (comp * list (port * V)) :=
  upd (fst (fst w)) (upd (snd (fst w)) (snd w) (get_d (fst (fst w)) r)) r.

Definition lookup2r (r : list (comp * list (port * V))) (ic : comp) (ip : port) : option V :=
  match lookup ic r with Some d => lookup ip d | None => None end.

Fixpoint lastw (k : rkey) (ws : list (rkey * V)) : option V :=
  match ws with
  | [] => None
  | (k', v) :: t => match lastw k t with
                    | Some x => Some x
                    | None => if rkey_eqb k k' then Some v else None
                    end
  end.

Definition route_writes (conns : list conn) (src : comp) (ch : list (port * V)) : list (rkey * V) :=
  flat_map (fun c : port * V =>
              flat_map (fun k : conn =>
                          let '(oc, op, ic, ip) := k in
                          if Pos.eqb oc src && Pos.eqb op (fst c) then [((ic, ip), snd c)] else [])
                       conns) ch.

Lemma fold_left_flat_map {A B C} (f : A -> C -> A) (g : B -> list C) l a :
  fold_left f (flat_map g l) a = fold_left (fun a x => fold_left f (g x) a) l a.
Proof.
  revert a. induction l as [|x t IH]; intros a; simpl; [reflexivity|].
  rewrite fold_left_app. apply IH.
Qed.

Lemma route_as_writes_gen conns src ch : forall acc,
  fold_left (fun routed (ch : port * V) =>
               fold_left (fun routed (k : conn) =>
                            let '(oc, op, ic, ip) := k in
                            if Pos.eqb oc src && Pos.eqb op (fst ch)
                            then upd ic (upd ip (snd ch) (get_d ic routed)) routed
                            else routed)
                         conns routed) ch acc
  = fold_left upd2 (route_writes conns src ch) acc.
Proof.
  unfold route_writes. induction ch as [|c ch IH]; intros acc; simpl; [reflexivity|].
  rewrite fold_left_app. rewrite <- IH. f_equal.
  clear IH. revert acc. induction conns as [|[[[oc op] ic] ip] cs IHc]; intros acc; simpl; [reflexivity|].
  destruct (Pos.eqb oc src && Pos.eqb op (fst c)); simpl; apply IHc.
Qed.

Lemma route_as_writes conns src ch :
  route conns src ch = fold_left upd2 (route_writes conns src ch) [].
Proof. unfold route. apply route_as_writes_gen. Qed.

Lemma lookup2r_upd2 r w ic ip :
  lookup2r (upd2 r w) ic ip = if rkey_eqb (ic, ip) (fst w) then Some (snd w) else lookup2r r ic ip.
Proof.
  destruct w as [[kc kp] v]. unfold upd2, lookup2r, rkey_eqb. simpl.
  rewrite lookup_upd. destruct (Pos.eqb_spec ic kc) as [->|Hn]; simpl.
  - rewrite lookup_upd. destruct (Pos.eqb ip kp); [reflexivity|].
    unfold get_d. destruct (lookup kc r); reflexivity.
  - reflexivity.
Qed.

Lemma lookup2r_fold ws : forall r ic ip,
  lookup2r (fold_left upd2 ws r) ic ip =
  match lastw (ic, ip) ws with Some v => Some v | None => lookup2r r ic ip end.
Proof.
  induction ws as [|[k v] t IH]; intros r ic ip; simpl; [reflexivity|].
  rewrite IH. destruct (lastw (ic, ip) t); [reflexivity|].
  rewrite lookup2r_upd2. simpl. destruct (rkey_eqb (ic, ip) k); reflexivity.
Qed.

Lemma rkey_eqb_eq a b : rkey_eqb a b = true <-> a = b.
Proof.
  destruct a, b. unfold rkey_eqb. simpl. rewrite andb_true_iff, !Pos.eqb_eq.
  split; [intros [-> ->]; reflexivity | intros H; inversion H; auto].
Qed.

Lemma lastw_In k ws v : lastw k ws = Some v -> In (k, v) ws.
Proof.
  induction ws as [|[k' v'] t IH]; simpl; [discriminate|].
  destruct (lastw k t) eqn:E.
  - intros H. inversion H; subst. right. apply IH. reflexivity.
  - destruct (rkey_eqb k k') eqn:Ek; [|discriminate]. apply rkey_eqb_eq in Ek. subst.
    intros H. inversion H. left. reflexivity.
Qed.

Lemma lastw_unique k ws v :
  In (k, v) ws -> (forall v', In (k, v') ws -> v' = v) -> lastw k ws = Some v.
Proof.
  induction ws as [|[k' v'] t IH]; simpl; [intros []|]. intros Hin Hu.
  destruct (lastw k t) eqn:E.
  - apply lastw_In in E. f_equal. apply Hu. right. exact E.
  - destruct Hin as [Hin|Hin].
    + inversion Hin; subst. assert (Hr : rkey_eqb k k = true) by (apply rkey_eqb_eq; reflexivity).
      rewrite Hr. reflexivity.
    + assert (Hs : None = Some v)
        by (apply IH; [exact Hin | intros v2 H2; apply Hu; right; exact H2]).
      discriminate Hs.
Qed.

Lemma route_writes_In conns src ch ic ip v :
  In ((ic, ip), v) (route_writes conns src ch) <->
  exists op, In (op, v) ch /\ In (src, op, ic, ip) conns.
Proof.
  unfold route_writes. rewrite in_flat_map. split.
  - intros [[op v'] [Hc Hk]]. apply in_flat_map in Hk. destruct Hk as [[[[oc op'] ic'] ip'] [Hk Hi]].
    simpl in Hi. destruct (Pos.eqb_spec oc src); [|destruct Hi]. destruct (Pos.eqb_spec op' op); [|destruct Hi].
    simpl in Hi. destruct Hi as [Hi|[]]. inversion Hi; subst. exists op. auto.
  - intros [op [Hc Hk]]. exists (op, v). split; [exact Hc|]. apply in_flat_map.
    exists (src, op, ic, ip). split; [exact Hk|]. simpl. rewrite !Pos.eqb_refl. left. reflexivity.
Qed.

Lemma route_exact conns src ch ic ip v :
  single_source conns -> NoDup (keys ch) ->
  (lookup2r (route conns src ch) ic ip = Some v <->
   exists op, lookup op ch = Some v /\ In (src, op, ic, ip) conns).
Proof.
  intros Hss Hnd. rewrite route_as_writes, lookup2r_fold. simpl. split.
  - destruct (lastw (ic, ip) (route_writes conns src ch)) eqn:E; [|discriminate].
    intros H. inversion H; subst. apply lastw_In, route_writes_In in E.
    destruct E as [op [H1 H2]]. exists op. split; [apply lookup_In_iff; assumption | exact H2].
  - intros [op [H1 H2]]. rewrite (lastw_unique (ic, ip) _ v); [reflexivity| |].
    + apply route_writes_In. exists op. split; [apply lookup_In; exact H1 | exact H2].
    + intros v' Hv'. apply route_writes_In in Hv'. destruct Hv' as [op' [H3 H4]].
      destruct (Hss src op src op' ic ip H2 H4) as [_ <-].
      apply lookup_In_iff in H3; [|exact Hnd]. congruence.
Qed.

(* nothing is routed to a port that is not wired to a changed output of the source *)
Lemma route_nothing_else conns src ch ic ip v :
  lookup2r (route conns src ch) ic ip = Some v ->
  exists op, In (op, v) ch /\ In (src, op, ic, ip) conns.
Proof.
  rewrite route_as_writes, lookup2r_fold. simpl.
  destruct (lastw (ic, ip) (route_writes conns src ch)) eqn:E; [|discriminate].
  intros H. inversion H; subst. apply lastw_In, route_writes_In in E. exact E.
Qed.
End Route.
