import sprops

PID = "C03"


def main(tier, seed):
    return sprops.main_S(PID, tier, seed, {81}, "Props.C03",
                         ["Model/Sim.v", "Oracle/SimCheck.v", "Oracle/SimOracle.v", "Proofs/SimP.v", "Props/C03.v"],
                         "values along the wiring", "nested")


replay = sprops.replay_S
