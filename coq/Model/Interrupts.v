(* Interrupts of devices at any nesting depth on the simulation-time model: scripts of master ticks and
   interrupts with an explicit stamp (the simulation time the master attaches to the interrupt).  The
   effect of an interrupt on the schedulers' bookkeeping is that of [raise_interrupt] (Model/Sim.v):
   the device is queued in its own nested scheduler, every enclosing system simulation in the one
   around it, and the OUTERMOST system simulation gets a wakeup at the master -- the earlier of the
   stamp and the wakeup it already has.  Definitions only. *)
From TV Require Import Base Model.Wiring Model.Ticker Model.Component Model.Sim Model.SimTime Model.NSim.
Open Scope Z_scope.

Inductive xitem := XTick | XStim (c : comp) (lvc : positive) (path : list (positive * comp)) (w : Z).

Definition stim_at (s : sstate) (c : comp) (lvc : positive) (path : list (positive * comp)) (w : Z) : sstate :=
  let tgt := match path with [] => c | (_, sys0) :: _ => sys0 end in
  let st := match lookup tgt (wake_of s top) with Some w0 => Z.min w w0 | None => w end in
  match path with
  | [] => set_wake s top (upd c st (wake_of s top))
  | (_, sys0) :: _ =>
      let s1 := set_int s lvc (if memb c (int_of s lvc) then int_of s lvc else int_of s lvc ++ [c]) in
      let s2 := fold_left (fun s' (e : positive * comp) =>
                             if Pos.eqb (fst e) top then s'
                             else set_int s' (fst e) (if memb (snd e) (int_of s' (fst e)) then int_of s' (fst e)
                                                       else int_of s' (fst e) ++ [snd e]))
                          path s1 in
      set_wake s2 top (upd sys0 st (wake_of s2 top))
  end.

Section XScript.
Variable cfg : config.
Variable devf : devfun.
Variable fuel : nat.

Fixpoint xsim_script (script : list xitem) (s : sstate) (ob : list obs) : sstate * list obs :=
  match script with
  | [] => (s, ob)
  | XStim c lvc path w :: r => xsim_script r (stim_at s c lvc path w) ob
  | XTick :: r =>
      match first_wakeups (wake_of s top) with
      | None => xsim_script r s ob
      | Some (when, roots) =>
          let s1 := set_wake s top (filter (fun e : comp * Z => negb (memb (fst e) roots)) (wake_of s top)) in
          let '(s2, _, o) := tick_level cfg devf fuel top when roots [] (log_tick s1 top when roots) in
          xsim_script r s2 (ob ++ o)
      end
  end.

Definition xsim_from_start (initial : Z) (script : list xitem) : sstate * list obs :=
  let roots := map fst (l_order (level_of cfg top)) in
  let '(s1, _, ob) := tick_level cfg devf fuel top initial roots [] (log_tick (set_wake s_init top []) top initial roots) in
  xsim_script script s1 ob.
End XScript.

(* the same script for the flat equivalent: every interrupt is of a top-level device *)
Definition flat_item (i : xitem) : xitem :=
  match i with XTick => XTick | XStim c _ _ w => XStim c top [] w end.
Definition to_item (i : xitem) : item :=
  match i with XTick => ITick | XStim c _ _ w => IStim c w end.
