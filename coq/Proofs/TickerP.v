(* Invariants of the ticker model (Model/Ticker.v) over all answer orders. *)
From TV Require Import Base Model.Wiring Model.Ticker Proofs.WiringP.

(* ---------- small facts *)
Lemma In_remove_key {A} k (l : list (positive * A)) c v :
  In (c, v) (remove_key k l) <-> In (c, v) l /\ c <> k.
Proof.
  induction l as [|[k' v'] t IH]; simpl; [intuition|].
  destruct (Pos.eqb_spec k k') as [->|Hne].
  - rewrite IH. split.
    + intros [H1 H2]. auto.
    + intros [[H|H] Hn]; [inversion H; subst; contradiction | auto].
  - simpl. rewrite IH. split.
    + intros [H|[H1 H2]]; [inversion H; subst; split; [left; reflexivity | congruence] | auto].
    + intros [[H|H] Hn]; auto.
Qed.

Lemma keys_remove_key {A} k (l : list (positive * A)) c :
  In c (keys (remove_key k l)) <-> In c (keys l) /\ c <> k.
Proof.
  unfold keys. rewrite !in_map_iff. split.
  - intros [[c' v] [Hc Hi]]. simpl in Hc. subst. apply In_remove_key in Hi. destruct Hi as [Hi Hn].
    split; [exists (c, v); auto | exact Hn].
  - intros [[[c' v] [Hc Hi]] Hn]. simpl in Hc. subst. exists (c, v). split; [reflexivity|].
    apply In_remove_key. auto.
Qed.

Lemma NoDup_keys_remove {A} k (l : list (positive * A)) : NoDup (keys l) -> NoDup (keys (remove_key k l)).
Proof.
  induction l as [|[k' v'] t IH]; simpl; intros H; [constructor|].
  inversion H; subst. destruct (Pos.eqb k k'); [apply IH; assumption|].
  simpl. constructor; [|apply IH; assumption].
  intros Hc. apply keys_remove_key in Hc. destruct Hc as [Hc _]. contradiction.
Qed.

Section TP.
Variable conns : list conn.
Variable comps : list comp.

(* ---------- schedule *)
Lemma schedule_fields st st' acts :
  schedule conns comps st = Some (st', acts) ->
  tt st' = tt st /\ troots st' = troots st /\ tin st' = tin st /\ pending st' = pending st.
Proof.
  unfold schedule. destruct (forallb _ (todo st)); [|discriminate]. intros H. inversion H; subst. simpl.
  repeat split. unfold pending, keys. simpl. rewrite map_map. apply map_ext. intros [c b]. reflexivity.
Qed.

Lemma schedule_todo st st' acts c b' :
  schedule conns comps st = Some (st', acts) ->
  (In (c, b') (todo st') <-> exists b, In (c, b) (todo st) /\ b' = (b || ready conns st c)).
Proof.
  unfold schedule. destruct (forallb _ (todo st)); [|discriminate]. intros H. inversion H; subst. simpl.
  rewrite in_map_iff. split.
  - intros [[c0 b0] [He Hi]]. simpl in He. inversion He; subst. exists b0. auto.
  - intros [b [Hi ->]]. exists (c, b). auto.
Qed.

Lemma schedule_acts st st' acts a :
  schedule conns comps st = Some (st', acts) ->
  (In a acts <-> exists c, In (c, false) (todo st) /\ ready conns st c = true /\ a = mk_action st c).
Proof.
  unfold schedule. destruct (forallb _ (todo st)); [|discriminate]. intros H. inversion H; subst.
  rewrite in_flat_map. split.
  - intros [[c b] [Hi Ha]]. simpl in Ha. destruct b; [destruct Ha|].
    destruct (ready conns st c) eqn:E; [|destruct Ha]. destruct Ha as [<-|[]]. exists c. auto.
  - intros [c [Hi [Hr ->]]]. exists (c, false). split; [exact Hi|]. simpl. rewrite Hr. left. reflexivity.
Qed.

Lemma mk_action_comp st c : act_comp (mk_action st c) = c.
Proof.
  unfold mk_action. destruct (get_d c (tin st)); [destruct (memb c (troots st))|]; reflexivity.
Qed.

Lemma mk_action_time st c : act_time (mk_action st c) = tt st.
Proof.
  unfold mk_action. destruct (get_d c (tin st)); [destruct (memb c (troots st))|]; reflexivity.
Qed.

Lemma schedule_acts_nodup st st' acts :
  NoDup (pending st) -> schedule conns comps st = Some (st', acts) -> NoDup (map act_comp acts).
Proof.
  unfold schedule. destruct (forallb _ (todo st)); [|discriminate]. intros Hnd H. inversion H; subst. clear H.
  unfold pending, keys in Hnd. induction (todo st) as [|[c b] t IH]; simpl; [constructor|].
  inversion Hnd as [|? ? Hni Hnd']; subst. rewrite map_app. destruct b; simpl; [apply IH; exact Hnd'|].
  destruct (ready conns st c); simpl; [|apply IH; exact Hnd'].
  rewrite mk_action_comp. constructor; [|apply IH; exact Hnd'].
  intros Hin. apply in_map_iff in Hin. destruct Hin as [a [Ha Hi]]. apply in_flat_map in Hi.
  destruct Hi as [[c2 b2] [Hi2 Ha2]]. simpl in Ha2. destruct b2; [destruct Ha2|].
  destruct (ready conns st c2); [|destruct Ha2]. destruct Ha2 as [<-|[]]. rewrite mk_action_comp in Ha. subst.
  apply Hni. apply in_map_iff. exists (c, false). auto.
Qed.

Lemma ready_spec st c : ready conns st c = true <-> forall u, In u (preds conns c) -> ~ In u (pending st).
Proof.
  unfold ready. rewrite negb_true_iff. split.
  - intros H u Hu Hk. assert (existsb (fun u => memb u (pending st)) (preds conns c) = true).
    { apply existsb_exists. exists u. split; [exact Hu|]. apply memb_In. exact Hk. } congruence.
  - intros H. destruct (existsb _ _) eqn:E; [|reflexivity].
    apply existsb_exists in E. destruct E as [u [Hu Hm]]. apply memb_In in Hm. exfalso. eapply H; eauto.
Qed.

(* ---------- propagate *)
Lemma propagate_ok st src t ch st' acts fin :
  propagate conns comps st src t ch = POk st' acts fin ->
  In src (pending st) /\ t = tt st /\
  schedule conns comps {| tt := tt st; troots := troots st;
                          tin := accumulate (tin st) (route conns src ch);
                          todo := remove_key src (todo st) |} = Some (st', acts) /\
  fin = match todo st' with [] => true | _ => false end.
Proof.
  unfold propagate. destruct (memb src (pending st)) eqn:E1; [|discriminate].
  destruct (Z.eqb_spec t (tt st)); [|discriminate]. simpl.
  destruct (schedule _ _ _) as [[st2 acts2]|] eqn:E2; [|discriminate].
  intros H. inversion H; subst. apply memb_In in E1. auto.
Qed.
End TP.

(* ---------- the extent of a tick *)
Lemma crawl_nodup conns : forall fuel queue seen s,
  NoDup seen -> crawl conns fuel queue seen = Some s -> NoDup s.
Proof.
  induction fuel as [|f IH]; intros queue seen s Hnd Hc; destruct queue as [|x q]; simpl in Hc; try discriminate.
  - inversion Hc; subst; exact Hnd.
  - inversion Hc; subst; exact Hnd.
  - destruct (memb x seen) eqn:E.
    + eapply IH; eassumption.
    + eapply IH; [|exact Hc]. apply memb_false in E.
      clear - Hnd E. induction seen as [|y t IHt]; simpl.
      * constructor; [intros []|constructor].
      * inversion Hnd; subst. constructor.
        -- rewrite in_app_iff. simpl. intros [H|[H|[]]]; [contradiction|]. subst. apply E. left. reflexivity.
        -- apply IHt; [assumption|]. intros H. apply E. right. exact H.
Qed.

Lemma dependants_nodup conns r s : dependants conns r = Some s -> NoDup s.
Proof.
  unfold dependants. destruct (crawl _ _ _ _) as [s0|] eqn:E; [|discriminate].
  destruct (closedb conns s0); [|discriminate]. intros H. inversion H; subst.
  eapply crawl_nodup; [|exact E]. constructor.
Qed.

Lemma NoDup_app_disj {A} (l l' : list A) :
  NoDup l -> NoDup l' -> (forall x, In x l -> ~ In x l') -> NoDup (l ++ l').
Proof.
  induction l as [|x t IH]; simpl; intros H1 H2 Hd; [exact H2|].
  inversion H1; subst. constructor.
  - rewrite in_app_iff. intros [H|H]; [contradiction|]. apply (Hd x); [left; reflexivity | exact H].
  - apply IH; [assumption | assumption |]. intros y Hy. apply Hd. right. exact Hy.
Qed.

Lemma extent_spec conns : forall roots acc e,
  NoDup acc -> extent conns roots acc = Some e ->
  NoDup e /\ forall c, In c e <-> In c acc \/ exists r, In r roots /\ reach conns r c.
Proof.
  induction roots as [|r rest IH]; intros acc e Hnd He; simpl in He.
  - inversion He; subst. split; [exact Hnd|]. intros c. split; [auto|]. intros [H|[r [[] _]]]. exact H.
  - destruct (dependants conns r) as [d|] eqn:Ed; [|discriminate].
    assert (Hnd' : NoDup (acc ++ filter (fun c => negb (memb c acc)) d)).
    { apply NoDup_app_disj; [exact Hnd | apply NoDup_filter; eapply dependants_nodup; exact Ed |].
      intros x Hx Hf. apply filter_In in Hf. destruct Hf as [_ Hf].
      apply negb_true_iff, memb_false in Hf. contradiction. }
    destruct (IH _ _ Hnd' He) as [Hn Hi]. split; [exact Hn|].
    intros c. rewrite Hi, in_app_iff, filter_In. rewrite (dependants_reach conns r d Ed c). split.
    + intros [[H|[H _]]|[r' [Hr Hc]]]; auto.
      * right. exists r. split; [left; reflexivity | exact H].
      * right. exists r'. split; [right; exact Hr | exact Hc].
    + intros [H|[r' [[<-|Hr] Hc]]]; auto.
      * destruct (memb c acc) eqn:Em.
        -- left. left. apply memb_In. exact Em.
        -- left. right. split; [exact Hc | reflexivity].
      * right. exists r'. auto.
Qed.

(* ---------- runs of one tick under an arbitrary answer order *)
(* [ev] (a dispatch or an answer) is defined in Model/Ticker.v *)

Definition answered (tr : list ev) (c : comp) : Prop := exists ch, In (EAnswer c ch) tr.
Definition dispatched (tr : list ev) (c : comp) : Prop := exists a, In (EDispatch a) tr /\ act_comp a = c.

Section Runs.
Variable conns : list conn.
Variable comps : list comp.
Variable t : Z.
Variable roots : list comp.

(* [Run ext st tr]: st is reachable in the tick (t, roots) whose participant set is ext,
   having produced the event trace tr; each answer comes from a component that has been
   dispatched and has not answered yet *)
Inductive Run (ext : list comp) : tstate -> list ev -> Prop :=
| Run_start st0 st1 acts :
    start_tick conns t roots = Some st0 -> ext = pending st0 ->
    schedule conns comps st0 = Some (st1, acts) ->
    Run ext st1 (map EDispatch acts)
| Run_step st tr c ch st' acts fin :
    Run ext st tr -> In (c, true) (todo st) ->
    propagate conns comps st c t ch = POk st' acts fin ->
    Run ext st' (tr ++ EAnswer c ch :: map EDispatch acts).

Lemma start_tick_spec st0 :
  start_tick conns t roots = Some st0 ->
  tt st0 = t /\ troots st0 = roots /\ tin st0 = [] /\ NoDup (pending st0) /\
  (forall c b, In (c, b) (todo st0) -> b = false) /\
  (forall c, In c (pending st0) <-> exists r, In r roots /\ reach conns r c).
Proof.
  unfold start_tick. destruct (extent conns roots []) as [e|] eqn:E; [|discriminate].
  intros H. inversion H; subst. simpl. clear H.
  destruct (extent_spec conns roots [] e (NoDup_nil _) E) as [Hnd Hin].
  assert (Hk : pending {| tt := t; troots := roots; tin := []; todo := map (fun c => (c, false)) e |} = e).
  { unfold pending, keys. simpl. rewrite map_map. simpl. apply map_id. }
  repeat split; try reflexivity.
  - rewrite Hk. exact Hnd.
  - intros c b Hi. apply in_map_iff in Hi. destruct Hi as [x [Hx _]]. inversion Hx. reflexivity.
  - rewrite Hk. intros Hc. apply Hin in Hc. destruct Hc as [[]|Hc]. exact Hc.
  - rewrite Hk. intros Hc. apply Hin. right. exact Hc.
Qed.

(* the bookkeeping invariant *)
Record Inv (ext : list comp) (st : tstate) (tr : list ev) : Prop := {
  i_time : tt st = t;
  i_roots : troots st = roots;
  i_nodup : NoDup (pending st);
  i_sub : forall c, In c (pending st) -> In c ext;
  i_ans : forall c, In c ext -> (~ In c (pending st) <-> answered tr c);
  i_ans_ext : forall c, answered tr c -> In c ext;
  i_flag_t : forall c, In (c, true) (todo st) -> dispatched tr c;
  i_flag_f : forall c, In (c, false) (todo st) -> ~ dispatched tr c;
  i_disp_ext : forall c, dispatched tr c -> In c ext;
  i_blocked : forall c, In (c, false) (todo st) -> ready conns st c = false
}.

Lemma todo_unique st c b1 b2 :
  NoDup (pending st) -> In (c, b1) (todo st) -> In (c, b2) (todo st) -> b1 = b2.
Proof.
  unfold pending. intros Hnd H1 H2.
  apply (lookup_In_iff (todo st) c b1 Hnd) in H1. apply (lookup_In_iff (todo st) c b2 Hnd) in H2. congruence.
Qed.

Lemma in_pending st c : In c (pending st) <-> exists b, In (c, b) (todo st).
Proof.
  unfold pending, keys. rewrite in_map_iff. split.
  - intros [[c' b] [He Hi]]. simpl in He. subst. exists b. exact Hi.
  - intros [b Hi]. exists (c, b). auto.
Qed.

Lemma answered_app tr1 tr2 c : answered (tr1 ++ tr2) c <-> answered tr1 c \/ answered tr2 c.
Proof.
  unfold answered. split.
  - intros [ch H]. apply in_app_iff in H. destruct H; [left|right]; exists ch; assumption.
  - intros [[ch H]|[ch H]]; exists ch; apply in_app_iff; auto.
Qed.

Lemma dispatched_app tr1 tr2 c : dispatched (tr1 ++ tr2) c <-> dispatched tr1 c \/ dispatched tr2 c.
Proof.
  unfold dispatched. split.
  - intros [a [H Ha]]. apply in_app_iff in H. destruct H; [left|right]; exists a; auto.
  - intros [[a [H Ha]]|[a [H Ha]]]; exists a; split; auto; apply in_app_iff; auto.
Qed.

Lemma answered_dispatches acts c : ~ answered (map EDispatch acts) c.
Proof. intros [ch H]. apply in_map_iff in H. destruct H as [a [Ha _]]. discriminate. Qed.

Lemma dispatched_dispatches acts c : dispatched (map EDispatch acts) c <-> In c (map act_comp acts).
Proof.
  unfold dispatched. rewrite in_map_iff. split.
  - intros [a [H Ha]]. apply in_map_iff in H. destruct H as [a' [He Hi]]. inversion He; subst. exists a. auto.
  - intros [a [Ha Hi]]. exists a. split; [apply in_map; exact Hi | exact Ha].
Qed.

Lemma dispatched_cons_answer c ch tr x : dispatched (EAnswer c ch :: tr) x <-> dispatched tr x.
Proof.
  unfold dispatched. split.
  - intros [a [[H|H] Ha]]; [discriminate | exists a; auto].
  - intros [a [H Ha]]. exists a. split; [right; exact H | exact Ha].
Qed.

Lemma answered_cons_answer c ch tr x : answered (EAnswer c ch :: tr) x <-> x = c \/ answered tr x.
Proof.
  unfold answered. split.
  - intros [ch' [H|H]]; [inversion H; auto | right; exists ch'; exact H].
  - intros [->|[ch' H]]; [exists ch; left; reflexivity | exists ch'; right; exact H].
Qed.

(* effect of one schedule on the flag invariants *)
Lemma schedule_inv_flags st st' acts tr :
  NoDup (pending st) ->
  (forall c, In (c, true) (todo st) -> dispatched tr c) ->
  (forall c, In (c, false) (todo st) -> ~ dispatched tr c) ->
  schedule conns comps st = Some (st', acts) ->
  (forall c, In (c, true) (todo st') -> dispatched (tr ++ map EDispatch acts) c) /\
  (forall c, In (c, false) (todo st') -> ~ dispatched (tr ++ map EDispatch acts) c) /\
  (forall c, In (c, false) (todo st') -> ready conns st' c = false) /\
  (forall c, In c (map act_comp acts) -> In c (pending st)).
Proof.
  intros Hnd Ht Hf Hs.
  destruct (schedule_fields conns comps st st' acts Hs) as [_ [_ [_ Hp]]].
  assert (Hready : forall c, ready conns st' c = ready conns st c).
  { intros c. unfold ready. rewrite Hp. reflexivity. }
  split; [|split; [|split]].
  - intros c Hc. apply (schedule_todo conns comps st st' acts c true Hs) in Hc. destruct Hc as [b [Hi Hb]].
    apply dispatched_app. destruct b.
    + left. apply Ht. exact Hi.
    + right. apply dispatched_dispatches. simpl in Hb. symmetry in Hb.
      apply in_map_iff. exists (mk_action st c). split; [apply mk_action_comp|].
      apply (schedule_acts conns comps st st' acts _ Hs). exists c. auto.
  - intros c Hc. apply (schedule_todo conns comps st st' acts c false Hs) in Hc. destruct Hc as [b [Hi Hb]].
    destruct b; [discriminate|]. simpl in Hb. intros Hd. apply dispatched_app in Hd. destruct Hd as [Hd|Hd].
    + eapply Hf; eassumption.
    + apply dispatched_dispatches in Hd. apply in_map_iff in Hd. destruct Hd as [a [Ha Hia]].
      apply (schedule_acts conns comps st st' acts a Hs) in Hia. destruct Hia as [c2 [_ [Hr ->]]].
      rewrite mk_action_comp in Ha. subst. congruence.
  - intros c Hc. apply (schedule_todo conns comps st st' acts c false Hs) in Hc. destruct Hc as [b [Hi Hb]].
    destruct b; [discriminate|]. simpl in Hb. rewrite Hready. symmetry. exact Hb.
  - intros c Hc. apply in_map_iff in Hc. destruct Hc as [a [Ha Hia]].
    apply (schedule_acts conns comps st st' acts a Hs) in Hia. destruct Hia as [c2 [Hi [_ ->]]].
    rewrite mk_action_comp in Ha. subst. apply in_pending. exists false. exact Hi.
Qed.

Lemma run_inv ext st tr : Run ext st tr -> Inv ext st tr.
Proof.
  induction 1 as [st0 st1 acts Hst Hext Hs | st tr c ch st' acts fin HR IH Hc Hp].
  - destruct (start_tick_spec st0 Hst) as [Ht [Hr [_ [Hnd [Hfl _]]]]].
    destruct (schedule_fields conns comps st0 st1 acts Hs) as [Ht1 [Hr1 [_ Hp1]]].
    destruct (schedule_inv_flags st0 st1 acts [] Hnd) as [F1 [F2 [F3 F4]]]; [| |exact Hs|].
    + intros c Hc. apply Hfl in Hc. discriminate.
    + intros c _ [a [[] _]].
    + simpl in F1, F2. constructor.
      * congruence.
      * congruence.
      * rewrite Hp1. exact Hnd.
      * intros c Hc. rewrite Hp1 in Hc. subst ext. exact Hc.
      * intros c Hc. rewrite Hp1. subst ext. split; [contradiction|]. intros Ha. exfalso. eapply answered_dispatches; exact Ha.
      * intros c Ha. exfalso. eapply answered_dispatches; exact Ha.
      * exact F1.
      * exact F2.
      * intros c Hd. apply dispatched_dispatches in Hd. subst ext. apply F4. exact Hd.
      * exact F3.
  - destruct IH as [It Ir Ind Isub Ians Iae Ift Iff Ide Ibl].
    destruct (propagate_ok conns comps st c t ch st' acts fin Hp) as [Hcp [_ [Hs _]]].
    set (st1 := {| tt := tt st; troots := troots st; tin := accumulate (tin st) (route conns c ch);
                   todo := remove_key c (todo st) |}) in *.
    destruct (schedule_fields conns comps st1 st' acts Hs) as [Ht1 [Hr1 [_ Hp1]]].
    assert (Hnd1 : NoDup (pending st1)) by (unfold pending, st1; simpl; apply NoDup_keys_remove; exact Ind).
    assert (Hpend1 : forall x, In x (pending st1) <-> In x (pending st) /\ x <> c).
    { intros x. unfold pending, st1. simpl. apply keys_remove_key. }
    assert (Htr : tr ++ EAnswer c ch :: map EDispatch acts = (tr ++ [EAnswer c ch]) ++ map EDispatch acts)
      by (rewrite <- app_assoc; reflexivity).
    rewrite Htr.
    destruct (schedule_inv_flags st1 st' acts (tr ++ [EAnswer c ch]) Hnd1) as [F1 [F2 [F3 F4]]]; [| |exact Hs|].
    + intros x Hx. unfold st1 in Hx. simpl in Hx. apply In_remove_key in Hx. destruct Hx as [Hx _].
      apply dispatched_app. left. apply Ift. exact Hx.
    + intros x Hx. unfold st1 in Hx. simpl in Hx. apply In_remove_key in Hx. destruct Hx as [Hx _].
      intros Hd. apply dispatched_app in Hd. destruct Hd as [Hd|Hd]; [eapply Iff; eassumption|].
      destruct Hd as [a [[Ha|[]] _]]. discriminate.
    + constructor.
      * simpl in Ht1. congruence.
      * simpl in Hr1. congruence.
      * rewrite Hp1. exact Hnd1.
      * intros x Hx. rewrite Hp1 in Hx. apply Hpend1 in Hx. apply Isub. apply Hx.
      * intros x Hx. rewrite Hp1, Hpend1. rewrite !answered_app. split.
        -- intros Hn. destruct (Pos.eq_dec x c) as [->|Hne].
           ++ left. right. exists ch. left. reflexivity.
           ++ left. left. apply (Ians x Hx). intros Hi. apply Hn. auto.
        -- intros [[Ha|Ha]|Ha] [Hi Hne].
           ++ apply (Ians x Hx) in Ha. contradiction.
           ++ destruct Ha as [ch' [Ha|[]]]. inversion Ha. congruence.
           ++ eapply answered_dispatches; exact Ha.
      * intros x Ha. rewrite !answered_app in Ha. destruct Ha as [[Ha|Ha]|Ha].
        -- apply Iae. exact Ha.
        -- destruct Ha as [ch' [Ha|[]]]. inversion Ha; subst. apply Isub. exact Hcp.
        -- exfalso. eapply answered_dispatches; exact Ha.
      * exact F1.
      * exact F2.
      * intros x Hd. rewrite !dispatched_app in Hd. destruct Hd as [[Hd|Hd]|Hd].
        -- apply Ide. exact Hd.
        -- destruct Hd as [a [[Ha|[]] _]]. discriminate.
        -- apply dispatched_dispatches in Hd. apply F4 in Hd. apply Hpend1 in Hd. apply Isub. apply Hd.
      * exact F3.
Qed.
End Runs.

(* ---------- C01: gate, once, progress *)
Definition ans_comps (tr : list ev) : list comp :=
  flat_map (fun e => match e with EAnswer c _ => [c] | EDispatch _ => [] end) tr.
Definition disp_comps (tr : list ev) : list comp :=
  flat_map (fun e => match e with EDispatch a => [act_comp a] | EAnswer _ _ => [] end) tr.

Lemma answered_In tr c : answered tr c <-> In c (ans_comps tr).
Proof.
  unfold answered, ans_comps. rewrite in_flat_map. split.
  - intros [ch H]. exists (EAnswer c ch). split; [exact H | left; reflexivity].
  - intros [e [He Hc]]. destruct e as [a|c' ch]; [destruct Hc|]. destruct Hc as [<-|[]]. exists ch. exact He.
Qed.

Lemma dispatched_In tr c : dispatched tr c <-> In c (disp_comps tr).
Proof.
  unfold dispatched, disp_comps. rewrite in_flat_map. split.
  - intros [a [H Ha]]. exists (EDispatch a). split; [exact H | left; exact Ha].
  - intros [e [He Hc]]. destruct e as [a|c' ch]; [|destruct Hc]. destruct Hc as [<-|[]]. exists a. auto.
Qed.

Lemma disp_comps_app a b : disp_comps (a ++ b) = disp_comps a ++ disp_comps b.
Proof. unfold disp_comps. apply flat_map_app. Qed.
Lemma ans_comps_app a b : ans_comps (a ++ b) = ans_comps a ++ ans_comps b.
Proof. unfold ans_comps. apply flat_map_app. Qed.
Lemma disp_comps_dispatches acts : disp_comps (map EDispatch acts) = map act_comp acts.
Proof. induction acts as [|a r IH]; simpl; [reflexivity | rewrite IH; reflexivity]. Qed.
Lemma ans_comps_dispatches acts : ans_comps (map EDispatch acts) = [].
Proof. induction acts as [|a r IH]; simpl; [reflexivity | exact IH]. Qed.

Section C01.
Variable conns : list conn.
Variable comps : list comp.
Variable t : Z.
Variable roots : list comp.

(* the gate, read along the trace from the left with the set of components answered so far *)
Fixpoint gate_from (ext ans : list comp) (tr : list ev) : Prop :=
  match tr with
  | [] => True
  | EAnswer c _ :: r => gate_from ext (c :: ans) r
  | EDispatch a :: r =>
      (forall u, In u (preds conns (act_comp a)) -> In u ext -> In u ans) /\ gate_from ext ans r
  end.

Lemma gate_from_app ext tr1 : forall ans tr2,
  gate_from ext ans (tr1 ++ tr2) <-> gate_from ext ans tr1 /\ gate_from ext (rev (ans_comps tr1) ++ ans) tr2.
Proof.
  induction tr1 as [|e r IH]; intros ans tr2; simpl.
  - intuition.
  - destruct e as [a|c ch]; simpl.
    + rewrite IH. intuition.
    + rewrite IH. rewrite <- app_assoc. simpl. reflexivity.
Qed.

Lemma gate_from_mono ext tr : forall ans ans',
  (forall x, In x ans -> In x ans') -> gate_from ext ans tr -> gate_from ext ans' tr.
Proof.
  induction tr as [|e r IH]; intros ans ans' Hsub H; simpl in *; [exact I|].
  destruct e as [a|c ch].
  - destruct H as [H1 H2]. split; [intros u Hu He; apply Hsub; apply H1; assumption | eapply IH; eassumption].
  - eapply IH; [|exact H]. intros x [->|Hx]; [left; reflexivity | right; apply Hsub; exact Hx].
Qed.

Lemma gate_dispatches ext ans acts :
  (forall a, In a acts -> forall u, In u (preds conns (act_comp a)) -> In u ext -> In u ans) ->
  gate_from ext ans (map EDispatch acts).
Proof.
  induction acts as [|a r IH]; intros H; simpl; [exact I|]. split.
  - apply H. left. reflexivity.
  - apply IH. intros a' Ha'. apply H. right. exact Ha'.
Qed.

Lemma run_gate ext st tr : Run conns comps t roots ext st tr -> gate_from ext [] tr.
Proof.
  induction 1 as [st0 st1 acts Hst Hext Hs | st tr c ch st' acts fin HR IH Hc Hp].
  - apply gate_dispatches. intros a Ha u Hu He.
    apply (schedule_acts conns comps st0 st1 acts a Hs) in Ha. destruct Ha as [c [_ [Hr ->]]].
    rewrite mk_action_comp in Hu. exfalso. apply (proj1 (ready_spec conns st0 c) Hr u Hu). subst ext. exact He.
  - assert (HI := run_inv conns comps t roots ext st tr HR).
    destruct (propagate_ok conns comps st c t ch st' acts fin Hp) as [Hcp [_ [Hs _]]].
    apply gate_from_app. split; [exact IH|]. simpl. rewrite app_nil_r.
    apply gate_dispatches. intros a Ha u Hu He.
    apply (schedule_acts conns comps _ st' acts a Hs) in Ha. destruct Ha as [c2 [_ [Hr ->]]].
    rewrite mk_action_comp in Hu. assert (Hn := proj1 (ready_spec conns _ c2) Hr u Hu).
    unfold pending in Hn. simpl in Hn. rewrite keys_remove_key in Hn.
    destruct (Pos.eq_dec u c) as [->|Hne]; [left; reflexivity|]. right.
    rewrite <- in_rev. apply answered_In. apply (i_ans _ _ _ _ _ _ HI u He). intros Hi. apply Hn. auto.
Qed.

(* the same statement with an explicit split of the trace *)
Lemma gate_split ext tr : gate_from ext [] tr ->
  forall l1 a l2, tr = l1 ++ EDispatch a :: l2 ->
  forall u, In u (preds conns (act_comp a)) -> In u ext -> answered l1 u.
Proof.
  intros H l1 a l2 -> u Hu He. apply gate_from_app in H. destruct H as [_ H]. simpl in H.
  destruct H as [H _]. rewrite app_nil_r in H. apply answered_In. rewrite in_rev. apply H; assumption.
Qed.

Lemma run_once ext st tr : Run conns comps t roots ext st tr -> NoDup (disp_comps tr) /\ NoDup (ans_comps tr).
Proof.
  induction 1 as [st0 st1 acts Hst Hext Hs | st tr c ch st' acts fin HR IH Hc Hp].
  - rewrite disp_comps_dispatches, ans_comps_dispatches. split; [|constructor].
    destruct (start_tick_spec conns t roots st0 Hst) as [_ [_ [_ [Hnd _]]]].
    eapply schedule_acts_nodup; eassumption.
  - assert (HI := run_inv conns comps t roots ext st tr HR). destruct IH as [IH1 IH2].
    destruct (propagate_ok conns comps st c t ch st' acts fin Hp) as [Hcp [_ [Hs _]]].
    rewrite disp_comps_app, ans_comps_app. simpl. rewrite disp_comps_dispatches, ans_comps_dispatches. split.
    + apply NoDup_app_disj; [exact IH1| |].
      * eapply schedule_acts_nodup; [|exact Hs]. unfold pending. simpl. apply NoDup_keys_remove. apply (i_nodup _ _ _ _ _ _ HI).
      * intros x Hx Hin. apply in_map_iff in Hin. destruct Hin as [a [Ha Hia]].
        apply (schedule_acts conns comps _ st' acts a Hs) in Hia. destruct Hia as [c2 [Hi [_ ->]]].
        rewrite mk_action_comp in Ha. subst. simpl in Hi. apply In_remove_key in Hi. destruct Hi as [Hi _].
        apply (i_flag_f _ _ _ _ _ _ HI x Hi). apply dispatched_In. exact Hx.
    + apply NoDup_app_disj; [exact IH2 | constructor; [intros []|constructor] |].
      intros x Hx [E|[]]. subst x. apply answered_In in Hx.
      apply (i_ans _ _ _ _ _ _ HI c (i_sub _ _ _ _ _ _ HI c Hcp)) in Hx. contradiction.
Qed.

(* progress: with an acyclic wiring some dispatched component is always awaiting its answer *)
Definition acyclic : Prop :=
  exists rank : comp -> nat, forall k, In k conns -> (rank (out_comp k) < rank (in_comp k))%nat.

Lemma min_rank (rank : comp -> nat) (l : list comp) :
  l <> [] -> exists c, In c l /\ forall x, In x l -> (rank c <= rank x)%nat.
Proof.
  induction l as [|y r IH]; [congruence|]. intros _. destruct r as [|z r'].
  - exists y. split; [left; reflexivity|]. intros x [<-|[]]. lia.
  - destruct IH as [c [Hc Hm]]; [discriminate|].
    destruct (Nat.le_gt_cases (rank y) (rank c)).
    + exists y. split; [left; reflexivity|]. intros x [<-|Hx]; [lia|]. specialize (Hm x Hx). lia.
    + exists c. split; [right; exact Hc|]. intros x [<-|Hx]; [lia | apply Hm; exact Hx].
Qed.

Lemma run_progress ext st tr :
  acyclic -> Run conns comps t roots ext st tr -> todo st <> [] -> exists c, In (c, true) (todo st).
Proof.
  intros [rank Hrank] HR Hne. assert (HI := run_inv conns comps t roots ext st tr HR).
  destruct (min_rank rank (pending st)) as [c [Hc Hmin]].
  { unfold pending, keys. destruct (todo st); [congruence | discriminate]. }
  apply in_pending in Hc. destruct Hc as [[|] Hc]; [exists c; exact Hc|].
  exfalso. assert (Hb := i_blocked _ _ _ _ _ _ HI c Hc).
  unfold ready in Hb. apply negb_false_iff, existsb_exists in Hb. destruct Hb as [u [Hu Hm]].
  apply memb_In in Hm. apply preds_In in Hu. destruct Hu as [k [Hk [Hi Ho]]].
  specialize (Hrank k Hk). rewrite Hi, Ho in Hrank. specialize (Hmin u Hm). lia.
Qed.

Lemma run_count ext st tr :
  Run conns comps t roots ext st tr -> (length (pending st) + length (ans_comps tr) = length ext)%nat.
Proof.
  induction 1 as [st0 st1 acts Hst Hext Hs | st tr c ch st' acts fin HR IH Hc Hp].
  - destruct (schedule_fields conns comps st0 st1 acts Hs) as [_ [_ [_ Hp1]]].
    rewrite ans_comps_dispatches, Hp1. subst ext. simpl. lia.
  - assert (HI := run_inv conns comps t roots ext st tr HR).
    destruct (propagate_ok conns comps st c t ch st' acts fin Hp) as [Hcp [_ [Hs _]]].
    destruct (schedule_fields conns comps _ st' acts Hs) as [_ [_ [_ Hp1]]].
    rewrite ans_comps_app. simpl. rewrite ans_comps_dispatches, app_length. simpl. rewrite Hp1.
    unfold pending at 1. simpl.
    assert (Hlen : forall (l : list (comp * bool)), NoDup (keys l) -> In c (keys l) ->
                   S (length (keys (remove_key c l))) = length (keys l)).
    { clear. induction l as [|[k b] r IHl]; simpl; intros Hnd Hin; [destruct Hin|].
      inversion Hnd; subst. destruct (Pos.eqb_spec c k) as [->|Hne].
      - f_equal. clear IHl Hnd Hin H2. induction r as [|[k2 b2] r2 IHr]; simpl; [reflexivity|].
        destruct (Pos.eqb_spec k k2) as [->|Hn2]; [exfalso; apply H1; left; reflexivity|].
        simpl. f_equal. apply IHr. intros Hx. apply H1. right. exact Hx.
      - simpl. f_equal. apply IHl; [assumption|]. destruct Hin; [congruence | assumption]. }
    specialize (Hlen (todo st) (i_nodup _ _ _ _ _ _ HI) Hcp). unfold pending in IH. unfold comp in *. lia.
Qed.
End C01.

(* ---------- C02 / C03 / C08: what a component is handed *)
Lemma last_write_lookup {A} (l : list (positive * A)) k : NoDup (keys l) -> last_write k l = lookup k l.
Proof.
  induction l as [|[k' v] r IH]; simpl; intros Hnd; [reflexivity|].
  inversion Hnd as [|? ? Hni Hnd']; subst. rewrite (IH Hnd').
  destruct (Pos.eqb_spec k k') as [->|Hne].
  - apply lookup_None_keys in Hni. rewrite Hni. reflexivity.
  - destruct (lookup k r); reflexivity.
Qed.

Definition WFd {V} (r : list (comp * list (port * V))) : Prop :=
  NoDup (keys r) /\ forall c d, In (c, d) r -> NoDup (keys d).

Lemma WFd_upd2 {V} (r : list (comp * list (port * V))) w : WFd r -> WFd (upd2 r w).
Proof.
  intros [H1 H2]. unfold upd2. split; [apply NoDup_keys_upd; exact H1|].
  intros c d Hin. apply In_upd_cases in Hin. destruct Hin as [[_ ->]|Hin]; [|eapply H2; exact Hin].
  apply NoDup_keys_upd. unfold get_d. destruct (lookup (fst (fst w)) r) as [d0|] eqn:E; [|constructor].
  eapply H2. apply lookup_In. exact E.
Qed.

Lemma route_WFd {V} conns src (ch : list (port * V)) : WFd (route conns src ch).
Proof.
  rewrite route_as_writes. apply fold_left_inv; [intros a x Ha; apply WFd_upd2; exact Ha|].
  split; [constructor | intros ? ? []].
Qed.

Lemma lookup2r_get_d (m : list (comp * changes)) c q : lookup2r m c q = lookup q (get_d c m).
Proof. unfold lookup2r, get_d. unfold changes in *. destruct (lookup c m); reflexivity. Qed.

Lemma lookup2r_cons {V} c' (d : list (port * V)) rest c q :
  lookup2r ((c', d) :: rest) c q = if Pos.eqb c c' then lookup q d else lookup2r rest c q.
Proof. unfold lookup2r. simpl. destruct (Pos.eqb c c'); reflexivity. Qed.

Lemma lookup2r_upd_same {V} (m : list (comp * list (port * V))) c d q :
  lookup2r (upd c d m) c q = lookup q d.
Proof. unfold lookup2r. rewrite lookup_upd_same. reflexivity. Qed.

Lemma lookup2r_upd_other {V} (m : list (comp * list (port * V))) c c' d q :
  c <> c' -> lookup2r (upd c' d m) c q = lookup2r m c q.
Proof. intros H. unfold lookup2r. rewrite lookup_upd_other by exact H. reflexivity. Qed.

Lemma accumulate_lookup r : forall m c q,
  WFd r ->
  lookup2r (accumulate m r) c q =
  match lookup2r r c q with Some v => Some v | None => lookup2r m c q end.
Proof.
  unfold accumulate. induction r as [|[c' d] rest IH]; intros m c q [Hk Hd]; simpl; [reflexivity|].
  inversion Hk as [|? ? Hni Hk']; subst.
  rewrite IH by (split; [exact Hk' | intros c2 d2 Hi; eapply Hd; right; exact Hi]).
  rewrite lookup2r_cons. destruct (Pos.eqb_spec c c') as [->|Hne].
  - assert (Hn : lookup2r rest c' q = None).
    { unfold lookup2r. apply lookup_None_keys in Hni. unfold comp, port in *. rewrite Hni. reflexivity. }
    rewrite Hn. rewrite lookup2r_upd_same. rewrite lookup_merge_last.
    rewrite last_write_lookup by (eapply Hd; left; reflexivity).
    rewrite lookup2r_get_d. reflexivity.
  - destruct (lookup2r rest c q); [reflexivity|].
    apply lookup2r_upd_other. exact Hne.
Qed.

Section Inputs.
Variable conns : list conn.
Variable comps : list comp.
Variable t : Z.
Variable roots : list comp.
Hypothesis Hss : single_source conns.

(* the value wired into input port q of c by the answers recorded in tr *)
Definition spec_inputs (tr : list ev) (c : comp) (q : port) (v : Z) : Prop :=
  exists u p ch, In (EAnswer u ch) tr /\ In (u, p, c, q) conns /\ lookup p ch = Some v.

Definition wf_answers (tr : list ev) : Prop := forall c ch, In (EAnswer c ch) tr -> NoDup (keys ch).

Lemma spec_inputs_app tr1 tr2 c q v :
  spec_inputs (tr1 ++ tr2) c q v <-> spec_inputs tr1 c q v \/ spec_inputs tr2 c q v.
Proof.
  unfold spec_inputs. split.
  - intros [u [p [ch [Hi H]]]]. apply in_app_iff in Hi. destruct Hi; [left|right]; exists u, p, ch; auto.
  - intros [[u [p [ch [Hi H]]]]|[u [p [ch [Hi H]]]]]; exists u, p, ch; split; auto; apply in_app_iff; auto.
Qed.

Lemma spec_inputs_dispatches acts c q v : ~ spec_inputs (map EDispatch acts) c q v.
Proof. intros [u [p [ch [Hi _]]]]. apply in_map_iff in Hi. destruct Hi as [a [Ha _]]. discriminate. Qed.

Lemma run_inputs ext st tr :
  Run conns comps t roots ext st tr -> wf_answers tr ->
  forall c q v, lookup2r (tin st) c q = Some v <-> spec_inputs tr c q v.
Proof.
  induction 1 as [st0 st1 acts Hst Hext Hs | st tr c0 ch0 st' acts fin HR IH Hc Hp]; intros Hwf c q v.
  - destruct (start_tick_spec conns t roots st0 Hst) as [_ [_ [Hin _]]].
    destruct (schedule_fields conns comps st0 st1 acts Hs) as [_ [_ [Hti _]]]. rewrite Hti, Hin. split.
    + discriminate.
    + intros H. exfalso. eapply spec_inputs_dispatches; exact H.
  - assert (HI := run_inv conns comps t roots ext st tr HR).
    destruct (propagate_ok conns comps st c0 t ch0 st' acts fin Hp) as [Hcp [_ [Hs _]]].
    destruct (schedule_fields conns comps _ st' acts Hs) as [_ [_ [Hti _]]]. rewrite Hti. simpl.
    assert (Hwf0 : wf_answers tr) by (intros x y Hxy; eapply Hwf; apply in_app_iff; left; exact Hxy).
    assert (Hnd0 : NoDup (keys ch0)) by (eapply Hwf; apply in_app_iff; right; left; reflexivity).
    rewrite accumulate_lookup by apply route_WFd.
    replace (tr ++ EAnswer c0 ch0 :: map EDispatch acts) with (tr ++ [EAnswer c0 ch0] ++ map EDispatch acts) by reflexivity.
    rewrite !spec_inputs_app.
    destruct (lookup2r (route conns c0 ch0) c q) as [v'|] eqn:Er.
    + apply (route_exact conns c0 ch0 c q v' Hss Hnd0) in Er. destruct Er as [p [Hl Hk]]. split.
      * intros H. inversion H; subst. right. left. exists c0, p, ch0. split; [left; reflexivity | auto].
      * intros [H|[H|H]].
        -- destruct H as [u [p' [ch [Hi [Hk' Hl']]]]].
           destruct (Hss c0 p u p' c q Hk Hk') as [E1 E2]. subst u p'.
           exfalso. apply (i_ans _ _ _ _ _ _ HI c0 (i_sub _ _ _ _ _ _ HI c0 Hcp)); [exists ch; exact Hi | exact Hcp].
        -- destruct H as [u [p' [ch [[Hi|[]] [Hk' Hl']]]]]. injection Hi as E1 E2. subst u ch.
           destruct (Hss c0 p c0 p' c q Hk Hk') as [_ E3]. subst p'. congruence.
        -- exfalso. eapply spec_inputs_dispatches; exact H.
    + rewrite (IH Hwf0 c q v). split; [auto|]. intros [H|[H|H]]; [exact H | |].
      * destruct H as [u [p' [ch [[Hi|[]] [Hk' Hl']]]]]. injection Hi as E1 E2. subst u ch.
        assert (Hs' : lookup2r (route conns c0 ch0) c q = Some v)
          by (apply (route_exact conns c0 ch0 c q v Hss Hnd0); exists p'; auto).
        congruence.
      * exfalso. eapply spec_inputs_dispatches; exact H.
Qed.

(* what an action must look like, given the events before it *)
Definition action_ok (pre : list ev) (a : action) : Prop :=
  act_time a = t /\
  match a with
  | Upd c _ chg => (forall q v, lookup q chg = Some v <-> spec_inputs pre c q v) /\ (In c roots \/ chg <> [])
  | Skp c _ => ~ In c roots /\ forall q v, ~ spec_inputs pre c q v
  end.

Fixpoint disp_ok (pre tr : list ev) : Prop :=
  match tr with
  | [] => True
  | EAnswer c ch :: r => disp_ok (pre ++ [EAnswer c ch]) r
  | EDispatch a :: r => action_ok pre a /\ disp_ok (pre ++ [EDispatch a]) r
  end.

Lemma disp_ok_app tr1 : forall pre tr2,
  disp_ok pre (tr1 ++ tr2) <-> disp_ok pre tr1 /\ disp_ok (pre ++ tr1) tr2.
Proof.
  induction tr1 as [|e r IH]; intros pre tr2; simpl.
  - rewrite app_nil_r. intuition.
  - destruct e as [a|c ch]; rewrite IH, <- app_assoc; simpl; intuition.
Qed.

Lemma action_ok_dispatch_irrelevant pre acts a :
  action_ok pre a -> action_ok (pre ++ map EDispatch acts) a.
Proof.
  intros [Ht H]. split; [exact Ht|]. destruct a as [c t' chg|c t'].
  - destruct H as [H1 H2]. split; [|exact H2]. intros q v. rewrite H1, spec_inputs_app. split; [auto|].
    intros [H|H]; [exact H | exfalso; eapply spec_inputs_dispatches; exact H].
  - destruct H as [H1 H2]. split; [exact H1|]. intros q v Hs. apply spec_inputs_app in Hs.
    destruct Hs as [Hs|Hs]; [eapply H2; exact Hs | eapply spec_inputs_dispatches; exact Hs].
Qed.

Lemma disp_ok_batch pre acts :
  (forall a, In a acts -> action_ok pre a) -> disp_ok pre (map EDispatch acts).
Proof.
  intros H. assert (Hg : forall done, disp_ok (pre ++ map EDispatch done) (map EDispatch acts)).
  { revert H. induction acts as [|a r IH]; intros H done; simpl; [exact I|]. split.
    - apply action_ok_dispatch_irrelevant. apply H. left. reflexivity.
    - rewrite <- app_assoc. change ([EDispatch a]) with (map EDispatch [a]). rewrite <- map_app.
      apply IH. intros a' Ha'. apply H. right. exact Ha'. }
  specialize (Hg []). simpl in Hg. rewrite app_nil_r in Hg. exact Hg.
Qed.

Lemma mk_action_ok st pre c :
  tt st = t -> troots st = roots ->
  (forall q v, lookup2r (tin st) c q = Some v <-> spec_inputs pre c q v) ->
  action_ok pre (mk_action st c).
Proof.
  intros Ht Hr Hin. split; [rewrite mk_action_time; exact Ht|].
  unfold mk_action. assert (Hl : forall q, lookup2r (tin st) c q = lookup q (get_d c (tin st))) by (intros; apply lookup2r_get_d).
  destruct (get_d c (tin st)) as [|[q0 v0] rest] eqn:E.
  - rewrite Hr. destruct (memb c roots) eqn:Em.
    + split; [|left; apply memb_In; exact Em]. intros q v. rewrite <- Hin, Hl. reflexivity.
    + split; [apply memb_false; exact Em|]. intros q v Hs. apply Hin in Hs. rewrite Hl in Hs. discriminate.
  - split; [|right; discriminate]. intros q v. rewrite <- Hin, Hl. reflexivity.
Qed.

Lemma run_disp_ok ext st tr :
  Run conns comps t roots ext st tr -> wf_answers tr -> disp_ok [] tr.
Proof.
  intros HR. assert (Hinp := run_inputs ext st tr HR). revert Hinp.
  induction HR as [st0 st1 acts Hst Hext Hs | st tr c0 ch0 st' acts fin HR IH Hc Hp]; intros Hinp Hwf.
  - apply disp_ok_batch. intros a Ha.
    apply (schedule_acts conns comps st0 st1 acts a Hs) in Ha. destruct Ha as [c [_ [_ ->]]].
    destruct (start_tick_spec conns t roots st0 Hst) as [Ht [Hr [Hin _]]].
    apply mk_action_ok; [exact Ht | exact Hr|]. intros q v. rewrite Hin. split; [discriminate|].
    intros [u [p [ch [[] _]]]].
  - assert (Hwf0 : wf_answers tr) by (intros x y Hxy; eapply Hwf; apply in_app_iff; left; exact Hxy).
    assert (HI := run_inv conns comps t roots ext st tr HR).
    destruct (propagate_ok conns comps st c0 t ch0 st' acts fin Hp) as [Hcp [_ [Hs _]]].
    destruct (schedule_fields conns comps _ st' acts Hs) as [Ht1 [Hr1 [Hti _]]]. simpl in Ht1, Hr1, Hti.
    apply disp_ok_app. split; [apply IH; [exact (run_inputs ext st tr HR) | exact Hwf0]|].
    simpl. apply disp_ok_batch. intros a Ha.
    apply (schedule_acts conns comps _ st' acts a Hs) in Ha. destruct Ha as [c [_ [_ ->]]].
    apply mk_action_ok; simpl.
    + apply (i_time _ _ _ _ _ _ HI).
    + apply (i_roots _ _ _ _ _ _ HI).
    + intros q v. rewrite <- Hti. rewrite (Hinp Hwf c q v).
      replace (tr ++ EAnswer c0 ch0 :: map EDispatch acts) with ((tr ++ [EAnswer c0 ch0]) ++ map EDispatch acts)
        by (rewrite <- app_assoc; reflexivity).
      rewrite spec_inputs_app. split; [|auto]. intros [H|H]; [exact H | exfalso; eapply spec_inputs_dispatches; exact H].
Qed.

Lemma disp_ok_split tr : disp_ok [] tr ->
  forall l1 a l2, tr = l1 ++ EDispatch a :: l2 -> action_ok l1 a.
Proof.
  intros H l1 a l2 ->. apply disp_ok_app in H. destruct H as [_ H]. simpl in H. apply H.
Qed.
End Inputs.

(* ---------- C08 at ticker level: the outcome of a tick does not depend on the answer order *)
Definition ch_equiv (a b : changes) : Prop := forall q, lookup q a = lookup q b.
Definition action_equiv (a b : action) : Prop :=
  match a, b with
  | Upd c t x, Upd c' t' y => c = c' /\ t = t' /\ ch_equiv x y
  | Skp c t, Skp c' t' => c = c' /\ t = t'
  | _, _ => False
  end.

Section Confluence.
Variable conns : list conn.
Variable comps : list comp.
Variable t : Z.
Variable roots : list comp.
Hypothesis Hss : single_source conns.
Variable rank : comp -> nat.
Hypothesis Hrank : forall k, In k conns -> (rank (out_comp k) < rank (in_comp k))%nat.

(* deterministic components: the answer to an update is a function of the changes handed
   over (as a map); the answer to a skip is the empty Skip message *)
Variable dev : comp -> changes -> changes.
Hypothesis dev_ext : forall c x y, ch_equiv x y -> dev c x = dev c y.
Hypothesis dev_wf : forall c x, NoDup (keys (dev c x)).

Definition resp (a : action) : changes := match a with Upd c _ chg => dev c chg | Skp _ _ => [] end.
Definition answers_by (tr : list ev) : Prop :=
  forall c ch, In (EAnswer c ch) tr -> exists a, In (EDispatch a) tr /\ act_comp a = c /\ ch = resp a.

Lemma answers_by_wf tr : answers_by tr -> wf_answers tr.
Proof.
  intros H c ch Hi. destruct (H c ch Hi) as [a [_ [_ ->]]]. destruct a; simpl; [apply dev_wf | constructor].
Qed.

Lemma run_ext ext st tr : Run conns comps t roots ext st tr ->
  exists st0, start_tick conns t roots = Some st0 /\ ext = pending st0.
Proof. induction 1 as [st0 st1 acts Hst Hext Hs | ]; [exists st0; auto | assumption]. Qed.

Lemma resp_equiv a b : action_equiv a b -> resp a = resp b.
Proof.
  destruct a as [c1 t1 x|c1 t1], b as [c2 t2 y|c2 t2]; simpl; try contradiction.
  - intros [-> [_ H]]. apply dev_ext. exact H.
  - reflexivity.
Qed.

Lemma equiv_from_iff (x y : changes) :
  (forall q v, lookup q x = Some v <-> lookup q y = Some v) -> ch_equiv x y.
Proof.
  intros H q. destruct (lookup q x) as [v|] eqn:E1.
  - symmetry. apply H. exact E1.
  - destruct (lookup q y) as [v|] eqn:E2; [|reflexivity].
    apply H in E2. congruence.
Qed.

Lemma confluent_aux ext st1 tr1 st2 tr2 :
  Run conns comps t roots ext st1 tr1 -> Run conns comps t roots ext st2 tr2 ->
  answers_by tr1 -> answers_by tr2 ->
  forall n c, (rank c < n)%nat ->
  forall a1 a2, In (EDispatch a1) tr1 -> In (EDispatch a2) tr2 ->
  act_comp a1 = c -> act_comp a2 = c -> action_equiv a1 a2.
Proof.
  intros R1 R2 B1 B2.
  assert (G1 := run_gate conns comps t roots ext st1 tr1 R1).
  assert (G2 := run_gate conns comps t roots ext st2 tr2 R2).
  assert (D1 := run_disp_ok conns comps t roots Hss ext st1 tr1 R1 (answers_by_wf tr1 B1)).
  assert (D2 := run_disp_ok conns comps t roots Hss ext st2 tr2 R2 (answers_by_wf tr2 B2)).
  assert (I1 := run_inv conns comps t roots ext st1 tr1 R1).
  assert (I2 := run_inv conns comps t roots ext st2 tr2 R2).
  induction n as [|n IHn]; intros c Hn a1 a2 Hi1 Hi2 Hc1 Hc2; [lia|].
  destruct (in_split _ _ Hi1) as [l1 [r1 E1]]. destruct (in_split _ _ Hi2) as [l2 [r2 E2]].
  assert (A1 := disp_ok_split conns t roots tr1 D1 l1 a1 r1 E1).
  assert (A2 := disp_ok_split conns t roots tr2 D2 l2 a2 r2 E2).
  (* the inputs wired into c are the same in both runs *)
  assert (Hdir : forall tra trb la ra lb rb ab,
            tra = la ++ ra -> trb = lb ++ EDispatch ab :: rb -> act_comp ab = c ->
            answers_by tra -> answers_by trb ->
            (forall x, answered tra x -> In x ext) ->
            gate_from conns ext [] trb ->
            (forall u au bu, (rank u < n)%nat -> In (EDispatch au) tra -> In (EDispatch bu) trb ->
                             act_comp au = u -> act_comp bu = u -> resp au = resp bu) ->
            forall q v, spec_inputs conns la c q v -> spec_inputs conns lb c q v).
  { intros tra trb la ra lb rb ab Ea Eb Hcb Ba Bb Hext Gb Hresp q v [u [p [ch [Hin [Hk Hl]]]]].
    assert (Hpred : In u (preds conns c)) by (apply preds_In; exists (u, p, c, q); auto).
    assert (Hina : In (EAnswer u ch) tra) by (rewrite Ea; apply in_app_iff; left; exact Hin).
    assert (Hue : In u ext) by (apply Hext; exists ch; exact Hina).
    rewrite <- Hcb in Hpred.
    destruct (gate_split conns ext trb Gb lb ab rb Eb u Hpred Hue) as [ch' Hin'].
    assert (Hinb : In (EAnswer u ch') trb) by (rewrite Eb; apply in_app_iff; left; exact Hin').
    destruct (Ba u ch Hina) as [au [Hau [Hcu ->]]]. destruct (Bb u ch' Hinb) as [bu [Hbu [Hcu' ->]]].
    assert (Hru : (rank u < n)%nat).
    { specialize (Hrank (u, p, c, q) Hk). simpl in Hrank. lia. }
    rewrite (Hresp u au bu Hru Hau Hbu Hcu Hcu') in Hl.
    exists u, p, (resp bu). auto. }
  assert (H12 : forall q v, spec_inputs conns l1 c q v -> spec_inputs conns l2 c q v).
  { apply (Hdir tr1 tr2 l1 (EDispatch a1 :: r1) l2 r2 a2 E1 E2 Hc2 B1 B2 (i_ans_ext _ _ _ _ _ _ I1) G2).
    intros u au bu Hu Hau Hbu Hcu Hcu'. apply resp_equiv. eapply IHn; eassumption. }
  assert (H21 : forall q v, spec_inputs conns l2 c q v -> spec_inputs conns l1 c q v).
  { apply (Hdir tr2 tr1 l2 (EDispatch a2 :: r2) l1 r1 a1 E2 E1 Hc1 B2 B1 (i_ans_ext _ _ _ _ _ _ I2) G1).
    intros u au bu Hu Hau Hbu Hcu Hcu'. symmetry. apply resp_equiv. eapply IHn; eassumption. }
  destruct A1 as [T1 A1]. destruct A2 as [T2 A2].
  destruct a1 as [c1 t1 x|c1 t1], a2 as [c2 t2 y|c2 t2]; simpl in *; subst.
  - destruct A1 as [A1 _]. destruct A2 as [A2 _]. split; [reflexivity|]. split; [reflexivity|].
    apply equiv_from_iff. intros q v. rewrite A1, A2. split; [apply H12 | apply H21].
  - destruct A1 as [A1 [Hr|Hne]]; destruct A2 as [Hnr A2]; [contradiction|].
    destruct x as [|[q0 v0] x']; [congruence|].
    apply (A2 q0 v0). apply H12. apply A1. simpl. rewrite Pos.eqb_refl. reflexivity.
  - destruct A2 as [A2 [Hr|Hne]]; destruct A1 as [Hnr A1]; [contradiction|].
    destruct y as [|[q0 v0] y']; [congruence|].
    apply (A1 q0 v0). apply H21. apply A2. simpl. rewrite Pos.eqb_refl. reflexivity.
  - split; reflexivity.
Qed.

Lemma confluent ext1 st1 tr1 ext2 st2 tr2 :
  Run conns comps t roots ext1 st1 tr1 -> Run conns comps t roots ext2 st2 tr2 ->
  answers_by tr1 -> answers_by tr2 ->
  forall a1 a2, In (EDispatch a1) tr1 -> In (EDispatch a2) tr2 ->
  act_comp a1 = act_comp a2 -> action_equiv a1 a2.
Proof.
  intros R1 R2 B1 B2 a1 a2 H1 H2 Hc.
  destruct (run_ext ext1 st1 tr1 R1) as [s1 [S1 E1]]. destruct (run_ext ext2 st2 tr2 R2) as [s2 [S2 E2]].
  rewrite S1 in S2. inversion S2; subst s2. subst ext2. rewrite <- E1 in R2.
  eapply (confluent_aux ext1 st1 tr1 st2 tr2 R1 R2 B1 B2 (S (rank (act_comp a1))) (act_comp a1));
    [lia | eassumption | eassumption | reflexivity | symmetry; exact Hc].
Qed.
End Confluence.

(* ---------- completion *)
Lemma run_answered_dispatched conns comps t roots ext st tr :
  Run conns comps t roots ext st tr -> forall c, answered tr c -> dispatched tr c.
Proof.
  induction 1 as [st0 st1 acts Hst Hext Hs | st tr c0 ch0 st' acts fin HR IH Hc Hp]; intros c Ha.
  - exfalso. eapply answered_dispatches; exact Ha.
  - assert (HI := run_inv conns comps t roots ext st tr HR).
    apply answered_app in Ha. apply dispatched_app. destruct Ha as [Ha|Ha]; [left; apply IH; exact Ha|].
    apply answered_cons_answer in Ha. destruct Ha as [->|Ha].
    + left. apply (i_flag_t _ _ _ _ _ _ HI). exact Hc.
    + exfalso. eapply answered_dispatches; exact Ha.
Qed.

Lemma run_finished conns comps t roots ext st tr :
  Run conns comps t roots ext st tr -> todo st = [] ->
  forall c, In c ext -> dispatched tr c /\ answered tr c.
Proof.
  intros HR He c Hc. assert (HI := run_inv conns comps t roots ext st tr HR).
  assert (Ha : answered tr c).
  { apply (i_ans _ _ _ _ _ _ HI c Hc). unfold pending. rewrite He. intros []. }
  split; [eapply run_answered_dispatched; eassumption | exact Ha].
Qed.

Lemma propagate_rejects conns comps st c t ch :
  ~ In c (pending st) \/ t <> tt st -> propagate conns comps st c t ch = PErr.
Proof.
  intros H. unfold propagate. destruct (memb c (pending st)) eqn:E; [|reflexivity].
  destruct (Z.eqb_spec t (tt st)); [|reflexivity]. apply memb_In in E. destruct H; contradiction.
Qed.
