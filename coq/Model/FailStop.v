(* Model of the fail-stop protocol (component.py handle_input, base.py / master.py / nested.py
   handle_component_exception, system_component.py on_tick / stop_component) over the nesting
   tree of Model/Sim.v configurations.  Definitions only.

   A device d fails during an update.  Its component publishes ComponentException(d) to the
   scheduler of its level; every scheduler that handles the exception sends StopComponent to
   all its components and the enclosing system component forwards the stored message,
   unchanged, one level up; a system component that is told to stop tells all its inner
   components to stop. *)
From TV Require Import Base Model.Wiring Model.Sim.

Section FS.
Variable cfg : config.

(* components of a level that receive StopComponent when its scheduler broadcasts, including
   everything below the system components among them *)
Fixpoint stop_level (fuel : nat) (lv : positive) : list comp :=
  match fuel with
  | O => []
  | S f =>
      flat_map (fun ck : comp * ckind =>
                  match snd ck with
                  | KDev => [fst ck]
                  | KSys lv' => fst ck :: stop_level f lv'
                  end) (l_order (level_of cfg lv))
  end.

(* the levels whose schedulers handle the exception: the failing device's level and every
   enclosing level up to the master *)
Definition handling_levels (lvc : positive) (path : list (positive * comp)) : list positive :=
  lvc :: map fst path.

Definition stopped (fuel : nat) (lvc : positive) (path : list (positive * comp)) : list comp :=
  flat_map (stop_level fuel) (handling_levels lvc path).

(* every component of the simulation *)
Definition all_components (fuel : nat) : list comp := stop_level fuel 1%positive.
End FS.

(* observed: who reported what to the master, who was told to stop, did run() return *)
Record fs_case := {
  fs_cfg : config;
  fs_device : comp; fs_level : positive; fs_path : list (positive * comp);
  fs_reported : option comp;       (* source of the ComponentException the master handled *)
  fs_same_error : bool;            (* ... carrying the very exception object the device raised *)
  fs_stopped : list comp;          (* components whose stop_component ran *)
  fs_returned : bool;              (* the simulation's run() returned *)
  fs_ticks_after : Z               (* ticks started by the master after it handled the exception *)
}.

(* 111 not (or wrongly) reported to the master, 112 some component not told to stop,
   113 run() did not return, 114 the master went on ticking, 115 stop set differs from model *)
Definition check_fs (c : fs_case) : list Z :=
  (match fs_reported c with
   | Some s => if Pos.eqb s (fs_device c) && fs_same_error c then [] else [111%Z]
   | None => [111%Z]
   end) ++
  (if forallb (fun x => memb x (fs_stopped c)) (all_components (fs_cfg c) 20) then [] else [112%Z]) ++
  (if fs_returned c then [] else [113%Z]) ++
  (if Z.eqb (fs_ticks_after c) 0 then [] else [114%Z]) ++
  (if forallb (fun x => memb x (fs_stopped c)) (stopped (fs_cfg c) 20 (fs_level c) (fs_path c))
      && forallb (fun x => memb x (all_components (fs_cfg c) 20)) (fs_stopped c) then [] else [115%Z]).
