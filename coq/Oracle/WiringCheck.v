(* Executable comparison of the Wiring model with what event_router.py computed. *)
From TV Require Import Base Model.Wiring.

Definition set_eqb {A} (e : A -> A -> bool) (a b : list A) : bool :=
  forallb (fun x => existsb (e x) b) a && forallb (fun y => existsb (e y) a) b.
Definition comps_eqb := set_eqb Pos.eqb.
Definition conns_eqb := set_eqb conn_eqb.

Definition tree_eqb (a b : list (comp * list comp)) : bool :=
  set_eqb (fun x y => Pos.eqb (fst x) (fst y) && comps_eqb (snd x) (snd y)) a b.

Definition triple_eqb (x y : comp * port * Z) : bool :=
  let '(a1, a2, a3) := x in let '(b1, b2, b3) := y in Pos.eqb a1 b1 && Pos.eqb a2 b2 && Z.eqb a3 b3.
Definition flatten_routed (r : list (comp * list (port * Z))) : list (comp * port * Z) :=
  flat_map (fun e : comp * list (port * Z) => map (fun pv : port * Z => (fst e, fst pv, snd pv)) (snd e)) r.

Record observed := {
  o_w_conns : list conn;  o_w_keys : list comp;      (* Wiring (given, or from_inverse_wiring) *)
  o_iw_conns : list conn; o_iw_keys : list comp;     (* InverseWiring.from_wiring of that wiring *)
  o_components : list comp;
  o_tree : list (comp * list comp);
  o_itree : list (comp * list comp);
  o_deps : list (comp * list comp);
  o_routes : list (comp * list (port * Z) * list (comp * port * Z))
}.

Inductive input := InIW (iw : iwiring) | InW (w : wiring).
Definition case := (input * observed)%type.

(* reason codes 1..9: which EventRouter / conversion result differs from the model *)
Definition check (c : case) : list Z :=
  let '(i, o) := c in
  let w := match i with InIW iw => from_inverse iw | InW w => w end in
  let iw2 := from_wiring w in
  let cs := conns_w w in
  let comps := components_w w in
  (if conns_eqb cs (o_w_conns o) then [] else [1%Z]) ++
  (if comps_eqb (keys w) (o_w_keys o) then [] else [2%Z]) ++
  (if conns_eqb (conns_iw iw2) (o_iw_conns o) then [] else [3%Z]) ++
  (if comps_eqb (keys iw2) (o_iw_keys o) then [] else [4%Z]) ++
  (if comps_eqb comps (o_components o) then [] else [5%Z]) ++
  (if tree_eqb (map (fun c => (c, succs cs c)) (keys w)) (o_tree o) then [] else [6%Z]) ++
  (if tree_eqb (map (fun c => (c, preds cs c)) comps) (o_itree o) then [] else [7%Z]) ++
  (if forallb (fun rd : comp * list comp =>
                 match dependants cs (fst rd) with
                 | Some s => comps_eqb s (snd rd)
                 | None => false
                 end) (o_deps o) then [] else [8%Z]) ++
  (if forallb (fun r : comp * list (port * Z) * list (comp * port * Z) =>
                 let '(src, ch, out) := r in
                 set_eqb triple_eqb (flatten_routed (route cs src ch)) out) (o_routes o)
   then [] else [9%Z]) ++
  (* conversions must neither lose nor invent connections or components (the property itself,
     evaluated on what the implementation returned) *)
  (match i with
   | InIW iw => if conns_eqb (conns_iw iw) (o_w_conns o) && conns_eqb (conns_iw iw) (o_iw_conns o)
                   && comps_eqb (components_iw iw) (o_components o)
                   && comps_eqb (components_iw iw) (o_iw_keys o) then [] else [10%Z]
   | InW w0 => if conns_eqb (conns_w w0) (o_iw_conns o)
                  && comps_eqb (components_w w0) (o_iw_keys o) then [] else [11%Z]
   end).
