From TV Require Import Base Model.Wiring Model.Config Proofs.WiringP Proofs.TickerP.

(* ---------- dispatch *)
Lemma validate_spec r tag known :
  snd (validate r tag known) = if known && memb tag (r_classes r) then Chosen tag else Rejected.
Proof.
  unfold validate. destruct known; simpl; [|reflexivity].
  destruct (r_cache r); simpl; [reflexivity|]. destruct (r_classes r) as [|c [|c2 l]]; reflexivity.
Qed.

Lemma validate_classes r tag known : r_classes (fst (validate r tag known)) = r_classes r.
Proof.
  unfold validate. destruct known; simpl; [|reflexivity].
  destruct (r_cache r); simpl; [reflexivity|]. destruct (r_classes r) as [|c [|c2 l]] eqn:E; simpl; auto.
Qed.

(* the cached union, when present, was built over exactly the registered classes *)
Definition cache_ok (r : registry) : Prop :=
  match r_cache r with None => True | Some l => l = r_classes r end.

Lemma cache_ok_define r c : cache_ok (define r c).
Proof. exact I. Qed.

Lemma cache_ok_validate r tag known : cache_ok r -> cache_ok (fst (validate r tag known)).
Proof.
  unfold validate, cache_ok. destruct known; simpl; [|auto].
  destruct (r_cache r) eqn:E; simpl; [rewrite E; auto|].
  destruct (r_classes r) as [|c [|c2 l]] eqn:E2; simpl; rewrite ?E; auto.
Qed.

(* the classes known after a prefix of events *)
Fixpoint defined (init : list cls) (evs : list cev) : list cls :=
  match evs with
  | [] => init
  | Define c :: t => defined (if memb c init then init else init ++ [c]) t
  | Validate _ _ :: t => defined init t
  end.

Lemma run_reg_spec evs : forall r,
  cache_ok r ->
  forall pre tag known post, evs = pre ++ Validate tag known :: post ->
  nth_error (run_reg r evs) (length (filter (fun e => match e with Validate _ _ => true | _ => false end) pre)) =
  Some (if known && memb tag (defined (r_classes r) pre) then Chosen tag else Rejected).
Proof.
  induction evs as [|e t IH]; intros r Hc pre tag known post E.
  - destruct pre; discriminate.
  - destruct pre as [|e' pre'].
    + simpl in E. inversion E; subst. simpl.
      destruct (validate r tag known) as [r' v] eqn:Ev. simpl.
      assert (Hs := validate_spec r tag known). rewrite Ev in Hs. simpl in Hs. rewrite Hs. reflexivity.
    + simpl in E. inversion E; subst. destruct e' as [c|tg kn]; simpl.
      * rewrite (IH (define r c) (cache_ok_define r c) pre' tag known post eq_refl). reflexivity.
      * destruct (validate r tg kn) as [r' v] eqn:Ev. simpl.
        assert (Hcl := validate_classes r tg kn). rewrite Ev in Hcl. simpl in Hcl.
        assert (Hok := cache_ok_validate r tg kn Hc). rewrite Ev in Hok. simpl in Hok.
        rewrite (IH r' Hok pre' tag known post eq_refl). rewrite Hcl. reflexivity.
Qed.

(* ---------- wiring handed to the scheduler *)
Lemma wiring_of_lookup es : forall acc n,
  lookup n (fold_left (fun iw (e : entry) => upd (fst e) (snd e) iw) es acc) =
  match last_write n es with Some ins => Some ins | None => lookup n acc end.
Proof.
  induction es as [|[m ins] t IH]; intros acc n; simpl; [reflexivity|].
  rewrite IH. destruct (last_write n t); [reflexivity|]. rewrite lookup_upd. destruct (Pos.eqb n m); reflexivity.
Qed.

Lemma wiring_of_exact es n ins :
  NoDup (map fst es) -> (lookup n (wiring_of es) = Some ins <-> In (n, ins) es).
Proof.
  intros Hnd. unfold wiring_of. rewrite wiring_of_lookup. simpl.
  assert (Hlw : last_write n es = lookup n es).
  { apply last_write_lookup. exact Hnd. }
  rewrite Hlw. destruct (lookup n es) eqn:E.
  - split.
    + intros H. inversion H; subst. apply lookup_In. exact E.
    + intros H. apply (lookup_In_iff es n ins Hnd) in H. congruence.
  - split; [discriminate|]. intros H. apply (lookup_In_iff es n ins Hnd) in H. congruence.
Qed.

(* ---------- selection *)
Lemma select_spec es req l :
  select es req = Some l ->
  forall x, In x l <-> In x (map fst es) /\ match req with None => True | Some r => In x r end.
Proof.
  unfold select. destruct req as [r|].
  - destruct (forallb (fun n => memb n (map fst es)) r) eqn:E; [|discriminate].
    intros H. inversion H; subst. intros x. rewrite filter_In, dedup_In, memb_In. reflexivity.
  - intros H. inversion H; subst. intros x. rewrite dedup_In. intuition.
Qed.

Lemma select_rejects es r :
  select es (Some r) = None <-> exists n, In n r /\ ~ In n (map fst es).
Proof.
  unfold select. destruct (forallb (fun n => memb n (map fst es)) r) eqn:E.
  - split; [discriminate|]. intros [n [Hn Hni]]. rewrite forallb_forall in E. apply E in Hn. apply memb_In in Hn. contradiction.
  - split; [|reflexivity]. intros _. clear - E.
    induction r as [|a r IH]; simpl in E; [discriminate|].
    destruct (memb a (map fst es)) eqn:Ea; simpl in E.
    + destruct (IH E) as [n [Hn Hni]]. exists n. split; [right; exact Hn | exact Hni].
    + exists a. split; [left; reflexivity | apply memb_false; exact Ea].
Qed.
