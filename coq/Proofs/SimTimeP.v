(* The simulation-time loop (Model/SimTime.v) IS the master model (Model/Sim.v [master_loop]) at
   speed 1 without interrupts, for every configuration (any nesting) whose devices never ask to be
   called back in the past. *)
From TV Require Import Base Model.Wiring Model.Ticker Model.Component Model.Sim Model.SimTime
  Proofs.WiringP Proofs.SimP Proofs.NonInterfP Proofs.NonInterfLoopP.
Open Scope Z_scope.

Lemma wake_of_log_tick s lv t r lv0 : wake_of (log_tick s lv t r) lv0 = wake_of s lv0.
Proof. reflexivity. Qed.

Section Eq.
Variable cfg : config.
Variable devf : devfun.
Hypothesis Hwell : forall c n t i w, snd (devf c n t i) = Some w -> t <= w.

(* a tick at time t only adds wakeups at or after t, at every scheduler level *)
Definition adds_later (t : Z) (s s2 : sstate) : Prop :=
  forall lv e, In e (wake_of s2 lv) -> In e (wake_of s lv) \/ t <= snd e.

Lemma adds_later_refl t s : adds_later t s s.
Proof. intros lv e H. left. exact H. Qed.

Lemma adds_later_trans t s1 s2 s3 : adds_later t s1 s2 -> adds_later t s2 s3 -> adds_later t s1 s3.
Proof. intros H1 H2 lv e H. destruct (H2 lv e H) as [H'|H']; [apply (H1 lv e H') | right; exact H']. Qed.

Lemma adds_later_same t s s2 : s_wake s2 = s_wake s -> adds_later t s s2.
Proof. intros E lv e H. left. unfold wake_of in *. rewrite <- E. exact H. Qed.

Lemma adds_later_upd t s lv c w : t <= w -> adds_later t s (set_wake s lv (upd c w (wake_of s lv))).
Proof.
  intros Hw l [c' w'] H. destruct (Pos.eq_dec l lv) as [E|Hne].
  - subst l. rewrite wake_of_set_wake in H. apply In_upd_cases in H. destruct H as [[_ E]|H]; [right; subst w'; exact Hw | left; exact H].
  - unfold wake_of, set_wake in H. cbn [s_wake] in H. rewrite get_d_upd_other in H by exact Hne. left. exact H.
Qed.

Lemma adds_later_filter t s lv f : adds_later t s (set_wake s lv (filter f (wake_of s lv))).
Proof.
  intros l e H. left. destruct (Pos.eq_dec l lv) as [E|Hne].
  - subst l. rewrite wake_of_set_wake in H. apply filter_In in H. apply H.
  - unfold wake_of, set_wake in H. cbn [s_wake] in H. rewrite get_d_upd_other in H by exact Hne. exact H.
Qed.

Definition inner_later (inner : positive -> Z -> values -> sstate -> sstate * values * option Z * list obs) : Prop :=
  forall lv t chg s, let '(s2, _, ca, _) := inner lv t chg s in
    adds_later t s s2 /\ forall w, ca = Some w -> t <= w.

Lemma tick_with_later inner lv time roots ext s :
  inner_later inner -> adds_later time s (fst (fst (tick_with cfg devf inner lv time roots ext s))).
Proof.
  intros Hin. unfold tick_with. cbn [fst].
  assert (Hgen : forall l a, adds_later time s (ta_s a) ->
            adds_later time s (ta_s (fold_left (tick_step devf inner lv (l_conns (level_of cfg lv)) time roots ext) l a))).
  { induction l as [|[c k] r IH]; intros a Ha; [exact Ha|]. cbn [fold_left]. apply IH.
    unfold tick_step. cbn [fst snd].
    destruct (in_extent _ roots (ta_touched a) c); [|exact Ha].
    destruct (nonempty (get_d c (ta_in a)) || memb c roots); [|exact Ha].
    destruct (Pos.eqb c ext_id); [exact Ha|]. destruct (Pos.eqb c exp_id); [exact Ha|].
    destruct k as [|lv'].
    - unfold dev_update. destruct (devf c _ time _) as [outs ca] eqn:Ed. destruct ca as [w|]; cbn [ta_s].
      + eapply adds_later_trans; [exact Ha|]. eapply adds_later_trans; [|apply adds_later_upd; eapply Hwell; rewrite Ed; reflexivity].
        apply adds_later_same. reflexivity.
      + eapply adds_later_trans; [exact Ha|]. apply adds_later_same. reflexivity.
    - pose proof (Hin lv' time (get_d c (ta_in a)) (ta_s a)) as Hi.
      destruct (inner lv' time (get_d c (ta_in a)) (ta_s a)) as [[[s1 ch] ca] ob]. destruct Hi as [Hi1 Hi2].
      destruct ca as [w|]; cbn [ta_s].
      + eapply adds_later_trans; [exact Ha|]. eapply adds_later_trans; [exact Hi1|]. apply adds_later_upd. apply Hi2. reflexivity.
      + eapply adds_later_trans; [exact Ha | exact Hi1]. }
  apply Hgen. apply adds_later_refl.
Qed.

Theorem on_tick_level_later : forall f, inner_later (on_tick_level cfg devf f).
Proof.
  induction f as [|f IH]; intros lv t chg s.
  - cbn [on_tick_level]. split; [apply adds_later_refl | discriminate].
  - cbn [on_tick_level].
    set (roots := int_of s lv ++ _).
    set (s0 := set_wake s lv (filter (fun e : comp * Z => negb (Z.leb (snd e) t)) (wake_of s lv))).
    set (s1 := log_tick (mark_ticked (set_int s0 lv []) lv) lv t roots).
    pose proof (tick_with_later (on_tick_level cfg devf f) lv t roots chg s1 IH) as H2.
    destruct (tick_with cfg devf (on_tick_level cfg devf f) lv t roots chg s1) as [[s2 out] ob]. cbn [fst] in H2.
    split.
    + eapply adds_later_trans; [|exact H2]. eapply adds_later_trans; [apply (adds_later_filter t s lv)|].
      apply adds_later_same. reflexivity.
    + intros w Hw. pose proof (min_wake_spec (wake_of s2 lv)) as Hs. rewrite Hw in Hs. destruct Hs as [[e [He Ev]] _].
      destruct (H2 lv e He) as [H|H]; [|lia].
      change (wake_of s1 lv) with (wake_of s0 lv) in H. unfold s0 in H. rewrite wake_of_set_wake in H.
      apply filter_In in H. destruct H as [_ H]. destruct (Z.leb_spec (snd e) t); [discriminate | lia].
Qed.

(* a tick only adds wakeups at or after its own time *)
Lemma tick_wakes f time roots ext s :
  let '(s2, _, _) := tick_with cfg devf (on_tick_level cfg devf f) top time roots ext s in
  forall e, In e (wake_of s2 top) -> In e (wake_of s top) \/ time <= snd e.
Proof.
  pose proof (tick_with_later (on_tick_level cfg devf f) top time roots ext s (on_tick_level_later f)) as H.
  destruct (tick_with cfg devf (on_tick_level cfg devf f) top time roots ext s) as [[s2 out] ob]. exact (H top).
Qed.

Variable fuel : nat.
Variables initial t_end : Z.

Record MInv (m : mstate) : Prop := {
  mi_now : m_now m = m_real m;
  mi_real : m_real m = m_tprev m - initial;
  mi_wake : forall e, In e (wake_of (m_s m) top) -> m_tprev m <= snd e
}.

Lemma loop_eq : forall steps m, MInv m ->
  let m' := master_loop cfg devf 1 1 steps fuel m [] t_end in
  let '(s, ob, _) := sim_loop cfg devf steps fuel (initial + t_end) (m_s m) (m_obs m) in
  m_s m' = s /\ m_obs m' = ob.
Proof.
  induction steps as [|k IH]; intros m Hi; [split; reflexivity|].
  cbn [master_loop sim_loop].
  pose proof (first_wakeups_spec (wake_of (m_s m) top)) as SP.
  destruct (first_wakeups (wake_of (m_s m) top)) as [[when roots]|]; [|split; reflexivity].
  destruct SP as [[[e0 [He0 Hv0]] Hmin] _].
  assert (Hge : m_tprev m <= when) by (rewrite <- Hv0; apply (mi_wake m Hi); exact He0).
  assert (Ed : deadline 1 1 m when = when - initial).
  { unfold deadline. rewrite (mi_real m Hi). replace ((when - m_tprev m) * 1 + 1 - 1) with (when - m_tprev m) by lia.
    rewrite Z.div_1_r. lia. }
  rewrite Ed.
  assert (Eb : Z.leb (when - initial) t_end = Z.leb when (initial + t_end)).
  { destruct (Z.leb_spec (when - initial) t_end), (Z.leb_spec when (initial + t_end)); try reflexivity; lia. }
  rewrite Eb. destruct (Z.leb when (initial + t_end)); [|split; reflexivity].
  unfold do_tick.
  pose proof (tick_wakes fuel when roots []
                (log_tick (set_wake (m_s m) top (filter (fun e : comp * Z => negb (memb (fst e) roots)) (wake_of (m_s m) top))) top when roots)) as Hw.
  unfold tick_level in *.
  destruct (tick_with cfg devf (on_tick_level cfg devf fuel) top when roots [] _) as [[s2 out] o].
  set (m2 := {| m_s := s2; m_tprev := when; m_real := Z.max (when - initial) (m_now m); m_now := Z.max (when - initial) (m_now m);
               m_obs := m_obs m ++ o; m_ticks := m_ticks m ++ [(when, Z.max (when - initial) (m_now m))] |}).
  assert (HI2 : MInv m2); [|exact (IH m2 HI2)].
  split; cbn [m2 m_now m_real m_tprev m_s].
  - reflexivity.
  - rewrite (mi_now m Hi), (mi_real m Hi). lia.
  - intros e He. destruct (Hw e He) as [Hin|Hle]; [|exact Hle].
    rewrite wake_of_log_tick, wake_of_set_wake in Hin. apply filter_In in Hin. destruct Hin as [Hin _]. apply Hmin. exact Hin.
Qed.

Theorem master_is_sim_loop steps :
  let m := simulate_full cfg devf 1 1 fuel steps initial [] [] t_end in
  let '(s, ob, _) := sim_run cfg devf steps fuel initial (initial + t_end) in
  m_s m = s /\ m_obs m = ob.
Proof.
  unfold simulate_full, sim_run. cbn [fold_left].
  pose proof (tick_wakes fuel initial (map fst (l_order (level_of cfg top))) []
                (log_tick (set_wake s_init top []) top initial (map fst (l_order (level_of cfg top))))) as Hw.
  unfold tick_level in *.
  destruct (tick_with cfg devf (on_tick_level cfg devf fuel) top initial _ [] _) as [[s1 out] ob].
  set (m0 := {| m_s := s1; m_tprev := initial; m_real := 0; m_now := 0; m_obs := ob; m_ticks := [(initial, 0)] |}).
  assert (HI0 : MInv m0); [|exact (loop_eq steps m0 HI0)].
  split; cbn [m0 m_now m_real m_tprev m_s]; [reflexivity | lia |].
  intros e He. destruct (Hw e He) as [Hin|Hle]; [|exact Hle].
  rewrite wake_of_log_tick, wake_of_set_wake in Hin. destruct Hin.
Qed.

(* ---------- any speed: without interrupts the speed only decides how far a run gets.  What the real-time master does
   in any number of steps at any speed num/den is what the simulation-time master does in some number j of ticks,
   under every horizon from the time of the last tick on *)
Variables num den : Z.

Lemma loop_prefix : forall steps m, (forall e, In e (wake_of (m_s m) top) -> m_tprev m <= snd e) ->
  let m' := master_loop cfg devf num den steps fuel m [] t_end in
  m_tprev m <= m_tprev m' /\
  exists j, forall h, m_tprev m' <= h ->
    fst (sim_loop cfg devf j fuel h (m_s m) (m_obs m)) = (m_s m', m_obs m').
Proof.
  induction steps as [|k IH]; intros m Hw; cbn [master_loop].
  - split; [lia|]. exists O. intros h _. reflexivity.
  - pose proof (first_wakeups_spec (wake_of (m_s m) top)) as SP.
    destruct (first_wakeups (wake_of (m_s m) top)) as [[when roots]|] eqn:Ef.
    2: { split; [lia|]. exists O. intros h _. reflexivity. }
    destruct SP as [[[e0 [He0 Hv0]] Hmin] _].
    assert (Hge : m_tprev m <= when) by (rewrite <- Hv0; apply Hw; exact He0).
    destruct (Z.leb (deadline num den m when) t_end).
    2: { split; [lia|]. exists O. intros h _. reflexivity. }
    pose proof (tick_wakes fuel when roots []
                  (log_tick (set_wake (m_s m) top (filter (fun e : comp * Z => negb (memb (fst e) roots)) (wake_of (m_s m) top))) top when roots)) as Hwk.
    set (m2 := do_tick cfg devf fuel m when roots (deadline num den m when)).
    assert (E2 : m_tprev m2 = when /\
                 (let '(s2, _, o) := tick_level cfg devf fuel top when roots []
                      (log_tick (set_wake (m_s m) top (filter (fun e : comp * Z => negb (memb (fst e) roots)) (wake_of (m_s m) top))) top when roots) in
                  m_s m2 = s2 /\ m_obs m2 = m_obs m ++ o)).
    { unfold m2, do_tick. destruct (tick_level cfg devf fuel top when roots [] _) as [[s2 out] o]. cbn. split; [reflexivity | split; reflexivity]. }
    destruct E2 as [Et E2].
    assert (Hw2 : forall e, In e (wake_of (m_s m2) top) -> m_tprev m2 <= snd e).
    { rewrite Et. unfold tick_level in *. destruct (tick_with cfg devf (on_tick_level cfg devf fuel) top when roots [] _) as [[s2 out] o].
      destruct E2 as [Es _]. rewrite Es. intros e He. destruct (Hwk e He) as [Hin|Hle]; [|exact Hle].
      rewrite wake_of_log_tick, wake_of_set_wake in Hin. apply filter_In in Hin. destruct Hin as [Hin _]. apply Hmin. exact Hin. }
    destruct (IH m2 Hw2) as [Hmono [j Hj]]. fold m2.
    split; [lia|]. exists (S j). intros h Hh. cbn [sim_loop]. rewrite Ef.
    assert (Hle : Z.leb when h = true) by (apply Z.leb_le; lia). rewrite Hle.
    destruct (tick_level cfg devf fuel top when roots [] _) as [[s2 out] o]. destruct E2 as [Es Eo]. rewrite <- Es, <- Eo. apply Hj. exact Hh.
Qed.

Theorem master_any_speed_is_sim_prefix steps :
  let m := simulate_full cfg devf num den fuel steps initial [] [] t_end in
  exists j, forall h, m_tprev m <= h ->
    fst (sim_run cfg devf j fuel initial h) = (m_s m, m_obs m).
Proof.
  unfold simulate_full, sim_run. cbn [fold_left].
  pose proof (tick_wakes fuel initial (map fst (l_order (level_of cfg top))) []
                (log_tick (set_wake s_init top []) top initial (map fst (l_order (level_of cfg top))))) as Hw.
  unfold tick_level in *.
  destruct (tick_with cfg devf (on_tick_level cfg devf fuel) top initial _ [] _) as [[s1 out] ob].
  set (m0 := {| m_s := s1; m_tprev := initial; m_real := 0; m_now := 0; m_obs := ob; m_ticks := [(initial, 0)] |}).
  assert (H0 : forall e, In e (wake_of (m_s m0) top) -> m_tprev m0 <= snd e).
  { cbn [m0 m_s m_tprev]. intros e He. destruct (Hw e He) as [Hin|Hle]; [|exact Hle].
    rewrite wake_of_log_tick, wake_of_set_wake in Hin. destruct Hin. }
  destruct (loop_prefix steps m0 H0) as [_ [j Hj]]. exists j. exact Hj.
Qed.
End Eq.
