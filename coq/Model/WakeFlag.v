(* The waiting logic of MasterScheduler._do_tick with its new_wakeup flag made explicit
   (Model/Master.v abstracts the flag away).  The master coroutine runs atomically between its
   suspension points; handlers that add wakeups (Output.call_at, interrupts) run in between.
   [idle_clears] says whether the idle branch clears the flag before waiting for it; it is
   extracted from the current source (Gen/SourceConsts.v: master_idle_clears), whose translator
   also checks that _do_tick still has the statement skeleton modelled here.  Definitions only. *)
From TV Require Import Base Model.Wiring Model.Component Model.Sim.
Open Scope Z_scope.

Inductive wpc :=
| WIdle                                   (* await self.new_wakeup.wait()   (nothing pending) *)
| WSleep (comps : list comp) (when : Z)   (* await asyncio.wait([current, new])               *)
| WTick (comps : list comp) (when : Z)    (* await self.ticker(when, components)              *)
| WFailed.                                (* assert when is not None                          *)

Record wstate := { w_wk : list (comp * Z); w_flag : bool; w_pc : wpc }.

Inductive wevent :=
| EAdd (c : comp) (w : Z)         (* add_wakeup from any handler: wakeups[c] = w; new_wakeup.set() *)
| EIdleResume                     (* the flag is set: the idle wait returns                          *)
| EResume (new_done : bool)       (* asyncio.wait returned; [new_done]: the flag waiter had completed *)
| ETickDone.                      (* the ticker finished                                             *)

Section W.
Variable idle_clears : bool.

(* from the head of _do_tick to its next suspension point *)
Definition after_get (wk : list (comp * Z)) : wstate :=
  match first_wakeups wk with
  | Some (when, comps) => {| w_wk := wk; w_flag := false; w_pc := WSleep comps when |}
  | None => {| w_wk := wk; w_flag := false; w_pc := WFailed |}
  end.

Definition head (wk : list (comp * Z)) (flag : bool) : wstate :=
  match wk with
  | [] =>
      let flag' := if idle_clears then false else flag in
      if flag' then after_get wk                     (* Event.wait() on a set event returns at once *)
      else {| w_wk := wk; w_flag := false; w_pc := WIdle |}
  | _ => after_get wk
  end.

Definition wstep (s : wstate) (e : wevent) : option wstate :=
  match e, w_pc s with
  | _, WFailed => Some s
  | EAdd c w, pc => Some {| w_wk := upd c w (w_wk s); w_flag := true; w_pc := pc |}
  | EIdleResume, WIdle => if w_flag s then Some (after_get (w_wk s)) else None
  | EResume new_done, WSleep comps when =>
      if new_done then (if w_flag s then Some (head (w_wk s) (w_flag s)) else None)
      else Some {| w_wk := filter (fun e : comp * Z => negb (memb (fst e) comps)) (w_wk s);
                   w_flag := w_flag s; w_pc := WTick comps when |}
  | ETickDone, WTick _ _ => Some (head (w_wk s) (w_flag s))
  | _, _ => None
  end.

(* events that cannot happen in the current state are skipped *)
Fixpoint wrun (s : wstate) (h : list wevent) : wstate :=
  match h with
  | [] => s
  | e :: r => wrun (match wstep s e with Some s' => s' | None => s end) r
  end.

(* the scheduler after its initial tick, whatever callbacks that tick left pending *)
Definition winit (wk : list (comp * Z)) : wstate := head wk false.
End W.
