"""C08 -- results do not depend on message timing.
(a) level T: the real Ticker under every answer order of small wirings; all runs of one history are
    compared with each other inside Coq (code 21) and with Model/Ticker.v.
(b) level S on a controllable bus (harness/cbus.py): whole flat / nested simulations are run on the
    synchronous in-memory bus (reference) and on a conforming broker-like bus that delays and reorders
    deliveries under seeded policies (random, newest-first, interrupts held back, one component's
    answers held back); stimuli are applied between ticks, several at one instant only on devices
    with disjoint downstream cones.  Coq compares every device's (time, inputs) sequence between the
    reference and each delayed run (code 22) and both with Model/Sim.v."""
import glob
import json
import random

import cbus
import slevel
import sprops
import tprops
from common import VERIF, run_shards

PID = "C08"
T_END = 2_600_000_003
POLICIES = ["random", "random", "lifo", "hold-interrupts", "hold-component", "fifo", "ack", "ack", "ack-per-topic", "ack-concurrent"]


def cones(cfg):
    f = sprops.flatten(cfg)
    succ = {}
    for (u, p, c, q) in f[1]["conns"]:
        succ.setdefault(u, set()).add(c)
    out = {}
    for d, _ in f[1]["order"]:
        seen, todo = {d}, [d]
        while todo:
            for y in succ.get(todo.pop(), ()):
                if y not in seen:
                    seen.add(y)
                    todo.append(y)
        out[d] = seen
    return out


def gen_stim(rng, cfg):
    dl = slevel.devices_of(cfg)
    cone = cones(cfg)
    stim, simultaneous = [], 0
    for _ in range(rng.randint(1, 3)):
        # every instant gets an offset of its own: a callback chain started by one stimulus (periods are multiples of
        # 100 ms) must never fall due at the very instant of a later stimulus -- which of a timer and a coroutine due at
        # one instant asyncio runs first is not modelled
        r = rng.randrange(1, 2500) * 1_000_000 + 333 + 37 * len(stim)
        if any(abs(r - r0) < 2_000_000 for r0, _ in stim):
            continue
        a = rng.choice(dl)
        stim.append((r, a))
        others = [b for b in dl if b != a and not (cone[a] & cone[b])]
        if others and rng.random() < 0.7:
            stim.append((r, rng.choice(others)))
            simultaneous += 1
    return sorted(stim), simultaneous


def make_bus(policy, bseed, cfg):
    from tickit.core.typedefs import Interrupt
    rng = random.Random(bseed)
    if policy == "hold-interrupts":
        return cbus.CBus(rng, "hold", hold=lambda cons, topic, msg: isinstance(msg, Interrupt))
    if policy == "hold-component":
        comps = [c for lv in cfg.values() for (c, _) in lv["order"]]
        victim = slevel.cname(rng.choice(comps))
        return cbus.CBus(rng, "hold", hold=lambda cons, topic, msg: topic.endswith(victim + "-out") or topic.endswith(victim + "-in"))
    if policy == "ack":
        # a broker that acknowledges: produce() returns up to 60 event-loop steps after the message became deliverable
        return cbus.CBus(rng, "random", ack=[0, 1, 3, 8, 20, 60])
    if policy == "ack-per-topic":
        # ... and the topics of one consumer are read independently of one another (free cross-topic order even within a consumer)
        return cbus.CBus(rng, "random", ack=[0, 1, 3, 8, 20, 60], per_topic=True)
    if policy == "ack-concurrent":
        # ... and a handler is started per delivered message, not waiting for the consumer's previous handler to return
        return cbus.CBus(rng, "random", ack=[0, 1, 3, 8, 20, 60], concurrent=True)
    return cbus.CBus(rng, policy)


def run_group(case):
    ref = slevel.run_internal(case["cfg"], case["devs"], stim=case["stim"], t_end=T_END)
    delayed = []
    for (policy, bseed) in case["schedules"]:
        run = slevel.run_internal(case["cfg"], case["devs"], stim=case["stim"], t_end=T_END, bus=make_bus(policy, bseed, case["cfg"]))
        delayed.append(run)
    rend = lambda r: slevel.render_sim_case(case["cfg"], case["devs"], (1, 1), 0, case["stim"], T_END, r)  # noqa: E731
    return ref, delayed, "(%s, [%s])" % (rend(ref), "; ".join(rend(d) for d in delayed))


def describe(case):
    return dict(kind="net", cfg={str(k): v for k, v in case["cfg"].items()}, devs={str(k): list(v) for k, v in case["devs"].items()},
                stim=[list(s) for s in case["stim"]], schedules=[list(s) for s in case["schedules"]])


def case_of(rp):
    return dict(cfg={int(k): dict(order=[(c, kk) for c, kk in v["order"]], conns=[tuple(x) for x in v["conns"]]) for k, v in rp["cfg"].items()},
                devs={int(k): tuple(v) for k, v in rp["devs"].items()}, stim=[tuple(s) for s in rp["stim"]],
                schedules=[tuple(s) for s in rp["schedules"]])


def net_part(ck, tier, rng):
    n, k = {"quick": (36, 5), "thorough": (400, 10)}[tier]
    cases, terms, groups = [], [], []
    nsim = 0
    corpus = [case_of(json.load(open(f))) for f in sorted(glob.glob(str(VERIF / "corpus" / "C08" / "*.json")))]
    # fixed shapes: two sources with equal periods (their callbacks always tie) feeding one sink, flat and across a system boundary
    for cfg, devs in (({1: dict(order=[(3, "dev"), (4, "dev"), (5, "dev")], conns=[(3, 1, 5, 1), (4, 1, 5, 2)])},
                       {3: (21, 300_000_000, 1), 4: (22, 300_000_000, 1), 5: (23, 1_000_000_000, 0)}),
                      ({1: dict(order=[(3, "dev"), (4, 2), (8, "dev")], conns=[(3, 1, 8, 1), (4, 1, 8, 2)]),
                        2: dict(order=[(5, "dev"), (6, "dev")], conns=[(5, 1, 6, 1), (6, 1, 2, 1)])},
                       {3: (24, 400_000_000, 1), 5: (25, 400_000_000, 1), 6: (26, 1_000_000_000, 0), 8: (27, 1_000_000_000, 0)})):
        corpus.append(dict(cfg=cfg, devs=devs, stim=[], schedules=[(pol, 7 + j) for j, pol in enumerate(["lifo", "random", "hold-component", "random", "fifo", "ack", "ack-per-topic", "ack-concurrent"])]))
    for i in range(len(corpus) + n):
        if i < len(corpus):
            case = corpus[i]      # minimised regression cases run first
        else:
            cfg = slevel.gen_config(rng, depth=rng.choice([0, 1, 2, 2, 3]), p_sys=0.6)
            devs = slevel.gen_devs(rng, cfg, (0, 0, 1, 2, 3, 4, 5, 5))
            stim, sim = gen_stim(rng, cfg)
            nsim += sim
            case = dict(cfg=cfg, devs=devs, stim=stim, schedules=[(rng.choice(POLICIES), rng.randrange(10 ** 6)) for _ in range(k)])
        ref, delayed, term = run_group(case)
        cases.append(case)
        terms.append(term)
        groups.append((ref, delayed))
    bad = run_shards(PID + "_net", sprops.HEADER, "sched_case", "check_sched", terms, shard_size=4)
    # on how many of them the schedule-explicit model Model/NSim.v (two answer strategies) was compared with Model/Sim.v
    nsim_scope = run_shards(PID + "_nsim", sprops.HEADER, "sched_case", "nsim_scope", terms, shard_size=8)
    # ... and the nested schedule-explicit model Model/NNSim.v (nested cases, interrupts of devices at any depth;
    # marker 2: the configuration also lies in the scope of the nested schedule-independence theorem, decided in Coq)
    nnsim_scope = run_shards(PID + "_nnsim", sprops.HEADER + "\nFrom TV Require Import Oracle.ScopeCheck.", "sched_case", "nnsim_scope", terms, shard_size=8)
    # ... and the interleaving scheduler Model/HSim.v (all the messages of all the schedulers of a nesting in flight at once;
    # compared with Model/Sim.v by code 25 of check_sched): on how many nested cases its rotating strategy really gives a
    # global order of updates that neither atomic strategy has
    hsim_inter = run_shards(PID + "_hsim", sprops.HEADER, "sched_case", "(fun g => hsim_interleaves (fst g))", terms, shard_size=8)
    deliveries = choices = 0
    pol = {}
    for case, (ref, delayed) in zip(cases, groups):
        for (policy, _), d in zip(case["schedules"], delayed):
            pol[policy] = pol.get(policy, 0) + 1
            deliveries += (d["bus"] or {}).get("delivered", 0)
            choices += (d["bus"] or {}).get("choices", 0)
            ck.count("net:" + json.dumps([describe(case)["cfg"], case["stim"], policy, _], sort_keys=True),
                     (d["bus"] or {}).get("choices", 0) >= 5)
    ck.coverage.update(net_simulations=len(cases), net_delayed_runs=sum(len(c["schedules"]) for c in cases), net_policies=pol,
                       net_deliveries=deliveries, net_scheduling_choices=choices, net_simultaneous_stimuli=nsim,
                       net_nested=sum(1 for c in cases if len(c["cfg"]) > 1), net_disagreements=len(bad),
                       net_flat_cases_compared_with_schedule_explicit_model=len(nsim_scope),
                       net_nested_cases_compared_with_nested_schedule_explicit_model=len(nnsim_scope),
                       net_nested_cases_in_scope_of_nested_schedule_independence_theorem=sum(1 for v in nnsim_scope.values() if 2 in v),
                       net_nested_cases_on_which_the_interleaving_scheduler_interleaves_system_simulations=len(hsim_inter))
    reported = False
    # a participant that raises or a simulation that stalls under some schedule only
    for i, (case, (ref, delayed)) in enumerate(zip(cases, groups)):
        for (policy, bseed), d in zip(case["schedules"], delayed):
            errs = (d["bus"] or {}).get("errors", []) + d["errors"] + ([d["error"]] if d["error"] else [])
            if errs and not (ref["errors"] or ref["error"]) and not reported:
                reported = True
                dd = describe(case)
                dd.update(schedules=[[policy, bseed]], errors=errs[:3])
                ck.report("participant-raised-or-stalled-under-a-delivery-schedule",
                          f"whole simulation on the delaying bus ({policy}): {errs[0][:200]}", dd)
    for i in sorted(bad):
        if 22 in bad[i] and not reported:
            reported = True
            case, (ref, delayed) = cases[i], groups[i]
            which = [j for j, d in enumerate(delayed) if d["per"] != ref["per"]]
            dd = describe(case)
            if which:
                dd["schedules"] = [list(case["schedules"][which[0]])]
                d = delayed[which[0]]
                dev = sorted(c for c in set(ref["per"]) | set(d["per"]) if ref["per"].get(c) != d["per"].get(c))[0]
                dd.update(device=dev, reference=[[t, sorted(v.items())] for t, v in ref["per"].get(dev, [])][:12],
                          delayed=[[t, sorted(v.items())] for t, v in d["per"].get(dev, [])][:12])
            dd["codes"] = bad[i]
            ck.report("device-observations-depend-on-the-delivery-schedule",
                      "a device observes another (time, inputs) sequence on a delaying / reordering bus than on the in-memory bus", dd)
    if not reported and bad:
        i = min(bad)
        dd = describe(cases[i])
        dd.update(codes=bad[i], broken="correspondence Model/Sim.v vs whole simulations (reference or delayed runs); theorems of Props.C08")
        ck.report("correspondence-broken", "whole-simulation model and implementation disagree but every delayed run agrees with its reference",
                  dd, no_input=True)


HREPLAY_HEADER = sprops.HEADER + "\nFrom TV Require Import Model.HSim Oracle.HReplay."


def hreplay_run(cfg, devs, stim, pol, bseed):
    r = slevel.run_internal(cfg, devs, stim=stim, t_end=T_END, bus=make_bus(pol, bseed, cfg))
    return r, slevel.render_replay_case(cfg, devs, (1, 1), 0, stim, T_END, r)


def hreplay_part(ck, tier, rng):
    """the deliveries of the delaying bus, replayed message by message in the interleaving model (Oracle/HReplay.v): every
    delivery must be a possible move of Model/HSim.v and carry the message the model has in flight (26-29, 51/52)"""
    n, k = {"quick": (36, 2), "thorough": (400, 4)}[tier]
    cases, terms = [], []
    skipped = 0
    for _ in range(n):
        cfg = slevel.gen_config(rng, depth=rng.choice([0, 1, 2, 2, 3]), p_sys=0.6)
        devs = slevel.gen_devs(rng, cfg, (0, 0, 1, 2, 3, 4, 5))
        dl = slevel.devices_of(cfg)
        # interrupts one at a time, well apart, never at the instant of a callback: between the ticks, as C08 has it
        st = sorted((rng.randrange(1, 2500) * 1_000_000 + 333 + 37 * j, rng.choice(dl)) for j in range(rng.randint(0, 3)))
        stim = [x for j, x in enumerate(st) if j == 0 or x[0] - st[j - 1][0] > 2_000_000]
        for _ in range(k):
            pol, bseed = rng.choice(POLICIES), rng.randrange(10 ** 6)
            r, term = hreplay_run(cfg, devs, stim, pol, bseed)
            if term is None or r["error"] or r["errors"]:
                skipped += 1
                continue
            cases.append(dict(cfg=cfg, devs=devs, stim=stim, schedule=[pol, bseed], run=r))
            terms.append(term)
    bad = run_shards(PID + "_hreplay", HREPLAY_HEADER, "replay_case", "check_hreplay", terms, shard_size=6)
    total = inner = 0
    for c in cases:
        paths = slevel.comp_paths(c["cfg"])
        items = [it for (_, its) in c["run"]["deliveries"] for it in its if it[0] != "other"]
        ins = sum(1 for it in items if paths[it[1]])
        total += len(items)
        inner += ins
        ck.count("hreplay:" + json.dumps([{str(a): b for a, b in c["cfg"].items()}, c["stim"], c["schedule"]], sort_keys=True), ins >= 10)
    ck.coverage.update(replayed_runs=len(cases), replayed_deliveries=total, replayed_deliveries_inside_system_simulations=inner,
                       replayed_runs_not_rendered=skipped, replay_disagreements=len(bad))
    if bad:
        i = min(bad)
        c = cases[i]
        ck.report("real-deliveries-are-not-a-run-of-the-interleaving-model",
                  f"whole simulation on the delaying bus ({c['schedule'][0]}): replaying its deliveries in Model/HSim.v gives codes {bad[i]}",
                  dict(kind="hreplay", cfg={str(a): b for a, b in c["cfg"].items()}, devs={str(a): list(b) for a, b in c["devs"].items()},
                       stim=[list(x) for x in c["stim"]], schedule=c["schedule"], codes=bad[i],
                       broken="correspondence Model/HSim.v vs the real schedulers on the delaying bus; C08_interleaved_nesting_is_sim"),
                  no_input=True)


def both_parts(ck, tier, rng):
    net_part(ck, tier, rng)
    hreplay_part(ck, tier, rng)


def main(tier, seed):
    return tprops.main_T(PID, tier, seed, {21}, "Props.C08",
                         ["Model/Ticker.v", "Oracle/TickerOracle.v", "Model/Sim.v", "Oracle/SimCheck.v", "Oracle/SimOracle.v",
                          "Proofs/TickerP.v", "Model/NSim.v", "Proofs/LatestP.v", "Proofs/EqvP.v", "Proofs/InlineP.v", "Proofs/InlineLoopP.v",
                          "Proofs/InlineScopeP.v", "Proofs/InlineLatestP.v", "Proofs/WakeWfP.v", "Proofs/ExtentP.v", "Proofs/Confluence2P.v",
                          "Proofs/ScheduleP.v", "Proofs/SimTraceP.v", "Model/SimTime.v", "Model/Inline.v", "Proofs/ParDevP.v", "Proofs/FuelP.v",
                          "Proofs/Confluence3P.v", "Model/NNSim.v", "Proofs/NScheduleP.v", "Proofs/NDetP.v", "Proofs/NDetScopeP.v", "Proofs/NDetXP.v", "Proofs/SimNTP.v", "Proofs/MsgLevelP.v", "Model/HSim.v", "Proofs/MsgTreeP.v", "Proofs/HSimP.v", "Oracle/HReplay.v", "Proofs/ExtentP.v", "Model/Interrupts.v", "Oracle/ScopeCheck.v",
                          "Proofs/FrameP.v", "Proofs/NonInterfP.v", "Proofs/NonInterfLoopP.v", "Props/C08.v"],
                         "schedule independence", extra=both_parts)


def replay(rp):
    if rp.get("kind") == "hreplay":
        cfg = {int(a): dict(order=[(c, kk) for c, kk in v["order"]], conns=[tuple(x) for x in v["conns"]]) for a, v in rp["cfg"].items()}
        devs = {int(a): tuple(v) for a, v in rp["devs"].items()}
        r, term = hreplay_run(cfg, devs, [tuple(x) for x in rp["stim"]], rp["schedule"][0], rp["schedule"][1])
        bad = run_shards("replay", HREPLAY_HEADER, "replay_case", "check_hreplay", [term]) if term else {0: ["not rendered"]}
        print("configuration:", cfg, "stimuli:", rp["stim"], "schedule:", rp["schedule"])
        print("deliveries of the first ticks:", [(t, its[:8]) for (t, its) in r["deliveries"][:3]])
        print("codes:", bad.get(0, []))
        return 1 if bad else 0
    if rp.get("kind") != "net":
        return tprops.replay_T(rp)
    case = case_of(rp)
    ref, delayed, term = run_group(case)
    bad = run_shards("replay", sprops.HEADER, "sched_case", "check_sched", [term])
    print("configuration:", case["cfg"], "stimuli:", case["stim"], "schedules:", case["schedules"])
    for d in delayed:
        for c in sorted(set(ref["per"]) | set(d["per"])):
            if ref["per"].get(c) != d["per"].get(c):
                print(f"device {c}: reference {[t for t, _ in ref['per'].get(c, [])]} delayed {[t for t, _ in d['per'].get(c, [])]}")
        if d["errors"] or d["error"] or (d["bus"] or {}).get("errors"):
            print("errors:", d["error"], d["errors"][:2], (d["bus"] or {}).get("errors", [])[:2])
    print("codes:", bad.get(0, []))
    return 1 if bad else 0
