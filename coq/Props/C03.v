(* C03 -- devices see exactly the latest upstream values along the declared wiring.
   Three layers, each for every wiring / history / answer order:
   (1) routing (Model/Wiring.v): an output change reaches exactly the input ports wired to it;
   (2) within a tick (Model/Ticker.v): the changes handed to a component are exactly the values its
       upstream components answered earlier in the same tick, whatever the order of the answers;
   (3) across ticks (Model/Component.v): the device component's cumulative inputs hold, per port,
       the latest value ever received.
   PARTIAL: that (1)-(3) compose through system-simulation boundaries (external / expose pseudo
   components of Model/Sim.v) is not proved; it is decided per run by the Coq-defined oracle
   [latest_ok] (Oracle/SimOracle.v, code 81) on the flattened wiring of every generated nesting.
   Property theorems only. *)
From TV Require Import Base Model.Wiring Model.Ticker Model.Component Proofs.WiringP Proofs.TickerP Proofs.FlattenP.
Open Scope Z_scope.

Theorem C03_route_exact : forall (conns : list conn) src (ch : list (port * Z)) ic ip v,
  single_source conns -> NoDup (keys ch) ->
  (lookup2r (route conns src ch) ic ip = Some v <->
   exists op, lookup op ch = Some v /\ In (src, op, ic, ip) conns).
Proof. intros. apply route_exact; assumption. Qed.

Theorem C03_route_nothing_else : forall (conns : list conn) src (ch : list (port * Z)) ic ip v,
  lookup2r (route conns src ch) ic ip = Some v ->
  exists op, In (op, v) ch /\ In (src, op, ic, ip) conns.
Proof. intros conns src ch ic ip v. apply route_nothing_else. Qed.

(* any tick, any interleaving of answers: what an update carries is exactly what was answered
   upstream before it (no loss, no cross-talk, nothing for unwired components) *)
Theorem C03_within_tick : forall conns comps t roots ext st tr,
  single_source conns -> Run conns comps t roots ext st tr -> wf_answers tr ->
  forall l1 c t' chg l2, tr = l1 ++ EDispatch (Upd c t' chg) :: l2 ->
  forall q v, lookup q chg = Some v <-> spec_inputs conns l1 c q v.
Proof.
  intros conns comps t roots ext st tr Hss HR Hwf l1 c t' chg l2 E.
  assert (H : action_ok conns t roots l1 (Upd c t' chg)).
  { eapply disp_ok_split; [eapply run_disp_ok; eassumption | exact E]. }
  destruct H as [_ [H _]]. exact H.
Qed.

(* any history of updates of a device component: the i-th update is handed, per port, the latest
   value among everything received so far -- nothing stale, nothing forgotten *)
Theorem C03_cumulative_latest : forall h i inp ch q,
  nth_error (run_dc dc_init h) i = Some (inp, ch) ->
  lookup q inp = last_write q (concat (map fst (firstn (S i) h))).
Proof.
  intros h i inp ch q H. rewrite (run_dc_latest h dc_init i inp ch q H).
  destruct (last_write q _); reflexivity.
Qed.

Example C03_example :
  map fst (run_dc dc_init [([(1%positive, 5)], []); ([(2%positive, 7)], []); ([(1%positive, 6)], [])])
  = [[(1%positive, 5)]; [(1%positive, 5); (2%positive, 7)]; [(1%positive, 6); (2%positive, 7)]].
Proof. vm_compute. reflexivity. Qed.
