From TV Require Import Base.
Example C05_placeholder : True. Proof. exact I. Qed.
