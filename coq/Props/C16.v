(* C16 -- the two wiring representations and the routing derived from them agree.
   Property theorems only. Connections are 4-tuples (out comp, out port, in comp, in port). *)
From TV Require Import Base Model.Wiring Proofs.WiringP Model.PyLib Gen.SourceFuns Proofs.GenWiringP.

(* inverse wiring -> wiring: exactly the same connections, none lost, none invented
   (any inverse wiring, no side condition) *)
Theorem C16_inverse_to_wiring : forall iw c,
  In c (conns_w (from_inverse iw)) <-> In c (conns_iw iw).
Proof. exact from_inverse_conns. Qed.

(* wiring -> inverse wiring: for every wiring whose input ports have at most one source,
   the resulting dictionary holds (by lookup) exactly the wiring's connections *)
Theorem C16_wiring_to_inverse : forall w, single_source (conns_w w) ->
  forall c, has_conn_iw (from_wiring w) c <-> In c (conns_w w).
Proof. exact from_wiring_conns. Qed.

(* round trip starting from an inverse wiring (a dictionary of dictionaries):
   looking up any input port gives the original source *)
Theorem C16_roundtrip_inverse : forall iw, wf_iw iw = true ->
  forall ic ip, lookup2 (from_wiring (from_inverse iw)) ic ip = lookup2 iw ic ip.
Proof. exact roundtrip_iw_lookup. Qed.

(* round trip starting from a wiring *)
Theorem C16_roundtrip_wiring : forall w c, single_source (conns_w w) ->
  (In c (conns_w (from_inverse (from_wiring w))) <-> In c (conns_w w)).
Proof. exact roundtrip_w_conns. Qed.

(* unconnected components are preserved: the component set (dictionary keys and every
   component mentioned by a connection) is the same after either conversion *)
Theorem C16_components_preserved_from_inverse : forall iw x,
  In x (components_w (from_inverse iw)) <-> In x (components_iw iw).
Proof. exact components_from_inverse. Qed.

Theorem C16_components_preserved_from_wiring : forall w x, single_source (conns_w w) ->
  (In x (components_iw (from_wiring w)) <-> In x (components_w w)).
Proof. intros w x H. apply components_from_wiring. exact H. Qed.

(* an output change is routed to exactly the input ports wired to that output *)
Theorem C16_route_exact : forall (conns : list conn) src (ch : list (port * Z)) ic ip v,
  single_source conns -> NoDup (keys ch) ->
  (lookup2r (route conns src ch) ic ip = Some v <->
   exists op, lookup op ch = Some v /\ In (src, op, ic, ip) conns).
Proof. intros. apply route_exact; assumption. Qed.

(* with no side condition at all: nothing reaches a port not wired to a changed output *)
Theorem C16_route_nothing_else : forall (conns : list conn) src (ch : list (port * Z)) ic ip v,
  lookup2r (route conns src ch) ic ip = Some v ->
  exists op, In (op, v) ch /\ In (src, op, ic, ip) conns.
Proof. intros conns src ch ic ip v. apply route_nothing_else. Qed.

(* the dependants of a component are exactly the components reachable from it along wires,
   itself included -- cyclic wirings included. ([dependants] answers None only if its fuel
   runs out or the crawl is not closed; the correspondence run shows it never does.) *)
Theorem C16_dependants_reach : forall conns root s,
  dependants conns root = Some s -> forall c, In c s <-> reach conns root c.
Proof. exact dependants_reach. Qed.

(* non-vacuity: a diamond with a cycle back to the top *)
Example C16_example :
  let iw : iwiring := [(2, [(1, (1, 1))]); (3, [(1, (1, 1))]); (4, [(1, (2, 1)); (2, (3, 1))]);
                       (1, [(1, (4, 1))]); (5, [])]%positive in
  wf_iw iw = true /\
  dependants (conns_iw iw) 2%positive = Some [2; 4; 1; 3]%positive /\
  dependants (conns_iw iw) 5%positive = Some [5%positive] /\
  sort_pos (components_w (from_inverse iw)) = [1; 2; 3; 4; 5]%positive.
Proof. vm_compute. repeat split; reflexivity. Qed.

(* the tie to the source: the two conversions of the model ARE Wiring.from_inverse_wiring / InverseWiring.from_wiring, and
   routing along the flat connection list IS EventRouter.route on the wiring dictionaries (association lists with unique
   keys, as Python dictionaries are) -- the left-hand sides are regenerated from /repo by the function translator
   (harness/gen_funs.py) on every run *)
Theorem C16_conversions_are_source : forall (iw : iwiring) (w : wiring),
  gen_from_inverse_wiring iw = from_inverse iw /\ gen_from_wiring w = from_wiring w.
Proof. intros iw w. split; [apply from_inverse_wiring_is_source | apply from_wiring_is_source]. Qed.

Theorem C16_route_is_source : forall (w : wiring) (src : comp) (changes : list (port * Z)),
  NoDup (keys w) -> (forall e, In e w -> NoDup (keys (snd e))) ->
  gen_route w src changes = route (conns_w w) src changes.
Proof. exact route_is_source. Qed.
