From TV Require Import Base Model.Wiring Model.Sim Model.Ledger.
Open Scope Z_scope.

Definition run_ledger (evs : list lev) : ledger := fold_left lstep evs lg0.

(* the helper tasks of the master loop and of a system component's on_tick: created in pairs,
   released in pairs, never more than one pair alive *)
Lemma bracketed_inv evs : forall (l : ledger) (in_turn in_sys : bool),
  lg_master l = (if in_turn then 2 else 0) -> lg_system l = (if in_sys then 2 else 0) ->
  bracketed in_turn in_sys evs = true ->
  forall pre post, evs = pre ++ post ->
  let l' := fold_left lstep pre l in
  0 <= lg_master l' <= 2 /\ 0 <= lg_system l' <= 2.
Proof.
  induction evs as [|e t IH]; intros l it is_ Hm Hs Hb pre post E.
  - destruct pre; [|discriminate]. simpl. rewrite Hm, Hs. destruct it, is_; lia.
  - destruct pre as [|e' pre'].
    + simpl. rewrite Hm, Hs. destruct it, is_; lia.
    + simpl in E. inversion E; subst e' t. simpl.
      destruct e; simpl in Hb.
      * apply andb_true_iff in Hb. destruct Hb as [H1 H2]. apply negb_true_iff in H1. subst it.
        apply (IH (lstep l LTurnStart) true is_) with (post := post); [simpl; lia | simpl; exact Hs | exact H2 | reflexivity].
      * apply andb_true_iff in Hb. destruct Hb as [H1 H2]. subst it.
        apply (IH (lstep l LSleepWins) false is_) with (post := post); [simpl; lia | simpl; exact Hs | exact H2 | reflexivity].
      * apply andb_true_iff in Hb. destruct Hb as [H1 H2]. subst it.
        apply (IH (lstep l LWakeWins) false is_) with (post := post); [simpl; lia | simpl; exact Hs | exact H2 | reflexivity].
      * apply andb_true_iff in Hb. destruct Hb as [H1 H2]. apply negb_true_iff in H1. subst is_.
        apply (IH (lstep l LSysTickStart) it true) with (post := post); [simpl; exact Hm | simpl; lia | exact H2 | reflexivity].
      * apply andb_true_iff in Hb. destruct Hb as [H1 H2]. subst is_.
        apply (IH (lstep l LSysTickEnd) it false) with (post := post); [simpl; exact Hm | simpl; lia | exact H2 | reflexivity].
      * apply (IH (lstep l LChunk) it is_) with (post := post); [simpl; exact Hm | simpl; exact Hs | exact Hb | reflexivity].
      * apply (IH (lstep l LReplyDone) it is_) with (post := post); [simpl; exact Hm | simpl; exact Hs | exact Hb | reflexivity].
Qed.

(* the TCP handler retains, after each chunk, exactly the reply tasks still running plus the new
   one: if at most K replies are ever in flight the retained list never exceeds K *)
Lemma tcp_retained_bound K evs : forall l,
  0 <= lg_tcp_live l -> lg_tcp_retained l <= K ->
  (forall pre post, evs = pre ++ post -> lg_tcp_live (fold_left lstep pre l) <= K) ->
  forall pre post, evs = pre ++ post -> lg_tcp_retained (fold_left lstep pre l) <= K.
Proof.
  induction evs as [|e t IH]; intros l Hl Hr Hlive pre post E.
  - destruct pre; [|discriminate]. exact Hr.
  - destruct pre as [|e' pre']; [exact Hr|].
    simpl in E. inversion E; subst e' t. simpl.
    apply (IH (lstep l e)) with (post := post); [| | |reflexivity].
    + destruct e; simpl; lia.
    + assert (H1 := Hlive [e] (pre' ++ post) eq_refl). simpl in H1.
      destruct e; simpl in *; lia.
    + intros p q Epq. specialize (Hlive (e :: p) q). simpl in Hlive. apply Hlive. rewrite Epq. reflexivity.
Qed.

(* the steady-state task count depends on the configuration only *)
Lemma level_tasks_nonneg fuel cfg : forall lv, 0 <= level_tasks fuel cfg lv.
Proof.
  induction fuel as [|f IH]; intros lv; simpl; [lia|].
  assert (H : forall l acc, 0 <= acc ->
            0 <= fold_left (fun acc (ck : comp * ckind) =>
                              acc + match snd ck with KDev => 2 | KSys lv' => 1 + level_tasks f cfg lv' end) l acc).
  { induction l as [|[c k] r IHl]; intros acc Ha; cbn [fold_left snd]; [exact Ha|]. apply IHl.
    destruct k as [|lv']; [lia|]. specialize (IH lv'). lia. }
  apply H. lia.
Qed.
