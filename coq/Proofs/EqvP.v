(* Values as finite maps: equality up to the order of an association list. *)
From TV Require Import Base Model.Wiring Model.Ticker Model.Component Model.Sim
  Proofs.WiringP Proofs.TickerP Proofs.NonInterfP Proofs.LatestP.
Open Scope Z_scope.

Definition eqv (a b : values) : Prop := forall q, lookup q a = lookup q b.

Lemma eqv_refl a : eqv a a.
Proof. intros q. reflexivity. Qed.
Lemma eqv_sym a b : eqv a b -> eqv b a.
Proof. intros H q. symmetry. apply H. Qed.
Lemma eqv_trans a b c : eqv a b -> eqv b c -> eqv a c.
Proof. intros H1 H2 q. rewrite H1. apply H2. Qed.

Lemma eqv_nil_l a : eqv [] a -> a = [].
Proof. intros H. destruct a as [|[k v] r]; [reflexivity|]. specialize (H k). cbn in H. rewrite Pos.eqb_refl in H. discriminate. Qed.

Lemma nonempty_eqv a b : eqv a b -> nonempty a = nonempty b.
Proof.
  intros H. destruct a as [|[k v] r].
  - rewrite (eqv_nil_l b H). reflexivity.
  - destruct b as [|e r']; [|reflexivity]. apply eqv_sym in H. apply eqv_nil_l in H. discriminate.
Qed.

Lemma merge_eqv a a' b b' : eqv a a' -> eqv b b' -> NoDup (keys b) -> NoDup (keys b') -> eqv (merge a b) (merge a' b').
Proof.
  intros Ha Hb Hn Hn' q. rewrite !lookup_merge_last, !last_write_lookup by assumption. rewrite (Hb q), (Ha q). reflexivity.
Qed.
