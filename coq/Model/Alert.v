(* The alert protocol of nested schedulers: how an interrupt raised by a device at any depth -- at ANY moment, also while
   ticks are running at several levels and messages are in flight -- reaches the master, and how the callbacks of system
   simulations keep the master informed of what their insides need.  Data free: what is kept is, per scheduler (level),
   its wakeup table, its set of pending interrupts, the messages in flight to it (the Outputs / Skips and Interrupts its
   components have published, per-source FIFO: a message of component c can be delivered only when no earlier message of c
   is queued), and, while it ticks, the tick's time, roots, the components still to answer (to_update) and those already
   handed their Input.  The steps ([AStep]) are those of the code:
     - a device raises an interrupt (BaseComponent.raise_interrupt: an Interrupt on its output topic)        [A_raise]
     - the master is handed an Interrupt (MasterScheduler.schedule_interrupt: wakeup = min(stamp, pending))   [A_int_top]
     - a nested scheduler is handed one (NestedScheduler.schedule_interrupt: queued by name, and the system
       simulation raises an interrupt of its own)                                                            [A_int_nested]
     - the master starts a tick: some components, at some time, their wakeups removed from its table (which
       ones and when -- the earliest, Model/Master.v -- does not matter here; the set may even have been computed just
       before an interrupt was handled)                                                                     [A_mtick]
     - a device is handed its Input: it is updated and publishes an Output with some callback               [A_in_dev]
     - a system simulation is handed its Input: NestedScheduler.on_tick -- roots = pending interrupts and
       due wakeups (at least), both taken out of the bookkeeping                                             [A_in_sys]
     - a component that is not a root is passed over (the scheduler publishes a Skip in its name)            [A_skip]
     - an Output / Skip reaches the scheduler (propagate; add_wakeup when it asks to be called back)          [A_out]
     - the tick of a system simulation has ended: it answers, asking to be called back at once when an
       interrupt is pending inside, at the earliest inner wakeup otherwise (SystemComponent.on_tick)         [A_done]
     - the master's tick has ended                                                                            [A_mdone]
   Which components a tick involves beyond its roots, what devices compute and when they ask to be called back is left
   open (any).  Proofs/AlertP.v: whatever the interleaving, an interrupt is never lost -- see there.  Definitions only. *)
From TV Require Import Base Model.Wiring Model.Ticker Model.Component Model.Sim.
Open Scope Z_scope.

Inductive amsg := AInt | AOut (ca : option Z).

Record tickst := { t_time : Z; t_roots : list comp; t_todo : list comp; t_handed : list comp }.

Record lstate := { a_wake : list (comp * Z); a_ints : list comp; a_q : list (comp * amsg); a_tick : option tickst }.
Definition l_empty : lstate := {| a_wake := []; a_ints := []; a_q := []; a_tick := None |}.

(* a_hi: the latest simulation time the master has used so far (a tick time or the stamp of an interrupt);
   a_owed: the devices (with their level) that have raised an interrupt and have not been updated since *)
Record astate := { a_lv : list (positive * lstate); a_hi : Z; a_owed : list (positive * comp) }.

Definition getl (s : astate) (lv : positive) : lstate :=
  match lookup lv (a_lv s) with Some x => x | None => l_empty end.
Definition setl (s : astate) (lv : positive) (x : lstate) : astate :=
  {| a_lv := upd lv x (a_lv s); a_hi := a_hi s; a_owed := a_owed s |}.
Definition set_hi (s : astate) (h : Z) : astate := {| a_lv := a_lv s; a_hi := h; a_owed := a_owed s |}.
Definition set_owed (s : astate) (o : list (positive * comp)) : astate := {| a_lv := a_lv s; a_hi := a_hi s; a_owed := o |}.

Definition with_wake (L : lstate) w := {| a_wake := w; a_ints := a_ints L; a_q := a_q L; a_tick := a_tick L |}.
Definition with_ints (L : lstate) i := {| a_wake := a_wake L; a_ints := i; a_q := a_q L; a_tick := a_tick L |}.
Definition with_q (L : lstate) q := {| a_wake := a_wake L; a_ints := a_ints L; a_q := q; a_tick := a_tick L |}.
Definition with_tick (L : lstate) t := {| a_wake := a_wake L; a_ints := a_ints L; a_q := a_q L; a_tick := t |}.
Definition q_push (L : lstate) (c : comp) (m : amsg) := with_q L (a_q L ++ [(c, m)]).

Definition hand (t : tickst) (c : comp) : tickst :=
  {| t_time := t_time t; t_roots := t_roots t; t_todo := t_todo t; t_handed := c :: t_handed t |}.
Definition untodo (t : tickst) (c : comp) : tickst :=
  {| t_time := t_time t; t_roots := t_roots t; t_todo := filter (fun x => negb (Pos.eqb x c)) (t_todo t); t_handed := t_handed t |}.

Definition add_int (c : comp) (l : list comp) : list comp := if memb c l then l else l ++ [c].
Definition int_wake (w : Z) (c : comp) (wk : list (comp * Z)) : list (comp * Z) :=
  upd c (match lookup c wk with Some w0 => Z.min w w0 | None => w end) wk.
Definition out_wake (ca : option Z) (c : comp) (wk : list (comp * Z)) : list (comp * Z) :=
  match ca with Some w => upd c w wk | None => wk end.
Definition due (time : Z) (e : comp * Z) : bool := Z.leb (snd e) time.

(* the callback a system simulation asks for when its tick has ended *)
Definition done_ca (L : lstate) (time : Z) : option Z :=
  match a_ints L with [] => min_wake (a_wake L) | _ => Some time end.

Section Alert.
Variable cfg : config.

Definition child (p : positive) (x : comp) (lv : positive) : Prop := lookup x (l_order (level_of cfg p)) = Some (KSys lv).
Definition is_sys (p : positive) (c : comp) : bool :=
  match lookup c (l_order (level_of cfg p)) with Some (KSys _) => true | _ => false end.

Inductive AStep : astate -> astate -> Prop :=
| A_raise s lv d :
    lookup d (l_order (level_of cfg lv)) = Some KDev ->
    AStep s (set_owed (setl s lv (q_push (getl s lv) d AInt)) ((lv, d) :: a_owed s))
| A_int_top s q1 q2 c w :
    a_q (getl s top) = q1 ++ (c, AInt) :: q2 -> ~ In c (keys q1) ->
    AStep s (set_hi (setl s top (with_q (with_wake (getl s top) (int_wake w c (a_wake (getl s top)))) (q1 ++ q2))) (Z.max (a_hi s) w))
| A_int_nested s p x lv q1 q2 c :
    child p x lv -> lv <> p -> lv <> top ->
    a_q (getl s lv) = q1 ++ (c, AInt) :: q2 -> ~ In c (keys q1) ->
    let s1 := setl s lv (with_q (with_ints (getl s lv) (add_int c (a_ints (getl s lv)))) (q1 ++ q2)) in
    AStep s (setl s1 p (q_push (getl s1 p) x AInt))
| A_mtick s when roots todo :
    a_tick (getl s top) = None -> incl roots todo ->
    AStep s (set_hi (setl s top (with_tick (with_wake (getl s top) (filter (fun e : comp * Z => negb (memb (fst e) roots)) (a_wake (getl s top))))
                                           (Some {| t_time := when; t_roots := roots; t_todo := todo; t_handed := [] |})))
                    (Z.max (a_hi s) when))
| A_in_dev s lv t c ca :
    a_tick (getl s lv) = Some t -> In c (t_todo t) -> ~ In c (t_handed t) -> is_sys lv c = false ->
    AStep s (set_owed (setl s lv (q_push (with_tick (getl s lv) (Some (hand t c))) c (AOut ca)))
                      (filter (fun e : positive * comp => negb (Pos.eqb (fst e) lv && Pos.eqb (snd e) c)) (a_owed s)))
| A_in_sys s p t x lv roots' todo' :
    a_tick (getl s p) = Some t -> In x (t_todo t) -> ~ In x (t_handed t) -> child p x lv -> lv <> p -> lv <> top ->
    a_tick (getl s lv) = None ->
    incl (a_ints (getl s lv) ++ map fst (filter (due (t_time t)) (a_wake (getl s lv)))) roots' -> incl roots' todo' ->
    let s1 := setl s p (with_tick (getl s p) (Some (hand t x))) in
    AStep s (setl s1 lv (with_tick (with_ints (with_wake (getl s lv) (filter (fun e => negb (due (t_time t) e)) (a_wake (getl s lv)))) [])
                                   (Some {| t_time := t_time t; t_roots := roots'; t_todo := todo'; t_handed := [] |})))
| A_skip s lv t c :
    a_tick (getl s lv) = Some t -> In c (t_todo t) -> ~ In c (t_handed t) -> ~ In c (t_roots t) ->
    AStep s (setl s lv (q_push (with_tick (getl s lv) (Some (hand t c))) c (AOut None)))
| A_out s lv t q1 q2 c ca :
    a_tick (getl s lv) = Some t -> a_q (getl s lv) = q1 ++ (c, AOut ca) :: q2 -> ~ In c (keys q1) -> In c (t_todo t) ->
    AStep s (setl s lv (with_q (with_wake (with_tick (getl s lv) (Some (untodo t c))) (out_wake ca c (a_wake (getl s lv)))) (q1 ++ q2)))
| A_done s p x lv t :
    child p x lv -> lv <> p -> lv <> top -> a_tick (getl s lv) = Some t -> t_todo t = [] ->
    let s1 := setl s lv (with_tick (getl s lv) None) in
    AStep s (setl s1 p (q_push (getl s1 p) x (AOut (done_ca (getl s lv) (t_time t)))))
| A_mdone s t :
    a_tick (getl s top) = Some t -> t_todo t = [] ->
    AStep s (setl s top (with_tick (getl s top) None)).

Inductive AReach : astate -> Prop :=
| AR_init : AReach {| a_lv := []; a_hi := 0; a_owed := [] |}
| AR_step s s' : AReach s -> AStep s s' -> AReach s'.

(* nothing running, nothing in flight *)
Definition quiescent (s : astate) : Prop := forall lv, a_tick (getl s lv) = None /\ a_q (getl s lv) = [].
End Alert.
