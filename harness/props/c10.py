"""C10 -- unconnected parts of a simulation never influence each other."""
import asyncio
import random

import slevel
import sprops

PID = "C10"


def adapters_part(ck, tier, rng):
    """(1) every adapter is notified exactly once after each update of its own device, never for another
    device; (2) the shipped EpicsAdapter: after_update touches only the records linked through that adapter;
    (3) the shipped CommandAdapter / HttpAdapter / ZeroMqPushAdapter after_update have no effect on others."""
    from tickit.core.adapter import AdapterContainer

    notif = {}

    class ProbeAdapter:
        def __init__(self, dev, k):
            self.dev, self.k = dev, k

        def after_update(self):
            # how many updates of *its own* device have happened when it is notified
            n = sum(1 for (c, _, _) in slevel.TRACE if c == self.dev)
            notif.setdefault((self.dev, self.k), []).append(n)

    class NoIo:
        async def setup(self, adapter, raise_interrupt):
            return

    for _ in range({"quick": 25, "thorough": 300}[tier]):
        cfg = slevel.gen_config(rng, depth=rng.choice([0, 1, 2]))
        devs = slevel.gen_devs(rng, cfg)
        notif.clear()
        ad = {d: (lambda d=d: [AdapterContainer(ProbeAdapter(d, k), NoIo()) for k in range(2)]) for d in slevel.devices_of(cfg)}
        r = slevel.run_internal(cfg, devs, (1, 1), 0, sprops.gen_stim(rng, cfg, devs), 1_500_000_003, adapters=ad)
        ck.count("adapters:" + str(sorted(r["per"])) + str(len(r["trace"])), len(r["trace"]) > len(devs))
        for d in slevel.devices_of(cfg):
            n = len(r["per"].get(d, []))
            for k in range(2):
                got = notif.get((d, k), [])
                if got != list(range(1, n + 1)):
                    ck.report("adapter-not-notified-once-per-own-update",
                              f"adapter {k} of device c{d}: notified at own-update counts {got[:10]}, expected 1..{n}",
                              dict(kind="adapters", cfg={str(x): v for x, v in cfg.items()}, device=d, notifications=got, updates=n))
                    return
    # EPICS
    try:
        from tickit.adapters.epics import EpicsAdapter, InputRecord
    except Exception as e:   # softioc missing
        ck.assumptions.append("EpicsAdapter could not be imported: " + repr(e))
        return

    class E(EpicsAdapter):
        def on_db_load(self):
            pass

    logs = {"a": [], "b": []}
    a, b = E(), E()
    ra = InputRecord("A", lambda v: logs["a"].append(v), lambda: None)
    rb = InputRecord("B", lambda v: logs["b"].append(v), lambda: None)
    a.link_input_on_interrupt(ra, lambda: 1)
    b.link_input_on_interrupt(rb, lambda: 2)
    import contextlib, io
    with contextlib.redirect_stdout(io.StringIO()):
        for _ in range(3):
            a.after_update()
        b.after_update()
    ck.count("epics", True)
    if logs != {"a": [1, 1, 1], "b": [2]}:
        ck.report("epics-adapter-updates-records-of-another-adapter",
                  f"3 updates of device A and 1 of device B set record A {logs['a']} and record B {logs['b']}",
                  dict(kind="epics", logs=logs))


def main(tier, seed):
    return sprops.main_pairs(PID, tier, seed, {91}, "Props.C10",
                             ["Model/Sim.v", "Oracle/SimCheck.v", "Oracle/SimOracle.v", "Proofs/SimP.v", "Props/C10.v"],
                             "non-interference of unconnected parts", "extend", extra_part=adapters_part)


replay = sprops.replay_pair
