(* Runs of the real schedulers in which several components raise interrupts back to back -- before the
   master has run, with (virtual) processor time passing in between, so that the interrupts carry
   different stamps -- judged against the interrupt scripts of Model/Interrupts.v, nested and flat.
   Reason codes:
   57 the NESTED run differs from the script model; 58 the FLAT run differs from it (correspondence);
   73 the flat configuration of the harness is not the Coq flattening;
   71 a device observes something else in the nested configuration than in the flat one and the model
      does not say so;
   76 ... and exactly as the model of the code's interrupt bookkeeping says: interrupts of devices of
      one top-level system simulation raised before the first is served share the earliest stamp
      (Props/C09.v [C09_inner_interrupts_refuted]; DESIGN.md 7.3). *)
From TV Require Import Base Model.Wiring Model.Ticker Model.Component Model.Sim Model.SimTime Model.NSim Model.Interrupts
  Oracle.SimCheck Oracle.SimOracle.
Open Scope Z_scope.

Record xcase := {
  xc_cfg : config;
  xc_flat : config;
  xc_devs : dev_table;
  xc_initial : Z;
  xc_script : list xitem;
  xc_obsN : list (comp * list (Z * values));
  xc_obsF : list (comp * list (Z * values))
}.

Definition per_dev_ok (m : list obs) (observed : list (comp * list (Z * values))) : bool :=
  forallb (fun dl : comp * list (Z * values) => seq_eqb (obs_of (fst dl) m) (snd dl)) observed
  && forallb (fun o : obs => memb (fst (fst o)) (keys observed)) m.

Definition same_seqs (a b : list (comp * list (Z * values))) : bool :=
  forallb (fun dl : comp * list (Z * values) =>
             match lookup (fst dl) b with Some l => seq_eqb (snd dl) l | None => false end) a.

Definition check_xcase (c : xcase) : list Z :=
  let mN := snd (xsim_from_start (xc_cfg c) (table_dev (xc_devs c)) 8 (xc_initial c) (xc_script c)) in
  let mF := snd (xsim_from_start (xc_flat c) (table_dev (xc_devs c)) 8 (xc_initial c) (map flat_item (xc_script c))) in
  let okN := per_dev_ok mN (xc_obsN c) in
  let okF := per_dev_ok mF (xc_obsF c) in
  let same := same_seqs (xc_obsN c) (xc_obsF c) && same_seqs (xc_obsF c) (xc_obsN c) in
  (if okN then [] else [57]) ++ (if okF then [] else [58]) ++
  (if conns_set_eqb (flat_conns (xc_cfg c)) (l_conns (level_of (xc_flat c) 1%positive))
      && list_eqb Pos.eqb (flat_order 40 (xc_cfg c) 1%positive) (map fst (l_order (level_of (xc_flat c) 1%positive)))
   then [] else [73]) ++
  (if same then [] else if okN && okF then [76] else [71]).
