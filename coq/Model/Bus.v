(* Model of src/tickit/core/state_interfaces/internal.py (InternalStateServer and its
   consumers/producers): per-topic logs, subscriber sets, inline (re-entrant) delivery on
   push, inline replay on subscribe.  Definitions only.

   Handlers are arbitrary functions from (consumer, topic, message) to the list of
   (topic, message) they publish while handling it; re-entrancy is well founded when every
   published topic is strictly greater than the topic being handled ([wf_handler]) -- in
   tickit the publish graph follows the (acyclic) wiring. Subscribers of a topic are visited
   in ascending consumer order (the harness gives consumers small integer hashes so that
   CPython's set iteration is that order, and checks it). *)
From TV Require Import Base.

Definition topic := positive.
Definition consumer := positive.
Definition msg := Z.
Definition handler := consumer -> topic -> msg -> list (topic * msg).

Record bus := {
  logs : list (topic * list msg);
  subs : list (topic * list consumer);
  recv : list (consumer * list (topic * msg))   (* per consumer, in order of receipt *)
}.
Definition empty_bus : bus := {| logs := []; subs := []; recv := [] |}.

Definition getl {A} (k : positive) (l : list (positive * list A)) : list A :=
  match lookup k l with Some x => x | None => [] end.

Definition log_of (b : bus) (t : topic) : list msg := getl t (logs b).
Definition subs_of (b : bus) (t : topic) : list consumer := getl t (subs b).
Definition recv_of (b : bus) (c : consumer) : list (topic * msg) := getl c (recv b).
(* what consumer c received on topic t, in order *)
Definition recv_on (b : bus) (c : consumer) (t : topic) : list msg :=
  map snd (filter (fun tm : topic * msg => Pos.eqb (fst tm) t) (recv_of b c)).

Definition append_log (b : bus) (t : topic) (m : msg) : bus :=
  {| logs := upd t (log_of b t ++ [m]) (logs b); subs := subs b; recv := recv b |}.
Definition record (b : bus) (c : consumer) (t : topic) (m : msg) : bus :=
  {| logs := logs b; subs := subs b; recv := upd c (recv_of b c ++ [(t, m)]) (recv b) |}.
Fixpoint insert_sorted (c : consumer) (l : list consumer) : list consumer :=
  match l with
  | [] => [c]
  | x :: r => match Pos.compare c x with
              | Lt => c :: x :: r
              | Eq => x :: r
              | Gt => x :: insert_sorted c r
              end
  end.
Definition add_sub (b : bus) (c : consumer) (t : topic) : bus :=
  {| logs := logs b; subs := upd t (insert_sorted c (subs_of b t)) (subs b); recv := recv b |}.

Section WithHandler.
Variable h : handler.

(* InternalStateServer.push, with the consumers' callbacks running inline *)
Fixpoint push (fuel : nat) (b : bus) (t : topic) (m : msg) : bus :=
  match fuel with
  | O => b
  | S f =>
      let b1 := append_log b t m in
      fold_left (fun b c =>
                   fold_left (fun b (tm : topic * msg) => push f b (fst tm) (snd tm))
                             (h c t m) (record b c t m))
                (subs_of b1 t) b1
  end.

(* consumer.add_message -> callback, which may publish *)
Definition deliver (fuel : nat) (b : bus) (c : consumer) (t : topic) (m : msg) : bus :=
  fold_left (fun b (tm : topic * msg) => push fuel b (fst tm) (snd tm)) (h c t m) (record b c t m).

(* the backlog of topic t is replayed to c by walking the log BY POSITION while it may grow -- Python's
   `for message in self._topics[topic]` over a list that handlers called on the way may append to; [n] bounds the walk *)
Fixpoint replay (n : nat) (fuel : nat) (b : bus) (c : consumer) (t : topic) (i : nat) : bus :=
  match n with
  | O => b
  | S n' =>
      match nth_error (log_of b t) i with
      | None => b
      | Some m => replay n' fuel (deliver fuel b c t m) c t (S i)
      end
  end.
Definition maxgrow : nat := 64.

(* InternalStateServer.subscribe: register, then replay the topic's log, topic by topic *)
Definition subscribe (fuel : nat) (b : bus) (c : consumer) (ts : list topic) : bus :=
  fold_left (fun b t =>
               let b1 := add_sub b c t in
               replay (length (log_of b1 t) + maxgrow) fuel b1 c t 0)
            ts b.

Inductive op := Subscribe (c : consumer) (ts : list topic) | Produce (t : topic) (m : msg).

Definition step (fuel : nat) (b : bus) (o : op) : bus :=
  match o with
  | Subscribe c ts => subscribe fuel b c ts
  | Produce t m => push fuel b t m
  end.
Definition run (fuel : nat) (ops : list op) : bus := fold_left (step fuel) ops empty_bus.
End WithHandler.

(* handlers given as a table (consumer, message value) -> published list, as the harness does *)
Definition table_handler (tab : list (consumer * msg * list (topic * msg))) : handler :=
  fun c _ m =>
    match find (fun e : consumer * msg * list (topic * msg) =>
                  Pos.eqb (fst (fst e)) c && Z.eqb (snd (fst e)) m) tab with
    | Some e => snd e
    | None => []
    end.

(* ---- comparison with the implementation *)
Definition tm_eqb (a b : topic * msg) : bool := Pos.eqb (fst a) (fst b) && Z.eqb (snd a) (snd b).

Record observed := {
  o_logs : list (topic * list msg);
  o_recv : list (consumer * list (topic * msg));
  o_subs : list (topic * list consumer)
}.
Definition case := (list (consumer * msg * list (topic * msg)) * list op * observed)%type.

(* the property, evaluated directly on what the implementation did: every consumer subscribed
   to a topic received exactly that topic's log, in order; nothing from other topics *)
Definition oracle (o : observed) : bool :=
  forallb (fun cr : consumer * list (topic * msg) =>
             forallb (fun tl : topic * list msg =>
                        let got := map snd (filter (fun tm : topic * msg => Pos.eqb (fst tm) (fst tl)) (snd cr)) in
                        if memb (fst cr) (getl (fst tl) (o_subs o))
                        then list_eqb Z.eqb got (snd tl)
                        else match got with [] => true | _ => false end)
                     (o_logs o))
          (o_recv o)
  && forallb (fun cr : consumer * list (topic * msg) =>
                forallb (fun tm : topic * msg => memb (fst tm) (keys (o_logs o))) (snd cr)) (o_recv o).

Definition maxfuel : nat := 40.

(* the topic a message value was published on (values are unique per history), and: do all handlers publish to
   strictly higher topics only?  That is the scope of the exactly-once-in-order theorem (and of oracle 20); with
   publish cycles the synchronous bus is compared with the model only *)
Definition topic_of_value (tab : list (consumer * msg * list (topic * msg))) (ops : list op) (v : msg) : option topic :=
  match find (fun o : op => match o with Produce _ m => Z.eqb m v | _ => false end) ops with
  | Some (Produce t _) => Some t
  | _ => match find (fun tm : topic * msg => Z.eqb (snd tm) v) (flat_map (fun e : consumer * msg * list (topic * msg) => snd e) tab) with
         | Some tm => Some (fst tm)
         | None => None
         end
  end.
Definition upward (tab : list (consumer * msg * list (topic * msg))) (ops : list op) : bool :=
  forallb (fun e : consumer * msg * list (topic * msg) =>
             match topic_of_value tab ops (snd (fst e)) with
             | Some t => forallb (fun tm : topic * msg => Pos.ltb t (fst tm)) (snd e)
             | None => true
             end) tab.

(* reason codes: 1 logs differ, 2 received sequences differ, 3 subscriber sets/order differ,
   20 the observed history violates exactly-once-in-order *)
Definition check (c : case) : list Z :=
  let '(tab, ops, o) := c in
  let b := run (table_handler tab) maxfuel ops in
  (if forallb (fun tl : topic * list msg => list_eqb Z.eqb (log_of b (fst tl)) (snd tl)) (o_logs o)
      && forallb (fun tl : topic * list msg => memb (fst tl) (keys (o_logs o))) (logs b)
   then [] else [1%Z]) ++
  (if forallb (fun cr : consumer * list (topic * msg) => list_eqb tm_eqb (recv_of b (fst cr)) (snd cr)) (o_recv o)
      && forallb (fun cr : consumer * list (topic * msg) => memb (fst cr) (keys (o_recv o))) (recv b)
   then [] else [2%Z]) ++
  (if forallb (fun ts : topic * list consumer => list_eqb Pos.eqb (subs_of b (fst ts)) (snd ts)) (o_subs o)
   then [] else [3%Z]) ++
  (if negb (upward tab ops) || oracle o then [] else [20%Z]).
