(* The deterministic nested tick of Model/Sim.v is one of the schedules of Proofs/NScheduleP.v -- up to the relation of
   Proofs/NDetP.v: every run [NT] of a system simulation's tick (any answer order at every level, any depth) ends like
   [on_tick_level], the function all whole-simulation theorems are stated on and every run of the real schedulers is
   compared with.  The fold of Model/Sim.v over the components of a level in topological order is read as a trace of
   the ticker ([sim_tr3]); the invariant [FI] shows that trace has everything the comparison of two ticks of a level
   needs ([LT], Proofs/NDetP.v): gate, input characterisation, completeness for the extent, and the state threaded
   through the answers.  Then induction on the depth, as for two schedules. *)
From TV Require Import Base Model.Wiring Model.Ticker Model.Component Model.Sim Model.SimTime Model.Inline Model.NSim Model.Interrupts Model.NNSim
  Proofs.WiringP Proofs.TickerP Proofs.SimP Proofs.NonInterfP Proofs.LatestP Proofs.FrameP Proofs.ExtentP Proofs.EqvP Proofs.ParDevP Proofs.InlineP
  Proofs.InlineLatestP Proofs.Confluence2P Proofs.Confluence3P Proofs.ScheduleP Proofs.SimTraceP Proofs.InlineLoopP Proofs.NScheduleP Proofs.NDetP Proofs.NDetXP.
Open Scope Z_scope.

(* ---------- the ticker's view of a fold over the components in topological order *)
Section TK.
Variable conns : list conn.
Hypothesis Hss : single_source conns.
Variable t : Z.
Variables roots ext : list comp.
Hypothesis Hext : forall c, In c ext <-> exists r, In r roots /\ reach conns r c.

Record TK (done : list comp) (cin : list (comp * values)) (tr : list ev) : Prop := {
  tk_in : forall c q v, lookup2r cin c q = Some v <-> spec_inputs conns tr c q v;
  tk_ok : in_ok cin;
  tk_ans : forall u, answered tr u <-> In u done /\ In u ext;
  tk_disp : forall a0, In (EDispatch a0) tr -> In (act_comp a0) done;
  tk_gate : gate_from conns ext [] tr;
  tk_dok : disp_ok conns t roots [] tr;
  tk_nd : forall a0, In (EDispatch a0) tr -> nd_action a0;
  tk_da : forall u, dispatched tr u <-> answered tr u
}.

Lemma tk_init : TK [] [] [].
Proof.
  constructor.
  - intros c q v. split; [discriminate | intros [u [p [ch [[] _]]]]].
  - intros c. cbn. constructor.
  - intros u. split; [intros [ch []] | intros [[] _]].
  - intros a0 [].
  - exact I.
  - exact I.
  - intros a0 [].
  - intros u. split; [intros [a1 [[] _]] | intros [ch []]].
Qed.

Section Step.
Variables (done : list comp) (cin : list (comp * values)) (tr : list ev) (c : comp).
Hypothesis HT : TK done cin tr.
Hypothesis Hc : ~ In c done.
Hypothesis Hsrc : forall u p q, In (u, p, c, q) conns -> In u done.
Let inp := get_d c cin.

Lemma tk_inp_nd : NoDup (keys inp).
Proof. apply (tk_ok _ _ _ HT). Qed.

Lemma tk_inp_spec : forall q v, lookup q inp = Some v <-> spec_inputs conns tr c q v.
Proof. intros q v. unfold inp. rewrite <- lookup2r_get_d. apply (tk_in _ _ _ HT). Qed.

Lemma tk_gate_c : forall u, In u (preds conns c) -> In u ext -> In u (rev (ans_comps tr) ++ []).
Proof.
  intros u Hu Hue. rewrite app_nil_r, <- in_rev. apply answered_In. apply (tk_ans _ _ _ HT). split; [|exact Hue].
  apply preds_In in Hu. destruct Hu as [[[[u' p] c'] q] [Hk [E1 E2]]]. cbn in E1, E2. subst c' u'. apply (Hsrc u p q Hk).
Qed.

(* a component outside the tick's extent has nothing pending and is no root *)
Lemma tk_outside : memb c ext = false -> nonempty inp || memb c roots = false.
Proof.
  intros Hm. apply memb_false in Hm. apply orb_false_iff. split.
  - destruct inp as [|[q v] r] eqn:Ei; [reflexivity|]. exfalso.
    assert (Hs : spec_inputs conns tr c q v) by (apply tk_inp_spec; rewrite Ei; cbn; rewrite Pos.eqb_refl; reflexivity).
    destruct Hs as [u [p [ch [Hin [Hk _]]]]]. assert (Hu : In u ext) by (apply (tk_ans _ _ _ HT); exists ch; exact Hin).
    apply Hext in Hu. destruct Hu as [r0 [Hr0 Hreach]]. apply Hm. apply Hext. exists r0. split; [exact Hr0|].
    apply (reach_step conns r0 u (u, p, c, q) Hreach Hk). reflexivity.
  - apply memb_false. intros Hr. apply Hm. apply Hext. exists c. split; [exact Hr | apply reach_refl].
Qed.

Lemma tk_out : memb c ext = false -> TK (done ++ [c]) cin tr.
Proof.
  intros Hm. destruct HT as [Jin Jok Jans Jdisp Jgate Jdok Jnd Jda]. constructor; try assumption.
  - intros u. rewrite Jans. split; [intros [H1 H2]; split; [apply in_app_iff; left; exact H1 | exact H2]|].
    intros [Hu Hue]. split; [|exact Hue]. apply in_app_iff in Hu. destruct Hu as [Hu|[E|[]]]; [exact Hu|].
    subst u. apply memb_false in Hm. contradiction.
  - intros a0 Hi. apply in_app_iff. left. apply Jdisp. exact Hi.
Qed.

Lemma tk_skip : memb c ext = true -> nonempty inp || memb c roots = false ->
  TK (done ++ [c]) cin (tr ++ [EDispatch (Skp c t); EAnswer c []]).
Proof.
  intros Hm Eupd. pose proof tk_inp_spec as Hinp_spec. pose proof tk_gate_c as Hgate_c.
  destruct HT as [Jin Jok Jans Jdisp Jgate Jdok Jnd Jda].
  assert (Hdone_app : forall x, In x done -> In x (done ++ [c])) by (intros x Hx0; apply in_app_iff; left; exact Hx0).
  apply orb_false_iff in Eupd. destruct Eupd as [Einp Eroot].
  assert (Ei : inp = []) by (destruct inp; [reflexivity | discriminate]).
  assert (Hnone : forall q v, ~ spec_inputs conns tr c q v) by (intros q v Hs; apply Hinp_spec in Hs; rewrite Ei in Hs; discriminate).
  constructor.
  - intros x q v. rewrite spec_inputs_app. replace [EDispatch (Skp c t); EAnswer c []] with ([EDispatch (Skp c t)] ++ [EAnswer c []]) by reflexivity.
    rewrite spec_inputs_app, spec_inputs_one, Jin. split; [auto|].
    intros [H|[H|[p [_ H]]]]; [exact H | exfalso; eapply spec_inputs_dispatch1; exact H | discriminate].
  - exact Jok.
  - intros u. rewrite answered_app. split.
    + intros [Hu|Hu]; [apply Jans in Hu; destruct Hu as [H1 H2]; split; [apply Hdone_app; exact H1 | exact H2]|].
      destruct Hu as [ch' [E|[E|[]]]]; [discriminate|]. inversion E; subst. split; [apply in_app_iff; right; left; reflexivity | apply memb_In; exact Hm].
    + intros [Hu Hue]. apply in_app_iff in Hu. destruct Hu as [Hu|[E|[]]]; [left; apply Jans; split; assumption|].
      subst u. right. exists []. right. left. reflexivity.
  - intros a0 Hi. apply in_app_iff in Hi. destruct Hi as [Hi|[E|[E|[]]]]; [apply Hdone_app; apply Jdisp; exact Hi | | discriminate].
    inversion E; subst a0. apply in_app_iff. right. left. reflexivity.
  - apply gate_from_app. split; [exact Jgate|]. cbn [gate_from act_comp]. split; [exact Hgate_c | exact I].
  - apply disp_ok_app. split; [exact Jdok|]. cbn [disp_ok app]. split; [|exact I].
    split; [reflexivity|]. split; [apply memb_false; exact Eroot | exact Hnone].
  - intros a0 Hi. apply in_app_iff in Hi. destruct Hi as [Hi|[E|[E|[]]]]; [apply Jnd; exact Hi | | discriminate]. inversion E; subst a0. exact I.
  - apply da_block; [reflexivity | exact Jda].
Qed.

Lemma tk_upd ch : nonempty inp || memb c roots = true -> NoDup (keys ch) ->
  memb c ext = true /\ TK (done ++ [c]) (accumulate cin (route conns c ch)) (tr ++ [EDispatch (Upd c t inp); EAnswer c ch]).
Proof.
  intros Eupd Hch_nd. pose proof tk_inp_spec as Hinp_spec. pose proof tk_gate_c as Hgate_c. pose proof tk_inp_nd as Hinp_nd.
  pose proof tk_outside as Hout.
  assert (Hm : memb c ext = true) by (destruct (memb c ext) eqn:Em; [reflexivity | specialize (Hout eq_refl); rewrite Hout in Eupd; discriminate]).
  split; [exact Hm|].
  destruct HT as [Jin Jok Jans Jdisp Jgate Jdok Jnd Jda].
  assert (Hdone_app : forall x, In x done -> In x (done ++ [c])) by (intros x Hx0; apply in_app_iff; left; exact Hx0).
  assert (Hroute : forall x q v, lookup2r (route conns c ch) x q = Some v <-> exists p, lookup p ch = Some v /\ In (c, p, x, q) conns)
    by (intros; apply route_exact; assumption).
  constructor.
  - intros x q v. rewrite accumulate_lookup by apply route_WFd.
    rewrite spec_inputs_app. replace [EDispatch (Upd c t inp); EAnswer c ch] with ([EDispatch (Upd c t inp)] ++ [EAnswer c ch]) by reflexivity.
    rewrite spec_inputs_app, spec_inputs_one. split.
    + destruct (lookup2r (route conns c ch) x q) as [v'|] eqn:Er.
      * intros E. inversion E; subst v'. right. right. apply Hroute in Er. destruct Er as [p [Hl Hk]]. exists p. split; assumption.
      * intros E. left. apply Jin. exact E.
    + intros [Hs|[Hs|[p [Hk Hl]]]].
      * destruct (lookup2r (route conns c ch) x q) as [v'|] eqn:Er; [|apply Jin; exact Hs]. exfalso.
        apply Hroute in Er. destruct Er as [p' [_ Hk']]. destruct Hs as [u [p [ch' [Hin [Hk _]]]]].
        destruct (Hss u p c p' x q Hk Hk') as [Eu _]. subst u. apply Hc. apply Jans. exists ch'. exact Hin.
      * exfalso. eapply spec_inputs_dispatch1. exact Hs.
      * assert (Er : lookup2r (route conns c ch) x q = Some v) by (apply Hroute; exists p; split; assumption). rewrite Er. reflexivity.
  - apply in_ok_accumulate. exact Jok.
  - intros u. rewrite answered_app. split.
    + intros [Hu|Hu]; [apply Jans in Hu; destruct Hu as [H1 H2]; split; [apply Hdone_app; exact H1 | exact H2]|].
      destruct Hu as [ch' [E|[E|[]]]]; [discriminate|]. inversion E; subst. split; [apply in_app_iff; right; left; reflexivity | apply memb_In; exact Hm].
    + intros [Hu Hue]. apply in_app_iff in Hu. destruct Hu as [Hu|[E|[]]]; [left; apply Jans; split; assumption|].
      subst u. right. exists ch. right. left. reflexivity.
  - intros a0 Hi. apply in_app_iff in Hi. destruct Hi as [Hi|[E|[E|[]]]]; [apply Hdone_app; apply Jdisp; exact Hi | | discriminate].
    inversion E; subst a0. apply in_app_iff. right. left. reflexivity.
  - apply gate_from_app. split; [exact Jgate|]. cbn [gate_from act_comp]. split; [exact Hgate_c | exact I].
  - apply disp_ok_app. split; [exact Jdok|]. cbn [disp_ok app]. split; [|exact I].
    split; [reflexivity|]. split; [exact Hinp_spec|].
    apply orb_true_iff in Eupd. destruct Eupd as [E|E]; [right; destruct inp; [discriminate | discriminate] | left; apply memb_In; exact E].
  - intros a0 Hi. apply in_app_iff in Hi. destruct Hi as [Hi|[E|[E|[]]]]; [apply Jnd; exact Hi | | discriminate]. inversion E; subst a0. exact Hinp_nd.
  - apply da_block; [reflexivity | exact Jda].
Qed.
End Step.
End TK.

(* ---------- the output changes read off a trace *)
Lemma find_dispatch_app_other tr new c :
  (forall a, In (EDispatch a) new -> act_comp a <> c) -> find_dispatch (tr ++ new) c = find_dispatch tr c.
Proof.
  intros H. unfold find_dispatch. rewrite filter_app.
  replace (filter (fun e : ev => match e with EDispatch a => Pos.eqb (act_comp a) c | _ => false end) new) with (@nil ev); [rewrite app_nil_r; reflexivity|].
  symmetry. induction new as [|e r IH]; [reflexivity|]. cbn [filter]. destruct e as [a|c0 ch0].
  - destruct (Pos.eqb_spec (act_comp a) c) as [E|_]; [exfalso; apply (H a); [left; reflexivity | exact E]|].
    apply IH. intros a' Ha'. apply H. right. exact Ha'.
  - apply IH. intros a' Ha'. apply H. right. exact Ha'.
Qed.

Lemma find_dispatch_app_first tr a r : ~ dispatched tr (act_comp a) -> find_dispatch (tr ++ EDispatch a :: r) (act_comp a) = Some a.
Proof.
  intros H. unfold find_dispatch. rewrite filter_app.
  replace (filter (fun e : ev => match e with EDispatch a0 => Pos.eqb (act_comp a0) (act_comp a) | _ => false end) tr) with (@nil ev).
  - cbn [app filter]. rewrite Pos.eqb_refl. reflexivity.
  - symmetry. induction tr as [|e t IH]; [reflexivity|]. cbn [filter]. destruct e as [a0|c0 ch0].
    + destruct (Pos.eqb_spec (act_comp a0) (act_comp a)) as [E|_].
      * exfalso. apply H. exists a0. split; [left; reflexivity | exact E].
      * apply IH. intros [a1 [H1 H2]]. apply H. exists a1. split; [right; exact H1 | exact H2].
    + apply IH. intros [a1 [H1 H2]]. apply H. exists a1. split; [right; exact H1 | exact H2].
Qed.

(* ---------- the fold of Model/Sim.v over one level *)
Section SimLT.
Variable cfg : config.
Variable devf : devfun.
Hypothesis Hdev_nd : forall c n t i, NoDup (keys (fst (devf c n t i))).
Variable f : nat.
Variable lv : positive.
Variable time : Z.
Variable chg : values.
Hypothesis Hok : subtree_ok cfg (S f) lv.
Hypothesis Hchg : NoDup (keys chg).
Variable inner : positive -> Z -> values -> sstate -> sstate * values * option Z * list obs.
Definition GI : ntick_rel := fun lv' t x s s' out ca ob => inner lv' t x s = (s', out, ca, ob).
Hypothesis Hfr : inner_framed cfg f GI.
Hypothesis Hnd : inner_nd GI.
Variables roots ext : list comp.
Notation conns := (l_conns (level_of cfg lv)).
Hypothesis Hext : forall c, In c ext <-> exists r, In r roots /\ reach conns r c.
Variable s0 : sstate.
Notation step := (step' devf inner lv conns time roots chg).

Definition ans_of (a : core) (ck : comp * ckind) (inp : values) : changes :=
  if Pos.eqb (fst ck) ext_id then chg else if Pos.eqb (fst ck) exp_id then [] else
  match snd ck with
  | KDev => snd (fst (fst (dev_update devf (co_s a) (fst ck) time inp)))
  | KSys lv' => snd (fst (fst (inner lv' time inp (co_s a))))
  end.

Definition new_of (a : core) (ck : comp * ckind) : list ev :=
  let inp := get_d (fst ck) (co_in a) in
  if memb (fst ck) ext then
    if nonempty inp || memb (fst ck) roots then [EDispatch (Upd (fst ck) time inp); EAnswer (fst ck) (ans_of a ck inp)]
    else [EDispatch (Skp (fst ck) time); EAnswer (fst ck) []]
  else [].

Fixpoint sim_tr3 (l : list (comp * ckind)) (a : core) : list ev :=
  match l with [] => [] | ck :: r => new_of a ck ++ sim_tr3 r (step a ck) end.

Record FI (done : list comp) (a : core) (tr : list ev) : Prop := {
  fi_tk : TK conns time roots ext done (co_in a) tr;
  fi_si : SI cfg devf f lv time chg s0 GI tr (co_s a) (co_obs a);
  fi_out : co_out a = exposed tr;
  fi_obs : forall e, In e (co_obs a) -> In (obs_comp e) (devices_below cfg (S f) lv)
}.

Lemma Hss_lv : single_source conns.
Proof. destruct Hok as [_ [_ H]]. destruct (H lv (or_introl eq_refl)) as [_ [_ [Hs _]]]. exact Hs. Qed.

(* what an updated component does, in the vocabulary of Proofs/NScheduleP.v *)
Lemma step_upd a ck : let c := fst ck in let inp := get_d c (co_in a) in
  nonempty inp || memb c roots = true ->
  (c <> ext_id -> c <> exp_id -> lookup c (l_order (level_of cfg lv)) = Some (snd ck)) ->
  exists s2 ca o,
    comp_step0 cfg devf GI lv time chg (Upd c time inp) (co_s a) s2 (ans_of a ck inp) ca o /\
    co_s (step a ck) = wake_upd s2 lv c ca /\
    co_in (step a ck) = accumulate (co_in a) (route conns c (ans_of a ck inp)) /\
    co_out (step a ck) = (if Pos.eqb c exp_id then inp else co_out a) /\
    co_obs (step a ck) = co_obs a ++ o /\ NoDup (keys (ans_of a ck inp)).
Proof.
  destruct ck as [c k]. cbn [fst snd]. intros Eupd Hkind. set (inp := get_d c (co_in a)) in *.
  unfold step', ans_of, comp_step0. cbn [fst snd]. fold inp. rewrite Eupd.
  destruct (Pos.eqb_spec c ext_id) as [Ee|Ene].
  { exists (co_s a), None, []. cbn [co_s co_in co_out co_obs wake_upd]. rewrite app_nil_r.
    destruct (Pos.eqb_spec c exp_id) as [Ex|_]; [exfalso; rewrite Ee in Ex; discriminate|].
    repeat split; try reflexivity. exact Hchg. }
  destruct (Pos.eqb_spec c exp_id) as [Ex|Enx].
  { exists (co_s a), None, []. cbn [co_s co_in co_out co_obs wake_upd]. rewrite app_nil_r.
    repeat split; try reflexivity. constructor. }
  rewrite (Hkind Ene Enx). destruct k as [|lv'].
  - pose proof (dev_update_view devf (co_s a) c time inp) as V.
    destruct (dev_update devf (co_s a) c time inp) as [[[s1 ch] ca] o] eqn:Ed. cbv zeta in V. destruct V as [_ [_ [Ech _]]].
    exists s1, ca, [o]. cbn [fst snd co_s co_in co_out co_obs].
    split; [exists o; split; reflexivity|]. split; [unfold wake_upd; destruct ca; reflexivity|].
    repeat split; try reflexivity. rewrite Ech. unfold diff_outputs. apply NoDup_keys_filter. apply Hdev_nd.
  - destruct (inner lv' time inp (co_s a)) as [[[s1 ch] ca] o] eqn:Ei.
    exists s1, ca, o. cbn [fst snd co_s co_in co_out co_obs].
    split; [exact Ei|]. split; [unfold wake_upd; destruct ca; reflexivity|].
    repeat split; try reflexivity. apply (Hnd lv' time inp (co_s a) s1 ch ca o Ei).
Qed.

Lemma exposed_other tr new : (forall a, In (EDispatch a) new -> act_comp a <> exp_id) -> exposed (tr ++ new) = exposed tr.
Proof. intros H. unfold exposed. rewrite (find_dispatch_app_other tr new exp_id H). reflexivity. Qed.

Lemma fi_step done a tr ck :
  FI done a tr -> ~ In (fst ck) done ->
  (forall u p q, In (u, p, fst ck, q) conns -> In u done) ->
  (fst ck <> ext_id -> fst ck <> exp_id -> lookup (fst ck) (l_order (level_of cfg lv)) = Some (snd ck)) ->
  FI (done ++ [fst ck]) (step a ck) (tr ++ new_of a ck).
Proof.
  intros [Jtk Jsi Jout Jobs]. destruct ck as [c k]. cbn [fst snd]. intros Hc Hsrc Hkind. set (inp := get_d c (co_in a)).
  assert (Hna : ~ In c (ans_comps tr)) by (intros H; apply answered_In in H; apply (tk_ans _ _ _ _ _ _ _ Jtk) in H; apply Hc; apply H).
  assert (Hnd_c : ~ dispatched tr c) by (intros [a0 [H1 H2]]; apply Hc; rewrite <- H2; apply (tk_disp _ _ _ _ _ _ _ Jtk); exact H1).
  unfold new_of. cbn [fst snd]. fold inp.
  destruct (memb c ext) eqn:Hm.
  - destruct (nonempty inp || memb c roots) eqn:Eupd.
    + (* updated *)
      destruct (step_upd a (c, k) Eupd Hkind) as [s2 [ca [o [Hs [Es [Ei [Eo [Eb Hnd_ch]]]]]]]]. cbn [fst snd] in Hs, Es, Ei, Eo, Eb, Hnd_ch. fold inp in Hs, Ei, Eo, Hnd_ch.
      set (ch := ans_of a (c, k) inp) in *.
      constructor.
      * rewrite Ei. eapply (proj2 (tk_upd conns Hss_lv time roots ext Hext done (co_in a) tr c Jtk Hc Hsrc ch Eupd Hnd_ch)).
      * rewrite Es, Eb.
        replace (tr ++ [EDispatch (Upd c time inp); EAnswer c ch])
          with ((tr ++ map EDispatch [Upd c time inp]) ++ EAnswer (act_comp (Upd c time inp)) ch :: map EDispatch [])
          by (rewrite <- app_assoc; reflexivity).
        apply (SI_step cfg devf f lv time chg Hok s0 GI Hfr (tr ++ map EDispatch [Upd c time inp]) (co_s a) (co_obs a) (Upd c time inp) ch s2 ca o []);
          [apply SI_disps; exact Jsi | | | exact Hs].
        -- rewrite ans_comps_app. cbn. rewrite app_nil_r. exact Hna.
        -- apply in_app_iff. right. left. reflexivity.
      * rewrite Eo. destruct (Pos.eqb_spec c exp_id) as [Ex|Enx].
        -- unfold exposed. rewrite <- Ex.
           change c with (act_comp (Upd c time inp)) at 2. rewrite find_dispatch_app_first by exact Hnd_c. reflexivity.
        -- rewrite Jout. symmetry. apply exposed_other. intros a0 [E|[E|[]]]; [|discriminate]. inversion E; subst a0. exact Enx.
      * rewrite Eb. intros e He. apply in_app_iff in He. destruct He as [He|He]; [apply Jobs; exact He|].
        destruct (comp_step0_framed cfg devf f GI lv time chg (Upd c time inp) (co_s a) s2 ch ca o Hfr Hs) as [_ [_ Fo]].
        apply (fpD_sub cfg f lv c). apply Fo. exact He.
    + (* passed over *)
      assert (Est : step a (c, k) = a) by (unfold step'; cbn [fst snd]; fold inp; rewrite Eupd; reflexivity).
      rewrite Est. constructor.
      * eapply tk_skip; eassumption.
      * replace (tr ++ [EDispatch (Skp c time); EAnswer c []])
          with ((tr ++ map EDispatch [Skp c time]) ++ EAnswer (act_comp (Skp c time)) [] :: map EDispatch [])
          by (rewrite <- app_assoc; reflexivity).
        rewrite <- (app_nil_r (co_obs a)).
        change (co_s a) with (wake_upd (co_s a) lv (act_comp (Skp c time)) None).
        apply (SI_step cfg devf f lv time chg Hok s0 GI Hfr (tr ++ map EDispatch [Skp c time]) (co_s a) (co_obs a) (Skp c time) [] (co_s a) None [] []);
          [apply SI_disps; exact Jsi | | | ].
        -- rewrite ans_comps_app. cbn. rewrite app_nil_r. exact Hna.
        -- apply in_app_iff. right. left. reflexivity.
        -- cbn. repeat split; reflexivity.
      * rewrite Jout. destruct (Pos.eqb_spec c exp_id) as [Ex|Enx].
        -- unfold exposed. assert (En : find_dispatch tr exp_id = None).
           { destruct (find_dispatch tr exp_id) as [a0|] eqn:E0; [|reflexivity]. exfalso. apply Hnd_c. rewrite Ex.
             destruct (find_dispatch_In _ _ _ E0) as [H1 H2]. exists a0. split; assumption. }
           rewrite En, <- Ex. change c with (act_comp (Skp c time)) at 2. rewrite find_dispatch_app_first by exact Hnd_c. reflexivity.
        -- symmetry. apply exposed_other. intros a0 [E|[E|[]]]; [|discriminate]. inversion E; subst a0. exact Enx.
      * exact Jobs.
  - (* outside the extent *)
    pose proof (tk_outside conns time roots ext Hext done (co_in a) tr c Jtk Hm) as Eupd. fold inp in Eupd.
    assert (Est : step a (c, k) = a) by (unfold step'; cbn [fst snd]; fold inp; rewrite Eupd; reflexivity).
    rewrite Est, app_nil_r. constructor; try assumption.
    eapply tk_out; eassumption.
Qed.

(* the components of the level are listed in a topological order of its wiring *)
Notation L := (level_of cfg lv).

Lemma idx_lt_in (x : comp) : forall l1 l2, (idx x (l1 ++ l2) < length l1)%nat -> In x l1.
Proof.
  induction l1 as [|y r IH]; intros l2 H; cbn [app idx length] in *; [lia|].
  destruct (Pos.eqb_spec x y) as [E|_]; [left; symmetry; exact E | right; apply (IH l2); lia].
Qed.

Lemma idx_mid (x : comp) : forall l1 l2, ~ In x l1 -> idx x (l1 ++ x :: l2) = length l1.
Proof.
  induction l1 as [|y r IH]; intros l2 H; cbn [app idx length].
  - rewrite Pos.eqb_refl. reflexivity.
  - destruct (Pos.eqb_spec x y) as [E|_]; [exfalso; apply H; left; symmetry; exact E|].
    f_equal. apply IH. intros Hi. apply H. right. exact Hi.
Qed.

Lemma lcomps_nodup : NoDup (lcomps L).
Proof.
  destruct Hok as [_ [_ H]]. destruct (H lv (or_introl eq_refl)) as [Hnk [Hreal _]].
  unfold lcomps, all_of. cbn [map]. rewrite map_app. cbn [map fst].
  assert (Hr : forall c, In c (map fst (l_order L)) -> c <> ext_id /\ c <> exp_id).
  { intros c Hc. apply in_map_iff in Hc. destruct Hc as [[c' k] [E Hi]]. cbn in E. subst c'. apply (Hreal c k Hi). }
  constructor.
  - intros Hi. apply in_app_iff in Hi. destruct Hi as [Hi|[E|[]]]; [destruct (Hr _ Hi) as [E _]; apply E; reflexivity | discriminate].
  - apply NoDup_app_disj; [exact Hnk | constructor; [intros [] | constructor] |].
    intros x Hx [E|[]]. subst x. destruct (Hr _ Hx) as [_ E]. apply E. reflexivity.
Qed.

Lemma fi_fold : forall l2 l1 a tr, all_of L = l1 ++ l2 -> FI (map fst l1) a tr ->
  FI (lcomps L) (fold_left step l2 a) (tr ++ sim_tr3 l2 a).
Proof.
  induction l2 as [|ck r IH]; intros l1 a tr E HT.
  - cbn [fold_left sim_tr3]. rewrite !app_nil_r in *. unfold lcomps. rewrite E. exact HT.
  - cbn [fold_left sim_tr3]. rewrite app_assoc.
    assert (El : lcomps L = map fst l1 ++ fst ck :: map fst r) by (unfold lcomps; rewrite E, map_app; reflexivity).
    assert (Hni : ~ In (fst ck) (map fst l1)).
    { pose proof lcomps_nodup as Hn. rewrite El in Hn. apply NoDup_remove_2 in Hn. intros H. apply Hn. apply in_app_iff. left. exact H. }
    apply (IH (l1 ++ [ck])); [rewrite <- app_assoc; exact E|]. rewrite map_app. cbn [map].
    apply fi_step; [exact HT | exact Hni | |].
    + intros u p q Hk. destruct Hok as [_ [_ H]]. destruct (H lv (or_introl eq_refl)) as [_ [_ [_ Hrank]]].
      specialize (Hrank _ Hk). cbn [out_comp in_comp fst snd] in Hrank. rewrite El in Hrank. rewrite (idx_mid (fst ck) _ _ Hni) in Hrank.
      apply (idx_lt_in u _ _ Hrank).
    + intros Hne Hnx. destruct Hok as [_ [_ H]]. destruct (H lv (or_introl eq_refl)) as [Hnk _].
      assert (Hin : In ck (all_of L)) by (rewrite E; apply in_app_iff; right; left; reflexivity).
      unfold all_of in Hin. destruct Hin as [E0|Hin]; [exfalso; apply Hne; rewrite <- E0; reflexivity|].
      apply in_app_iff in Hin. destruct Hin as [Hin|[E0|[]]]; [|exfalso; apply Hnx; rewrite <- E0; reflexivity].
      destruct ck as [c k]. apply (lookup_In_iff _ c k Hnk). exact Hin.
Qed.

Definition a0 : core := {| co_s := s0; co_in := []; co_out := []; co_obs := [] |}.
Definition sim_trace3 : list ev := sim_tr3 (all_of L) a0.
Definition a_fin : core := fold_left step (all_of L) a0.

Lemma fi_init : FI [] a0 [].
Proof.
  constructor; cbn [a0 co_s co_in co_out co_obs].
  - apply tk_init.
  - apply SI_init. intros x [].
  - reflexivity.
  - intros e [].
Qed.

Lemma sim_FI : FI (lcomps L) a_fin sim_trace3.
Proof. apply (fi_fold (all_of L) [] a0 [] eq_refl fi_init). Qed.

Hypothesis Hext_sub : forall c, In c ext -> In c (lcomps L).

Theorem sim_LT : LT cfg devf f lv time GI chg roots ext s0 sim_trace3 (co_s a_fin) (co_obs a_fin) /\ co_out a_fin = exposed sim_trace3.
Proof.
  destruct sim_FI as [[Jin Jok Jans Jdisp Jgate Jdok Jnd Jda] Jsi Jout Jobs]. split; [|exact Jout].
  constructor; try assumption.
  - intros c Hc. assert (Ha : answered sim_trace3 c) by (apply Jans; split; [apply Hext_sub; exact Hc | exact Hc]).
    split; [apply Jda; exact Ha | exact Ha].
  - intros c Hc. apply Jans in Hc. apply Hc.
  - intros c Hc. apply Jda in Hc. apply Jans in Hc. apply Hc.
Qed.
End SimLT.

(* the participants of a run of the ticker are components the scheduler knows *)
Lemma run_ext_comps conns comps t roots ext st tr : Run conns comps t roots ext st tr -> forall c, In c ext -> In c comps.
Proof.
  induction 1 as [st0 st1 acts Hst Hext Hs | st tr c0 ch st' acts fin HR IH Hc Hp]; [|exact IH].
  intros c Hc. subst ext. unfold pending, keys in Hc. apply in_map_iff in Hc. destruct Hc as [[c' b] [E Hi]]. cbn in E. subst c'.
  destruct (start_tick_spec conns t roots st0 Hst) as [_ [_ [_ [_ [Hb _]]]]]. pose proof (Hb c b Hi) as Eb. subst b.
  unfold schedule in Hs. destruct (forallb (fun cd : comp * bool => snd cd || memb (fst cd) comps) (todo st0)) eqn:Ef; [|discriminate].
  pose proof (proj1 (forallb_forall _ _) Ef _ Hi) as Hm. cbn in Hm. apply memb_In. exact Hm.
Qed.

(* ---------- every schedule of a nested tick ends like Model/Sim.v *)
Section NTSim.
Variable cfg : config.
Variable devf : devfun.
Hypothesis Hdev_nd : forall c n t i, NoDup (keys (fst (devf c n t i))).
Hypothesis Hdev_ext : forall c n t i i', NoDup (keys i) -> NoDup (keys i') -> eqv i i' -> devf c n t i = devf c n t i'.

Definition G (f : nat) : ntick_rel := GI (on_tick_level cfg devf f).

Lemma G_framed f : inner_framed cfg f (G f).
Proof.
  intros lv time chg s s' out ca ob E. unfold G, GI in E.
  pose proof (on_tick_level_framed cfg devf f lv time chg s) as H. rewrite E in H. exact H.
Qed.

Lemma step_ok inner lv conns time roots ext a ck :
  in_ok (co_in a) -> NoDup (keys (co_out a)) ->
  in_ok (co_in (step' devf inner lv conns time roots ext a ck)) /\ NoDup (keys (co_out (step' devf inner lv conns time roots ext a ck))).
Proof.
  intros Hi Ho. unfold step'. destruct (nonempty (get_d (fst ck) (co_in a)) || memb (fst ck) roots); [|split; assumption].
  destruct (Pos.eqb (fst ck) ext_id); [cbn [co_in co_out]; split; [apply in_ok_accumulate; exact Hi | exact Ho]|].
  destruct (Pos.eqb (fst ck) exp_id); [cbn [co_in co_out]; split; [exact Hi | apply Hi]|].
  destruct (match snd ck with
            | KDev => let '(s1, ch, ca, o) := dev_update devf (co_s a) (fst ck) time (get_d (fst ck) (co_in a)) in (s1, ch, ca, [o])
            | KSys lv' => inner lv' time (get_d (fst ck) (co_in a)) (co_s a)
            end) as [[[s1 ch] ca] ob].
  cbn [co_in co_out]. split; [apply in_ok_accumulate; exact Hi | exact Ho].
Qed.

Lemma fold_ok inner lv conns time roots ext : forall l a,
  in_ok (co_in a) -> NoDup (keys (co_out a)) ->
  NoDup (keys (co_out (fold_left (step' devf inner lv conns time roots ext) l a))).
Proof.
  induction l as [|ck r IH]; intros a Hi Ho; [exact Ho|]. cbn [fold_left].
  destruct (step_ok inner lv conns time roots ext a ck Hi Ho) as [H1 H2]. apply IH; assumption.
Qed.

Lemma G_nd f : inner_nd (G f).
Proof.
  intros lv time chg s s' out ca ob E. unfold G, GI in E. destruct f as [|f]; cbn [on_tick_level] in E; [inversion E; constructor|].
  rewrite tick_with_core in E.
  match type of E with context [fold_left ?F ?l ?a] => set (afin := fold_left F l a) in E; assert (Hn : NoDup (keys (co_out afin))) end.
  { apply fold_ok; cbn [co_in co_out]; [intros c; constructor | constructor]. }
  clearbody afin. cbv beta iota in E. injection E as _ E2 _ _. rewrite <- E2. exact Hn.
Qed.

Theorem NT_sim : forall f, rdet cfg (NT cfg devf f) (G f) f.
Proof.
  induction f as [|f IH]; intros lv Hok time chgA chgB sA sB sA' sB' outA outB caA caB obA obB HnA HnB Hchg Hs HA HB.
  - cbn [NT] in HA. destruct HA as [-> [-> [-> ->]]]. unfold G, GI in HB. cbn [on_tick_level] in HB. inversion HB; subst.
    split; [intros q; reflexivity|]. split; [constructor|]. split; [constructor|]. split; [reflexivity|]. split; [exact Hs | intros d; constructor].
  - pose proof (NT_out_nd cfg devf _ _ _ _ _ _ _ _ _ HA) as NoA. pose proof (G_nd (S f) _ _ _ _ _ _ _ _ HB) as NoB.
    cbn [NT] in HA. destruct HA as [extA [stA [trA [HRA [HtA [-> ->]]]]]].
    unfold G, GI in HB. cbn [on_tick_level] in HB. rewrite tick_with_core in HB.
    change (int_of sB lv ++ map fst (filter (fun e : comp * Z => Z.leb (snd e) time) (wake_of sB lv)) ++ [ext_id] ++
            (if negb (memb lv (s_ticked sB)) then map fst (l_order (level_of cfg lv)) ++ [exp_id] else []))
      with (nroots cfg sB lv time) in HB.
    change (log_tick (mark_ticked (set_int (set_wake sB lv (filter (fun e : comp * Z => negb (Z.leb (snd e) time)) (wake_of sB lv))) lv []) lv) lv time (nroots cfg sB lv time))
      with (nprologue cfg sB lv time) in HB.
    destruct Hs as [HD HL]. destruct (HL lv (or_introl eq_refl)) as [W [Ei Et]].
    pose proof (nroots_iff cfg sA sB lv time W Ei Et) as Hroots.
    pose proof (srun_LT cfg devf Hdev_nd f lv time Hok _ chgA _ extA _ stA trA sA' obA (NT_framed cfg devf f) (NT_inner_nd cfg devf f) HnA HRA HtA) as LA.
    assert (HextB : forall c, In c extA <-> exists r, In r (nroots cfg sB lv time) /\ reach (l_conns (level_of cfg lv)) r c).
    { intros c. rewrite (lt_ext _ _ _ _ _ _ _ _ _ _ _ _ _ LA c). split; intros [r [Hr Hre]]; exists r; (split; [apply Hroots; exact Hr | exact Hre]). }
    assert (Hsub : forall c, In c extA -> In c (lcomps (level_of cfg lv))).
    { apply (run_ext_comps _ _ _ _ _ _ _ (SRun_Run cfg devf _ _ _ _ _ _ _ _ _ _ _ _ _ HRA)). }
    destruct (sim_LT cfg devf Hdev_nd f lv time chgB Hok HnB (on_tick_level cfg devf f) (G_framed f) (G_nd f)
                (nroots cfg sB lv time) extA HextB (nprologue cfg sB lv time) Hsub) as [LB Eout].
    unfold a_fin, a0 in LB, Eout.
    match type of HB with context [fold_left ?F ?l ?a] => set (afin := fold_left F l a) in HB, LB, Eout end.
    clearbody afin. cbv beta iota in HB. injection HB as E1 E2 E3 E4. subst sB' outB caB obB.
    destruct (level_rel cfg devf Hdev_ext f lv time Hok (NT cfg devf f) (G f) chgA chgB _ _ extA extA _ _ trA sA' obA _ _ _
                IH (NT_inner_nd cfg devf f) (G_nd f) HnA HnB Hchg Hroots (prologue_NSR cfg _ _ sA sB lv time (conj HD HL)) LA LB) as [Ho [Hs' Hob]].
    split; [rewrite Eout; exact Ho|]. split; [exact NoA|]. split; [exact NoB|]. split.
    + apply min_wake_weq. destruct Hs' as [_ HL']. apply (HL' lv (or_introl eq_refl)).
    + split; [exact Hs' | exact Hob].
Qed.

(* ---------- whole runs: every schedule of a script (ticks, interrupts of devices at any depth) ends like Model/Sim.v *)
Notation NSRt f := (NSR (devices_below cfg (S f) top) (levels_below cfg (S f) top)).

Lemma mtick_sim f sA sS t rA rS sA' oA :
  subtree_ok cfg (S f) top -> NSRt f sA sS -> (forall c, In c rA <-> In c rS) ->
  mtick cfg devf f sA t rA sA' oA ->
  let '(sS', _, oS) := tick_level cfg devf f top t rS [] (log_tick sS top t rS) in
  NSRt f sA' sS' /\ forall d, obs_rel (dev_obs d oA) (dev_obs d oS).
Proof.
  intros Hok Hs Hr [extA [stA [trA [HRA HtA]]]].
  assert (Hs0 : NSRt f (log_tick sA top t rA) (log_tick sS top t rS)) by (destruct Hs as [HD HL]; split; [exact HD | exact HL]).
  pose proof (srun_LT cfg devf Hdev_nd f top t Hok _ [] _ extA _ stA trA sA' oA (NT_framed cfg devf f) (NT_inner_nd cfg devf f) (NoDup_nil _) HRA HtA) as LA.
  assert (HextB : forall c, In c extA <-> exists r, In r rS /\ reach (l_conns (level_of cfg top)) r c).
  { intros c. rewrite (lt_ext _ _ _ _ _ _ _ _ _ _ _ _ _ LA c). split; intros [r [Hr0 Hre]]; exists r; (split; [apply Hr; exact Hr0 | exact Hre]). }
  assert (Hsub : forall c, In c extA -> In c (lcomps (level_of cfg top))).
  { apply (run_ext_comps _ _ _ _ _ _ _ (SRun_Run cfg devf _ _ _ _ _ _ _ _ _ _ _ _ _ HRA)). }
  destruct (sim_LT cfg devf Hdev_nd f top t [] Hok (NoDup_nil _) (on_tick_level cfg devf f) (G_framed f) (G_nd f)
              rS extA HextB (log_tick sS top t rS) Hsub) as [LB _].
  unfold tick_level. rewrite tick_with_core. unfold a_fin, a0 in LB.
  match goal with |- context [fold_left ?F ?l ?a] => set (afin := fold_left F l a) in * end.
  clearbody afin.
  destruct (level_rel cfg devf Hdev_ext f top t Hok (NT cfg devf f) (G f) [] [] rA rS extA extA _ _ trA sA' oA _ _ _
              (NT_sim f) (NT_inner_nd cfg devf f) (G_nd f) (NoDup_nil _) (NoDup_nil _) (fun q => eq_refl) Hr Hs0 LA LB) as [_ [H1 H2]].
  split; assumption.
Qed.

Theorem xnrun_script_is_sim f : subtree_ok cfg (S f) top -> forall script sA obA sA' obA',
  XNRun cfg devf f script sA obA sA' obA' -> forall sS obS,
  NSRt f sA sS -> (forall d, obs_rel (dev_obs d obA) (dev_obs d obS)) ->
  NSRt f sA' (fst (xsim_script cfg devf f script sS obS)) /\
  forall d, obs_rel (dev_obs d obA') (dev_obs d (snd (xsim_script cfg devf f script sS obS))).
Proof.
  intros Hok.
  assert (Wtop : forall sA sB, NSRt f sA sB -> weq (wake_of sA top) (wake_of sB top)).
  { intros sA sB [_ HL]. apply (HL top (or_introl eq_refl)). }
  induction 1 as [sA obA | c lvc path w r sA obA sA' obA' HA IH | r sA obA sA' obA' EA HA IH
                  | r sA obA when rootsA s2A oA sA' obA' EA TA HA IH]; intros sS obS HS HO; cbn [xsim_script].
  - split; assumption.
  - apply IH; [|exact HO]. apply stim_at_NSR; [left; reflexivity | exact HS].
  - pose proof (weq_first _ _ (Wtop _ _ HS)) as F. rewrite EA in F.
    destruct (first_wakeups (wake_of sS top)) as [[when0 roots0]|]; [destruct F|]. apply IH; assumption.
  - pose proof (weq_first _ _ (Wtop _ _ HS)) as F. rewrite EA in F.
    destruct (first_wakeups (wake_of sS top)) as [[when0 roots0]|]; [|destruct F]. destruct F as [Ew Hr]. subst when0.
    pose proof (mtick_sim f _ _ when rootsA roots0 s2A oA Hok
                  (NSR_set_wake _ _ sA sS top _ _ HS (weq_filter _ _ rootsA roots0 (Wtop _ _ HS) Hr)) Hr TA) as T.
    destruct (tick_level cfg devf f top when roots0 [] _) as [[s2S outS] oS]. destruct T as [HS2 HO2].
    apply IH; [exact HS2|]. intros d. rewrite !dev_obs_app. apply obs_rel_app; [apply HO | apply HO2].
Qed.

(* from the start *)
Theorem xnrun_is_sim f initial script sA obA : subtree_ok cfg (S f) top ->
  xnrun cfg devf f initial script sA obA ->
  NSRt f sA (fst (xsim_from_start cfg devf f initial script)) /\
  forall d, obs_rel (dev_obs d obA) (dev_obs d (snd (xsim_from_start cfg devf f initial script))).
Proof.
  intros Hok [s1A [o1A [TA RA]]]. unfold xsim_from_start.
  pose proof (mtick_sim f _ _ initial _ (map fst (l_order (level_of cfg top))) s1A o1A Hok (NSR_init _ _) (fun c => iff_refl _) TA) as T.
  destruct (tick_level cfg devf f top initial _ [] _) as [[s1S outS] o1S]. destruct T as [HS HO].
  apply (xnrun_script_is_sim f Hok script s1A o1A sA obA RA s1S o1S HS HO).
Qed.

(* scripts with interrupts of top-level components only (Proofs/NScheduleP.v [NNRun], the scripts of the C09 theorems) *)
Definition x_of (i : item) : xitem := match i with ITick => XTick | IStim c w => XStim c top [] w end.

Lemma NNRun_XNRun f script s ob s' ob' : NNRun cfg devf f script s ob s' ob' -> XNRun cfg devf f (map x_of script) s ob s' ob'.
Proof.
  induction 1 as [s ob | c w r s ob s' ob' H IH | r s ob s' ob' E H IH | r s ob when roots s2 o s' ob' E T H IH]; cbn [map x_of].
  - constructor.
  - apply XN_stim. exact IH.
  - apply XN_idle; assumption.
  - eapply XN_tick; eassumption.
Qed.

Lemma xsim_script_x_of f : forall script s ob, xsim_script cfg devf f (map x_of script) s ob = sim_script cfg devf f script s ob.
Proof.
  induction script as [|[|c w] r IH]; intros s ob; cbn [map x_of xsim_script sim_script].
  - reflexivity.
  - destruct (first_wakeups (wake_of s top)) as [[when roots]|]; [|apply IH].
    destruct (tick_level cfg devf f top when roots [] _) as [[s2 o2] o]. apply IH.
  - apply IH.
Qed.

Theorem nnrun_is_sim f initial script sA obA : subtree_ok cfg (S f) top ->
  nnrun cfg devf f initial script sA obA ->
  NSRt f sA (fst (sim_script_from_start cfg devf f initial script)) /\
  forall d, obs_rel (dev_obs d obA) (dev_obs d (snd (sim_script_from_start cfg devf f initial script))).
Proof.
  intros Hok [s1A [o1A [TA RA]]].
  assert (HX : xnrun cfg devf f initial (map x_of script) sA obA) by (exists s1A, o1A; split; [exact TA | apply NNRun_XNRun; exact RA]).
  pose proof (xnrun_is_sim f initial (map x_of script) sA obA Hok HX) as H.
  unfold xsim_from_start in H. unfold sim_script_from_start.
  destruct (tick_level cfg devf f top initial _ [] _) as [[s1 o2] o1]. rewrite xsim_script_x_of in H. exact H.
Qed.
End NTSim.
