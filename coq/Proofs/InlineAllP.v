(* Flattening a whole nesting by inlining the top-level system simulations one after the other: each
   step replaces one system simulation of the top level by the contents of its level (devices and the
   system simulations inside it, which so become top-level systems), until the top level holds devices
   only.  Every step is covered by the lockstep theorem (Proofs/InlineLoopP.v), so the nested run and the
   run of the flat result perform the same device updates. *)
From TV Require Import Base Model.Wiring Model.Ticker Model.Component Model.Sim Model.SimTime Model.Inline Model.NSim
  Proofs.WiringP Proofs.SimP Proofs.EqvP Proofs.ParDevP Proofs.InlineP Proofs.InlineLoopP Proofs.InlineScopeP Proofs.SimTraceP.
Open Scope Z_scope.

Fixpoint first_sys (l : list (comp * ckind)) : option (comp * positive) :=
  match l with
  | [] => None
  | (x, KSys lv) :: _ => Some (x, lv)
  | (_, KDev) :: r => first_sys r
  end.

(* at most k inlining steps *)
Fixpoint inline_all (k : nat) (cfg : config) : config :=
  match k with
  | O => cfg
  | S k' => match first_sys (l_order (level_of cfg top)) with
            | None => cfg
            | Some (c, lvc) => inline_all k' (inline cfg c lvc)
            end
  end.

(* every step is in the scope of the lockstep theorem (for runs with fuel g), k steps suffice, and the
   components named in ys (the targets of interrupts) stay outside the system inlined at every step *)
Fixpoint scope_all (k g : nat) (ys : list comp) (cfg : config) : bool :=
  match first_sys (l_order (level_of cfg top)) with
  | None => true
  | Some (c, lvc) =>
      match k with
      | O => false
      | S k' => match shape_at cfg g c with
                | Some (lvc', pre, _, post) =>
                    Pos.eqb lvc' lvc && forallb (fun y : comp => memb y (pre ++ post)) ys && scope_all k' g ys (inline cfg c lvc)
                | None => false
                end
      end
  end.

Lemma obs_rel_refl o : obs_rel o o.
Proof. induction o as [|a r IH]; constructor; [split; [reflexivity | intros q; reflexivity] | exact IH]. Qed.

Lemma first_sys_none l : first_sys l = None -> forall ck, In ck l -> snd ck = KDev.
Proof.
  induction l as [|[x k] r IH]; intros H ck Hi; [destruct Hi|]. destruct k as [|lv]; [|discriminate].
  destruct Hi as [E|Hi]; [subst ck; reflexivity | apply IH; assumption].
Qed.

(* the result is flat *)
Theorem inline_all_flat : forall k g ys cfg, scope_all k g ys cfg = true ->
  forall ck, In ck (l_order (level_of (inline_all k cfg) top)) -> snd ck = KDev.
Proof.
  induction k as [|k IH]; intros g ys cfg H ck Hi.
  - cbn [inline_all] in Hi. cbn [scope_all] in H.
    destruct (first_sys (l_order (level_of cfg top))) as [[c lvc]|] eqn:Ef; [discriminate|]. apply (first_sys_none _ Ef ck Hi).
  - cbn [inline_all] in Hi. cbn [scope_all] in H.
    destruct (first_sys (l_order (level_of cfg top))) as [[c lvc]|] eqn:Ef; [|apply (first_sys_none _ Ef ck Hi)].
    destruct (shape_at cfg g c) as [[[[lvc' pre] inn] post]|]; [|discriminate].
    apply andb_true_iff in H. destruct H as [_ H]. apply (IH g ys _ H ck Hi).
Qed.

Section All.
Variable devf : devfun.
Hypothesis Hnd : forall d k t i, NoDup (keys (fst (devf d k t i))).
Hypothesis Hext : forall d k t i i', NoDup (keys i) -> NoDup (keys i') -> eqv i i' -> devf d k t i = devf d k t i'.
Variable f : nat.

Theorem inline_all_transparent n initial horizon : forall k cfg, scope_all k (S f) [] cfg = true ->
  let '(_, obN, doneN) := sim_run cfg devf n (S f) initial horizon in
  let '(_, obF, doneF) := sim_run (inline_all k cfg) devf n (S f) initial horizon in
  obs_rel obN obF /\ doneN = doneF.
Proof.
  induction k as [|k IH]; intros cfg H.
  - cbn [inline_all]. destruct (sim_run cfg devf n (S f) initial horizon) as [[s ob] d]. split; [apply obs_rel_refl | reflexivity].
  - cbn [inline_all]. cbn [scope_all] in H.
    destruct (first_sys (l_order (level_of cfg top))) as [[c lvc]|] eqn:Ef.
    2: { destruct (sim_run cfg devf n (S f) initial horizon) as [[s ob] d]. split; [apply obs_rel_refl | reflexivity]. }
    destruct (shape_at cfg (S f) c) as [[[[lvc' pre] inn] post]|] eqn:Es; [|discriminate].
    apply andb_true_iff in H. destruct H as [E H]. apply andb_true_iff in E. destruct E as [E _]. apply Pos.eqb_eq in E. subst lvc'.
    destruct (shape_at_sound cfg f c lvc pre inn post Es) as [Hsh Hsib].
    pose proof (run_inline cfg c lvc pre inn post Hsh devf Hnd Hext f Hsib n initial horizon) as A.
    specialize (IH (inline cfg c lvc) H).
    destruct (sim_run cfg devf n (S f) initial horizon) as [[s0 o0] d0].
    destruct (sim_run (inline cfg c lvc) devf n (S f) initial horizon) as [[s1 o1] d1].
    destruct (sim_run (inline_all k (inline cfg c lvc)) devf n (S f) initial horizon) as [[s2 o2] d2].
    destruct A as [_ [A1 A2]]. destruct IH as [B1 B2].
    split; [eapply obs_rel_trans; eassumption | congruence].
Qed.

(* the same for scripts of master ticks and interrupts of the components in ys *)
Theorem inline_all_transparent_script initial script ys : (forall y w, In (IStim y w) script -> In y ys) ->
  forall k cfg, scope_all k (S f) ys cfg = true ->
  obs_rel (snd (sim_script_from_start cfg devf (S f) initial script))
          (snd (sim_script_from_start (inline_all k cfg) devf (S f) initial script)).
Proof.
  intros Hys. induction k as [|k IH]; intros cfg H.
  - cbn [inline_all]. apply obs_rel_refl.
  - cbn [inline_all]. cbn [scope_all] in H.
    destruct (first_sys (l_order (level_of cfg top))) as [[c lvc]|] eqn:Ef; [|apply obs_rel_refl].
    destruct (shape_at cfg (S f) c) as [[[[lvc' pre] inn] post]|] eqn:Es; [|discriminate].
    apply andb_true_iff in H. destruct H as [E H]. apply andb_true_iff in E. destruct E as [E Hin]. apply Pos.eqb_eq in E. subst lvc'.
    destruct (shape_at_sound cfg f c lvc pre inn post Es) as [Hsh Hsib].
    assert (Hok : outer_script pre post script).
    { intros y w Hi. apply memb_In. apply (proj1 (forallb_forall _ _) Hin y). apply (Hys y w Hi). }
    pose proof (script_run_inline cfg c lvc pre inn post Hsh devf Hnd Hext f Hsib initial script Hok) as A.
    specialize (IH (inline cfg c lvc) H).
    destruct (sim_script_from_start cfg devf (S f) initial script) as [s0 o0].
    destruct (sim_script_from_start (inline cfg c lvc) devf (S f) initial script) as [s1 o1].
    cbn [snd] in *. eapply obs_rel_trans; [apply A | exact IH].
Qed.
End All.
