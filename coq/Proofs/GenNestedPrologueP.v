(* The hand-written model function IS the translation of the tickit function it models (see Proofs/GenWakeupsP.v).
   This file: NestedScheduler.on_tick -- what happens before its tick (the roots: pending interrupts, due wakeups,
   "external", and every component the first time; due wakeups and interrupts taken off the books) and after it (the
   callback: the earliest wakeup left) is what [on_tick_level] of Model/Sim.v does around [tick_with]. *)
From TV Require Import Base Model.PyLib Model.Wiring Model.Component Model.Sim Gen.SourceFuns.
Open Scope Z_scope.

Lemma remove_key_filter {A} c (w : list (positive * A)) : remove_key c w = filter (fun e => negb (Pos.eqb (fst e) c)) w.
Proof.
  induction w as [|[k v] r IH]; [reflexivity|]. cbn [remove_key filter fst]. rewrite (Pos.eqb_sym c k).
  destruct (Pos.eqb k c); cbn [negb]; [exact IH | rewrite IH; reflexivity].
Qed.

Lemma filter_filter {A} (p q : A -> bool) l : filter p (filter q l) = filter (fun x => q x && p x) l.
Proof.
  induction l as [|x r IH]; [reflexivity|]. cbn [filter]. destruct (q x); cbn [andb filter]; [destruct (p x); rewrite IH; reflexivity | exact IH].
Qed.

Lemma fold_remove_keys {A} (K : list positive) : forall w : list (positive * A),
  fold_left (fun w c => remove_key c w) K w = filter (fun e => negb (memb (fst e) K)) w.
Proof.
  induction K as [|c K IH]; intros w; cbn [fold_left].
  - symmetry. induction w as [|e r IHw]; [reflexivity|]. cbn [filter memb existsb negb]. rewrite IHw at 1. reflexivity.
  - rewrite IH, remove_key_filter, filter_filter. apply filter_ext. intros e. unfold memb. cbn [existsb].
    destruct (Pos.eqb (fst e) c); reflexivity.
Qed.

Lemma memb_due_keys (p : comp * Z -> bool) (w : list (comp * Z)) : NoDup (keys w) ->
  forall e, In e w -> memb (fst e) (map fst (filter p w)) = p e.
Proof.
  intros Hnd e He. destruct (p e) eqn:Ep.
  - apply memb_In. apply in_map. apply filter_In. split; assumption.
  - apply memb_false. intros Hi. apply in_map_iff in Hi. destruct Hi as [e' [Ee Hi]]. apply filter_In in Hi. destruct Hi as [Hi Hp].
    assert (E : e' = e).
    { destruct e as [k v], e' as [k' v']. cbn in Ee. subst k'. f_equal.
      clear Ep Hp. induction w as [|[k0 v0] r IH]; [destruct He|]. cbn [keys map fst] in Hnd. inversion Hnd as [|? ? Hni Hnd']; subst.
      destruct He as [E1|He]; destruct Hi as [E2|Hi].
      - congruence.
      - inversion E1; subst. exfalso. apply Hni. apply in_map_iff. exists (k, v'). split; [reflexivity | exact Hi].
      - inversion E2; subst. exfalso. apply Hni. apply in_map_iff. exists (k, v). split; [reflexivity | exact He].
      - apply (IH Hnd' He Hi). }
    subst e'. congruence.
Qed.

(* before the tick *)
Theorem nested_prologue_is_source (wk : list (comp * Z)) (ints : list comp) (done : bool) (comps : list comp)
        (inch outch : values) (time : Z) (chg : values) : NoDup (keys wk) ->
  gen_nested_prologue wk ints done comps inch outch time chg =
  (true,
   filter (fun e : comp * Z => negb (Z.leb (snd e) time)) wk,
   [], chg, [],
   ints ++ map fst (filter (fun e : comp * Z => Z.leb (snd e) time) wk) ++ [ext_id] ++ (if negb done then comps else [])).
Proof.
  intros Hnd. unfold gen_nested_prologue. cbv zeta. unfold py_comp.
  rewrite (filter_ext (fun '(_, when) => Z.leb when time) (fun e : comp * Z => Z.leb (snd e) time)) by (intros [a b]; reflexivity).
  rewrite (map_ext (fun '(component, _) => component) (@fst comp Z)) by (intros [a b]; reflexivity).
  set (due := map fst (filter (fun e : comp * Z => Z.leb (snd e) time) wk)).
  assert (Ew : fold_left (fun w c => remove_key c w) due wk = filter (fun e : comp * Z => negb (Z.leb (snd e) time)) wk).
  { rewrite fold_remove_keys. apply filter_ext_in. intros e He. unfold due. rewrite (memb_due_keys _ wk Hnd e He). reflexivity. }
  destruct done; cbn [negb]; rewrite Ew; rewrite <- ?app_assoc; cbn [app]; rewrite ?app_nil_r; reflexivity.
Qed.
