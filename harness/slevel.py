"""Level S: whole simulations on the real MasterScheduler / NestedScheduler / SystemComponent /
DeviceComponent, on a deterministic virtual-time asyncio loop, with table-driven probe devices
that mirror Oracle/SimCheck.v's [table_dev]."""
import asyncio
import random

from common import P, Zr, L, T, O

EXT, EXP = 1, 2


# ------------------------------------------------------------------ virtual time
_RUNS = 0
MAX_WALL = 30.0      # seconds of processor time a single simulation may take (checks with long runs raise it)


class Deadlock(Exception):
    pass


class VLoop(asyncio.SelectorEventLoop):
    """time() is virtual: when nothing is ready the clock jumps to the next timer."""
    runaways = 0

    def __init__(self):
        super().__init__()
        # virtual nanoseconds are exact: timers less than 1 ns apart must not be merged
        self._clock_resolution = 2e-10
        self.vt = 0.0
        self.steps = 0
        self.max_steps = 60_000
        self._last_vt, self._steps_at_vt = -1.0, 0
        self.step_hook = None
        self._wall0 = None
        # seconds of processor time one simulation of the sizes generated here never needs; once one run has been cut off
        # the others get less, so that a check still ends in reasonable time
        self.max_wall = MAX_WALL if VLoop.runaways == 0 else 6.0

    def time(self):
        return self.vt

    def time_ns(self):
        return int(round(self.vt * 1e9))

    def _run_once(self):
        self.steps += 1
        if self.vt != self._last_vt:
            self._last_vt, self._steps_at_vt = self.vt, 0
        self._steps_at_vt += 1
        if self._steps_at_vt > self.max_steps:
            # no simulation of the sizes generated here needs this many loop iterations at one instant:
            # something keeps itself busy without (virtual) time passing
            raise Deadlock("livelock: %d event-loop iterations without time passing" % self._steps_at_vt)
        if self.steps % 512 == 1:
            import time as _t
            if self._wall0 is None:
                self._wall0 = _t.monotonic()
            elif _t.monotonic() - self._wall0 > self.max_wall:
                VLoop.runaways += 1
                raise Deadlock("runaway: the simulation keeps the event loop busy for more than %d s (%d iterations)" % (self.max_wall, self.steps))
        if self.step_hook is not None:
            self.step_hook(self)
        if not self._ready:
            sched = [h for h in self._scheduled if not h._cancelled]
            if sched:
                self.vt = max(self.vt, min(h._when for h in sched))
            else:
                raise Deadlock()
        super()._run_once()


def vrun(coro_fn):
    import tickit.core.management.schedulers.master as m

    if VLoop.runaways >= 2:
        # two simulations of this check have already been cut off: the others are not run (the check reports the first)
        raise Deadlock("not run: earlier simulations of this check kept the event loop busy without end")
    loop = VLoop()
    asyncio.set_event_loop(loop)
    old = m.time_ns
    m.time_ns = loop.time_ns
    import signal

    class Runaway(KeyboardInterrupt):      # not an Exception: neither asyncio nor the code under test swallows it
        pass

    def alarm(signum, frame):
        VLoop.runaways += 1
        raise Runaway()

    old_handler = signal.signal(signal.SIGALRM, alarm)
    signal.setitimer(signal.ITIMER_REAL, loop.max_wall + 5)    # a single event-loop iteration that never returns
    try:
        try:
            return loop.run_until_complete(coro_fn(loop))
        except Runaway:
            raise Deadlock("runaway: one event-loop iteration of the simulation does not return (handlers calling each other without end)")
    finally:
        signal.setitimer(signal.ITIMER_REAL, 0)
        signal.signal(signal.SIGALRM, old_handler)
        m.time_ns = old
        try:
            for t in asyncio.all_tasks(loop):
                t.cancel()
            loop.run_until_complete(asyncio.sleep(0))
        except Exception:
            pass
        asyncio.set_event_loop(None)
        loop.close()


# ------------------------------------------------------------------ names
NAMING = {}     # component -> name, for the components that are not called c<number> in the run at hand (see short_names)
SHORT = ["a", "e", "x", "t", "n", "l", "p", "o", "s", "r", "ex", "te", "al", "po", "se", "xt", "na", "er", "ose", "ern", "ext", "pos"]


def short_names(cfg):
    """names of one to three letters, many of them parts of other names and of the words "external" / "expose" """
    comps = sorted({c for l in cfg.values() for (c, _) in l["order"]})
    return {c: SHORT[i] for i, c in enumerate(comps) if i < len(SHORT)}


def cname(k):
    return "external" if k == EXT else ("expose" if k == EXP else NAMING.get(k, f"c{k}"))


def pname(k):
    return f"p{k}"


def cid(name):
    if name == "external":
        return EXT
    if name == "expose":
        return EXP
    for k, v in NAMING.items():
        if v == name:
            return k
    return int(name[1:])


def pid_(name):
    return int(name[1:])


# ------------------------------------------------------------------ table devices (mirror of table_dev)
def hsh(seed, c, n, p):
    return (seed * 7919 + c * 104729 + n * 1299709 + p * 15485863) % 1000


NONE_VALUE = -777_777     # how Python's None appears in the models and in everything recorded: a value like any other


def nz(v):
    return NONE_VALUE if v is None else v


def table_dev(params, c, n, time, inputs):
    seed, period, policy = params
    insum = sum(q * 31 + v for q, v in inputs.items()) % 9973
    outs = {}
    for p in (1, 2):
        x = hsh(seed, c, n, p) % 8
        if x == 0:
            continue
        elif x <= 3:
            outs[p] = c * 10 + p
        else:
            outs[p] = (n * 1000 + c * 10 + p + insum * 7) % 1000000
        if hsh(seed, c, n, p + 20) % 9 == 0:
            outs[p] = NONE_VALUE          # Python's None (TDev hands the device's report on with None in its place)
    h2 = hsh(seed, c, n, 7)
    if policy == 1:
        ca = time + period
    elif policy == 2:
        ca = time + period if n == 1 else None
    elif policy == 3:
        ca = time + period * (1 + h2 % 3) if h2 % 5 < 3 else None
    elif policy == 4:
        ca = time + 3 * period if n % 2 == 1 else time + period
    elif policy == 5:
        ca = time if n % 2 == 1 else time + period     # re-evaluation at once: a callback at the time of this very update
    else:
        ca = None
    return outs, ca


TRACE = []
TRACE_RT = []   # virtual real time (ns) of each TRACE entry
REG = {}
SLOW = {}      # device -> seconds of wall-clock time each of its updates takes (set by a check around a run, cleared after it)
TICKLOG = []   # (scheduler object, time, sorted roots, real ns at start)


class DeviceFault(Exception):
    """an application exception with a constructor of its own: it cannot be rebuilt from its args"""
    def __init__(self, device, code, text):
        super().__init__(f"{text} [fault {code}]")
        self.device, self.code = device, code


def failure(c, n, text):
    """what a failing probe device / adapter hook raises: a built-in exception or an application-defined one"""
    return DeviceFault(c, n, text) if (c + n) % 2 else RuntimeError(text)


def make_classes():
    from tickit.core.components.device_component import DeviceComponent
    from tickit.core.components.system_component import SystemComponent
    from tickit.core.device import Device, DeviceUpdate
    from tickit.core.typedefs import SimTime

    class TDev(Device):
        def __init__(self, c, params, fail_at=None):
            self.c, self.params, self.n, self.fail_at = c, params, 0, fail_at

        def update(self, time, inputs):
            self.n += 1
            ins = {pid_(k): nz(v) for k, v in inputs.items()}
            TRACE.append((self.c, int(time), ins))
            TRACE_RT.append(asyncio.get_event_loop().time_ns())
            if self.fail_at is not None and self.n == self.fail_at:
                raise failure(self.c, self.n, f"device c{self.c} fails at update {self.n}")
            if SLOW.get(self.c):
                import time as _time
                _time.sleep(SLOW[self.c])          # a device that takes real (wall-clock) time to compute
            outs, ca = table_dev(self.params, self.c, self.n, int(time), ins)
            return DeviceUpdate({pname(p): (None if v == NONE_VALUE else v) for p, v in outs.items()}, None if ca is None else SimTime(ca))

    class RDC(DeviceComponent):
        async def run_forever(self, *a, **k):
            REG[cid(self.name)] = self
            return await super().run_forever(*a, **k)

    class RSC(SystemComponent):
        async def run_forever(self, *a, **k):
            REG[cid(self.name)] = self
            return await super().run_forever(*a, **k)

    class DevCfg:
        def __init__(self, c, inputs, params, fail_at=None, adapters=None):
            self.name, self.inputs, self.c, self.params, self.fail_at = cname(c), inputs, c, params, fail_at
            self.adapters = adapters

        def __call__(self):
            ad = self.adapters() if self.adapters else []
            return RDC(name=self.name, device=TDev(self.c, self.params, self.fail_at), adapters=ad)

    class SysCfg:
        def __init__(self, c, inputs, components, expose):
            self.name, self.inputs, self.components, self.expose = cname(c), inputs, components, expose

        def __call__(self):
            return RSC(name=self.name, components=self.components, expose=self.expose)

    return DevCfg, SysCfg


def build_configs(cfg, devs, lv=1, fail=None, adapters=None):
    """cfg: {level: dict(order=[(c, 'dev'|level)], conns=[...])}; returns the list of config objects of level lv"""
    from tickit.core.typedefs import ComponentPort

    DevCfg, SysCfg = make_classes()
    level = cfg[lv]
    out = []
    for (c, kind) in level["order"]:
        inputs = {pname(ip): ComponentPort(cname(oc), pname(op)) for (oc, op, ic, ip) in level["conns"] if ic == c}
        if kind == "dev":
            out.append(DevCfg(c, inputs, devs[c], (fail or {}).get(c), (adapters or {}).get(c)))
        else:
            inner = cfg[kind]
            expose = {pname(ip): ComponentPort(cname(oc), pname(op)) for (oc, op, ic, ip) in inner["conns"] if ic == EXP}
            out.append(SysCfg(c, inputs, build_configs(cfg, devs, kind, fail, adapters), expose))
    return out


def reset_bus():
    from tickit.core.state_interfaces.internal import InternalStateServer

    s = InternalStateServer()
    s._topics.clear()
    s._subscribers.clear()


def run_internal(cfg, devs, speed=(1, 1), initial=0, stim=(), t_end=3_000_000_003, fail=None, adapters=None, **kw):
    """see _run_internal; naming="short" runs the simulation with the components named by short_names(cfg)"""
    naming = kw.pop("naming", None)
    NAMING.clear()
    if naming == "short":
        NAMING.update(short_names(cfg))
    try:
        return _run_internal(cfg, devs, speed, initial, stim, t_end, fail, adapters, **kw)
    finally:
        NAMING.clear()


def _run_internal(cfg, devs, speed=(1, 1), initial=0, stim=(), t_end=3_000_000_003, fail=None, adapters=None,
                 on_start=None, inject=None, delays=None, early=None, bus=None):
    """runs the simulation on the internal bus; stim: [(real ns, device id)]; returns dict:
       per: {device: [(time, inputs)]}, error: None|str, tasks info"""
    from tickit.core.management.event_router import InverseWiring
    from tickit.core.management.schedulers.master import MasterScheduler
    from tickit.core.state_interfaces.state_interface import get_interface

    # every other simulation runs with debug logging switched on (records are made and thrown away): what a
    # simulation does must not depend on the logging level
    import logging
    global _RUNS
    _RUNS += 1
    lg = logging.getLogger("tickit")
    if not any(isinstance(h, logging.NullHandler) for h in lg.handlers):
        lg.addHandler(logging.NullHandler())
    lg.propagate = False
    lg.setLevel(logging.DEBUG if _RUNS % 2 == 0 else logging.WARNING)

    import tickit.core.management.ticker as tk

    reset_bus()
    TRACE.clear()
    TRACE_RT.clear()
    REG.clear()
    TICKLOG.clear()
    info = {}
    orig_call = tk.Ticker.__call__
    if bus is not None:
        import cbus
        iface = cbus.make_interface(bus)
        get_interface = lambda _name: iface  # noqa: E731  -- a conforming backend substituted for the internal one

    overlap = []   # what no tick may do: start while a participant of the same ticker's previous tick has not answered

    async def logged_call(self, time, update_components):
        loop = asyncio.get_event_loop()
        if getattr(self, "to_update", None):
            overlap.append(("tick-started-before-the-previous-one-was-answered", int(time), sorted(cid(x) for x in self.to_update)))
        TICKLOG.append((getattr(self.update_component, "__self__", None), int(time),
                        sorted(cid(x) for x in update_components), loop.time_ns()))
        info.setdefault("tickers", {})[id(self)] = self
        if bus is not None:
            bus.events.append(("tick", getattr(self.update_component, "__self__", None), int(time)))
            r = await orig_call(self, time, update_components)
            bus.events.append(("tickend", getattr(self.update_component, "__self__", None)))
            return r
        return await orig_call(self, time, update_components)

    tk.Ticker.__call__ = logged_call
    # ... and, on the recording bus, what the replay of the alert protocol (Oracle/AlertReplay.v) needs besides the bus's own events:
    # the components a tick is going to update, every answer the ticker is handed, the end of a master tick, the stamp of an interrupt
    orig_start, orig_prop = tk.Ticker._start_tick, tk.Ticker.propagate
    from tickit.core.management.schedulers.master import MasterScheduler as _MS
    orig_sched_int = _MS.schedule_interrupt
    if bus is not None:
        async def logged_start(self, time, update_components):
            r = await orig_start(self, time, update_components)
            bus.events.append(("tickstart", getattr(self.update_component, "__self__", None), int(time),
                               sorted(cid(x) for x in update_components), sorted(cid(x) for x in self.to_update)))
            return r

        async def logged_prop(self, output):
            bus.events.append(("propagate", getattr(self.update_component, "__self__", None), cid(output.source), type(output).__name__,
                               None if getattr(output, "call_at", None) is None else int(output.call_at)))
            return await orig_prop(self, output)

        async def logged_sched_int(self, source):
            lp = asyncio.get_event_loop()
            bus.events.append(("stamp", cid(source), int(self.last_tick_time + int((lp.time_ns() - self.last_time) * self.simulation_speed))))
            return await orig_sched_int(self, source)

        tk.Ticker._start_tick, tk.Ticker.propagate, _MS.schedule_interrupt = logged_start, logged_prop, logged_sched_int
    from tickit.core.components.system_component import SystemComponent
    orig_output = SystemComponent.output

    async def logged_output(self, time, changes, call_at):
        # ... and what no system simulation may do: answer its scheduler while its own inner tick is still running
        pending = getattr(getattr(getattr(self, "scheduler", None), "ticker", None), "to_update", None)
        if pending:
            overlap.append(("system-answered-during-its-inner-tick", int(time), sorted(cid(x) for x in pending)))
        return await orig_output(self, time, changes, call_at)

    SystemComponent.output = logged_output

    async def main(loop):
        configs = build_configs(cfg, devs, 1, fail, adapters)
        sched = MasterScheduler(InverseWiring.from_component_configs(configs), *get_interface("internal"),
                                initial_time=initial, simulation_speed=speed[0] / speed[1])
        comps = [c() for c in configs]
        tasks, names = [], []
        if not delays:
            tasks = [asyncio.create_task(c.run_forever(*get_interface("internal"))) for c in comps]
            tasks.append(asyncio.create_task(sched.run_forever()))
            names += [cid(c.name) for c in comps] + ["sched"]
        else:
            # start-up order: each participant is started at its own event-loop step
            base0 = loop.steps
            todo = [(delays.get(cid(c.name), 0), "comp", c) for c in comps] + [(delays.get("sched", 0), "sched", sched)]
            early_todo = [early] if early else []

            def start_hook(lp):
                for item in list(todo):
                    if lp.steps - base0 >= item[0]:
                        todo.remove(item)
                        if item[1] == "comp":
                            tasks.append(lp.create_task(item[2].run_forever(*get_interface("internal"))))
                            names.append(cid(item[2].name))
                        else:
                            tasks.append(lp.create_task(item[2].run_forever()))
                            names.append("sched")
                for e in list(early_todo):
                    comp = REG.get(e[1])
                    if lp.steps - base0 >= e[0] and comp is not None and hasattr(comp, "state_producer"):
                        early_todo.remove(e)
                        info["early_before_scheduler"] = not hasattr(sched, "state_consumer")
                        tasks.append(lp.create_task(comp.raise_interrupt()))
                        names.append("early")

            loop.step_hook = start_hook
            for _ in range(max(delays.values(), default=0) + 8):
                await asyncio.sleep(0)
        info["sched"] = sched
        if on_start:
            on_start(loop, sched)
        if inject is not None:
            # raise an interrupt of device inject[1] at event-loop step inject[0] (counted from now)
            base = loop.steps

            def hook(lp):
                if lp.steps - base == inject[0] and "inj" not in info:
                    comp = REG.get(inject[1])
                    if comp is None or not hasattr(comp, "state_producer"):
                        info["inj"] = None
                        return
                    info["inj"] = dict(real=lp.time_ns(), pos=len(TRACE), step=inject[0],
                                       started=hasattr(sched, "ticker") and hasattr(sched.ticker, "time"))

                    async def _raise():
                        info["inj"]["pos"] = len(TRACE)     # the updates that had happened when the interrupt is actually raised
                        await comp.raise_interrupt()

                    lp.create_task(_raise())

            loop.step_hook = hook
        for (r, who) in stim:
            if r / 1e9 > loop.vt:      # stimuli at one instant are raised together, without yielding in between
                await asyncio.sleep(r / 1e9 - loop.vt)
            await REG[who].raise_interrupt()
        await asyncio.sleep(t_end / 1e9 - loop.vt)
        info["steps"] = loop.steps
        # ticks that never completed: a ticker still waiting for answers although nothing is left to run at this instant
        info["unfinished"] = sorted(sorted(cid(x) for x in t.to_update) for t in info.get("tickers", {}).values() if t.to_update)
        errs = []
        for t in tasks:
            if t.done() and not t.cancelled() and t.exception() is not None:
                import traceback
                tb = traceback.extract_tb(t.exception().__traceback__)
                where = " <- ".join(f"{f.filename.split('/')[-1]}:{f.lineno}:{f.name}" for f in reversed(tb[-3:]))
                errs.append(repr(t.exception()) + (" at " + where if where else ""))
        info["errors"] = errs
        if bus is not None:
            info["bus"] = dict(delivered=bus.delivered, choices=bus.choices, max_pending=bus.max_pending, errors=list(bus.errors))
        info["tasks_done"] = [t.done() for t in tasks]
        info["done_by"] = {str(n): t.done() for n, t in zip(names, tasks)}
        for t in tasks:
            t.cancel()

    err = None
    try:
        vrun(main)
    except Deadlock as e:
        err = str(e) or "deadlock"
    except Exception as e:  # noqa
        err = "exception " + repr(e)
    finally:
        tk.Ticker.__call__ = orig_call
        tk.Ticker._start_tick, tk.Ticker.propagate, _MS.schedule_interrupt = orig_start, orig_prop, orig_sched_int
        SystemComponent.output = orig_output
    per = {}
    for (c, t, i) in TRACE:
        per.setdefault(c, []).append((t, dict(i)))
    sys_level = {c: k for lv in cfg.values() for (c, k) in lv["order"] if k != "dev"}
    ticklog, mticks = [], []
    for (sched, t, roots, real) in TICKLOG:
        ri = getattr(sched, "raise_interrupt", None)
        owner = getattr(ri, "__self__", None)
        if owner is None or not hasattr(owner, "name"):
            lv = 1
            mticks.append((t, real))
        else:
            lv = sys_level.get(cid(owner.name), 999)     # a scheduler owned by something that is no system simulation of the configuration
        ticklog.append((lv, t, roots))
    deliveries = None
    if bus is not None:
        # the deliveries of the bus, master tick by master tick: [(tick time, [("in", c, t, changes) | ("out", c, t, changes, call_at)
        # | ("skip", c, t) | ("other", topic, type name)])]
        from tickit.core.typedefs import Input, Output, Skip
        deliveries = []
        for ev in bus.events:
            if ev[0] in ("produce", "tickstart", "propagate", "tickend", "stamp"):
                continue
            if ev[0] == "tick":
                owner = getattr(getattr(ev[1], "raise_interrupt", None), "__self__", None)
                if owner is None or not hasattr(owner, "name"):
                    deliveries.append((ev[2], []))
                continue
            msg = ev[2]
            if isinstance(msg, Input):
                item = ("in", cid(msg.target), int(msg.time), {pid_(k): nz(v) for k, v in msg.changes.items()})
            elif isinstance(msg, Output):
                item = ("out", cid(msg.source), int(msg.time), {pid_(k): nz(v) for k, v in msg.changes.items()},
                        None if msg.call_at is None else int(msg.call_at))
            elif isinstance(msg, Skip):
                item = ("skip", cid(msg.source), int(msg.time))
            else:
                item = ("other", ev[1], type(msg).__name__)
            if deliveries:
                deliveries[-1][1].append(item)
    alert = alert_events(cfg, bus.events, sys_level) if bus is not None else None
    return dict(per=per, trace=[(c, t, dict(i)) for (c, t, i) in TRACE], trace_rt=list(TRACE_RT), ticklog=ticklog, deliveries=deliveries, alert=alert,
                mticks=mticks, inj=info.get("inj"), steps=info.get("steps"), overlap=overlap,
                early_before_scheduler=info.get("early_before_scheduler"),
                error=err, errors=info.get("errors", []), tasks_done=info.get("tasks_done"), done_by=info.get("done_by"), bus=info.get("bus"),
                unfinished=info.get("unfinished", []))


# ------------------------------------------------------------------ generators
def gen_level(rng, ids, depth, sys_in_ports, nested, max_comps=4, p_sys=0.3):
    """returns (level dict, dict of further levels); ids: iterator of fresh component ids / level ids"""
    levels = {}
    n = rng.randint(1, max_comps)
    order, conns, outs = [], [], {}
    if nested:
        outs[EXT] = list(sys_in_ports)
    for _ in range(n):
        c = next(ids["comp"])
        is_sys = depth > 0 and rng.random() < p_sys
        prev = [x for x in outs if outs[x]]
        nin = rng.randint(0, 2)
        my_in = []
        for q in range(1, nin + 1):
            if prev and rng.random() < 0.8:
                src = rng.choice(prev)
                conns.append((src, rng.choice(outs[src]), c, q))
                my_in.append(q)
        if is_sys:
            lv = next(ids["level"])
            inner, more = gen_level(rng, ids, depth - 1, my_in, True, max_comps=3, p_sys=p_sys * 0.7)
            levels[lv] = inner
            levels.update(more)
            order.append((c, lv))
            outs[c] = sorted({ip for (_, _, ic, ip) in inner["conns"] if ic == EXP})
        else:
            order.append((c, "dev"))
            outs[c] = [1, 2]
    if nested:
        srcs = [x for x in outs if outs[x]]
        for o in range(1, rng.randint(0, 2) + 1):
            if srcs:
                src = rng.choice(srcs)
                conns.append((src, rng.choice(outs[src]), EXP, o))
    return dict(order=order, conns=conns), levels


def gen_config(rng, depth=2, p_sys=0.35):
    import itertools
    ids = dict(comp=itertools.count(3), level=itertools.count(2))
    top, more = gen_level(rng, ids, depth, [], False, max_comps=4, p_sys=p_sys)
    cfg = {1: top}
    cfg.update(more)
    return cfg


def devices_of(cfg):
    return [c for lv in cfg.values() for (c, k) in lv["order"] if k == "dev"]


def gen_devs(rng, cfg, policies=(0, 0, 1, 2, 3, 4)):
    seed = rng.randrange(1000)
    return {c: (seed, rng.choice([300_000_000, 700_000_000, 1_000_000_000]), rng.choice(policies)) for c in devices_of(cfg)}


def path_of(cfg, c):
    """(level of device c, [(level, system comp) ...] outermost first)"""
    def find(lv, path):
        for (x, k) in cfg[lv]["order"]:
            if k == "dev":
                if x == c:
                    return lv, path
            else:
                r = find(k, path + [(lv, x)])
                if r:
                    return r
        return None
    return find(1, [])


def depth_of(cfg, lv=1):
    return 1 + max([depth_of(cfg, k) for (_, k) in cfg[lv]["order"] if k != "dev"], default=0)


def flat_is_acyclic(cfg):
    return True  # by construction: wires only come from earlier components


# ------------------------------------------------------------------ rendering
def r_values(d):
    return L(T(P(k), Zr(v)) for k, v in sorted(d.items()))


def r_config(cfg):
    def r_level(l):
        order = L(T(P(c), "KDev" if k == "dev" else f"KSys {P(k)}") for c, k in l["order"])
        conns = L(T(P(a), P(b), P(c), P(d)) for a, b, c, d in l["conns"])
        return "{| l_order := %s; l_conns := %s |}" % (order, conns)
    return L(T(P(lv), r_level(l)) for lv, l in sorted(cfg.items()))


def r_devs(devs):
    return L(T(P(c), T(Zr(s), Zr(p), Zr(pol))) for c, (s, p, pol) in sorted(devs.items()))


def r_stim(cfg, stim):
    out = []
    for (r, c) in stim:
        lvc, path = path_of(cfg, c)
        out.append(T(Zr(r), P(c), P(lvc), L(T(P(l), P(s)) for l, s in path)))
    return L(out)


def render_sim_case(cfg, devs, speed, initial, stim, t_end, run, pre=()):
    # no simulation generated here makes more than a few hundred updates: a run that made thousands is cut (it differs from
    # the model anyway) so that a runaway implementation yields a comparison, not a term Coq cannot read
    CAP = 1200
    per = run["per"]
    obs = L(T(P(c), L(T(Zr(t), r_values(i)) for t, i in per.get(c, [])[:CAP])) for c in sorted(devices_of(cfg)))
    trace = L(T(P(c), Zr(t), r_values(i)) for (c, t, i) in run["trace"][:CAP])
    ticklog = L(T(P(lv), Zr(t), L(P(r) for r in roots)) for (lv, t, roots) in run["ticklog"][:CAP])
    mticks = L(T(Zr(t), Zr(r)) for (t, r) in run["mticks"][:CAP])
    return ("{| sc_cfg := %s; sc_devs := %s; sc_num := %s; sc_den := %s; sc_initial := %s; sc_pre := %s; sc_stim := %s; "
            "sc_end := %s; sc_observed := %s; sc_trace := %s; sc_ticklog := %s; sc_mticks := %s |}") % (
        r_config(cfg), r_devs(devs), Zr(speed[0]), Zr(speed[1]), Zr(initial), L(P(c) for c in pre), r_stim(cfg, stim), Zr(t_end), obs,
        trace, ticklog, mticks)


def alert_events(cfg, events, sys_level):
    """what the schedulers and components did, as events of the alert protocol (Oracle/AlertReplay.v [aevent]); None when
    something happened that the protocol does not describe (an exception message, a stop)"""
    from tickit.core.typedefs import Input, Interrupt, Output, Skip
    level_of, kind_of, owner = {}, {}, {}          # component -> its level / kind; level -> (parent level, system component)
    for lv, l in cfg.items():
        for (c, k) in l["order"]:
            level_of[c], kind_of[c] = lv, k
            if k != "dev":
                owner[k] = (lv, c)

    def lvl(sched):
        own = getattr(getattr(sched, "raise_interrupt", None), "__self__", None)
        if own is None or not hasattr(own, "name"):
            return 1
        return sys_level.get(cid(own.name))

    def topic_comp(topic):
        name = topic[len("tickit-"):]
        for suf in ("-in", "-out"):
            if name.endswith(suf):
                return cid(name[:-len(suf)]), suf
        return None, None

    out = []
    stamps = []
    for i, ev in enumerate(events):
        kind = ev[0]
        if kind == "stamp":
            stamps.append(ev)
        elif kind == "produce":
            c, suf = topic_comp(ev[1])
            msg = ev[2]
            if isinstance(msg, Interrupt):
                if kind_of.get(c) == "dev":
                    out.append(("ERaise", level_of[c], c))
                # the interrupt of a system simulation is part of the step of its nested scheduler
            elif isinstance(msg, Skip):
                out.append(("ESkip", level_of[c], c))
            elif isinstance(msg, Output) and kind_of.get(c) not in (None, "dev"):
                out.append(("EDone", level_of[c], c, kind_of[c], None if msg.call_at is None else int(msg.call_at)))
            elif isinstance(msg, Output) and kind_of.get(c) == "dev":
                # the device has just computed (its handler runs device.update and publishes the Output without suspending in
                # between; the Input may have been handed to the handler some loop steps earlier)
                out.append(("EInDev", level_of[c], c, None if msg.call_at is None else int(msg.call_at)))
            elif not isinstance(msg, (Input, Output)):
                return None
        elif kind == "deliver":
            c, suf = topic_comp(ev[1])
            msg = ev[2]
            if isinstance(msg, Input):
                pass                                     # what the component does with it shows when it publishes / starts its tick
            elif isinstance(msg, Interrupt):
                lv = level_of[c]
                if lv == 1:
                    out.append(("EIntTop", c, None))          # the stamp follows (schedule_interrupt is the next thing the handler does)
                else:
                    out.append(("EIntNested", owner[lv][0], owner[lv][1], lv, c))
            elif not isinstance(msg, (Input, Output, Skip)):
                return None
        elif kind == "tickstart":
            lv = lvl(ev[1])
            if lv == 1:
                out.append(("EMTick", ev[2], ev[3], ev[4]))
            elif lv in owner:
                out.append(("EInSys", owner[lv][0], owner[lv][1], lv, ev[3], ev[4]))
            else:
                return None
        elif kind == "propagate":
            lv, c = lvl(ev[1]), ev[2]
            if c in (EXT, EXP):
                out.append(("EInDev", lv, c, None) if ev[3] == "Output" else ("ESkip", lv, c))
            out.append(("EOut", lv, c, ev[4]))
        elif kind == "tickend":
            if lvl(ev[1]) == 1:
                out.append(("EMDone",))
    # the stamps, in order, belong to the interrupts the master handled, in order
    k = 0
    for j, e in enumerate(out):
        if e[0] == "EIntTop":
            if k >= len(stamps) or stamps[k][1] != e[1]:
                return None
            out[j] = ("EIntTop", e[1], stamps[k][2])
            k += 1
    return out


def render_alert(cfg, initial, alert):
    """(configuration, top-level components, initial time, events) for Oracle/AlertReplay.v"""
    def ev(e):
        O = lambda v: "None" if v is None else "(Some %s)" % Zr(v)  # noqa: E731
        Ls = lambda xs: L(P(x) for x in xs)  # noqa: E731
        k = e[0]
        if k == "ERaise":
            return "ERaise %s %s" % (P(e[1]), P(e[2]))
        if k == "EIntTop":
            return "EIntTop %s %s" % (P(e[1]), Zr(e[2]))
        if k == "EIntNested":
            return "EIntNested %s %s %s %s" % (P(e[1]), P(e[2]), P(e[3]), P(e[4]))
        if k == "EMTick":
            return "EMTick %s %s %s" % (Zr(e[1]), Ls(e[2]), Ls(e[3]))
        if k == "EInDev":
            return "EInDev %s %s %s" % (P(e[1]), P(e[2]), O(e[3]))
        if k == "EInSys":
            return "EInSys %s %s %s %s %s" % (P(e[1]), P(e[2]), P(e[3]), Ls(e[4]), Ls(e[5]))
        if k == "ESkip":
            return "ESkip %s %s" % (P(e[1]), P(e[2]))
        if k == "EOut":
            return "EOut %s %s %s" % (P(e[1]), P(e[2]), O(e[3]))
        if k == "EDone":
            return "EDone %s %s %s %s" % (P(e[1]), P(e[2]), P(e[3]), O(e[4]))
        return "EMDone"
    tops = [c for (c, _) in cfg[1]["order"]]
    return "(%s, %s, %s, %s)" % (r_config(cfg), L(P(c) for c in tops), Zr(initial), L(ev(e) for e in alert))


def comp_paths(cfg):
    """component -> the system simulations that enclose it, outermost first"""
    out = {}

    def walk(lv, path):
        for (c, k) in cfg[lv]["order"]:
            out[c] = path
            if k != "dev":
                walk(k, path + [c])
    walk(1, [])
    return out


def render_replay_case(cfg, devs, speed, initial, stim, t_end, run):
    """the run as a sim_case plus its deliveries (Oracle/HReplay.v [replay_case]); None when the bus delivered something the
    replay does not model (an exception, a stop message)"""
    paths = comp_paths(cfg)
    ticks = []
    for (t, items) in run["deliveries"]:
        ms = []
        for it in items:
            if it[0] == "other":
                if it[2] == "Interrupt":
                    continue        # part of the stimulus (Model/Interrupts.v [stim_at]), applied between the ticks
                return None
            pth = L(P(x) for x in paths[it[1]])
            if it[0] == "in":
                ms.append("RIn %s %s %s %s" % (pth, P(it[1]), Zr(it[2]), r_values(it[3])))
            elif it[0] == "out":
                ms.append("ROut %s %s %s %s %s" % (pth, P(it[1]), Zr(it[2]), r_values(it[3]), "None" if it[4] is None else "(Some %s)" % Zr(it[4])))
            else:
                ms.append("RSkip %s %s %s" % (pth, P(it[1]), Zr(it[2])))
        ticks.append(T(Zr(t), L(ms)))
    return "(%s, %s)" % (render_sim_case(cfg, devs, speed, initial, stim, t_end, run), L(ticks))


SIM_HEADER = "From TV Require Import Base Model.Wiring Model.Ticker Model.Component Model.Sim Oracle.SimCheck."
