"""C19 -- the ZeroMQ push stream preserves order and creates one socket.
The real ZeroMqPushIo / ZeroMqPushAdapter run with a fake socket factory and a fake socket whose
creation and drain complete only when the schedule says so.  A schedule interleaves: queueing a
message, starting a direct send sequence, completing the socket creation, completing the oldest /
a chosen pending drain.  Every atomic step of the implementation (queue get, lock acquired, factory
returned, lock released, write, drain returned) is logged with the task that took it and replayed,
inside Coq, as a run of the interleaving model Model/Zmq.v (trace validation), and the observed
writes are judged by the Coq oracle; message part serialisation is compared with the model's rule."""
import asyncio
import itertools
import json
import random

from common import Check, P, Zr, Nr, L, T, O, B, run_shards

PID = "C19"
HEADER = "From TV Require Import Base Model.Zmq."
REASONS = {130: "implementation-steps-are-not-a-run-of-the-model", 131: "not-exactly-one-socket",
           132: "queued-messages-not-written-in-queue-order-once", 133: "direct-sequence-reordered-or-duplicated",
           134: "serialisation-rule-differs"}


def run_schedule(schedule):
    """schedule: list of ('queue', m) | ('spawn', [m..]) | ('factory',) | ('drain', k) ; returns observation"""
    from tickit.adapters.io.zeromq_push_io import ZeroMqPushIo
    from tickit.adapters.zmq import ZeroMqPushAdapter
    from tickit.core.adapter import AdapterContainer

    log = []            # (task key, kind)
    actions = []        # model actions in order
    tasks = {}          # asyncio task -> thread index
    sockets = []
    pending_factory = []
    pending_drains = []
    state = dict(next_thread=1)

    def me():
        t = asyncio.current_task()
        if t not in tasks:
            # a task the harness did not start (the implementation spawned it): give it a thread of its own
            tasks[t] = state["next_thread"]
            state["next_thread"] += 1
            actions.append(("spawn", []))
        return tasks[t]

    class Sock:
        def __init__(self, n):
            self.n = n
            self.writes = []

        def write(self, data):
            self.writes.append(data)
            mid = int(data[0].decode())
            sockets_writes.append((self.n, mid))
            actions.append(("step", me()))

        async def drain(self):
            fut = asyncio.get_event_loop().create_future()
            pending_drains.append((me(), fut))
            await fut
            actions.append(("step", me()))

        def close(self):
            pass

    sockets_writes = []

    async def factory(host, port):
        fut = asyncio.get_event_loop().create_future()
        pending_factory.append(fut)
        await fut
        s = Sock(len(sockets))
        sockets.append(s)
        actions.append(("step", me()))
        return s

    class LogLock(asyncio.Lock):
        async def acquire(self):
            r = await super().acquire()
            actions.append(("step", me()))
            return r

        def release(self):
            actions.append(("step", me()))
            return super().release()

    queued, direct = [], []

    async def main():
        io = ZeroMqPushIo(socket_factory=factory)
        io._socket_lock = LogLock()
        adapter = ZeroMqPushAdapter()
        orig_next = adapter.next_message
        orig_send = io.send_message

        async def next_message():
            m = await orig_next()
            actions.append(("step", 0))
            return m

        async def send_message(message):
            if me() != 0:
                actions.append(("step", me()))   # a direct sender takes its next message
            return await orig_send(message)

        adapter.next_message = next_message
        io.send_message = send_message
        orig_forever = io.send_messages_forever

        async def forever(a):
            tasks[asyncio.current_task()] = 0
            return await orig_forever(a)

        io.send_messages_forever = forever

        async def setup():
            idx = state["next_thread"]
            state["next_thread"] += 1
            tasks[asyncio.current_task()] = idx
            actions.append(("setup",))
            actions.append(("step", idx))        # the setup thread "takes" its pseudo message
            await io.setup(adapter, None)

        async def settle():
            for _ in range(12):
                await asyncio.sleep(0)

        st = asyncio.create_task(setup())
        await settle()
        for ev in schedule:
            if ev[0] == "queue":
                adapter.add_message_to_stream([str(ev[1]).encode()])
                queued.append(ev[1])
                actions.append(("queue", ev[1]))
            elif ev[0] == "spawn":
                idx = state["next_thread"]
                state["next_thread"] += 1
                direct.append(list(ev[1]))
                actions.append(("spawn", list(ev[1])))
                orig_create = asyncio.create_task

                # send_message_sequence_soon creates the task itself: tag it right after creation
                before = set(asyncio.all_tasks())
                io.send_message_sequence_soon([[str(m).encode()] for m in ev[1]])
                for t in set(asyncio.all_tasks()) - before:
                    tasks[t] = idx
            elif ev[0] == "factory":
                pending_factory[:] = [f for f in pending_factory if not f.done()]
                if pending_factory:
                    pending_factory.pop(0).set_result(None)
            elif ev[0] == "drain":
                pending_drains[:] = [x for x in pending_drains if not x[1].done()]   # (a drain may have been cancelled)
                if pending_drains:
                    k = ev[1] % len(pending_drains)
                    pending_drains.pop(k)[1].set_result(None)
            elif ev[0] == "race":
                # a drain completes and, n event-loop steps later -- while the sender is on its way to the next message --
                # another message is queued
                pending_drains[:] = [x for x in pending_drains if not x[1].done()]
                if pending_drains:
                    pending_drains.pop(0)[1].set_result(None)
                for _ in range(ev[2]):
                    await asyncio.sleep(0)
                adapter.add_message_to_stream([str(ev[1]).encode()])
                queued.append(ev[1])
                actions.append(("queue", ev[1]))
            elif ev[0] == "wait":
                # latency in (virtual) time, not only in scheduling steps: a peer that stops reading for a while
                await asyncio.sleep(ev[1])
            await settle()
        # let everything finish: complete all latencies
        for _ in range(60):
            if pending_factory:
                f = pending_factory.pop(0)
                if not f.done():
                    f.set_result(None)
            elif pending_drains:
                fut = pending_drains.pop(0)[1]
                if not fut.done():
                    fut.set_result(None)
            else:
                break
            await settle()
        for t in asyncio.all_tasks():
            if t is not asyncio.current_task():
                t.cancel()

    import slevel
    slevel.vrun(lambda loop: main())      # virtual time: waiting costs nothing
    return dict(queued=queued, direct=direct, writes=[m for (_, m) in sockets_writes], created=len(sockets),
                one_socket=all(n == 0 for (n, _) in sockets_writes), actions=actions)


def r_action(a):
    if a[0] == "step":
        return f"AStep {Nr(a[1])}"
    if a[0] == "queue":
        return f"AQueue {Zr(a[1])}"
    if a[0] == "spawn":
        return f"ASpawn {L(Zr(m) for m in a[1])}"
    return "ASetup"


def render(o):
    return ("{| zo_queued := %s; zo_direct := %s; zo_writes := %s; zo_created := %s; zo_one_socket := %s; zo_actions := %s |}"
            % (L(Zr(m) for m in o["queued"]), L(L(Zr(m) for m in ms) for ms in o["direct"]), L(Zr(m) for m in o["writes"]),
               Zr(o["created"]), B(o["one_socket"]), L(r_action(a) for a in o["actions"])))


def gen_schedules(tier, rng):
    out = []
    # exhaustive: <= 2 racing direct sends (1 message each) and <= 2 queued messages, all interleavings
    # with the factory completion and drain completions
    base = [("spawn", [11]), ("spawn", [21]), ("queue", 1), ("queue", 2), ("factory",), ("drain", 0), ("drain", 1), ("drain", 0)]
    for n in (4, 5, 6) if tier == "quick" else (4, 5, 6, 7):
        for perm in itertools.permutations(range(len(base)), n):
            if tier == "quick" and (sum(perm) % 7) not in (0, 3):
                continue       # a fixed 2/7 slice of the permutations in the quick tier
            out.append([base[i] for i in perm])
    # a slow peer: queued messages, the socket exists, a long pause while a drain is pending, then everything completes
    for pause in (0.5, 1.5, 5.0, 60.0):
        for nq in (1, 2, 4):
            out.append([("factory",)] + [("queue", i + 1) for i in range(nq)] + [("wait", pause), ("drain", 0), ("queue", 9), ("wait", pause), ("drain", 0)])
    # a backlog: dozens of messages queued while the socket is not up yet (or the peer reads slowly), then the stream
    # catches up one drain at a time while more messages keep coming
    for nb in (20, 40, 70):
        s = [("queue", i + 1) for i in range(nb)] + [("factory",)]
        for j in range(nb + 6):
            s += [("drain", 0)] + ([("queue", 500 + j)] if j % 2 == 0 else [])
        out.append(s)
        s = [("factory",), ("queue", 1), ("wait", 5.0)] + [("queue", i + 2) for i in range(nb)]
        for j in range(nb + 6):
            s += [("drain", 0), ("queue", 700 + j)] if j < 10 else [("drain", 0)]
        out.append(s)
    for nb in (20, 40):
        for n in range(0, 8):
            s = [("queue", i + 1) for i in range(nb)] + [("factory",)]
            for j in range(nb + 8):
                s += [("race", 900 + j, n)] if j < 12 else [("drain", 0)]
            out.append(s)
    for _ in range({"quick": 300, "thorough": 6000}[tier]):
        s = []
        mid = [100]
        for _ in range(rng.randint(3, 25)):
            x = rng.random()
            if x < 0.3:
                mid[0] += 1
                s.append(("queue", mid[0]))
            elif x < 0.45:
                ms = []
                for _ in range(rng.randint(1, 3)):
                    mid[0] += 1
                    ms.append(mid[0])
                s.append(("spawn", ms))
            elif x < 0.6:
                s.append(("factory",))
            elif x < 0.66:
                s.append(("wait", rng.choice([0.5, 1.5, 3.0, 20.0])))
            else:
                s.append(("drain", rng.randint(0, 3)))
        out.append(s)
    return out


def serialisation_part(ck):
    import json as js
    from pydantic.v1 import BaseModel
    from tickit.adapters.io.zeromq_push_io import ZeroMqPushIo

    class M(BaseModel):
        a: int
        b: str

    class Sub(BaseModel):
        unit: str = "mm"
        baz: bool = False

    class D(BaseModel):          # fields with defaults, an optional field, a nested model with defaults
        series: int
        htype: str = "dheader-1.0"
        detail: str = "basic"
        note: str = None
        sub: Sub = Sub()
        tags: list = []

    def full(v):
        """every declared field with its current value, whether or not the sender passed it explicitly"""
        if isinstance(v, BaseModel):
            return {k: full(getattr(v, k)) for k in v.__fields__}
        if isinstance(v, dict):
            return {k: full(x) for k, x in v.items()}
        if isinstance(v, (list, tuple)):
            return [full(x) for x in v]
        return v

    d_assigned = D(series=4)
    d_assigned.detail = "all"
    io = ZeroMqPushIo()
    samples = [(b"\x00raw", "bytes"), (b"", "bytes"), ("text é", "str"), ("", "str"), ({"k": [1, 2, {"n": None}]}, "map"),
               ({}, "map"), (M(a=1, b="x"), "model"), (D(series=2), "model"), (D(series=2, sub=Sub(baz=True)), "model"),
               (D(series=3, htype="x", detail="y", note="n", sub=Sub(unit="m", baz=True), tags=[1]), "model"),
               (d_assigned, "model"), (Sub(), "model"),
               # numbers JSON has no word for: Python writes NaN / Infinity, as the unchanged tree does
               ({"x": float("nan"), "y": [float("inf"), -float("inf")]}, "map"), ({"big": 10 ** 30, "neg0": -0.0, "e": 1e-320}, "map"),
               (D(series=2, tags=[float("inf")]), "model"),
               (3, "other"), (3.5, "other"), (None, "other"), ([1], "other"),
               (bytearray(b"x"), "other")]
    ok = True
    for v, kind in samples:
        ck.count("ser:" + kind + repr(v), True)
        try:
            got = io._serialize_part(v)
        except TypeError:
            got = TypeError
        except ValueError as e:
            got = "ValueError: " + str(e)
        if kind == "bytes":
            exp = v
        elif kind in ("str", "map"):
            exp = js.dumps(v).encode("utf_8")
        elif kind == "model":
            exp = js.dumps(full(v)).encode("utf_8")
        else:
            exp = TypeError
        if got != exp:
            ok = False
            ck.report(REASONS[134], f"_serialize_part({v!r}) = {got!r}, the rule gives {exp!r}", dict(kind="serialise", value=repr(v)))
    return ok


def main(tier, seed):
    ck = Check(PID, tier, seed, "Props.C19", ["Model/Zmq.v", "Proofs/ZmqP.v", "Props/C19.v"])
    ck.build_and_audit()
    rng = random.Random(seed)
    scheds = gen_schedules(tier, rng)
    obs = [run_schedule(s) for s in scheds]
    bad = run_shards(PID, HEADER, "zobs", "check_zmq", [render(o) for o in obs], shard_size=300)
    for s, o in zip(scheds, obs):
        ck.count(json.dumps(s), len(o["direct"]) >= 1 and len(o["writes"]) >= 2)
    serialisation_part(ck)
    ck.rule = ("schedules interleaving queue / direct-send / socket-creation-latency / drain-latency events: a fixed slice of all "
               "permutations of 4-6 events out of {2 racing direct sends, 2 queued messages, factory completion, 3 drain completions} "
               "plus seeded random schedules to 25 events (up to 3-message direct sequences); the implementation's atomic steps are "
               "replayed as a run of the Coq model; non-trivial = a direct sender races with the queue and >= 2 writes happen")
    ck.coverage.update(schedules=len(scheds), disagreements=len(bad), max_writes=max(len(o["writes"]) for o in obs),
                       racing_schedules=sum(1 for o in obs if len(o["direct"]) >= 2))
    ck.sample(dict(schedule=scheds[-1], observed={k: obs[-1][k] for k in ("queued", "direct", "writes", "created")}))
    done = set()
    for i in sorted(bad):
        for code in bad[i]:
            if code in done:
                continue
            done.add(code)
            ck.report(REASONS[code], f"ZeroMqPushIo: {REASONS[code]}",
                      dict(kind="schedule", schedule=scheds[i], observed=obs[i], codes=bad[i]))
    return ck.finish()


def replay(rp):
    if rp.get("kind") != "schedule":
        print(rp)
        return 1
    s = [tuple(x) if x[0] != "spawn" else ("spawn", list(x[1])) for x in rp["schedule"]]
    o = run_schedule(s)
    bad = run_shards("replay", HEADER, "zobs", "check_zmq", [render(o)])
    print("schedule:", s)
    print("observed:", {k: o[k] for k in ("queued", "direct", "writes", "created", "one_socket")}, "codes:", bad.get(0, []))
    return 1 if bad else 0
