From TV Require Import Base.
Example C07_placeholder : True. Proof. exact I. Qed.
