"""Shared driver of the whole-simulation (level S, internal bus, virtual time) checks."""
import itertools
import json
import random

import slevel
from common import Check, run_shards

HEADER = ("From TV Require Import Base Model.Wiring Model.Ticker Model.Component Model.Sim "
          "Oracle.SimCheck Oracle.SimOracle.")
EXT, EXP = slevel.EXT, slevel.EXP

REASONS = {
    51: "device-observation-sequence-differs-from-model", 52: "model-updates-a-device-the-implementation-did-not",
    53: "tick-sequence-of-a-scheduler-differs-from-model", 54: "master-tick-real-times-differ-from-model",
    61: "device-not-updated-exactly-once-in-initial-tick", 62: "later-tick-before-initial-tick-completed",
    81: "device-input-is-not-the-latest-upstream-value", 65: "callback-not-honoured", 66: "tick-time-invented",
    96: "tick-started-earlier-than-pacing-allows", 46: "tick-times-of-a-scheduler-decrease",
    71: "nested-and-flattened-configuration-observe-differently", 73: "harness-flattening-differs-from-coq-flatten",
    91: "disconnected-part-changes-observations",
    99: "simulation-stalled-or-raised",
}
CORR = {51, 52, 53, 54, 73}


# ------------------------------------------------------------------ flattening (mirror of Oracle/SimOracle.v)
def parent_of(cfg, lv):
    for plv, l in cfg.items():
        for (c, k) in l["order"]:
            if k == lv:
                return plv, c
    return None


def conn_into(conns, c, q):
    for (u, p, ic, ip) in conns:
        if ic == c and ip == q:
            return (u, p)
    return None


def resolve(cfg, lv, u, p, fuel=40):
    if fuel == 0:
        return None
    if u == EXT:
        par = parent_of(cfg, lv)
        if par is None:
            return None
        plv, sc = par
        s = conn_into(cfg[plv]["conns"], sc, p)
        return resolve(cfg, plv, s[0], s[1], fuel - 1) if s else None
    kind = dict(cfg[lv]["order"]).get(u)
    if kind == "dev":
        return (u, p)
    if kind is None:
        return None
    s = conn_into(cfg[kind]["conns"], EXP, p)
    return resolve(cfg, kind, s[0], s[1], fuel - 1) if s else None


def flat_order(cfg, lv=1):
    out = []
    for (c, k) in cfg[lv]["order"]:
        out += [c] if k == "dev" else flat_order(cfg, k)
    return out


def flatten(cfg):
    conns = []
    for lv in sorted(cfg):
        l = cfg[lv]
        kinds = dict(l["order"])
        for (u, p, c, q) in l["conns"]:
            if kinds.get(c) == "dev":
                s = resolve(cfg, lv, u, p)
                if s:
                    conns.append((s[0], s[1], c, q))
    return {1: dict(order=[(c, "dev") for c in flat_order(cfg)], conns=conns)}


# ------------------------------------------------------------------ case generation
T_END = 2_950_000_003


def small_nestings():
    """exhaustive small scope for C05/C09: a top-level source device, one system with <= 2 inner devices,
    each inner device fed from external / from the other inner device / not at all, with or without an
    exposed port (from an inner device or straight from external), optionally a top-level sink; plus
    a system inside a system."""
    out = []
    for feed3 in ("ext", "none"):
        for feed4 in ("ext", "inner", "none", None):
            for expo in ("inner", "ext", "none"):
                for sink in (True, False):
                    inner_order = [(5, "dev")] + ([(6, "dev")] if feed4 is not None else [])
                    ic = []
                    if feed3 == "ext":
                        ic.append((EXT, 1, 5, 1))
                    if feed4 == "ext":
                        ic.append((EXT, 1, 6, 1))
                    elif feed4 == "inner":
                        ic.append((5, 1, 6, 1))
                    if expo == "inner":
                        ic.append((inner_order[-1][0], 1, EXP, 1))
                    elif expo == "ext":
                        ic.append((EXT, 1, EXP, 1))
                    top_order = [(3, "dev"), (4, 2)] + ([(7, "dev")] if sink else [])
                    tc = [(3, 1, 4, 1)]
                    if sink and expo != "none":
                        tc.append((4, 1, 7, 1))
                    out.append({1: dict(order=top_order, conns=tc), 2: dict(order=inner_order, conns=ic)})
    # system without any input, sibling systems, system in system
    out.append({1: dict(order=[(3, 2), (6, "dev")], conns=[(3, 1, 6, 1)]),
                2: dict(order=[(4, "dev"), (5, "dev")], conns=[(4, 1, 5, 1), (5, 2, EXP, 1)])})
    out.append({1: dict(order=[(3, "dev"), (4, 2), (7, 3), (10, "dev")], conns=[(3, 1, 4, 1), (3, 2, 7, 1), (4, 1, 10, 1), (7, 1, 10, 2)]),
                2: dict(order=[(5, "dev"), (6, "dev")], conns=[(EXT, 1, 5, 1), (6, 1, EXP, 1)]),
                3: dict(order=[(8, "dev"), (9, "dev")], conns=[(EXT, 1, 8, 1), (8, 1, 9, 1), (9, 2, EXP, 1)])})
    out.append({1: dict(order=[(3, "dev"), (4, 2), (9, "dev")], conns=[(3, 1, 4, 1), (4, 1, 9, 1)]),
                2: dict(order=[(5, "dev"), (6, 3)], conns=[(EXT, 1, 5, 1), (5, 1, 6, 1), (6, 1, EXP, 1)]),
                3: dict(order=[(7, "dev"), (8, "dev")], conns=[(EXT, 1, 7, 1), (8, 2, EXP, 1)])})
    out.append({1: dict(order=[(3, 2)], conns=[]),
                2: dict(order=[(4, 3)], conns=[(4, 1, EXP, 1)]),
                3: dict(order=[(5, 4)], conns=[(5, 1, EXP, 1)]),
                4: dict(order=[(6, "dev"), (7, "dev")], conns=[(6, 1, EXP, 1)])})
    return out


def gen_stim(rng, cfg, devs, kmax=3, allowed=None):
    dl = [d for d in slevel.devices_of(cfg) if allowed is None or devs[d][2] in allowed]
    if not dl:
        return []
    return sorted((rng.randrange(50, 2900) * 1_000_000 + 137 * (k + 1), rng.choice(dl)) for k in range(rng.randint(0, kmax)))


def run_case(cfg, devs, speed, initial, stim, t_end=T_END):
    r = slevel.run_internal(cfg, devs, speed, initial, stim, t_end)
    term = slevel.render_sim_case(cfg, devs, speed, initial, stim, t_end, r)
    return r, term


def gen_single_cases(tier, rng, emphasis):
    """returns list of dict(cfg, devs, speed, initial, stim)"""
    cases = []
    n_ex = 0
    if emphasis in ("initial", "nested"):
        for cfg in small_nestings():
            for pol in ((0,), (0, 1, 2)):
                devs = slevel.gen_devs(rng, cfg, pol)
                cases.append(dict(cfg=cfg, devs=devs, speed=(1, 1), initial=rng.choice([0, 0, 1_000_000]), stim=[]))
                n_ex += 1
    nrand = {"quick": 90, "thorough": 1500}[tier]
    for _ in range(nrand):
        depth = rng.choice([0, 1, 1, 2, 3]) if emphasis in ("initial", "nested") else rng.choice([0, 0, 1, 2])
        cfg = slevel.gen_config(rng, depth=depth)
        devs = slevel.gen_devs(rng, cfg)
        speed = rng.choice([(1, 1), (1, 1), (2, 1), (1, 2)])
        stim = gen_stim(rng, cfg, devs)
        cases.append(dict(cfg=cfg, devs=devs, speed=speed, initial=rng.choice([0, 0, 2_000_000]), stim=stim))
    return cases, n_ex


def describe(case):
    return dict(cfg={str(k): v for k, v in case["cfg"].items()}, devs={str(k): v for k, v in case["devs"].items()},
                speed=case["speed"], initial=case["initial"], stim=case["stim"])


def nontrivial(case, run):
    return len(run["ticklog"]) >= 3 and len(slevel.devices_of(case["cfg"])) >= 2


def report_codes(ck, pid, what, bad, cases, runs, prop_codes, extra=None):
    done = set()
    for i in sorted(bad):
        for code in bad[i]:
            if code in prop_codes and code not in done:
                done.add(code)
                d = describe(cases[i])
                d.update(codes=bad[i], observed={str(k): v for k, v in runs[i]["per"].items()}, error=runs[i]["error"],
                         errors=runs[i]["errors"][:3], kind="single")
                if extra:
                    d.update(extra(i))
                ck.report(REASONS[code], f"{what}: {REASONS[code]}", d)
    if not done:
        corr = sorted({c for codes in bad.values() for c in codes if c not in prop_codes})
        if corr:
            i = min(bad)
            d = describe(cases[i])
            d.update(codes=bad[i], kind="single", broken=f"correspondence Model/Sim.v vs the schedulers/components; theorems of Props.{pid}")
            ck.report("correspondence-broken", f"simulation model and implementation disagree ({[REASONS.get(c, c) for c in corr]}) "
                      f"but no history violating {pid} was found in the explored families", d, no_input=True)


def main_S(pid, tier, seed, prop_codes, prop_mod, serving_files, what, emphasis):
    ck = Check(pid, tier, seed, prop_mod, serving_files)
    ck.build_and_audit()
    rng = random.Random(seed)
    cases, n_ex = gen_single_cases(tier, rng, emphasis)
    runs, terms = [], []
    for c in cases:
        r, term = run_case(c["cfg"], c["devs"], c["speed"], c["initial"], c["stim"])
        runs.append(r)
        terms.append(term)
    bad = run_shards(pid, HEADER, "sim_case", "check_sim_all", terms, shard_size=12)
    for i, (c, r) in enumerate(zip(cases, runs)):
        ck.count(json.dumps(describe(c), sort_keys=True), nontrivial(c, r))
        if r["error"]:
            bad.setdefault(i, []).append(99)
    ck.rule = ("whole simulations on the real MasterScheduler/NestedScheduler/SystemComponent/DeviceComponent over the internal bus on a "
               "virtual-time event loop, table-driven devices (change/repeat/omit ports; callback policies none/periodic/one-shot/"
               "mixed/alternating), interrupts at random real instants between ticks, speeds 1/2, 1, 2: "
               f"{n_ex} enumerated small nestings (inner devices fed from external / each other / not at all, exposed from device / "
               "pass-through / none, sibling systems, system in system to depth 3) plus seeded random nested configurations; "
               "non-trivial = >= 2 devices and >= 3 ticks")
    ck.coverage.update(enumerated_nestings=n_ex, disagreements=len(bad),
                       depths={str(d): sum(1 for c in cases if slevel.depth_of(c["cfg"]) == d) for d in range(1, 6)},
                       with_interrupts=sum(1 for c in cases if c["stim"]),
                       ticks_total=sum(len(r["ticklog"]) for r in runs))
    ck.sample(dict(case=describe(cases[-1]), ticklog=runs[-1]["ticklog"][:6]))
    report_codes(ck, pid, what, bad, cases, runs, prop_codes | {99})
    return ck.finish()


def replay_S(rp):
    cfg = {int(k): dict(order=[(c, (k2 if k2 == "dev" else int(k2))) for c, k2 in v["order"]],
                        conns=[tuple(x) for x in v["conns"]]) for k, v in rp["cfg"].items()}
    devs = {int(k): tuple(v) for k, v in rp["devs"].items()}
    stim = [tuple(s) for s in rp["stim"]]
    r, term = run_case(cfg, devs, tuple(rp["speed"]), rp["initial"], stim)
    bad = run_shards("replay", HEADER, "sim_case", "check_sim_all", [term])
    print("config:", cfg)
    print("observed:", r["per"], r["error"], r["errors"][:2])
    print("codes:", bad.get(0, []), [REASONS.get(c) for c in bad.get(0, [])])
    return 1 if (bad or r["error"]) else 0
