(* C07 -- every interrupt is served promptly whenever it arrives.
   Message-level model of the master scheduler.  What the model cannot exhibit: interleavings
   finer than a handler (a delivery while callbacks are still queued) and real OS timers -- those
   are explored by the step-injection sweep of the correspondence run.  For interrupts raised
   inside nested systems the nested scheduler queues the component and raises on behalf of the
   system (Model/Sim.v [raise_interrupt]); the system's Output then asks to be called back at once.
   Property theorems only. *)
From TV Require Import Base Gen.SourceConsts Model.Wiring Model.Ticker Model.Component Model.Sim Model.Master Model.WakeFlag
  Proofs.MasterP Proofs.WakeFlagP Model.PyLib Gen.SourceFuns Proofs.GenInterruptP.
Open Scope Z_scope.

(* not lost: in any phase once the scheduler has started, the interrupt gives the component a
   wakeup no later than the simulation time corresponding to its arrival -- and never later than a
   wakeup that was already pending for it *)
Theorem C07_not_lost : forall conns comps initial num den m r c m' outs,
  step conns comps initial num den m r (IInterrupt c) = (m', outs) -> mp m <> PInit -> mp m <> PStopped ->
  exists w, lookup c (mw m') = Some w /\ w <= stamp num den m r /\
            (forall w0, lookup c (mw m) = Some w0 -> w <= w0).
Proof. intros conns comps initial num den m r c m' outs. apply interrupt_owed. Qed.

(* prompt: if no tick is running, the sleep the scheduler arms ends now -- it does not wait for
   any other callback *)
Theorem C07_prompt_when_idle : forall conns comps initial num den,
  0 < num -> 0 < den -> forall m r c m' outs,
  step conns comps initial num den m r (IInterrupt c) = (m', outs) -> ma_r m <= r ->
  (mp m = PIdle \/ exists w0 r0 d0, mp m = PSleep w0 r0 d0) ->
  exists when roots, mp m' = PSleep when roots r /\ outs = [OArm r] /\ when <= stamp num den m r.
Proof. intros conns comps initial num den Hn Hd m r c m' outs. apply interrupt_prompt_when_idle; assumption. Qed.

(* whenever the scheduler plans a sleep (after a tick, after any interrupt) it never sleeps past
   the due time of ANY pending wakeup: a pending interrupt is delayed by tick processing only *)
Theorem C07_never_sleeps_past_pending : forall num den, 0 < num -> 0 < den ->
  forall m r c w m' outs, plan num den m r = (m', outs) -> In (c, w) (mw m) ->
  exists when roots d, mp m' = PSleep when roots d /\ outs = [OArm d] /\ when <= w /\
                       d <= Z.max r (due_real num den m w).
Proof.
  intros num den Hn Hd m r c w m' outs Hp Hin.
  destruct (plan_never_sleeps_past num den Hn Hd m r c w m' outs Hp Hin) as [when [roots [d [H1 [H2 [H3 [_ H5]]]]]]].
  exists when, roots, d. auto.
Qed.

(* a wakeup stamped during a tick is already due when that tick ends (its due time, measured from
   the end of the PREVIOUS tick, is the arrival time of the interrupt) *)
Theorem C07_due_at_once : forall num den, 0 < num -> 0 < den -> forall m r, ma_r m <= r ->
  due_real num den m (stamp num den m r) <= r.
Proof. intros num den Hn Hd m r Hr. apply stamp_due; assumption. Qed.

(* the tick that serves it has the component among its roots (C06), and starts after the interrupt.
   Example: interrupt at real time 10 during a tick that lasts from 0 to 20: served at 30 = 10 + the
   duration of the tick in progress, although a callback for simulation time 1000 is pending *)
(* the scheduler stays alive to serve the next interrupt: Model/Master.v abstracts the new_wakeup
   flag of MasterScheduler._do_tick away; Model/WakeFlag.v models it.  [master_idle_clears] is
   extracted from the current source (whose _do_tick is checked to have the modelled statement
   skeleton).  For every set of pending callbacks and every history of added wakeups, sleep ends
   (with or without the flag waiter having completed) and finished ticks, the assertion of
   _do_tick never fails. *)
Theorem C07_master_never_dies : forall wk h,
  w_pc (wrun master_idle_clears (winit master_idle_clears wk) h) <> WFailed.
Proof. exact never_fails. Qed.

(* the pinned loop (idle branch does not clear the flag): an interrupt that coincides with the end
   of the sleep for the only pending callback kills the scheduler *)
Theorem C07_pinned_loop_refuted :
  w_pc (wrun false (winit false [(3%positive, 300)]) [EAdd 3%positive 300; EResume false; ETickDone]) = WFailed.
Proof. exact fails_without_clear. Qed.

Example C07_nonvacuous :
  let '(m1, _) := step [] [3%positive; 4%positive] 0 1 1 (m_init 0) 0 IStart in
  let '(m2, _) := step [] [3%positive; 4%positive] 0 1 1 m1 0 (IOutput 3%positive 0 [] (Some 1000)) in
  let '(m3, o3) := step [] [3%positive; 4%positive] 0 1 1 m2 10 (IInterrupt 4%positive) in
  let '(m4, o4) := step [] [3%positive; 4%positive] 0 1 1 m3 20 (IOutput 4%positive 0 [] None) in
  let '(m5, o5) := step [] [3%positive; 4%positive] 0 1 1 m4 30 ITimer in
  o3 = [] /\ o4 = [OTickEnd 0; OArm 30] /\ o5 = [OTickStart 10 [4%positive]; OAct (Upd 4%positive 10 [])].
Proof. vm_compute. repeat split; reflexivity. Qed.

(* the tie to the source: what an interrupt leaves in the wakeup table of the master machine IS what the end of
   MasterScheduler.schedule_interrupt does with the stamp -- `add_wakeup(source, min(when, wakeups.get(source, when)))` --
   regenerated from /repo by the function translator (harness/gen_funs.py) on every run.  (The stamp itself is real-time
   float arithmetic: modelled over the rationals and compared per run, C12.) *)
Theorem C07_interrupt_bookkeeping_is_source : forall num den (m : master) (r : Z) (c : comp),
  gen_schedule_interrupt (mw m) c (stamp num den m r) = interrupt_wake num den m r c.
Proof. exact interrupt_wake_is_source. Qed.
