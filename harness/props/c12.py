import sprops

PID = "C12"


def main(tier, seed):
    return sprops.main_S(PID, tier, seed, {96}, "Props.C12",
                         ["Model/Sim.v", "Model/Master.v", "Oracle/SimCheck.v", "Oracle/SimOracle.v", "Proofs/MasterP.v", "Props/C12.v"],
                         "pacing", "callbacks")


replay = sprops.replay_S
