"""Constants translator: reads the literal constants, start-up orders and the master's waiting-loop skeleton
the theorems depend on out of the current /repo sources with Python's ast and writes coq/Gen/SourceConsts.v.
Fail-closed per section: a source shape it does not recognise leaves that section's definitions out, so the
theorems resting on them no longer compile (and only those).""" 
from __future__ import annotations

import ast
import os
from pathlib import Path

SRC = Path(os.environ.get("VERIF_REPO") or "/repo") / "src" / "tickit"
OUT = Path(os.environ.get("VERIF_ROOT") or "/verif") / "coq" / "Gen" / "SourceConsts.v"


class Unrecognised(Exception):
    pass


def _func(tree: ast.Module, name: str, cls: str | None = None) -> ast.FunctionDef:
    body = tree.body
    if cls is not None:
        for n in body:
            if isinstance(n, ast.ClassDef) and n.name == cls:
                body = n.body
                break
        else:
            raise Unrecognised(f"class {cls} not found")
    for n in body:
        if isinstance(n, (ast.FunctionDef, ast.AsyncFunctionDef)) and n.name == name:
            return n
    raise Unrecognised(f"function {name} not found")


def _topic_parts(fn: ast.FunctionDef) -> tuple[str, str]:
    """expects:  valid_component_id(component); return "<prefix>" + component + "<suffix>" """
    stmts = [s for s in fn.body if not (isinstance(s, ast.Expr) and isinstance(s.value, ast.Constant))]
    if len(stmts) != 2:
        raise Unrecognised(f"{fn.name}: expected a validity check and a return")
    chk, ret = stmts
    if not (isinstance(chk, ast.Expr) and isinstance(chk.value, ast.Call)
            and isinstance(chk.value.func, ast.Name) and chk.value.func.id == "valid_component_id"):
        raise Unrecognised(f"{fn.name}: first statement is not valid_component_id(...)")
    arg = fn.args.args[0].arg
    if not isinstance(ret, ast.Return):
        raise Unrecognised(f"{fn.name}: no return")
    e = ret.value
    # ("prefix" + component) + "suffix"
    if (isinstance(e, ast.BinOp) and isinstance(e.op, ast.Add) and isinstance(e.right, ast.Constant)
            and isinstance(e.right.value, str) and isinstance(e.left, ast.BinOp)
            and isinstance(e.left.op, ast.Add) and isinstance(e.left.left, ast.Constant)
            and isinstance(e.left.left.value, str) and isinstance(e.left.right, ast.Name)
            and e.left.right.id == arg):
        return e.left.left.value, e.right.value
    raise Unrecognised(f"{fn.name}: return is not '<prefix>' + {arg} + '<suffix>'")


def _validity_rejects_empty(tree: ast.Module) -> bool:
    fn = _func(tree, "valid_component_id")
    stmts = [s for s in fn.body if not (isinstance(s, ast.Expr) and isinstance(s.value, ast.Constant))]
    if len(stmts) != 1 or not isinstance(stmts[0], ast.If):
        raise Unrecognised("valid_component_id: expected a single if")
    t = stmts[0].test
    arg = fn.args.args[0].arg
    ok = (isinstance(t, ast.UnaryOp) and isinstance(t.op, ast.Not) and isinstance(t.operand, ast.Name)
          and t.operand.id == arg and len(stmts[0].body) == 1 and isinstance(stmts[0].body[0], ast.Raise))
    if not ok:
        raise Unrecognised("valid_component_id: not `if not component: raise ...`")
    return True


def _pseudo_names(tree: ast.Module) -> list[str]:
    """all string literals wrapped in ComponentID(...) inside NestedScheduler"""
    names = []
    for n in ast.walk(tree):
        if (isinstance(n, ast.Call) and isinstance(n.func, ast.Name) and n.func.id == "ComponentID"
                and len(n.args) == 1 and isinstance(n.args[0], ast.Constant) and isinstance(n.args[0].value, str)):
            if n.args[0].value not in names:
                names.append(n.args[0].value)
    return sorted(names)


def _unknown_reply(tree: ast.Module) -> str:
    fn = _func(tree, "handle", "CommandAdapter")
    for n in ast.walk(fn):
        if (isinstance(n, ast.Assign) and len(n.targets) == 1 and isinstance(n.targets[0], ast.Name)
                and n.targets[0].id == "msg" and isinstance(n.value, ast.Constant) and isinstance(n.value.value, str)):
            return n.value.value
    raise Unrecognised("CommandAdapter.handle: unknown-command text not found")


def _read_size(tree: ast.Module) -> int:
    for n in ast.walk(tree):
        if (isinstance(n, ast.Call) and isinstance(n.func, ast.Attribute) and n.func.attr == "read"
                and len(n.args) == 1 and isinstance(n.args[0], ast.Constant) and isinstance(n.args[0].value, int)):
            return n.args[0].value
    raise Unrecognised("tcp_io: reader.read(<int>) not found")



def _is_noise(st: ast.AST) -> bool:
    """docstrings and logging calls carry no behaviour the models depend on"""
    if isinstance(st, ast.Expr) and isinstance(st.value, ast.Constant) and isinstance(st.value.value, str):
        return True
    if isinstance(st, ast.Expr) and isinstance(st.value, ast.Call):
        f = st.value.func
        while isinstance(f, ast.Attribute):
            f = f.value
        if isinstance(f, ast.Name) and f.id in ("LOGGER", "logging", "logger", "log"):
            return True
    return isinstance(st, ast.Pass)


class _Canon(ast.NodeTransformer):
    """renames the local variables of a function body in order of first binding, so that the comparison with
    the modelled skeleton does not depend on how locals are called"""
    def __init__(self):
        self.names = {}

    def bind(self, name):
        if name not in self.names:
            self.names[name] = f"v{len(self.names)}"

    def visit_Name(self, node):
        if isinstance(node.ctx, ast.Store):
            self.bind(node.id)
        if node.id in self.names:
            return ast.copy_location(ast.Name(id=self.names[node.id], ctx=node.ctx), node)
        return node


class _Rename(ast.NodeTransformer):
    def __init__(self, mapping):
        self.mapping = mapping

    def visit_Name(self, node):
        if node.id in self.mapping:
            return ast.copy_location(ast.Name(id=self.mapping[node.id], ctx=node.ctx), node)
        return node


class _CompCanon(ast.NodeTransformer):
    """variables bound by a comprehension are local to it: rename them there, independently of the function's locals"""
    def _comp(self, node):
        self.generic_visit(node)
        bound = []
        for g in node.generators:
            for n in ast.walk(g.target):
                if isinstance(n, ast.Name) and n.id not in bound:
                    bound.append(n.id)
        return _Rename({b: f"_c{i}" for i, b in enumerate(bound)}).visit(node)

    visit_ListComp = visit_SetComp = visit_GeneratorExp = visit_DictComp = _comp


def _canon_body(stmts) -> list:
    stmts = [_CompCanon().visit(st) for st in stmts]
    c = _Canon()
    # two passes: bind every stored local first (comprehension variables included), then rename all uses
    for st in stmts:
        for n in ast.walk(st):
            if isinstance(n, ast.Name) and isinstance(n.ctx, ast.Store) and not n.id.startswith("_c"):
                c.bind(n.id)
    return [ast.unparse(c.visit(st)) for st in stmts]


# ---- start-up sequences (C13): the order in which run_forever / setup create what the replayed
# handlers use, and where they subscribe (subscribing replays the backlog through the handler)
RES = {"state_producer": 1, "state_consumer": 2, "ticker": 3, "new_wakeup": 4, "time_marks": 5}


def _start_events(fn: ast.AST, inline_super=None) -> list:
    """recognised statements:  self.<x> = ... | self.<x>: T = ... | await self.state_consumer.subscribe(...) |
    await super().<same name>(...) | self._mark_time(...) ; anything else fails"""
    out = []
    for st in fn.body:
        if _is_noise(st):
            continue  # docstring / logging
        tgt = None
        if isinstance(st, ast.Assign) and len(st.targets) == 1:
            tgt = st.targets[0]
        elif isinstance(st, ast.AnnAssign):
            tgt = st.target
        if tgt is not None:
            if isinstance(tgt, ast.Attribute) and isinstance(tgt.value, ast.Name) and tgt.value.id == "self" and tgt.attr in RES:
                out.append(("create", RES[tgt.attr]))
                continue
            raise Unrecognised(f"{fn.name}: unexpected assignment {ast.dump(tgt)[:80]}")
        if isinstance(st, ast.Expr):
            v = st.value
            if isinstance(v, ast.Await):
                call = v.value
                if (isinstance(call, ast.Call) and isinstance(call.func, ast.Attribute) and call.func.attr == "subscribe"
                        and isinstance(call.func.value, ast.Attribute) and call.func.value.attr == "state_consumer"):
                    out.append(("replay",))
                    continue
                if (isinstance(call, ast.Call) and isinstance(call.func, ast.Attribute) and call.func.attr == fn.name
                        and isinstance(call.func.value, ast.Call) and isinstance(call.func.value.func, ast.Name)
                        and call.func.value.func.id == "super"):
                    if inline_super is None:
                        raise Unrecognised(f"{fn.name}: super() call but no base sequence")
                    out.extend(inline_super)
                    continue
            if (isinstance(v, ast.Call) and isinstance(v.func, ast.Attribute) and v.func.attr == "_mark_time"):
                out.append(("create", RES["time_marks"]))
                continue
        raise Unrecognised(f"{fn.name}: unexpected statement {ast.dump(st)[:100]}")
    return out


def _startup(src: Path) -> dict:
    comp = ast.parse((src / "core/components/component.py").read_text())
    base = ast.parse((src / "core/management/schedulers/base.py").read_text())
    master = ast.parse((src / "core/management/schedulers/master.py").read_text())
    c = _start_events(_func(comp, "run_forever", "BaseComponent"))
    b = _start_events(_func(base, "setup", "BaseScheduler"))
    m = _start_events(_func(master, "setup", "MasterScheduler"), inline_super=b)
    return dict(component=c, scheduler=b, master=m)


def coq_start(evs) -> str:
    return "[" + "; ".join(f"SCreate {e[1]}%positive" if e[0] == "create" else "SReplay" for e in evs) + "]"


def coq_string(s: str) -> str:
    if any(ord(c) < 32 or ord(c) > 126 for c in s):
        raise Unrecognised(f"non printable constant {s!r}")
    return '"' + s.replace('"', '""') + '"'


# ---- the master's waiting loop (C07/C08): MasterScheduler._do_tick must keep the statement skeleton that
# Model/WakeFlag.v models; the one degree of freedom extracted is whether the idle branch clears the flag
_DO_TICK = [
    "(components, when) = self.get_first_wakeups()",
    "assert when is not None",
    "self.new_wakeup.clear()",
    "new = asyncio.create_task(self.new_wakeup.wait())",
    "current = asyncio.create_task(asyncio.sleep(self.sleep_time(when)))",
    "(which, _) = await asyncio.wait([current, new], return_when=asyncio.tasks.FIRST_COMPLETED)",
    "if new in which:\n    current.cancel()\n    return",
    "new.cancel()",
    "for component in components:\n    del self.wakeups[component]",
    "await self.ticker(when, {component for component in components})",
    "self._mark_time(self.ticker.time)",
]


def _master_loop(src: Path) -> bool:
    master = ast.parse((src / "core/management/schedulers/master.py").read_text())
    fn = _func(master, "_do_tick", "MasterScheduler")
    stmts = [st for st in fn.body if not _is_noise(st)]
    if not stmts or not isinstance(stmts[0], ast.If) or ast.unparse(stmts[0].test) != "not self.wakeups" or stmts[0].orelse:
        raise Unrecognised("_do_tick: does not start with `if not self.wakeups:`")
    body = [ast.unparse(st) for st in stmts[0].body if not _is_noise(st)]
    if body == ["self.new_wakeup.clear()", "await self.new_wakeup.wait()"]:
        clears = True
    elif body == ["await self.new_wakeup.wait()"]:
        clears = False
    else:
        raise Unrecognised(f"_do_tick: unexpected idle branch {body}")

    def strip(st):
        for n in ast.walk(st):
            for fld in ("body", "orelse"):
                if isinstance(getattr(n, fld, None), list):
                    setattr(n, fld, [x for x in getattr(n, fld) if not _is_noise(x)] or getattr(n, fld)[:0])
        return st

    rest = _canon_body([strip(st) for st in stmts[1:]])
    want = _canon_body(ast.parse("async def f():\n" + "\n".join("    " + ln for x in _DO_TICK for ln in x.splitlines())).body[0].body)
    if rest != want:
        diff = [(i, a, b) for i, (a, b) in enumerate(zip(rest + [None] * len(want), want + [None] * len(rest))) if a != b]
        raise Unrecognised(f"_do_tick: statement skeleton differs from the modelled one at {diff[:1]}")
    return clears


# ---- behavioural fall-backs: when the source shape of a section is not recognised (a refactoring), the same facts
# are established by running the current code itself.  The generated file says which way each section was obtained.
def _import_tickit():
    import importlib
    import sys
    root = str(SRC.parent)
    if root not in sys.path:
        sys.path.insert(0, root)
    mod = importlib.import_module("tickit")
    if not str(getattr(mod, "__file__", "")).startswith(root):
        raise Unrecognised(f"tickit is imported from {getattr(mod, '__file__', None)}, not from {root}")
    return mod


def _probe_topics() -> dict:
    """input_topic(n) == prefix + n + suffix for a battery of names (same for output_topic); '' is rejected"""
    _import_tickit()
    from tickit.utils.topic_naming import input_topic, output_topic
    names = ["a", "zz", "dev1", "x-in", "out", "q_q", "tickit-", "A.b", "c:d", "e f", "g/h", "-in", "-out", "external", "expose"]
    alpha = ["a", "_", ":", " ", "/", ".", "-", "+", "#", "Z", "7"]
    names += [x + y for x in alpha for y in alpha]
    out = {}
    for key, fn in (("in", input_topic), ("out", output_topic)):
        t = fn("a")
        i = t.find("a")
        cands = [(t[:j], t[j + 1:]) for j in range(len(t)) if t[j] == "a"]
        ok = [(pre, suf) for pre, suf in cands if all(fn(n) == pre + n + suf for n in names)]
        if len(ok) != 1:
            raise Unrecognised(f"{fn.__name__} is not '<prefix>' + name + '<suffix>' on the probe names")
        out[key + "_prefix"], out[key + "_suffix"] = ok[0]
    for fn in (input_topic, output_topic):
        try:
            fn("")
        except ValueError:
            continue
        raise Unrecognised(f"{fn.__name__}('') is accepted")
    return out


def _probe_startup() -> dict:
    """what exists on the object at the moment it subscribes (i.e. when the backlog is replayed through its handler)"""
    import asyncio
    _import_tickit()
    from tickit.core.components.device_component import DeviceComponent
    from tickit.core.device import Device, DeviceUpdate
    from tickit.core.management.event_router import InverseWiring
    from tickit.core.management.schedulers.base import BaseScheduler
    from tickit.core.management.schedulers.master import MasterScheduler

    attrs = {1: ("state_producer",), 2: ("state_consumer",), 3: ("ticker",), 4: ("new_wakeup",), 5: ("last_time", "last_tick_time")}

    def run(make, start, wanted):
        seen = {}

        class Cons:
            def __init__(self, cb):
                pass

            async def subscribe(self, topics):
                # state_consumer is being assigned by the very statement that created us: it exists by construction
                seen["at"] = [r for r in wanted if r == 2 or all(hasattr(seen["obj"], a) for a in attrs[r])]

        class Prod:
            async def produce(self, topic, value):
                pass

        async def main():
            obj = make(Cons, Prod)
            seen["obj"] = obj
            t = asyncio.ensure_future(start(obj, Cons, Prod))
            for _ in range(50):
                await asyncio.sleep(0)
                if "at" in seen:
                    break
            t.cancel()
            try:
                await t
            except BaseException:  # noqa
                pass
        asyncio.run(main())
        if "at" not in seen:
            raise Unrecognised("start-up probe: subscribe was never called")
        before = seen["at"]
        after = [r for r in wanted if r not in before]
        return [("create", r) for r in before] + [("replay",)] + [("create", r) for r in after]

    class D(Device):
        def update(self, time, inputs):
            return DeviceUpdate({}, None)

    comp = run(lambda C, P: DeviceComponent(name="probe", device=D()), lambda o, C, P: o.run_forever(C, P), [1, 2])
    wiring = InverseWiring({"probe": {}})

    class BS(BaseScheduler):
        async def schedule_interrupt(self, source):
            pass

    sched = run(lambda C, P: BS(wiring, C, P), lambda o, C, P: o.setup(), [3, 1, 2])
    master = run(lambda C, P: MasterScheduler(wiring, C, P), lambda o, C, P: o.setup(), [4, 5, 3, 1, 2])
    return dict(component=comp, scheduler=sched, master=master)


def _probe_master_loop() -> bool:
    """the scenario the flag logic exists for: nothing pending and a stale new_wakeup flag -- the loop must wait,
    not fall through to its assertion; and a fresh wakeup must still get its tick"""
    import asyncio
    _import_tickit()
    from tickit.core.management.event_router import InverseWiring
    from tickit.core.management.schedulers.master import MasterScheduler
    from tickit.core.typedefs import ComponentID, SimTime
    res = {}

    class Cons:
        def __init__(self, cb):
            pass

        async def subscribe(self, topics):
            pass

    class Prod:
        async def produce(self, topic, value):
            pass

    async def main():
        s = MasterScheduler(InverseWiring({"probe": {}}), Cons, Prod)
        await s.setup()
        ticks = []

        async def fake_ticker(when, comps):
            ticks.append((int(when), sorted(comps)))
        fake_ticker.time = SimTime(0)
        s.ticker = fake_ticker
        s.wakeups.clear()
        s.new_wakeup.set()                      # stale flag, nothing pending
        t = asyncio.ensure_future(s._do_tick())
        for _ in range(20):
            await asyncio.sleep(0)
        res["blocked"] = not t.done()
        res["failed"] = t.done() and not t.cancelled() and t.exception() is not None
        if not t.done():
            s.add_wakeup(ComponentID("probe"), SimTime(0))
            for _ in range(40):
                await asyncio.sleep(0)
                if t.done():
                    break
            if not t.done():                    # the turn that noticed the wakeup returned; the next one ticks
                pass
        if t.done() and not res["failed"]:
            t2 = asyncio.ensure_future(s._do_tick())
            for _ in range(40):
                await asyncio.sleep(0)
                if t2.done():
                    break
            t2.cancel()
        t.cancel()
        res["ticks"] = ticks
    asyncio.run(main())
    if res.get("failed"):
        return False
    if not res.get("blocked"):
        raise Unrecognised(f"_do_tick neither waits nor fails on a stale flag: {res}")
    if res.get("ticks") != [(0, ["probe"])]:
        raise Unrecognised(f"_do_tick does not serve a fresh wakeup after a stale flag: {res}")
    return True


SECTIONS = ["topics", "pseudo", "tcp", "startup", "master_loop"]


def extract() -> dict:
    """every section is translated on its own; a section whose source shape is not recognised is left out of
    the generated file (so exactly the theorems that rest on it stop compiling) and reported in errors"""
    out, errors = {}, {}

    how = {}

    def section(name, fn, probe=None):
        try:
            out.update(fn())
            how[name] = "source shape (ast)"
            return
        except Unrecognised as e:
            msg = str(e)
        except (OSError, SyntaxError) as e:
            msg = f"cannot read / parse the source: {e!r}"
        if probe is not None:
            try:
                out.update(probe())
                how[name] = f"probing the running code (source shape not recognised: {msg})"
                return
            except Unrecognised as e2:
                msg += f"; probe: {e2}"
            except Exception as e2:  # noqa  -- the probe itself crashed on this source
                msg += f"; probe raised {e2!r}"
        errors[name] = msg

    def topics():
        tn = ast.parse((SRC / "utils/topic_naming.py").read_text())
        _validity_rejects_empty(tn)
        ipre, isuf = _topic_parts(_func(tn, "input_topic"))
        opre, osuf = _topic_parts(_func(tn, "output_topic"))
        return dict(in_prefix=ipre, in_suffix=isuf, out_prefix=opre, out_suffix=osuf)

    section("topics", topics, _probe_topics)
    section("pseudo", lambda: dict(pseudo=_pseudo_names(ast.parse((SRC / "core/management/schedulers/nested.py").read_text()))))
    section("tcp", lambda: dict(unknown_reply=_unknown_reply(ast.parse((SRC / "adapters/tcp.py").read_text())),
                                read_size=_read_size(ast.parse((SRC / "adapters/io/tcp_io.py").read_text()))))
    section("startup", lambda: dict(startup=_startup(SRC)), lambda: dict(startup=_probe_startup()))
    section("master_loop", lambda: dict(master_idle_clears=_master_loop(SRC)), lambda: dict(master_idle_clears=_probe_master_loop()))
    out["errors"] = errors
    out["how"] = how
    return out


def render(c: dict) -> str:
    parts = ["(* GENERATED by harness/gen_consts.py from the tickit sources -- do not edit *)",
             "From Coq Require Import String Ascii List ZArith Bool.", "Import ListNotations."]
    for name, msg in sorted(c["errors"].items()):
        parts.append("(* section %s NOT TRANSLATED: %s *)" % (name, msg.replace("*)", "* )").replace("(*", "( *")))
    for name, msg in sorted(c.get("how", {}).items()):
        parts.append("(* section %s obtained from: %s *)" % (name, msg.replace("*)", "* )").replace("(*", "( *")))
    if "in_prefix" in c:
        for k in ("in_prefix", "in_suffix", "out_prefix", "out_suffix"):
            parts.append(f"Definition {k} : list ascii := list_ascii_of_string {coq_string(c[k])}.")
    if "pseudo" in c:
        ps = "; ".join(f"list_ascii_of_string {coq_string(p)}" for p in c["pseudo"])
        parts.append(f"Definition pseudo_components : list (list ascii) := [{ps}].")
    if "unknown_reply" in c:
        parts.append(f"Definition unknown_reply : list ascii := list_ascii_of_string {coq_string(c['unknown_reply'])}.")
        parts.append(f"Definition tcp_read_size : Z := {c['read_size']}%Z.")
    if "startup" in c:
        parts.append("""
(* start-up sequences, in source order: what run_forever / setup create (1 state_producer,
   2 state_consumer, 3 ticker, 4 new_wakeup, 5 time marks) and where they subscribe *)
Inductive start_step := SCreate (r : positive) | SReplay.""")
        parts.append(f"Definition component_start : list start_step := {coq_start(c['startup']['component'])}.")
        parts.append(f"Definition scheduler_start : list start_step := {coq_start(c['startup']['scheduler'])}.")
        parts.append(f"Definition master_start : list start_step := {coq_start(c['startup']['master'])}.")
    if "master_idle_clears" in c:
        parts.append("""
(* MasterScheduler._do_tick has the statement skeleton of Model/WakeFlag.v; does its idle branch
   clear new_wakeup before waiting for it? *)""")
        parts.append(f"Definition master_idle_clears : bool := {'true' if c['master_idle_clears'] else 'false'}.")
    return "\n".join(parts) + "\n"


def regenerate() -> dict:
    c = extract()
    txt = render(c)
    OUT.parent.mkdir(exist_ok=True)
    if not OUT.exists() or OUT.read_text() != txt:
        OUT.write_text(txt)
    return c


if __name__ == "__main__":
    print(regenerate())
