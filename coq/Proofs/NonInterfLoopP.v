(* Non-interference of a disconnected part over whole runs of the master in simulation time
   (Model/SimTime.v): a stuttering simulation between the base run and the extended run. *)
From TV Require Import Base Model.Wiring Model.Ticker Model.Component Model.Sim Model.SimTime
  Proofs.SimP Proofs.FlattenP Proofs.NonInterfP Proofs.FrameP Proofs.AgreeP Proofs.NonInterfNestedP.
Open Scope Z_scope.

(* ---------- the earliest wakeup *)
Definition is_min (l : list (comp * Z)) (m : Z) : Prop :=
  (exists e, In e l /\ snd e = m) /\ forall e, In e l -> m <= snd e.

Lemma fold_min_spec l : forall x,
  exists m, fold_left (fun m (e : comp * Z) => match m with None => Some (snd e) | Some y => Some (Z.min y (snd e)) end) l (Some x) = Some m /\
            m <= x /\ (forall e, In e l -> m <= snd e) /\ (m = x \/ exists e, In e l /\ snd e = m).
Proof.
  induction l as [|a r IH]; intros x; cbn [fold_left].
  - exists x. split; [reflexivity|]. split; [lia|]. split; [intros e []|left; reflexivity].
  - destruct (IH (Z.min x (snd a))) as [m [Hf [Hle [Hall Hex]]]]. exists m. split; [exact Hf|].
    split; [lia|]. split.
    + intros e [E|Hi]; [subst e; lia | apply Hall; exact Hi].
    + destruct Hex as [E|[e [Hi He]]].
      * destruct (Z.min_spec x (snd a)) as [[_ Hm]|[_ Hm]]; [left; lia | right; exists a; split; [left; reflexivity | lia]].
      * right. exists e. split; [right; exact Hi | exact He].
Qed.

Lemma min_wake_spec l : match min_wake l with None => l = [] | Some m => is_min l m end.
Proof.
  destruct l as [|a r]; [reflexivity|]. unfold min_wake. cbn [fold_left].
  destruct (fold_min_spec r (snd a)) as [m [Hf [Hle [Hall Hex]]]]. rewrite Hf. split.
  - destruct Hex as [E|[e [Hi He]]]; [exists a; split; [left; reflexivity | lia] | exists e; split; [right; exact Hi | exact He]].
  - intros e [E|Hi]; [subst e; exact Hle | apply Hall; exact Hi].
Qed.

Lemma first_wakeups_spec w :
  match first_wakeups w with
  | None => w = []
  | Some (m, roots) => is_min w m /\ roots = map fst (filter (fun e : comp * Z => Z.eqb (snd e) m) w)
  end.
Proof.
  unfold first_wakeups. pose proof (min_wake_spec w) as H. destruct (min_wake w) as [m|]; [split; [exact H | reflexivity] | exact H].
Qed.

Section Loop.
Variable isX : comp -> bool.
Definition oldk (e : comp * Z) : bool := negb (isX (fst e)).

Lemma memb_roots_filter (P : comp * Z -> bool) c w : isX c = false ->
  memb c (map fst (filter P w)) = memb c (map fst (filter P (filter oldk w))).
Proof.
  intros Hc. induction w as [|e r IH]; [reflexivity|]. cbn [filter]. unfold oldk at 1.
  destruct (isX (fst e)) eqn:Ee; cbn [negb].
  - destruct (P e); [|exact IH]. cbn [map memb existsb]. rewrite <- IH.
    destruct (Pos.eqb_spec c (fst e)) as [E|_]; [rewrite E, Ee in Hc; discriminate | reflexivity].
  - cbn [filter]. destruct (P e); [|exact IH]. cbn [map memb existsb]. unfold memb in IH. rewrite IH. reflexivity.
Qed.

Lemma filter_remove_commute (roots roots' : list comp) w :
  (forall c, isX c = false -> memb c roots' = memb c roots) ->
  filter oldk (filter (fun e : comp * Z => negb (memb (fst e) roots')) w) =
  filter (fun e : comp * Z => negb (memb (fst e) roots)) (filter oldk w).
Proof.
  intros H. induction w as [|e r IH]; [reflexivity|]. cbn [filter].
  unfold oldk at 2. destruct (isX (fst e)) eqn:Ee; cbn [negb].
  - destruct (negb (memb (fst e) roots')); [|exact IH]. cbn [filter]. unfold oldk at 1. rewrite Ee. exact IH.
  - cbn [filter]. rewrite <- (H (fst e) Ee). destruct (negb (memb (fst e) roots')); [|exact IH].
    cbn [filter]. unfold oldk at 1. rewrite Ee. cbn [negb]. rewrite IH. reflexivity.
Qed.

Lemma is_min_sub w m m' : is_min w m' -> is_min (filter oldk w) m -> m' <= m.
Proof.
  intros [_ Hall] [[e [Hi He]] _]. apply filter_In in Hi. destruct Hi as [Hi _]. rewrite <- He. apply Hall. exact Hi.
Qed.

(* the roots of the extended tick that belong to the base are the roots of the base tick, if the
   base has something due at the same time; otherwise none of them belongs to the base *)
Lemma roots_same w m roots roots' :
  first_wakeups w = Some (m, roots') -> first_wakeups (filter oldk w) = Some (m, roots) ->
  forall c, isX c = false -> memb c roots' = memb c roots.
Proof.
  intros H' H c Hc. pose proof (first_wakeups_spec w) as S'. rewrite H' in S'. destruct S' as [_ ->].
  pose proof (first_wakeups_spec (filter oldk w)) as S. rewrite H in S. destruct S as [_ ->].
  apply memb_roots_filter. exact Hc.
Qed.

Lemma roots_stutter w m' roots' :
  first_wakeups w = Some (m', roots') ->
  (match first_wakeups (filter oldk w) with None => True | Some (m, _) => m <> m' end) ->
  forall c, isX c = false -> memb c roots' = false.
Proof.
  intros H' Hb c Hc. pose proof (first_wakeups_spec w) as S'. rewrite H' in S'. destruct S' as [Hmin' ->].
  apply memb_false. intros Hin. apply in_map_iff in Hin. destruct Hin as [e [Ee Hi]]. apply filter_In in Hi.
  destruct Hi as [Hi Hv]. apply Z.eqb_eq in Hv.
  assert (Ho : In e (filter oldk w)) by (apply filter_In; split; [exact Hi | unfold oldk; rewrite Ee, Hc; reflexivity]).
  pose proof (first_wakeups_spec (filter oldk w)) as S. destruct (first_wakeups (filter oldk w)) as [[m roots]|].
  - destruct S as [Hmin _]. pose proof (is_min_sub w m m' Hmin' Hmin) as Hle. destruct Hmin as [_ Hall].
    pose proof (Hall e Ho) as H2. lia.
  - rewrite S in Ho. destruct Ho.
Qed.
End Loop.

Lemma existsb_and_false {A} (f : A -> bool) l : existsb (fun k => f k && false) l = false.
Proof. induction l as [|k t IH]; [reflexivity|]. cbn [existsb]. rewrite andb_false_r. exact IH. Qed.

Lemma tick_empty cfg devf inner lv time s : tick_with cfg devf inner lv time [] [] s = (s, [], []).
Proof.
  unfold tick_with.
  assert (H : forall l a, ta_touched a = [] ->
     fold_left (tick_step devf inner lv (l_conns (level_of cfg lv)) time [] []) l a = a).
  { induction l as [|ck r IH]; intros a Ha; [reflexivity|]. cbn [fold_left].
    assert (E : tick_step devf inner lv (l_conns (level_of cfg lv)) time [] [] a ck = a).
    { apply (tick_step_outside devf). unfold in_extent. rewrite Ha. cbn [memb existsb orb]. apply existsb_and_false. }
    rewrite E. apply IH. exact Ha. }
  rewrite H by reflexivity. reflexivity.
Qed.

Lemma filter_all_true {A} (f : A -> bool) l : (forall x, In x l -> f x = true) -> filter f l = l.
Proof.
  induction l as [|x r IH]; intros H; [reflexivity|]. cbn [filter]. rewrite (H x (or_introl eq_refl)).
  rewrite IH by (intros y Hy; apply H; right; exact Hy). reflexivity.
Qed.

(* the shape of the extended top level.  A component is a device, or a system simulation of the
   added part X (all devices of its subtree in X, all its scheduler levels marked as X levels), or a
   system simulation of the base (none of its devices in X, none of its levels an X level or the
   top level, and the two configurations coincide on its subtree) *)
Definition nkind (cfg cfg' : config) (isX : comp -> bool) (isXL : positive -> bool) (fuel : nat) (ck : comp * ckind) : Prop :=
  match snd ck with
  | KDev => True
  | KSys lv' =>
      (isX (fst ck) = true /\ (forall d, In d (devices_below cfg' fuel lv') -> isX d = true) /\
       (forall l, In l (levels_below cfg' fuel lv') -> isXL l = true)) \/
      (isX (fst ck) = false /\ (forall d, In d (devices_below cfg fuel lv') -> isX d = false) /\
       (forall l, In l (levels_below cfg fuel lv') -> isXL l = false /\ l <> top) /\ same_below cfg cfg' fuel lv')
  end.

Lemma nkind_okkind2 cfg cfg' devf isX isXL fuel ck :
  nkind cfg cfg' isX isXL fuel ck ->
  okkind2 (on_tick_level cfg devf fuel) (on_tick_level cfg' devf fuel) isX isXL top ck.
Proof.
  unfold nkind, okkind2. destruct (snd ck) as [|lv']; [auto|]. intros [[Hc [Hd Hl]]|[Hc [Hd [Hl Hsb]]]].
  - left. split; [exact Hc|]. exists (devices_below cfg' fuel lv'), (levels_below cfg' fuel lv'). split; [exact Hd|]. split; [exact Hl|].
    intros t chg s. apply (on_tick_level_framed cfg' devf fuel lv' t chg s).
  - right. split; [exact Hc|]. exists (devices_below cfg fuel lv'), (levels_below cfg fuel lv'). split; [exact Hd|]. split; [exact Hl|].
    destruct (below_eq cfg cfg' fuel lv' Hsb) as [EL ED]. split; [|split].
    + intros t chg s. apply (on_tick_level_framed cfg devf fuel lv' t chg s).
    + intros t chg s. pose proof (on_tick_level_framed cfg' devf fuel lv' t chg s) as H. rewrite EL, ED in H. exact H.
    + intros t chg s s' Hag. apply (on_tick_level_agree cfg cfg' devf fuel lv' Hsb t chg s s' Hag).
Qed.

Section Run.
Variables cfg cfg' : config.
Variable devf : devfun.
Variable isX : comp -> bool.
Variable isXL : positive -> bool.
Hypothesis Hord : l_order (level_of cfg top) = filter (fun ck : comp * ckind => negb (isX (fst ck))) (l_order (level_of cfg' top)).
Hypothesis Hcon : l_conns (level_of cfg top) = filter (oldc isX) (l_conns (level_of cfg' top)).
Variable fuel : nat.
Hypothesis Hk : forall ck, In ck (l_order (level_of cfg' top)) -> nkind cfg cfg' isX isXL fuel ck.
Hypothesis Hsep : forall k, In k (l_conns (level_of cfg' top)) -> isX (out_comp k) = isX (in_comp k).
Hypothesis Hext : isX ext_id = false.
Hypothesis Hexp : isX exp_id = false.
Hypothesis HXL : isXL top = false.
Variable h : Z.

Lemma Hk_ok : forall ck, In ck (l_order (level_of cfg' top)) ->
  okkind2 (on_tick_level cfg devf fuel) (on_tick_level cfg' devf fuel) isX isXL top ck.
Proof. intros ck Hi. apply nkind_okkind2. apply Hk. exact Hi. Qed.

Definition pre_tick (s : sstate) (when : Z) (roots : list comp) : sstate :=
  log_tick (set_wake s top (filter (fun e : comp * Z => negb (memb (fst e) roots)) (wake_of s top))) top when roots.

Lemma wake_of_pre_tick s when roots :
  wake_of (pre_tick s when roots) top = filter (fun e : comp * Z => negb (memb (fst e) roots)) (wake_of s top).
Proof. unfold pre_tick, log_tick, wake_of. cbn [s_wake]. apply (wake_of_set_wake s top). Qed.

Lemma lrel_pre_tick s s' when roots when' roots' : lrel isXL top s s' -> lrel isXL top (pre_tick s when roots) (pre_tick s' when' roots').
Proof.
  intros H l Hl Hne. destruct (H l Hl Hne) as [A [B C]]. split; [|split; [exact B | exact C]].
  unfold pre_tick. change (wake_of (log_tick ?x top ?t ?r) l) with (wake_of x l).
  rewrite !wake_of_set_wake_other by exact Hne. exact A.
Qed.

Lemma lrel_pre_tick_r s s' when' roots' : lrel isXL top s s' -> lrel isXL top s (pre_tick s' when' roots').
Proof.
  intros H l Hl Hne. destruct (H l Hl Hne) as [A [B C]]. split; [|split; [exact B | exact C]].
  unfold pre_tick. change (wake_of (log_tick ?x top ?t ?r) l) with (wake_of x l).
  rewrite wake_of_set_wake_other by exact Hne. exact A.
Qed.

Lemma srel_prepare s s' when roots roots' :
  srel2 isX isXL top s s' -> (forall c, isX c = false -> memb c roots' = memb c roots) ->
  srel2 isX isXL top (pre_tick s when roots) (pre_tick s' when roots').
Proof.
  intros [[Hdc [Hn Hw]] Hl] Hr. split; [|apply lrel_pre_tick; exact Hl]. split; [exact Hdc|]. split; [exact Hn|].
  rewrite !wake_of_pre_tick, <- Hw. apply (filter_remove_commute isX roots roots'). exact Hr.
Qed.

Lemma srel_stutter s s' when roots' :
  srel2 isX isXL top s s' -> (forall c, isX c = false -> memb c roots' = false) ->
  srel2 isX isXL top s (pre_tick s' when roots').
Proof.
  intros [[Hdc [Hn Hw]] Hl] Hr. split; [|apply lrel_pre_tick_r; exact Hl]. split; [exact Hdc|]. split; [exact Hn|].
  rewrite wake_of_pre_tick, (filter_remove_commute isX [] roots') by (intros c Hc; rewrite (Hr c Hc); reflexivity).
  fold (oldk isX). unfold oldk in Hw. unfold oldk. rewrite Hw. apply filter_all_true. reflexivity.
Qed.

Lemma loop_sim : forall n' s s' ob' s1' o1' fin',
  srel2 isX isXL top s s' ->
  sim_loop cfg' devf n' fuel h s' ob' = (s1', o1', fin') ->
  exists n s1 fin, (n <= n')%nat /\
    sim_loop cfg devf n fuel h s (filter (notX isX) ob') = (s1, filter (notX isX) o1', fin) /\
    srel2 isX isXL top s1 s1' /\ (fin' = true -> fin = true).
Proof.
  induction n' as [|k IH]; intros s s' ob' s1' o1' fin' Hs Hrun.
  - cbn [sim_loop] in Hrun. inversion Hrun; subst. exists 0%nat, s, false. split; [lia|]. split; [reflexivity|]. split; [exact Hs | discriminate].
  - cbn [sim_loop] in Hrun.
    assert (Hw : filter (oldk isX) (wake_of s' top) = wake_of s top) by (destruct Hs as [[_ [_ Hw]] _]; exact Hw).
    pose proof (first_wakeups_spec (wake_of s' top)) as SP'.
    destruct (first_wakeups (wake_of s' top)) as [[m' roots']|] eqn:E'.
    2: { inversion Hrun; subst. exists 1%nat, s, true. split; [lia|]. split; [|split; [exact Hs | reflexivity]].
         cbn [sim_loop]. rewrite <- Hw, SP'. reflexivity. }
    destruct SP' as [Hmin' _].
    pose proof (first_wakeups_spec (wake_of s top)) as SP.
    destruct (Z.leb m' h) eqn:Eh.
    2: { inversion Hrun; subst. exists 1%nat, s, true. split; [lia|]. split; [|split; [exact Hs | reflexivity]].
         cbn [sim_loop]. destruct (first_wakeups (wake_of s top)) as [[m roots]|]; [|reflexivity].
         destruct SP as [Hmin _]. rewrite <- Hw in Hmin. pose proof (is_min_sub isX _ _ _ Hmin' Hmin) as Hle.
         assert (Em : Z.leb m h = false) by (apply Z.leb_gt; apply Z.leb_gt in Eh; lia). rewrite Em. reflexivity. }
    fold (pre_tick s' m' roots') in Hrun. unfold tick_level in Hrun.
    destruct (tick_with cfg' devf (on_tick_level cfg' devf fuel) top m' roots' [] (pre_tick s' m' roots')) as [[s2' out'] o'] eqn:Et'.
    assert (Hstut : (forall c, isX c = false -> memb c roots' = false) ->
                    exists n s1 fin, (n <= S k)%nat /\
                      sim_loop cfg devf n fuel h s (filter (notX isX) ob') = (s1, filter (notX isX) o1', fin) /\
                      srel2 isX isXL top s1 s1' /\ (fin' = true -> fin = true)).
    { intros Hr.
      pose proof (tick_noninterference2 cfg cfg' devf (on_tick_level cfg devf fuel) (on_tick_level cfg' devf fuel) isX isXL top m' [] roots' []
                    s (pre_tick s' m' roots') Hord Hcon Hk_ok Hsep Hext Hexp HXL) as Hn.
      cbv zeta in Hn. rewrite tick_empty, Et' in Hn.
      destruct Hn as [Hs2 [_ Ho]]; [intros c Hc; rewrite (Hr c Hc); reflexivity | apply srel_stutter; assumption |].
      destruct (IH s s2' (ob' ++ o') s1' o1' fin' Hs2 Hrun) as [n [s1 [fin [Hle [Hb [Hr1 Hf]]]]]].
      rewrite filter_app, Ho, app_nil_r in Hb. exists n, s1, fin. split; [lia|]. split; [exact Hb|]. split; assumption. }
    destruct (first_wakeups (wake_of s top)) as [[m roots]|] eqn:E.
    + destruct (Z.eq_dec m m') as [Em|Hne].
      * subst m.
        assert (Hr : forall c, isX c = false -> memb c roots' = memb c roots).
        { apply (roots_same isX (wake_of s' top) m'); [exact E' | rewrite Hw; exact E]. }
        pose proof (tick_noninterference2 cfg cfg' devf (on_tick_level cfg devf fuel) (on_tick_level cfg' devf fuel) isX isXL top m' roots roots' []
                      (pre_tick s m' roots) (pre_tick s' m' roots') Hord Hcon Hk_ok Hsep Hext Hexp HXL Hr (srel_prepare s s' m' roots roots' Hs Hr)) as Hn.
        cbv zeta in Hn. rewrite Et' in Hn.
        destruct (tick_with cfg devf (on_tick_level cfg devf fuel) top m' roots [] (pre_tick s m' roots)) as [[s2 out] o] eqn:Et.
        destruct Hn as [Hs2 [_ Ho]].
        destruct (IH s2 s2' (ob' ++ o') s1' o1' fin' Hs2 Hrun) as [n [s1 [fin [Hle [Hb [Hr1 Hf]]]]]].
        rewrite filter_app, Ho in Hb. exists (S n), s1, fin. split; [lia|]. split; [|split; assumption].
        cbn [sim_loop]. rewrite E, Eh. fold (pre_tick s m' roots). unfold tick_level. rewrite Et. exact Hb.
      * apply Hstut. apply (roots_stutter isX (wake_of s' top) m' roots' E'). rewrite Hw, E. exact Hne.
    + apply Hstut. apply (roots_stutter isX (wake_of s' top) m' roots' E'). rewrite Hw, E. exact I.
Qed.
End Run.

(* a complete run does not change when given more steps *)
Lemma sim_loop_complete_mono cfg devf fuel h : forall n s ob s1 o1,
  sim_loop cfg devf n fuel h s ob = (s1, o1, true) ->
  forall m, (n <= m)%nat -> sim_loop cfg devf m fuel h s ob = (s1, o1, true).
Proof.
  induction n as [|k IH]; intros s ob s1 o1 H m Hm; [cbn in H; discriminate|].
  destruct m as [|m]; [lia|]. cbn [sim_loop] in *.
  destruct (first_wakeups (wake_of s top)) as [[when roots]|]; [|exact H].
  destruct (Z.leb when h); [|exact H].
  destruct (tick_level cfg devf fuel top when roots [] _) as [[s2 out] o].
  apply (IH _ _ _ _ H). lia.
Qed.

Section Whole.
Variables cfg cfg' : config.
Variable devf : devfun.
Variable isX : comp -> bool.
Variable isXL : positive -> bool.
Hypothesis Hord : l_order (level_of cfg top) = filter (fun ck : comp * ckind => negb (isX (fst ck))) (l_order (level_of cfg' top)).
Hypothesis Hcon : l_conns (level_of cfg top) = filter (oldc isX) (l_conns (level_of cfg' top)).
Variable fuel : nat.
Hypothesis Hk : forall ck, In ck (l_order (level_of cfg' top)) -> nkind cfg cfg' isX isXL fuel ck.
Hypothesis Hsep : forall k, In k (l_conns (level_of cfg' top)) -> isX (out_comp k) = isX (in_comp k).
Hypothesis Hext : isX ext_id = false.
Hypothesis Hexp : isX exp_id = false.
Hypothesis HXL : isXL top = false.

Lemma memb_map_fst_filter c (l : list (comp * ckind)) : isX c = false ->
  memb c (map fst l) = memb c (map fst (filter (fun ck : comp * ckind => negb (isX (fst ck))) l)).
Proof.
  intros Hc. induction l as [|e r IH]; [reflexivity|]. cbn [filter map memb existsb].
  destruct (isX (fst e)) eqn:Ee; cbn [negb].
  - destruct (Pos.eqb_spec c (fst e)) as [E|_]; [rewrite E, Ee in Hc; discriminate|]. exact IH.
  - cbn [map memb existsb]. unfold memb in IH. rewrite IH. reflexivity.
Qed.

(* whole runs from start-up: when the extended simulation has run to completion (nothing is
   pending up to the horizon), so has the base simulation with the same number of steps, and
   every base device -- at any depth -- has observed exactly the same sequence *)
Theorem run_noninterference n initial h s1' o1' :
  sim_run cfg' devf n fuel initial h = (s1', o1', true) ->
  exists s1, sim_run cfg devf n fuel initial h = (s1, filter (notX isX) o1', true) /\ srel2 isX isXL top s1 s1'.
Proof.
  unfold sim_run. intros Hrun.
  set (roots := map fst (l_order (level_of cfg top))). set (roots' := map fst (l_order (level_of cfg' top))) in *.
  assert (Hr : forall c, isX c = false -> memb c roots' = memb c roots).
  { intros c Hc. unfold roots, roots'. rewrite Hord. apply memb_map_fst_filter. exact Hc. }
  assert (Hs0 : srel2 isX isXL top (log_tick (set_wake s_init top []) top initial roots) (log_tick (set_wake s_init top []) top initial roots')).
  { split; [split; [intros; reflexivity|]; split; [intros; reflexivity | reflexivity]|]. intros l _ _. repeat split; reflexivity. }
  pose proof (tick_noninterference2 cfg cfg' devf (on_tick_level cfg devf fuel) (on_tick_level cfg' devf fuel) isX isXL top initial roots roots' []
                _ _ Hord Hcon (fun ck Hi => nkind_okkind2 cfg cfg' devf isX isXL fuel ck (Hk ck Hi)) Hsep Hext Hexp HXL Hr Hs0) as Hn.
  cbv zeta in Hn. unfold tick_level in *.
  destruct (tick_with cfg' devf (on_tick_level cfg' devf fuel) top initial roots' [] _) as [[s0' out'] ob'].
  destruct (tick_with cfg devf (on_tick_level cfg devf fuel) top initial roots [] _) as [[s0 out] ob].
  destruct Hn as [Hs [_ Ho]].
  destruct (loop_sim cfg cfg' devf isX isXL Hord Hcon fuel Hk Hsep Hext Hexp HXL h n s0 s0' ob' s1' o1' true Hs Hrun)
    as [n0 [s1 [fin [Hle [Hb [Hs1 Hf]]]]]].
  rewrite (Hf eq_refl) in Hb. rewrite Ho in Hb. exists s1. split; [|exact Hs1].
  apply (sim_loop_complete_mono cfg devf fuel h n0 _ _ _ _ Hb n Hle).
Qed.
End Whole.
