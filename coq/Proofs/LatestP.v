(* C03 on the whole-simulation model, flat level: every device update is handed, for each wired
   input port, the value its source reported last -- along any multi-tick history. *)
From TV Require Import Base Model.Wiring Model.Ticker Model.Component Model.Sim
  Proofs.WiringP Proofs.TickerP Proofs.ComponentP Proofs.SimP Proofs.FlattenP Proofs.NonInterfP.
Open Scope Z_scope.

Lemma NoDup_keys_merge {A} (l other : list (positive * A)) : NoDup (keys l) -> NoDup (keys (merge l other)).
Proof.
  unfold merge. revert l. induction other as [|[k v] r IH]; intros l H; cbn [fold_left]; [exact H|].
  apply IH. apply NoDup_keys_upd. exact H.
Qed.

Definition in_ok (m : list (comp * changes)) : Prop := forall c, NoDup (keys (get_d c m)).

Lemma in_ok_accumulate r : forall m, in_ok m -> in_ok (accumulate m r).
Proof.
  unfold accumulate. induction r as [|[k d] r IH]; intros m H; cbn [fold_left]; [exact H|].
  apply IH. intros c. cbn [fst snd]. destruct (Pos.eqb_spec c k) as [E|Hne].
  - rewrite E, get_d_upd_same. apply NoDup_keys_merge. apply H.
  - rewrite get_d_upd_other by exact Hne. apply H.
Qed.

Lemma lookup_filter_nodup {A} (f : positive * A -> bool) (l : list (positive * A)) k :
  NoDup (keys l) ->
  lookup k (filter f l) = match lookup k l with Some v => if f (k, v) then Some v else None | None => None end.
Proof.
  induction l as [|[k' v'] r IH]; intros Hnd; [reflexivity|]. inversion Hnd as [|? ? Hni Hnd']; subst.
  cbn [filter lookup]. destruct (Pos.eqb_spec k k') as [E|Hne].
  - subst k'. destruct (f (k, v')) eqn:Ef; cbn [lookup].
    + rewrite Pos.eqb_refl. reflexivity.
    + rewrite IH by exact Hnd'. apply lookup_None_keys in Hni. rewrite Hni. reflexivity.
  - destruct (f (k', v')); cbn [lookup]; [destruct (Pos.eqb_spec k k'); [contradiction|]|]; apply IH; exact Hnd'.
Qed.

(* what a device component reports for a port: its value if it differs from the previous report *)
Lemma lookup_diff_outputs last outs p : NoDup (keys outs) ->
  lookup p (diff_outputs last outs) =
  match lookup p outs with
  | Some v => if opt_eqb Z.eqb (lookup p last) (Some v) then None else Some v
  | None => None
  end.
Proof.
  intros H. unfold diff_outputs. rewrite lookup_filter_nodup by exact H. cbn [fst snd].
  destruct (lookup p outs) as [v|]; [|reflexivity]. destruct (opt_eqb Z.eqb (lookup p last) (Some v)); reflexivity.
Qed.

Lemma NoDup_keys_filter {A} (f : positive * A -> bool) (l : list (positive * A)) : NoDup (keys l) -> NoDup (keys (filter f l)).
Proof.
  induction l as [|[k v] r IH]; intros H; [constructor|]. inversion H as [|? ? Hni H']; subst. cbn [filter].
  destruct (f (k, v)); [|apply IH; exact H']. cbn [keys map fst]. constructor; [|apply IH; exact H'].
  intros Hin. apply Hni. unfold keys in *. apply in_map_iff in Hin. destruct Hin as [e [E Hi]]. apply filter_In in Hi.
  apply in_map_iff. exists e. split; [exact E | apply Hi].
Qed.

Definition dcs (s : sstate) (x : comp) : dcstate :=
  match lookup x (s_dc s) with Some st => st | None => dc_init end.

Section Latest.
Variable devf : devfun.
Variable inner : positive -> Z -> values -> sstate -> sstate * values * option Z * list obs.
Variable lv : positive.
Variable conns : list conn.
Variable time : Z.
Variable roots : list comp.
Variable ext : values.
Hypothesis Hss : single_source conns.
Hypothesis Hdev : forall c n t i, NoDup (keys (fst (devf c n t i))).

(* what one step does to a real device component *)
Lemma tick_step_cases a c : c <> ext_id -> c <> exp_id ->
  let a' := tick_step devf inner lv conns time roots ext a (c, KDev) in
  let st := dcs (ta_s a) c in
  let inp := get_d c (ta_in a) in
  let inputs := merge (d_inputs st) inp in
  (in_extent conns roots (ta_touched a) c = false /\ a' = a) \/
  (in_extent conns roots (ta_touched a) c = true /\ inp = [] /\ memb c roots = false /\
   ta_s a' = ta_s a /\ ta_in a' = ta_in a /\ ta_touched a' = ta_touched a ++ [c] /\ ta_obs a' = ta_obs a) \/
  (in_extent conns roots (ta_touched a) c = true /\
   exists outs, NoDup (keys outs) /\
     s_dc (ta_s a') = upd c {| d_inputs := inputs; d_last := outs |} (s_dc (ta_s a)) /\
     ta_in a' = accumulate (ta_in a) (route conns c (diff_outputs (d_last st) outs)) /\
     ta_touched a' = ta_touched a ++ [c] /\ ta_obs a' = ta_obs a ++ [(c, time, inputs)]).
Proof.
  intros He Hx. cbv zeta. unfold tick_step. cbn [fst snd].
  destruct (in_extent conns roots (ta_touched a) c); [|left; split; reflexivity]. right.
  destruct (get_d c (ta_in a)) as [|e r] eqn:Ei.
  - cbn [nonempty orb]. destruct (memb c roots) eqn:Er.
    + right. split; [reflexivity|].
      destruct (Pos.eqb_spec c ext_id); [contradiction|]. destruct (Pos.eqb_spec c exp_id); [contradiction|].
      unfold dev_update. fold (dcs (ta_s a) c).
      match goal with |- context [devf c ?n time ?i] =>
        pose proof (Hdev c n time i) as H; destruct (devf c n time i) as [outs ca] eqn:Ed end.
      exists outs. split; [exact H|].
      destruct ca; cbn; repeat split; reflexivity.
    + left. split; [reflexivity|]. repeat split; reflexivity.
  - cbn [nonempty orb]. right. split; [reflexivity|].
    destruct (Pos.eqb_spec c ext_id); [contradiction|]. destruct (Pos.eqb_spec c exp_id); [contradiction|].
    unfold dev_update. fold (dcs (ta_s a) c).
    match goal with |- context [devf c ?n time ?i] =>
      pose proof (Hdev c n time i) as H; destruct (devf c n time i) as [outs ca] eqn:Ed end.
    exists outs. split; [exact H|].
    destruct ca; cbn; repeat split; reflexivity.
Qed.

Definition pend (a : tacc) (c : comp) (q : port) : option Z := lookup2r (ta_in a) c q.

Lemma pend_get_d a c q : pend a c q = lookup q (get_d c (ta_in a)).
Proof. unfold pend. apply lookup2r_get_d. Qed.

(* the invariant in the middle of a tick; [done]: the components processed so far *)
Record Mid (a : tacc) (done : list comp) : Prop := {
  md_in : in_ok (ta_in a);
  md_touched : forall x, In x (ta_touched a) -> In x done;
  md_pend : forall c q v, pend a c q = Some v ->
              exists u p, In (u, p, c, q) conns /\ In u (ta_touched a) /\
                          lookup p (d_last (dcs (ta_s a) u)) = Some v;
  md_wire : forall u p c q, In (u, p, c, q) conns -> forall v,
              lookup p (d_last (dcs (ta_s a) u)) = Some v ->
              (In c done \/ ~ In u done -> lookup q (d_inputs (dcs (ta_s a) c)) = Some v) /\
              (In u done -> ~ In c done ->
               pend a c q = Some v \/ (pend a c q = None /\ lookup q (d_inputs (dcs (ta_s a) c)) = Some v));
  md_obs : forall o, In o (ta_obs a) -> In (obs_comp o) done /\ snd o = d_inputs (dcs (ta_s a) (obs_comp o))
}.

Lemma extent_of_pending a c q v : (forall c0 q0 v0, pend a c0 q0 = Some v0 -> exists u p, In (u, p, c0, q0) conns /\ In u (ta_touched a) /\ lookup p (d_last (dcs (ta_s a) u)) = Some v0) ->
  pend a c q = Some v -> in_extent conns roots (ta_touched a) c = true.
Proof.
  intros Hp H. destruct (Hp c q v H) as [u [p [Hk [Ht _]]]]. unfold in_extent. apply orb_true_iff. right.
  apply existsb_exists. exists (u, p, c, q). split; [exact Hk|]. cbn [in_comp out_comp]. rewrite Pos.eqb_refl. cbn [andb].
  apply memb_In. exact Ht.
Qed.

Lemma dcs_upd_same s c st s' : s_dc s' = upd c st (s_dc s) -> dcs s' c = st.
Proof. intros E. unfold dcs. rewrite E, lookup_upd_same. reflexivity. Qed.
Lemma dcs_upd_other s c st s' x : s_dc s' = upd c st (s_dc s) -> x <> c -> dcs s' x = dcs s x.
Proof. intros E H. unfold dcs. rewrite E, lookup_upd_other by exact H. reflexivity. Qed.

Definition sources_done (done : list comp) (c : comp) : Prop := forall u p q, In (u, p, c, q) conns -> In u done.
Definition sinks_later (done : list comp) (c : comp) : Prop := forall p c2 q, In (c, p, c2, q) conns -> ~ In c2 done /\ c2 <> c.

(* a component that is passed over: nothing is pending for it *)
Lemma mid_pass a a' done c :
  Mid a done -> ta_s a' = ta_s a -> ta_in a' = ta_in a -> ta_obs a' = ta_obs a ->
  (forall x, In x (ta_touched a') -> In x (ta_touched a) \/ x = c) ->
  (forall x, In x (ta_touched a) -> In x (ta_touched a')) ->
  (forall q, pend a c q = None) -> ~ In c done -> sources_done done c -> sinks_later done c ->
  Mid a' (done ++ [c]).
Proof.
  intros [Hin Ht Hp Hw Ho] Es Ei Eo Ht1 Ht2 Hnone Hc Hsrc Hsnk.
  assert (Ep : forall c0 q0, pend a' c0 q0 = pend a c0 q0) by (intros; unfold pend; rewrite Ei; reflexivity).
  split.
  - rewrite Ei. exact Hin.
  - intros x Hx. apply in_app_iff. destruct (Ht1 x Hx) as [H|H]; [left; apply Ht; exact H | right; left; symmetry; exact H].
  - intros c0 q0 v H. rewrite Ep in H. destruct (Hp c0 q0 v H) as [u [p [Hk [Hu Hl]]]]. exists u, p.
    split; [exact Hk|]. split; [apply Ht2; exact Hu | rewrite Es; exact Hl].
  - intros u p c0 q Hk v Hl. rewrite Es in *. rewrite Ep. destruct (Hw u p c0 q Hk v Hl) as [H1 H2]. split.
    + intros [Hd|Hd].
      * apply in_app_iff in Hd. destruct Hd as [Hd|[E|[]]]; [apply H1; left; exact Hd|]. subst c0.
        destruct (H2 (Hsrc u p q Hk) Hc) as [H|[_ H]]; [rewrite Hnone in H; discriminate | exact H].
      * apply H1. right. intros H. apply Hd. apply in_app_iff. left. exact H.
    + intros Hu Hc0. assert (Hc0' : ~ In c0 done) by (intros H; apply Hc0; apply in_app_iff; left; exact H).
      apply in_app_iff in Hu. destruct Hu as [Hu|[E|[]]]; [apply H2; assumption|]. subst u.
      assert (Hok : lookup q (d_inputs (dcs (ta_s a) c0)) = Some v) by (apply H1; right; exact Hc).
      destruct (pend a c0 q) as [v'|] eqn:Epd; [|right; split; [reflexivity | exact Hok]].
      exfalso. destruct (Hp c0 q v' Epd) as [u' [p' [Hk' [Hu' _]]]].
      destruct (Hss c p u' p' c0 q Hk Hk') as [E _]. subst u'. apply Hc. apply Ht. exact Hu'.
  - intros o Hoi. rewrite Eo in Hoi. rewrite Es. destruct (Ho o Hoi) as [H1 H2]. split; [apply in_app_iff; left; exact H1 | exact H2].
Qed.

(* a component that is updated *)
Lemma mid_update a a' done c outs :
  Mid a done -> ~ In c done -> sources_done done c -> sinks_later done c ->
  NoDup (keys outs) ->
  let st := dcs (ta_s a) c in
  let inputs := merge (d_inputs st) (get_d c (ta_in a)) in
  s_dc (ta_s a') = upd c {| d_inputs := inputs; d_last := outs |} (s_dc (ta_s a)) ->
  ta_in a' = accumulate (ta_in a) (route conns c (diff_outputs (d_last st) outs)) ->
  ta_touched a' = ta_touched a ++ [c] -> ta_obs a' = ta_obs a ++ [(c, time, inputs)] ->
  Mid a' (done ++ [c]).
Proof.
  intros [Hin Ht Hp Hw Ho] Hc Hsrc Hsnk Hnd st inputs Es Ei Et Eo.
  set (ch := diff_outputs (d_last st) outs) in *.
  assert (Hch : NoDup (keys ch)) by (apply NoDup_keys_filter; exact Hnd).
  assert (Hsame : dcs (ta_s a') c = {| d_inputs := inputs; d_last := outs |}) by (eapply dcs_upd_same; exact Es).
  assert (Hoth : forall x, x <> c -> dcs (ta_s a') x = dcs (ta_s a) x) by (intros x Hx; eapply dcs_upd_other; eassumption).
  assert (Ep : forall c0 q0, pend a' c0 q0 = match lookup2r (route conns c ch) c0 q0 with Some x => Some x | None => pend a c0 q0 end).
  { intros c0 q0. unfold pend. rewrite Ei. apply accumulate_lookup. apply route_WFd. }
  assert (Hroute : forall c0 q0 x, lookup2r (route conns c ch) c0 q0 = Some x <-> exists op, lookup op ch = Some x /\ In (c, op, c0, q0) conns).
  { intros. apply route_exact; assumption. }
  assert (Hchv : forall op x, lookup op ch = Some x -> lookup op outs = Some x /\ lookup op (d_last st) <> Some x).
  { intros op x H. unfold ch in H. rewrite lookup_diff_outputs in H by exact Hnd.
    destruct (lookup op outs) as [y|]; [|discriminate].
    destruct (opt_eqb Z.eqb (lookup op (d_last st)) (Some y)) eqn:Eo2; [discriminate|]. inversion H; subst y.
    split; [reflexivity|]. intros E. apply opt_eqb_Z in E. rewrite E in Eo2. discriminate. }
  assert (Hnotdone : forall x, In x (ta_touched a) -> x <> c) by (intros x Hx E; subst x; apply Hc; apply Ht; exact Hx).
  split.
  - rewrite Ei. apply in_ok_accumulate. exact Hin.
  - intros x Hx. rewrite Et in Hx. apply in_app_iff in Hx. apply in_app_iff. destruct Hx as [Hx|[E|[]]]; [left; apply Ht; exact Hx | right; left; exact E].
  - intros c0 q0 v H. rewrite Ep in H. destruct (lookup2r (route conns c ch) c0 q0) as [x|] eqn:Er.
    + inversion H; subst x. apply Hroute in Er. destruct Er as [op [Hl Hk]]. exists c, op. split; [exact Hk|].
      split; [rewrite Et; apply in_app_iff; right; left; reflexivity|]. rewrite Hsame. cbn [d_last]. apply (Hchv op v Hl).
    + destruct (Hp c0 q0 v H) as [u [p [Hk [Hu Hl]]]]. exists u, p. split; [exact Hk|].
      split; [rewrite Et; apply in_app_iff; left; exact Hu|]. rewrite Hoth by (apply Hnotdone; exact Hu). exact Hl.
  - intros u p c0 q Hk v Hl. destruct (Pos.eq_dec u c) as [Eu|Hu].
    + subst u. rewrite Hsame in Hl. cbn [d_last] in Hl. destruct (Hsnk p c0 q Hk) as [Hc0 Hne].
      split.
      * intros [Hd|Hd]; exfalso.
        -- apply in_app_iff in Hd. destruct Hd as [Hd|[E|[]]]; [apply Hc0; exact Hd | apply Hne; symmetry; exact E].
        -- apply Hd. apply in_app_iff. right. left. reflexivity.
      * intros _ _. rewrite Ep, (Hoth c0 Hne).
        destruct (opt_eqb Z.eqb (lookup p (d_last st)) (Some v)) eqn:Echg.
        -- apply opt_eqb_Z in Echg.
           assert (Hr : lookup2r (route conns c ch) c0 q = None).
           { destruct (lookup2r (route conns c ch) c0 q) as [x|] eqn:Er; [|reflexivity]. exfalso.
             apply Hroute in Er. destruct Er as [op [Hlo Hko]]. destruct (Hss c p c op c0 q Hk Hko) as [_ Eop]. subst op.
             destruct (Hchv p x Hlo) as [Hx1 Hx2]. rewrite Hl in Hx1. inversion Hx1; subst x. apply Hx2. exact Echg. }
           rewrite Hr. destruct (Hw c p c0 q Hk v Echg) as [H1 _].
           assert (Hok : lookup q (d_inputs (dcs (ta_s a) c0)) = Some v) by (apply H1; right; exact Hc).
           destruct (pend a c0 q) as [v'|] eqn:Epd; [|right; split; [reflexivity | exact Hok]].
           exfalso. destruct (Hp c0 q v' Epd) as [u' [p' [Hk' [Hu' _]]]].
           destruct (Hss c p u' p' c0 q Hk Hk') as [E _]. subst u'. apply (Hnotdone c Hu'). reflexivity.
        -- left. assert (Hlc : lookup p ch = Some v).
           { unfold ch. rewrite lookup_diff_outputs by exact Hnd. rewrite Hl, Echg. reflexivity. }
           assert (Hr : lookup2r (route conns c ch) c0 q = Some v) by (apply Hroute; exists p; split; assumption).
           rewrite Hr. reflexivity.
    + rewrite (Hoth u Hu) in Hl. destruct (Hw u p c0 q Hk v Hl) as [H1 H2]. split.
      * intros Hd. destruct (Pos.eq_dec c0 c) as [Ec|Hc0].
        -- subst c0. rewrite Hsame. cbn [d_inputs]. unfold inputs. rewrite lookup_merge_last.
           rewrite last_write_lookup by apply Hin. rewrite <- pend_get_d.
           destruct (H2 (Hsrc u p q Hk) Hc) as [Hpd|[Hpd Hok]]; rewrite Hpd; [reflexivity | exact Hok].
        -- rewrite (Hoth c0 Hc0). apply H1. destruct Hd as [Hd|Hd].
           ++ left. apply in_app_iff in Hd. destruct Hd as [Hd|[E|[]]]; [exact Hd | exfalso; apply Hc0; symmetry; exact E].
           ++ right. intros H. apply Hd. apply in_app_iff. left. exact H.
      * intros Hud Hc0d.
        assert (Hc0 : c0 <> c) by (intros E; apply Hc0d; apply in_app_iff; right; left; symmetry; exact E).
        assert (Hc0' : ~ In c0 done) by (intros H; apply Hc0d; apply in_app_iff; left; exact H).
        assert (Hud' : In u done) by (apply in_app_iff in Hud; destruct Hud as [H|[E|[]]]; [exact H | exfalso; apply Hu; symmetry; exact E]).
        rewrite Ep, (Hoth c0 Hc0).
        assert (Hr : lookup2r (route conns c ch) c0 q = None).
        { destruct (lookup2r (route conns c ch) c0 q) as [x|] eqn:Er; [|reflexivity]. exfalso.
          apply Hroute in Er. destruct Er as [op [_ Hko]]. destruct (Hss u p c op c0 q Hk Hko) as [E _]. apply Hu. exact E. }
        rewrite Hr. apply H2; assumption.
  - intros o Hoi. rewrite Eo in Hoi. apply in_app_iff in Hoi. destruct Hoi as [Hoi|[E|[]]].
    + destruct (Ho o Hoi) as [H1 H2]. split; [apply in_app_iff; left; exact H1|].
      rewrite Hoth; [exact H2 | intros E; apply Hc; rewrite <- E; exact H1].
    + subst o. unfold obs_comp. cbn [fst snd]. split; [apply in_app_iff; right; left; reflexivity|]. rewrite Hsame. reflexivity.
Qed.

Lemma mid_step a done c : Mid a done -> c <> ext_id -> c <> exp_id -> ~ In c done ->
  sources_done done c -> sinks_later done c ->
  Mid (tick_step devf inner lv conns time roots ext a (c, KDev)) (done ++ [c]).
Proof.
  intros HM He Hx Hc Hsrc Hsnk.
  destruct (tick_step_cases a c He Hx) as [[Hext Ea]|[[Hext [Einp [Er [Es [Ei [Et Eo]]]]]]|[Hext [outs [Hnd [Es [Ei [Et Eo]]]]]]]].
  - rewrite Ea. apply (mid_pass a a done c HM); try reflexivity; try assumption; [intros x Hx0; left; exact Hx0 | intros x Hx0; exact Hx0 |].
    intros q. destruct (pend a c q) as [v|] eqn:Ep; [|reflexivity]. exfalso.
    rewrite (extent_of_pending a c q v (md_pend a done HM) Ep) in Hext. discriminate.
  - apply (mid_pass a _ done c HM); try assumption.
    + intros x Hx0. rewrite Et in Hx0. apply in_app_iff in Hx0. destruct Hx0 as [H|[E|[]]]; [left; exact H | right; symmetry; exact E].
    + intros x Hx0. rewrite Et. apply in_app_iff. left. exact Hx0.
    + intros q. rewrite pend_get_d, Einp. reflexivity.
  - apply (mid_update a _ done c outs HM Hc Hsrc Hsnk Hnd Es Ei Et Eo).
Qed.

(* the components in a topological order of the wiring *)
Variable order : list comp.
Hypothesis Hnodup : NoDup order.
Hypothesis Hclosed : forall u p c q, In (u, p, c, q) conns -> In u order /\ In c order.
Hypothesis Htopo : forall l1 c l2, order = l1 ++ c :: l2 -> forall u p q, In (u, p, c, q) conns -> In u l1.
Hypothesis Hreal : forall c, In c order -> c <> ext_id /\ c <> exp_id.

Lemma topo_sinks l1 c l2 : order = l1 ++ c :: l2 -> sinks_later l1 c.
Proof.
  intros E p c2 q Hk. assert (Hc2 : In c2 order) by (apply (Hclosed c p c2 q Hk)).
  assert (Hnd := Hnodup). rewrite E in Hnd.
  assert (Hc1 : ~ In c l1) by (apply NoDup_remove_2 in Hnd; intros H; apply Hnd; apply in_app_iff; left; exact H).
  split.
  - intros Hin. apply in_split in Hin. destruct Hin as [la [lb El]].
    assert (E2 : order = la ++ c2 :: (lb ++ c :: l2)) by (rewrite E, El, <- app_assoc; reflexivity).
    pose proof (Htopo la c2 (lb ++ c :: l2) E2 c p q Hk) as Hca. apply Hc1. rewrite El. apply in_app_iff. left. exact Hca.
  - intros Ec. subst c2. apply Hc1. apply (Htopo l1 c l2 E c p q Hk).
Qed.

Lemma mid_fold : forall l2 l1 a, order = l1 ++ l2 -> Mid a l1 ->
  Mid (fold_left (tick_step devf inner lv conns time roots ext) (map (fun c => (c, KDev)) l2) a) order.
Proof.
  induction l2 as [|c r IH]; intros l1 a E HM.
  - rewrite app_nil_r in E. subst l1. exact HM.
  - cbn [map fold_left]. apply (IH (l1 ++ [c])); [rewrite <- app_assoc; exact E|].
    assert (Hc : In c order) by (rewrite E; apply in_app_iff; right; left; reflexivity).
    destruct (Hreal c Hc) as [He Hx].
    apply mid_step; try assumption.
    + assert (Hnd := Hnodup). rewrite E in Hnd. apply NoDup_remove_2 in Hnd. intros H. apply Hnd. apply in_app_iff. left. exact H.
    + intros u p q Hk. apply (Htopo l1 c r E u p q Hk).
    + apply (topo_sinks l1 c r E).
Qed.
End Latest.

(* every wire carries the source's latest report *)
Definition LATEST (conns : list conn) (s : sstate) : Prop :=
  forall u p c q, In (u, p, c, q) conns -> forall v,
    lookup p (d_last (dcs s u)) = Some v -> lookup q (d_inputs (dcs s c)) = Some v.

Definition flat_wf (l : level) : Prop :=
  (forall ck, In ck (l_order l) -> snd ck = KDev) /\
  NoDup (map fst (l_order l)) /\
  single_source (l_conns l) /\
  (forall u p c q, In (u, p, c, q) (l_conns l) -> In u (map fst (l_order l)) /\ In c (map fst (l_order l))) /\
  (forall l1 c l2, map fst (l_order l) = l1 ++ c :: l2 -> forall u p q, In (u, p, c, q) (l_conns l) -> In u l1) /\
  (forall c, In c (map fst (l_order l)) -> c <> ext_id /\ c <> exp_id).

Lemma order_as_map (l : list (comp * ckind)) : (forall ck, In ck l -> snd ck = KDev) -> l = map (fun c => (c, KDev)) (map fst l).
Proof.
  induction l as [|[c k] r IH]; intros H; [reflexivity|]. cbn [map fst].
  assert (Ek : k = KDev) by (apply (H (c, k)); left; reflexivity). subst k.
  rewrite <- IH by (intros ck Hc; apply H; right; exact Hc). reflexivity.
Qed.

Theorem tick_latest cfg devf inner lv time roots ext s :
  flat_wf (level_of cfg lv) ->
  (forall c n t i, NoDup (keys (fst (devf c n t i)))) ->
  ~ In ext_id roots -> ~ In exp_id roots ->
  LATEST (l_conns (level_of cfg lv)) s ->
  let '(s2, _, ob) := tick_with cfg devf inner lv time roots ext s in
  LATEST (l_conns (level_of cfg lv)) s2 /\
  (forall o, In o ob -> snd o = d_inputs (dcs s2 (obs_comp o))).
Proof.
  intros [Hk [Hnd [Hss [Hcl [Htopo Hreal]]]]] Hdev Hr1 Hr2 HL. unfold tick_with.
  set (l := level_of cfg lv) in *. set (conns := l_conns l) in *. set (order := map fst (l_order l)) in *.
  assert (Hno_ext : forall touched x, (x = ext_id \/ x = exp_id) -> in_extent conns roots touched x = false).
  { intros touched x Hx. unfold in_extent. apply orb_false_iff. split.
    - apply memb_false. intros Hi. destruct Hx; subst x; contradiction.
    - destruct (existsb _ conns) eqn:Ee; [|reflexivity]. exfalso. apply existsb_exists in Ee. destruct Ee as [[[[u p] c] q] [Hi Hb]].
      cbn [in_comp out_comp] in Hb. apply andb_true_iff in Hb. destruct Hb as [Hb _]. apply Pos.eqb_eq in Hb. subst c.
      destruct (Hcl u p x q Hi) as [_ Hc]. destruct (Hreal x Hc) as [H1 H2]. destruct Hx; contradiction. }
  unfold all_of. cbn [fold_left]. rewrite fold_left_app. cbn [fold_left].
  set (a0 := {| ta_s := s; ta_in := []; ta_touched := []; ta_out := []; ta_obs := [] |}).
  assert (E0 : tick_step devf inner lv conns time roots ext a0 (ext_id, KDev) = a0).
  { apply (tick_step_outside devf). cbn [fst]. apply Hno_ext. left. reflexivity. }
  rewrite E0.
  assert (HM0 : Mid conns a0 []).
  { split.
    - intros c. cbn. constructor.
    - intros x [].
    - intros c q v H. cbn in H. discriminate.
    - intros u p c q Hi v Hl. split; [intros _; apply (HL u p c q Hi v Hl) | intros []].
    - intros o []. }
  pose proof (mid_fold devf inner lv conns time roots ext Hss Hdev order Hnd Hcl Htopo Hreal order [] a0 eq_refl HM0) as HM.
  unfold order in HM at 1. rewrite <- (order_as_map (l_order l) Hk) in HM.
  set (a1 := fold_left (tick_step devf inner lv conns time roots ext) (l_order l) a0) in *.
  assert (E1 : tick_step devf inner lv conns time roots ext a1 (exp_id, KDev) = a1).
  { apply (tick_step_outside devf). cbn [fst]. apply Hno_ext. right. reflexivity. }
  rewrite E1. split.
  - intros u p c q Hi v Hl. destruct (md_wire conns a1 order HM u p c q Hi v Hl) as [H1 _]. apply H1. left. apply (Hcl u p c q Hi).
  - intros o Ho. apply (md_obs conns a1 order HM o Ho).
Qed.

(* ---------- along whole runs of the master model *)
Lemma tick_wake_keys cfg devf inner lv time roots ext s :
  (forall ck, In ck (l_order (level_of cfg lv)) -> snd ck = KDev) ->
  let '(s2, _, _) := tick_with cfg devf inner lv time roots ext s in
  forall e, In e (wake_of s2 lv) -> In e (wake_of s lv) \/ (fst e <> ext_id /\ fst e <> exp_id).
Proof.
  intros Hflat. unfold tick_with.
  assert (Hall : forall ck, In ck (all_of (level_of cfg lv)) -> snd ck = KDev).
  { unfold all_of. intros ck [E|Hi]; [subst ck; reflexivity|]. apply in_app_iff in Hi.
    destruct Hi as [Hi|[E|[]]]; [apply Hflat; exact Hi | subst ck; reflexivity]. }
  assert (Hgen : forall l a, (forall ck, In ck l -> snd ck = KDev) ->
            (forall e, In e (wake_of (ta_s a) lv) -> In e (wake_of s lv) \/ (fst e <> ext_id /\ fst e <> exp_id)) ->
            forall e, In e (wake_of (ta_s (fold_left (tick_step devf inner lv (l_conns (level_of cfg lv)) time roots ext) l a)) lv) ->
                      In e (wake_of s lv) \/ (fst e <> ext_id /\ fst e <> exp_id)).
  { induction l as [|[c k] r IH]; intros a Hk Ha; [exact Ha|]. cbn [fold_left]. apply IH; [intros ck H; apply Hk; right; exact H|].
    assert (Ek : k = KDev) by (apply (Hk (c, k)); left; reflexivity). subst k.
    unfold tick_step. cbn [fst snd].
    destruct (in_extent _ roots (ta_touched a) c); [|exact Ha].
    destruct (nonempty (get_d c (ta_in a)) || memb c roots); [|exact Ha].
    destruct (Pos.eqb_spec c ext_id) as [|He]; [exact Ha|]. destruct (Pos.eqb_spec c exp_id) as [|Hx]; [exact Ha|].
    unfold dev_update.
    match goal with |- context [devf c ?n time ?i] => destruct (devf c n time i) as [outs ca] end.
    destruct ca as [w|]; cbn [ta_s]; [|exact Ha].
    intros [c' w'] He0. rewrite wake_of_set_wake in He0. apply In_upd_cases in He0. destruct He0 as [[E1 E2]|He0].
    - right. subst c'. cbn [fst]. split; assumption.
    - apply Ha. exact He0. }
  intros e He. eapply (Hgen (all_of (level_of cfg lv))); [exact Hall | | exact He].
  intros e0 H0. left. exact H0.
Qed.

Lemma dcs_set_wake s lv w x : dcs (set_wake s lv w) x = dcs s x.
Proof. reflexivity. Qed.
Lemma dcs_log_tick s lv t r x : dcs (log_tick s lv t r) x = dcs s x.
Proof. reflexivity. Qed.

Section Runs.
Variable cfg : config.
Variable devf : devfun.
Variables num den : Z.
Variable fuel : nat.
Hypothesis Hwf : flat_wf (level_of cfg top).
Hypothesis Hdev : forall c n t i, NoDup (keys (fst (devf c n t i))).
Let conns := l_conns (level_of cfg top).

Definition real_keys (m : mstate) : Prop :=
  forall e, In e (wake_of (m_s m) top) -> fst e <> ext_id /\ fst e <> exp_id.

(* interrupts of top-level devices only (the configuration is flat) *)
Definition flat_stim (stim : list stimulus) : Prop :=
  forall r c lvc path, In (r, c, lvc, path) stim -> path = [] /\ c <> ext_id /\ c <> exp_id.

Lemma do_tick_latest m when roots real :
  LATEST conns (m_s m) -> real_keys m -> (forall c, In c roots -> In c (map fst (wake_of (m_s m) top))) ->
  LATEST conns (m_s (do_tick cfg devf fuel m when roots real)) /\ real_keys (do_tick cfg devf fuel m when roots real).
Proof.
  intros HL HK Hr. unfold do_tick.
  set (s1 := log_tick (set_wake (m_s m) top (filter (fun e : comp * Z => negb (memb (fst e) roots)) (wake_of (m_s m) top))) top when roots).
  assert (Hroots : ~ In ext_id roots /\ ~ In exp_id roots).
  { split; intros Hi; apply Hr in Hi; apply in_map_iff in Hi; destruct Hi as [e [Ee Hi]]; destruct (HK e Hi) as [H1 H2]; congruence. }
  destruct Hwf as [Hflat _].
  pose proof (tick_latest cfg devf (on_tick_level cfg devf fuel) top when roots [] s1 Hwf Hdev (proj1 Hroots) (proj2 Hroots)) as HT.
  pose proof (tick_wake_keys cfg devf (on_tick_level cfg devf fuel) top when roots [] s1 Hflat) as HW.
  unfold tick_level. destruct (tick_with cfg devf (on_tick_level cfg devf fuel) top when roots [] s1) as [[s2 out] ob].
  cbn [m_s]. split.
  - apply HT. exact HL.
  - intros e He. destruct (HW e He) as [Hin|Hre]; [|exact Hre].
    unfold s1 in Hin. change (wake_of (log_tick ?x top when roots) top) with (wake_of x top) in Hin.
    rewrite wake_of_set_wake in Hin. apply filter_In in Hin. apply HK. apply Hin.
Qed.

Lemma first_wakeups_roots w when roots : first_wakeups w = Some (when, roots) -> forall c, In c roots -> In c (map fst w).
Proof.
  unfold first_wakeups. destruct (min_wake w) as [m|]; [|discriminate]. intros E. inversion E; subst. intros c Hc.
  apply in_map_iff in Hc. destruct Hc as [e [Ee Hi]]. apply filter_In in Hi. apply in_map_iff. exists e. split; [exact Ee | apply Hi].
Qed.

Theorem master_latest : forall steps m stim t_end,
  flat_stim stim -> LATEST conns (m_s m) -> real_keys m ->
  LATEST conns (m_s (master_loop cfg devf num den steps fuel m stim t_end)).
Proof.
  induction steps as [|k IH]; intros m stim t_end Hst HL HK; [exact HL|].
  cbn [master_loop].
  assert (Hint : forall r c lvc rest, stim = (r, c, lvc, []) :: rest -> c <> ext_id -> c <> exp_id ->
            LATEST conns (m_s (master_loop cfg devf num den k fuel (raise_interrupt num den m r c lvc []) rest t_end))).
  { intros r c lvc rest E He Hx. apply IH.
    - intros r0 c0 l0 p0 Hi. apply (Hst r0 c0 l0 p0). rewrite E. right. exact Hi.
    - exact HL.
    - intros e He0. unfold raise_interrupt in He0. cbn [m_s] in He0. rewrite wake_of_set_wake in He0.
      destruct e as [c' w']. apply In_upd_cases in He0. destruct He0 as [[E1 _]|He0]; [subst c'; split; assumption | apply HK; exact He0]. }
  assert (Htick : forall when roots d stim', first_wakeups (wake_of (m_s m) top) = Some (when, roots) -> flat_stim stim' ->
            LATEST conns (m_s (master_loop cfg devf num den k fuel (do_tick cfg devf fuel m when roots d) stim' t_end))).
  { intros when roots d stim' E Hs'. destruct (do_tick_latest m when roots d HL HK (first_wakeups_roots _ _ _ E)) as [H1 H2].
    apply IH; assumption. }
  destruct stim as [|[[[r c] lvc] path] rest].
  - destruct (first_wakeups (wake_of (m_s m) top)) as [[when roots]|] eqn:E; [|exact HL].
    destruct (Z.leb _ t_end); [|exact HL]. apply (Htick when roots _ [] eq_refl). intros ? ? ? ? [].
  - destruct (Hst r c lvc path (or_introl eq_refl)) as [Ep [He Hx]]. subst path.
    destruct (first_wakeups (wake_of (m_s m) top)) as [[when roots]|] eqn:E.
    + destruct (Z.ltb r _ || Z.leb r (m_now m)).
      * destruct (Z.leb r t_end); [|exact HL]. apply (Hint r c lvc rest eq_refl He Hx).
      * destruct (Z.leb _ t_end); [|exact HL]. apply (Htick when roots _ _ eq_refl Hst).
    + destruct (Z.leb r t_end); [|exact HL]. apply (Hint r c lvc rest eq_refl He Hx).
Qed.

Lemma latest_init : LATEST conns s_init.
Proof. intros u p c q _ v H. cbn in H. discriminate. Qed.

Theorem simulate_latest steps initial stim t_end :
  flat_stim stim ->
  LATEST conns (m_s (simulate_full cfg devf num den fuel steps initial [] stim t_end)).
Proof.
  intros Hst. unfold simulate_full.
  match goal with |- context [set_wake s_init top ?w] => change w with (@nil (comp * Z)) end.
  cbv zeta. unfold tick_level.
  set (roots := map fst (l_order (level_of cfg top))).
  set (s0 := log_tick (set_wake s_init top []) top initial roots).
  assert (Hr : ~ In ext_id roots /\ ~ In exp_id roots).
  { destruct Hwf as [_ [_ [_ [_ [_ Hreal]]]]]. split; intros Hi; destruct (Hreal _ Hi) as [H1 H2]; congruence. }
  pose proof (tick_latest cfg devf (on_tick_level cfg devf fuel) top initial roots [] s0 Hwf Hdev (proj1 Hr) (proj2 Hr)) as HT.
  destruct Hwf as [Hflat _].
  pose proof (tick_wake_keys cfg devf (on_tick_level cfg devf fuel) top initial roots [] s0 Hflat) as HW.
  destruct (tick_with cfg devf (on_tick_level cfg devf fuel) top initial roots [] s0) as [[s1 out] ob].
  assert (H0 : LATEST conns s0) by (intros u p c q _ v H; cbn in H; discriminate).
  apply master_latest; [exact Hst | cbn [m_s]; apply (proj1 (HT H0)) |].
  intros e He. cbn [m_s] in He. destruct (HW e He) as [Hin|Hre]; [|exact Hre].
  unfold s0 in Hin. change (wake_of (log_tick ?x top initial roots) top) with (wake_of x top) in Hin.
  rewrite wake_of_set_wake in Hin. destruct Hin.
Qed.
End Runs.
