"""C12 -- pacing against real time.
(a) level S: whole simulations at speeds 1/2, 1, 2 compared with Model/Sim.v; Coq oracle: no tick earlier than
    the speed allows (96).
(b) level M: the real MasterScheduler driven message by message with real-time costs (answers in flight,
    interrupts in every phase): every sleep it arms and every tick time -- hence every interrupt stamp -- is
    compared with Model/Master.v, for which C12_exact / C12_stamp are proved."""
import json

import slevel
import sprops
from common import run_shards
from props import c07

PID = "C12"


def m_level(ck, tier, rng):
    mcases, mbad = c07.m_part(ck, tier, rng)
    ck.coverage.update(master_scripts=len(mcases), master_disagreements=len(mbad))
    hit = [i for i in sorted(mbad) if 101 in mbad[i]]
    if hit and not ck.violations:
        c = mcases[hit[0]]
        ck.report("correspondence-broken", "MasterScheduler arms other sleeps / starts ticks at other times than the model of the pacing "
                  "arithmetic, but no tick earlier than the speed allows was found",
                  dict(kind="master", conns=c["conns"], comps=c["comps"], initial=c["initial"], speed=c["speed"],
                       events=[[r, list(e), [list(o) for o in outs]] for r, e, outs in c["events"]], codes=mbad[hit[0]],
                       broken="correspondence Model/Master.v vs master.py; theorems C12_exact, C12_stamp of Props.C12"), no_input=True)


EXT, EXP = 1, 2
SMALL = [
    ({1: dict(order=[(3, "dev"), (4, "dev")], conns=[(3, 1, 4, 1)])}, {3: (2, 300_000_000, 1), 4: (2, 300_000_000, 0)}),
    ({1: dict(order=[(3, "dev"), (4, 2)], conns=[(3, 1, 4, 1)]),
      2: dict(order=[(5, "dev"), (6, "dev")], conns=[(EXT, 1, 5, 1), (5, 1, 6, 1), (6, 1, EXP, 1)])},
     {3: (4, 400_000_000, 1), 5: (4, 300_000_000, 0), 6: (4, 300_000_000, 2)}),
]


def exact_part(ck, tier, rng):
    """the exact half of C12 on real runs (ticks cost no virtual real time): every master tick has
    simulation time = initial + speed * real time (code 97) -- ordinary histories at several speeds and
    initial times, and interrupts raised before a late scheduler has come up (stamped before the first tick)"""
    cases = []
    for cfg, devs in SMALL:
        for d in [c for (c, k) in cfg[1]["order"] if k == "dev"]:
            for sd in (2, 5):
                for init in (0, 2_000_000, 7_000_000_000):
                    cases.append(dict(cfg=cfg, devs=devs, speed=(1, 1), initial=init, stim=[], delays={"sched": sd}, early=(1, d)))
    for _ in range({"quick": 30, "thorough": 400}[tier]):
        cfg = slevel.gen_config(rng, depth=rng.choice([0, 0, 1, 2]))
        devs = slevel.gen_devs(rng, cfg)
        cases.append(dict(cfg=cfg, devs=devs, speed=rng.choice([(1, 1), (2, 1), (1, 2)]), initial=rng.choice([0, 2_000_000, 5_000_000_000]),
                          stim=sprops.gen_stim(rng, cfg, devs), delays=None, early=None))
    # wakeups less than a millisecond of REAL time apart: sub-millisecond callback periods at speed 1, ordinary periods
    # at speed 1000 and 250 (the pacing arithmetic has no granularity below which a wakeup may be served early)
    for cfg, devs in SMALL:
        fine = {d: (p[0], p[1] // 1000, p[2]) for d, p in devs.items()}
        for init in (0, 5_000_000_000):
            cases.append(dict(cfg=cfg, devs=fine, speed=(1, 1), initial=init, stim=[], delays=None, early=None, t_end=12_000_003))
            cases.append(dict(cfg=cfg, devs=devs, speed=(1000, 1), initial=init, stim=[], delays=None, early=None, t_end=12_000_003))
            cases.append(dict(cfg=cfg, devs=devs, speed=(250, 1), initial=init, stim=[], delays=None, early=None, t_end=30_000_003))
    # wakeups DAYS of real time apart (a housekeeping callback far ahead, 3.5 days at speed 1): the wait is as long as it is
    for cfg, devs in SMALL:
        far = {d: (p[0], p[1] * 1_000_000, p[2]) for d, p in devs.items()}
        for speed in ((1, 1), (2, 1)):
            cases.append(dict(cfg=cfg, devs=far, speed=speed, initial=0, stim=[], delays=None, early=None, t_end=1_000_000_000_000_003))
    runs, terms = [], []
    for c in cases:
        t_end = c.get("t_end", sprops.T_END)
        r = slevel.run_internal(c["cfg"], c["devs"], c["speed"], c["initial"], c["stim"], t_end, delays=c["delays"], early=c["early"])
        runs.append(r)
        terms.append(slevel.render_sim_case(c["cfg"], c["devs"], c["speed"], c["initial"], c["stim"], t_end, r,
                                            pre=[c["early"][1]] if c["early"] else []))
    bad = run_shards(PID + "_exact", sprops.HEADER, "sim_case", "check_exact", terms, shard_size=12)
    for c, r in zip(cases, runs):
        ck.count("exact:" + json.dumps([sprops.describe(c), c["delays"], c["early"]], sort_keys=True), len(r["mticks"]) >= 3)
    ck.coverage.update(exact_pacing_runs=len(cases), exact_pacing_runs_with_sub_millisecond_gaps=sum(1 for c in cases if c.get("t_end", 10 ** 18) < 10 ** 9),
                       exact_pacing_runs_with_gaps_of_days=sum(1 for c in cases if c.get("t_end", 0) > 10 ** 14), exact_pacing_early_interrupts=sum(1 for r in runs if r.get("early_before_scheduler")),
                       exact_pacing_disagreements=len(bad))
    hit = [i for i in sorted(bad) if 97 in bad[i]]
    if hit:
        i = hit[0]
        d = sprops.describe(cases[i])
        d.update(kind="exact", delays=cases[i]["delays"], early=cases[i]["early"], codes=bad[i], master_ticks=[list(x) for x in runs[i]["mticks"]][:12],
                 t_end=cases[i].get("t_end", sprops.T_END))
        ck.report("simulation-time-is-not-initial-plus-speed-times-real-time",
                  "a master tick's simulation time differs from initial + speed x elapsed real time although ticks cost no real time", d)
    elif bad and not ck.violations:
        i = min(bad)
        d = sprops.describe(cases[i])
        d.update(kind="exact", delays=cases[i]["delays"], early=cases[i]["early"], codes=bad[i],
                 broken="correspondence Model/Sim.v vs the schedulers (pacing cases); theorems of Props.C12")
        ck.report("correspondence-broken", "simulation model and implementation disagree on the pacing cases but every tick is exactly paced", d, no_input=True)


def extra_parts(ck, tier, rng):
    m_level(ck, tier, rng)
    exact_part(ck, tier, rng)


def main(tier, seed):
    return sprops.main_S(PID, tier, seed, {96}, "Props.C12",
                         ["Model/Sim.v", "Model/Master.v", "Oracle/SimCheck.v", "Oracle/SimOracle.v", "Oracle/MasterOracle.v",
                          "Proofs/MasterP.v", "Model/SimTime.v", "Proofs/SimTimeP.v", "Props/C12.v"],
                         "pacing", "callbacks", extra=extra_parts)


def replay(rp):
    if rp.get("kind") == "master":
        return c07.replay(rp)
    if rp.get("kind") == "exact":
        cfg = {int(k): dict(order=[(c, (k2 if k2 == "dev" else int(k2))) for c, k2 in v["order"]],
                            conns=[tuple(x) for x in v["conns"]]) for k, v in rp["cfg"].items()}
        devs = {int(k): tuple(v) for k, v in rp["devs"].items()}
        delays = {(k if k == "sched" else int(k)): v for k, v in rp["delays"].items()} if rp.get("delays") else None
        early = tuple(rp["early"]) if rp.get("early") else None
        stim = [tuple(x) for x in rp["stim"]]
        t_end = rp.get("t_end", sprops.T_END)
        r = slevel.run_internal(cfg, devs, tuple(rp["speed"]), rp["initial"], stim, t_end, delays=delays, early=early)
        term = slevel.render_sim_case(cfg, devs, tuple(rp["speed"]), rp["initial"], stim, t_end, r, pre=[early[1]] if early else [])
        bad = run_shards("replay", sprops.HEADER, "sim_case", "check_exact", [term])
        print("initial:", rp["initial"], "speed:", rp["speed"], "early interrupt:", early)
        print("master ticks (simulation time, real time):", r["mticks"][:12])
        print("codes:", bad.get(0, []))
        return 1 if bad else 0
    return sprops.replay_S(rp)
