From TV Require Import Base.
